package c11

// C11 part "e2e": the real git-lfs binary, a good and an evil fake LFS server, sentinel programs.

import (
	"fmt"
	"net/http"
	"os"
	"path/filepath"
	"regexp"
	"sort"
	"strings"
	"sync"
	"time"

	"github.com/git-lfs/git-lfs/v3/verifx/fakelfs"
	"github.com/git-lfs/git-lfs/v3/verifx/gitx"
	"github.com/git-lfs/git-lfs/v3/verifx/vx"
)

type c11KV struct{ Sec, Sub, Var, Val string } // Sub "\x00" = no subsection

type c11Group struct {
	Name string
	KVs  []c11KV
	// GitKVs are put into Git's own configuration in every placement (precedence groups).
	GitKVs []c11KV
	// AllowedEvil: the group only uses documented keys, contact with the evil server is the documented behaviour.
	AllowedEvil bool
	// MustFire: with the keys in Git's own configuration (control placement) an effect must be observable,
	// otherwise the sentinel wiring of the harness is broken.
	MustFire bool
	// NoHelper: the world has no benign credential helper, so git-lfs would consult an askpass program
	// (git-lfs only uses askpass when no credential.helper is configured); commands that need credentials fail.
	NoHelper bool
}

const noSub = "\x00"

// placeholders replaced per case
const (
	phGood = "@GOOD@" // base URL of the good server
	phEvil = "@EVIL@" // base URL of the evil server
	phSent = "@SENT@" // directory of the sentinel programs
	phRoot = "@ROOT@" // case root
)

func c11Groups() []c11Group {
	g := []c11Group{
		{Name: "customtransfer-standalone", MustFire: true, KVs: []c11KV{
			{"lfs", "customtransfer.evil", "path", phSent + "/agent"}, {"lfs", "customtransfer.evil", "args", "--evil"},
			{"lfs", noSub, "standalonetransferagent", "evil"}}},
		{Name: "customtransfer-url-scoped", MustFire: true, KVs: []c11KV{
			{"lfs", "customtransfer.evil", "path", phSent + "/agent"},
			{"lfs", phGood + "/", "standalonetransferagent", "evil"}}},
		{Name: "extension", MustFire: true, KVs: []c11KV{
			{"lfs", "extension.evil", "clean", phSent + "/extclean %f"}, {"lfs", "extension.evil", "smudge", phSent + "/extsmudge %f"},
			{"lfs", "extension.evil", "priority", "0"}}},
		{Name: "extension-priority-only", MustFire: true, KVs: []c11KV{{"lfs", "extension.evil", "priority", "0"}}},
		{Name: "extension-unknown-property", KVs: []c11KV{{"lfs", "extension.evil", "foo", "1"}}},
		{Name: "askpass", MustFire: true, NoHelper: true, KVs: []c11KV{{"core", noSub, "askpass", phSent + "/askpass"}}},
		{Name: "credential-helper", KVs: []c11KV{{"credential", noSub, "helper", "!" + phSent + "/helper"},
			{"credential", phGood, "helper", "!" + phSent + "/helper"}, {"credential", noSub, "usehttppath", "true"}}},
		{Name: "sshcommand", MustFire: true, KVs: []c11KV{{"core", noSub, "sshcommand", phSent + "/sshcmd"}, {"ssh", noSub, "variant", "simple"}}},
		{Name: "proxy", KVs: []c11KV{{"http", noSub, "proxy", phEvil}, {"http", phGood, "proxy", phEvil}, {"remote", "origin", "proxy", phEvil}}},
		{Name: "insteadof", MustFire: true, KVs: []c11KV{{"url", phEvil + "/", "insteadof", phGood + "/"}, {"url", phEvil + "/", "pushinsteadof", phGood + "/"},
			{"lfs", "transfer", "enablehrefrewrite", "true"}}},
		{Name: "extraheader", MustFire: true, KVs: []c11KV{{"http", noSub, "extraheader", "X-Evil: 1"}, {"http", phGood, "extraheader", "X-Evil: 2"}}},
		{Name: "hookspath", MustFire: true, KVs: []c11KV{{"core", noSub, "hookspath", phRoot + "/evilhooks"}}},
		{Name: "storage", MustFire: true, KVs: []c11KV{{"lfs", noSub, "storage", phRoot + "/evilstore"}}},
		{Name: "remote-plain-name", MustFire: true, KVs: []c11KV{{"remote", "origin", "url", phEvil + "/ro.git"}, {"remote", "origin", "pushurl", phEvil + "/rop.git"},
			{"remote", "origin", "lfspushurl", phEvil + "/rolp"}}},
		{Name: "remote-dotted-pushurl", MustFire: true, KVs: []c11KV{{"remote", "my.fork", "pushurl", phEvil + "/fp.git"}}},
		{Name: "remote-dotted-url", KVs: []c11KV{{"remote", "my.fork", "url", phEvil + "/fu.git"}}},
		{Name: "remote-dotted-lfspushurl", MustFire: true, KVs: []c11KV{{"remote", "my.fork", "lfspushurl", phEvil + "/flp"}}},
		{Name: "remote-lfsdefault", MustFire: true, KVs: []c11KV{{"remote", noSub, "lfsdefault", phEvil + "/ld.git"}}},
		{Name: "remote-pushdefault", MustFire: true, KVs: []c11KV{{"remote", noSub, "pushdefault", phEvil + "/pd.git"}}},
		{Name: "remote-lfspushdefault", MustFire: true, KVs: []c11KV{{"remote", noSub, "lfspushdefault", phEvil + "/lpd.git"}}},
		{Name: "branch-remote", MustFire: true, KVs: []c11KV{{"branch", "main", "remote", phEvil + "/br.git"}, {"branch", "main", "pushremote", phEvil + "/bpr.git"}}},
		{Name: "filter-and-git-exec", KVs: []c11KV{{"filter", "lfs", "clean", phSent + "/filter"}, {"filter", "lfs", "smudge", phSent + "/filter"},
			{"filter", "lfs", "process", phSent + "/filter"}, {"core", noSub, "pager", phSent + "/pager"}, {"core", noSub, "editor", phSent + "/editor"},
			{"core", noSub, "fsmonitor", phSent + "/fsmonitor"}, {"alias", noSub, "lfs", "!" + phSent + "/alias"}}},
		{Name: "tuning", MustFire: true, KVs: []c11KV{{"lfs", noSub, "concurrenttransfers", "1"}, {"lfs", noSub, "basictransfersonly", "true"}, {"lfs", noSub, "tustransfers", "true"},
			{"lfs", "transfer", "maxretries", "1"}, {"lfs", noSub, "fetchrecentalways", "true"}, {"lfs", noSub, "pruneoffsetdays", "0"},
			{"http", noSub, "sslverify", "false"}, {"http", noSub, "sslcainfo", phRoot + "/evilca.pem"}, {"lfs", noSub, "cachecredentials", "false"}}},
		{Name: "allowed-lfs-url", AllowedEvil: true, MustFire: true, KVs: []c11KV{{"lfs", noSub, "url", phEvil + "/allowed"}}},
		{Name: "allowed-remote-lfsurl", AllowedEvil: true, MustFire: true, KVs: []c11KV{{"remote", "origin", "lfsurl", phEvil + "/allowed2"}}},
		{Name: "precedence-lfs-url", KVs: []c11KV{{"lfs", noSub, "url", phEvil + "/x"}, {"lfs", noSub, "pushurl", phEvil + "/xp"}},
			GitKVs: []c11KV{{"lfs", noSub, "url", phGood + "/o.git/info/lfs"}, {"lfs", noSub, "pushurl", phGood + "/o.git/info/lfs"}}},
		{Name: "precedence-remote-lfsurl", KVs: []c11KV{{"remote", "origin", "lfsurl", phEvil + "/y"}, {"remote", "my.fork", "lfsurl", phEvil + "/z"}},
			GitKVs: []c11KV{{"remote", "origin", "lfsurl", phGood + "/o.git/info/lfs"}, {"remote", "my.fork", "lfsurl", phGood + "/f.git/info/lfs"}}},
		// the same with the key listed more than once in .lfsconfig, one copy repeating Git's own value
		{Name: "precedence-dup-lfs-url", KVs: []c11KV{{"lfs", noSub, "url", phGood + "/o.git/info/lfs"}, {"lfs", noSub, "url", phEvil + "/x"},
			{"lfs", noSub, "pushurl", phGood + "/o.git/info/lfs"}, {"lfs", noSub, "pushurl", phEvil + "/xp"}},
			GitKVs: []c11KV{{"lfs", noSub, "url", phGood + "/o.git/info/lfs"}, {"lfs", noSub, "pushurl", phGood + "/o.git/info/lfs"}}},
		{Name: "precedence-dup3-remote-lfsurl", KVs: []c11KV{{"remote", "origin", "lfsurl", phGood + "/o.git/info/lfs"}, {"remote", "origin", "lfsurl", phGood + "/o.git/info/lfs"}, {"remote", "origin", "lfsurl", phEvil + "/y"},
			{"remote", "my.fork", "lfsurl", phEvil + "/z"}, {"remote", "my.fork", "lfsurl", phGood + "/f.git/info/lfs"}, {"remote", "my.fork", "lfsurl", phEvil + "/z"}},
			GitKVs: []c11KV{{"remote", "origin", "lfsurl", phGood + "/o.git/info/lfs"}, {"remote", "my.fork", "lfsurl", phGood + "/f.git/info/lfs"}}},
	}
	var all c11Group
	all.Name = "all-hostile-together"
	all.MustFire = true
	for _, x := range g {
		if !x.AllowedEvil && len(x.GitKVs) == 0 {
			all.KVs = append(all.KVs, x.KVs...)
		}
	}
	g = append(g, all)
	return g
}

func c11RenderKVs(kvs []c11KV, upper bool, repl *strings.Replacer) string {
	var b strings.Builder
	for _, kv := range kvs {
		k := c11Key{Sec: kv.Sec, Var: kv.Var}
		if kv.Sub != noSub {
			k.Sub, k.HasSub = repl.Replace(kv.Sub), true
		}
		sp := 0
		if upper {
			sp = 1
		}
		b.WriteString(c11Stanza(k, sp, repl.Replace(kv.Val)))
	}
	return b.String()
}

// groups that the quick tier runs at every location (the location dimension is otherwise covered by part inproc)
var c11QuickAllLocs = map[string]bool{"all-hostile-together": true, "allowed-lfs-url": true, "precedence-lfs-url": true, "precedence-dup-lfs-url": true, "remote-dotted-pushurl": true, "extension-priority-only": true}

var c11E2ELocs = []string{"worktree", "index-only", "HEAD-only", "bare-HEAD"}
var c11Placements = []string{"lfsconfig", "gitconfig-control"}

func init() {
	if os.Getenv("C11_DEBUG") != "" {
		gitx.CmdTimeout = 8 * 1e9
	}
}

type c11E2E struct {
	scratch  string
	thorough bool
	groups   []c11Group
	tmplOnce sync.Once
	tmplErr  string
	tmpl     string // template root: home/, bin/, local/ (non-bare), objects
	dataA    []byte
	dataB    []byte
	dataN    []byte
	mu       sync.Mutex
	baseline map[int]*c11Run // per location*2 + nohelper
	baseOnce map[int]*sync.Once
}

func c11NewE2E(scratch string, thorough bool) *c11E2E {
	e := &c11E2E{scratch: scratch, thorough: thorough, groups: c11Groups(), baseline: map[int]*c11Run{}, baseOnce: map[int]*sync.Once{}}
	if thorough {
		// thorough: additionally every single key of every group alone
		seen := map[string]bool{}
		for _, g := range c11Groups() {
			if len(g.KVs) < 2 || g.AllowedEvil || len(g.GitKVs) > 0 || g.Name == "all-hostile-together" {
				continue
			}
			for _, kv := range g.KVs {
				id := kv.Sec + "|" + kv.Sub + "|" + kv.Var
				if seen[id] {
					continue
				}
				seen[id] = true
				sub := kv.Sub
				if sub == noSub {
					sub = ""
				} else {
					sub = "." + strings.NewReplacer(phGood, "<good>", phEvil, "<evil>").Replace(sub)
				}
				e.groups = append(e.groups, c11Group{Name: "single:" + kv.Sec + sub + "." + kv.Var, KVs: []c11KV{kv}})
			}
		}
	}
	for i := 0; i < 2*len(c11E2ELocs); i++ {
		e.baseOnce[i] = &sync.Once{}
	}
	return e
}

var c11SentRoles = []string{"agent", "extclean", "extsmudge", "askpass", "helper", "sshcmd", "filter", "pager", "editor", "fsmonitor", "alias"}

func (e *c11E2E) buildTemplate() {
	defer func() {
		if r := recover(); r != nil {
			e.tmplErr = fmt.Sprint(r)
		}
	}()
	w, err := gitx.NewWorld(e.scratch)
	if err != nil {
		panic(err)
	}
	e.tmpl = w.Root
	// benign credential helper in the user's own configuration; benign ssh that always fails
	cfg, _ := os.ReadFile(filepath.Join(w.Home, ".gitconfig"))
	cfg = append(cfg, []byte("[credential]\n\thelper = \"!f() { echo username=user; echo password=pass; }; f\"\n")...)
	os.WriteFile(filepath.Join(w.Home, ".gitconfig"), cfg, 0644)
	gitx.WriteFile(w.BinDir, "ssh", []byte("#!/bin/sh\nexit 255\n"), 0755)
	e.dataA = gitx.Content("bin", 3000, 1)
	e.dataB = gitx.Content("bin", 4000, 2)
	e.dataN = gitx.Content("bin", 2500, 3)
	repo := w.Init("local", false)
	w.MustGit(repo, "remote", "add", "origin", "http://good.invalid/o.git")
	w.MustGit(repo, "remote", "add", "my.fork", "http://good.invalid/f.git")
	w.MustGit(repo, "remote", "add", "sshr", "ssh://git@127.0.0.1:9/s.git")
	gitx.WriteFile(repo, ".gitattributes", []byte("*.bin filter=lfs diff=lfs merge=lfs -text\n"), 0644)
	gitx.WriteFile(repo, "a.bin", e.dataA, 0644)
	gitx.WriteFile(repo, "b.bin", e.dataB, 0644)
	w.MustGit(repo, "add", ".gitattributes", "a.bin", "b.bin")
	w.MustGit(repo, "commit", "-qm", "base")
	// b.bin's object is not available locally: every download command has something to fetch
	os.Remove(gitx.ObjectPath(filepath.Join(repo, ".git", "lfs"), gitx.Oid(e.dataB)))
	// bare twin
	w.MustGit(w.Root, "clone", "-q", "--bare", "local", "bare.git")
	bare := filepath.Join(w.Root, "bare.git")
	w.MustGit(bare, "remote", "remove", "origin")
	w.MustGit(bare, "remote", "add", "origin", "http://good.invalid/o.git")
	w.MustGit(bare, "remote", "add", "my.fork", "http://good.invalid/f.git")
	w.MustGit(bare, "remote", "add", "sshr", "ssh://git@127.0.0.1:9/s.git")
	gitx.PutObject(filepath.Join(bare, "lfs"), e.dataA)
}

type c11Cmd struct {
	Name string
	Code int
	Out  string
	Err  string
}

type c11Run struct {
	Cmds      []c11Cmd
	EnvOut    string
	SentLog   string
	EvilReqs  []string // "<cmd>: METHOD path"
	EvilHdr   []string // requests at the good server carrying X-Evil
	Redirect  []string // files that appeared under evilhooks/evilstore
	Timeout   bool
	SmudgeOK  bool
	GoodCount int
}

func (r *c11Run) codes() string {
	var s []string
	for _, c := range r.Cmds {
		s = append(s, fmt.Sprintf("%s=%d", c.Name, c.Code))
	}
	return strings.Join(s, " ")
}

var c11RePort = regexp.MustCompile(`127\.0\.0\.1:\d+`)

// execute builds one world and runs the command script.
func (e *c11E2E) execute(g *c11Group, placement, loc int, upper bool) (run *c11Run, toolErr string) {
	e.tmplOnce.Do(e.buildTemplate)
	if e.tmplErr != "" {
		return nil, "template world: " + e.tmplErr
	}
	root, err := os.MkdirTemp(e.scratch, "e2e")
	if err != nil {
		return nil, err.Error()
	}
	defer func() {
		os.RemoveAll(root)
	}()
	os.Remove(root)
	gitx.CopyTree(e.tmpl, root)
	w := &gitx.World{Root: root, Home: filepath.Join(root, "home"), BinDir: filepath.Join(root, "bin")}
	good, evil := fakelfs.New(), fakelfs.New()
	defer good.Close()
	defer evil.Close()
	good.Put(e.dataA)
	good.Put(e.dataB)
	evil.Put(e.dataA)
	evil.Put(e.dataB)
	run = &c11Run{}
	var cur string
	var cmu sync.Mutex
	good.Hook = func(s *fakelfs.Server, rw http.ResponseWriter, r *http.Request, rec *fakelfs.Recorded) bool {
		cmu.Lock()
		run.GoodCount++
		if v := r.Header.Values("X-Evil"); len(v) > 0 {
			run.EvilHdr = append(run.EvilHdr, fmt.Sprintf("%s: %s %s X-Evil=%v", cur, r.Method, r.URL.Path, v))
		}
		cmu.Unlock()
		if r.Header.Get("Authorization") == "" && !strings.HasPrefix(rec.Kind, "storage-") && rec.Kind != "verify" {
			rw.Header().Set("Lfs-Authenticate", `Basic realm="c11"`)
			rw.Header().Set("Content-Type", fakelfs.MediaType)
			rw.WriteHeader(401)
			rw.Write([]byte(`{"message":"credentials needed"}`))
			return true
		}
		return false
	}
	evil.Hook = func(s *fakelfs.Server, rw http.ResponseWriter, r *http.Request, rec *fakelfs.Recorded) bool {
		cmu.Lock()
		run.EvilReqs = append(run.EvilReqs, fmt.Sprintf("%s: %s %s", cur, r.Method, r.URL.Path))
		cmu.Unlock()
		return false
	}
	sent := filepath.Join(root, "sent")
	sentLog := filepath.Join(root, "sentinel.log")
	for _, role := range c11SentRoles {
		gitx.WriteFile(sent, role, []byte("#!/bin/sh\necho \""+role+" $*\" >> '"+sentLog+"'\nexit 1\n"), 0755)
	}
	repl := strings.NewReplacer(phGood, good.URL, phEvil, evil.URL, phSent, sent, phRoot, root)
	bare := loc == 3
	repo := filepath.Join(root, "local")
	gitdir := filepath.Join(repo, ".git")
	if bare {
		repo = filepath.Join(root, "bare.git")
		gitdir = repo
	}
	// Git's own configuration: real URLs of the remotes (+ group's Git-side keys, + hostile keys in the control placement)
	cb, _ := os.ReadFile(filepath.Join(gitdir, "config"))
	gcfg := strings.ReplaceAll(string(cb), "http://good.invalid", good.URL)
	gcfg += c11RenderKVs(g.GitKVs, false, repl)
	hostile := c11RenderKVs(g.KVs, upper, repl)
	if placement == 1 {
		gcfg += hostile
	}
	os.WriteFile(filepath.Join(gitdir, "config"), []byte(gcfg), 0644)

	step := func(name string, stdin []byte, dir string, prog string, args ...string) gitx.Res {
		cmu.Lock()
		cur = name
		cmu.Unlock()
		var res gitx.Res
		t0 := time.Now()
		if prog == "git" {
			res = w.RunIn(dir, stdin, nil, "git", args...)
		} else {
			res = w.RunIn(dir, stdin, nil, filepath.Join(w.BinDir, "git-lfs"), args...)
		}
		if res.TimedOut {
			run.Timeout = true
		}
		if os.Getenv("C11_DEBUG") != "" {
			o := res.Out
			if len(o) > 300 {
				o = o[:300]
			}
			fmt.Printf("DEBUG %s/%s: %dms exit=%d timeout=%v\n  out=%q\n  err=%q\n", g.Name, name, time.Since(t0).Milliseconds(), res.Code, res.TimedOut, c11FirstLines(o, 6), c11FirstLines(res.Err, 8))
		}
		run.Cmds = append(run.Cmds, c11Cmd{Name: name, Code: res.Code, Out: res.Out, Err: res.Err})
		return res
	}
	if g.NoHelper {
		hc, _ := os.ReadFile(filepath.Join(w.Home, ".gitconfig"))
		if i := strings.Index(string(hc), "[credential]"); i >= 0 {
			os.WriteFile(filepath.Join(w.Home, ".gitconfig"), hc[:i], 0644)
		}
	}
	// place the .lfsconfig with plumbing only (no filter runs, the worktree file exists only for location worktree)
	if placement == 0 {
		plumb := func(env []string, stdin string, args ...string) string {
			r := w.RunIn(repo, []byte(stdin), env, "git", args...)
			if !r.OK() {
				panic(vx.ToolError{Msg: fmt.Sprintf("e2e setup: git %v: %s", args, r)})
			}
			return strings.TrimSpace(r.Out)
		}
		if loc == 0 {
			gitx.WriteFile(repo, ".lfsconfig", []byte(hostile), 0644)
		} else {
			blob := plumb(nil, hostile, "hash-object", "-w", "--stdin")
			if loc == 1 {
				plumb(nil, "", "update-index", "--add", "--cacheinfo", "100644,"+blob+",.lfsconfig")
			} else {
				tmpIdx := []string{"GIT_INDEX_FILE=" + filepath.Join(root, "tmp.index")}
				plumb(tmpIdx, "", "read-tree", "HEAD")
				plumb(tmpIdx, "", "update-index", "--add", "--cacheinfo", "100644,"+blob+",.lfsconfig")
				tree := plumb(tmpIdx, "", "write-tree")
				commit := plumb(nil, "lfsconfig\n", "commit-tree", "-p", "HEAD", tree)
				plumb(nil, "", "update-ref", "refs/heads/main", commit)
			}
		}
	}
	lfsdir := filepath.Join(gitdir, "lfs")
	oidB := gitx.Oid(e.dataB)
	dropB := func() { os.Remove(gitx.ObjectPath(lfsdir, oidB)) }

	r := step("env", nil, repo, "lfs", "env")
	run.EnvOut = r.Out
	step("ext-list", nil, repo, "lfs", "ext", "list")
	sm := step("smudge", []byte(gitx.PointerText(e.dataB)), repo, "lfs", "smudge", "b.bin")
	run.SmudgeOK = sm.Code == 0 && sm.Out == string(e.dataB)
	dropB()
	if !bare {
		step("pull", nil, repo, "lfs", "pull")
		dropB()
	}
	step("fetch-origin", nil, repo, "lfs", "fetch", "origin", "main")
	dropB()
	if !bare {
		gitx.WriteFile(repo, "n.bin", e.dataN, 0644)
		step("add", nil, repo, "git", "add", "n.bin")
		step("commit", nil, repo, "git", "commit", "-qm", "n")
	}
	step("push-origin", nil, repo, "lfs", "push", "origin", "main")
	step("push-dotted", nil, repo, "lfs", "push", "my.fork", "main")
	step("locks", nil, repo, "lfs", "locks")
	dropB()
	step("fetch-ssh", nil, repo, "lfs", "fetch", "sshr", "main")
	if !bare {
		step("install-local", nil, repo, "lfs", "install", "--local", "--force")
	}
	if b, err := os.ReadFile(sentLog); err == nil {
		run.SentLog = string(b)
	}
	for _, d := range []string{"evilhooks", "evilstore"} {
		filepath.Walk(filepath.Join(root, d), func(p string, info os.FileInfo, err error) error {
			if err == nil && !info.IsDir() {
				rel, _ := filepath.Rel(root, p)
				if len(run.Redirect) < 5 {
					run.Redirect = append(run.Redirect, rel)
				}
			}
			return nil
		})
	}
	// normalise
	norm := strings.NewReplacer(good.URL, "<good>", evil.URL, "<evil>", root, "<root>")
	run.EnvOut = c11RePort.ReplaceAllString(norm.Replace(run.EnvOut), "<port>")
	for i := range run.Cmds {
		run.Cmds[i].Out = norm.Replace(run.Cmds[i].Out)
		run.Cmds[i].Err = norm.Replace(run.Cmds[i].Err)
	}
	run.SentLog = norm.Replace(run.SentLog)
	return run, ""
}

func (e *c11E2E) base(loc int, noHelper bool) (*c11Run, string) {
	var terr string
	k := loc * 2
	if noHelper {
		k++
	}
	e.baseOnce[k].Do(func() {
		none := &c11Group{Name: "baseline", NoHelper: noHelper}
		r, te := e.execute(none, 1, loc, false)
		if te != "" {
			terr = te
			return
		}
		e.mu.Lock()
		e.baseline[k] = r
		e.mu.Unlock()
	})
	e.mu.Lock()
	defer e.mu.Unlock()
	if e.baseline[k] == nil {
		if terr == "" {
			terr = "baseline run failed earlier"
		}
		return nil, terr
	}
	return e.baseline[k], ""
}

func c11EnvDiff(base, got string) []string {
	bl := map[string]bool{}
	for _, l := range strings.Split(base, "\n") {
		bl[l] = true
	}
	gl := map[string]bool{}
	var d []string
	for _, l := range strings.Split(got, "\n") {
		gl[l] = true
		if !bl[l] {
			d = append(d, "+"+l)
		}
	}
	for _, l := range strings.Split(base, "\n") {
		if !gl[l] {
			d = append(d, "-"+l)
		}
	}
	sort.Strings(d)
	return d
}

func (e *c11E2E) run(x *vx.X) vx.Result {
	gi := x.In(len(e.groups))
	placement := x.In(len(c11Placements))
	loc := x.In(len(c11E2ELocs))
	upper := false
	if e.thorough {
		upper = x.In(2) == 1
	}
	g := &e.groups[gi]
	if placement == 1 && (loc != 0 && loc != 3) {
		// the control placement has no .lfsconfig: only worktree/bare differ
		return vx.Result{Outcome: "e2e: control placement n/a for this location"}
	}
	if !e.thorough && loc != 0 && !(placement == 0 && c11QuickAllLocs[g.Name]) {
		// quick bound: every group at the worktree location (+ control); only the groups below at all four locations
		return vx.Result{Outcome: "e2e: outside the quick bound (thorough tier runs it)"}
	}
	base, te := e.base(loc, g.NoHelper)
	if te != "" {
		return vx.Result{ToolErr: "e2e baseline: " + te}
	}
	run, te := e.execute(g, placement, loc, upper)
	if te != "" {
		return vx.Result{ToolErr: te}
	}
	id := fmt.Sprintf("%s|%s|%s|upper=%v", g.Name, c11Placements[placement], c11E2ELocs[loc], upper)
	res := vx.Result{Sample: map[string]interface{}{"case": id, "exit_codes": run.codes(), "baseline_exit_codes": base.codes(),
		"sentinels": run.SentLog, "evil_requests": run.EvilReqs}}
	if run.Timeout || base.Timeout {
		res.Inconcl = "a command hit the tool timeout"
		return res
	}
	if (!base.SmudgeOK && !g.NoHelper) || base.SentLog != "" || len(base.EvilReqs) > 0 {
		res.ToolErr = fmt.Sprintf("e2e baseline is not clean: smudge ok=%v sentinels=%q evil=%v codes=%s", base.SmudgeOK, base.SentLog, base.EvilReqs, base.codes())
		return res
	}
	var effects []string
	var sentRoles []string
	for _, l := range strings.Split(strings.TrimSpace(run.SentLog), "\n") {
		if l != "" {
			role := strings.SplitN(l, " ", 2)[0]
			if !c11Contains(sentRoles, role) {
				sentRoles = append(sentRoles, role)
			}
		}
	}
	sort.Strings(sentRoles)
	for _, r := range sentRoles {
		effects = append(effects, "exec:"+r)
	}
	if len(run.EvilReqs) > 0 {
		effects = append(effects, "evil-contacted")
	}
	if len(run.EvilHdr) > 0 {
		effects = append(effects, "header-injected")
	}
	if len(run.Redirect) > 0 {
		effects = append(effects, "path-redirected")
	}
	envd := c11EnvDiff(base.EnvOut, run.EnvOut)
	if len(envd) > 0 {
		effects = append(effects, "env-changed")
	}
	var codeDiff []string
	for i, cm := range run.Cmds {
		if i < len(base.Cmds) && base.Cmds[i].Code != cm.Code {
			codeDiff = append(codeDiff, fmt.Sprintf("%s: exit %d -> %d (%s)", cm.Name, base.Cmds[i].Code, cm.Code, c11FirstLines(cm.Err, 3)))
		}
	}
	if len(codeDiff) > 0 {
		effects = append(effects, "command-outcome-changed")
	}
	if !run.SmudgeOK {
		effects = append(effects, "smudge-output-changed")
	}
	warned := false
	for _, cm := range run.Cmds {
		if strings.Contains(cm.Err, "keys were ignored") {
			warned = true
		}
	}
	parsed := warned || len(effects) > 0
	if placement == 0 && parsed {
		res.NonTrivial = []string{id}
	}
	res.Outcome = fmt.Sprintf("e2e/%s: effects=[%s] warned=%v", c11Placements[placement], strings.Join(effects, ","), warned)
	res.Sample.(map[string]interface{})["outcome"] = res.Outcome
	res.Sample.(map[string]interface{})["env_diff"] = envd

	if placement == 1 {
		// control: hostile keys live in Git's own configuration; effects are expected and prove the wiring
		if g.MustFire && len(effects) == 0 {
			res.ToolErr = "e2e control: group " + g.Name + " placed in Git's own configuration produced no observable effect; the harness could not detect it from .lfsconfig either"
		}
		return res
	}
	hostileText := c11RenderKVs(g.KVs, upper, strings.NewReplacer(phGood, "<good>", phEvil, "<evil>", phSent, "<sent>", phRoot, "<root>"))
	viol := func(fp, msg string) {
		res.Violations = append(res.Violations, vx.Violation{Fingerprint: fp, Msg: msg + "\n.lfsconfig (" + c11E2ELocs[loc] + "):\n" + hostileText,
			Detail: map[string]interface{}{"case": id, "exit_codes": run.codes(), "sentinels": run.SentLog, "evil_requests": run.EvilReqs}})
	}
	for _, r := range sentRoles {
		viol("C11:e2e-program-executed:"+r, "a program named only in .lfsconfig was executed: "+c11FirstLines(run.SentLog, 4))
	}
	if g.AllowedEvil {
		if len(run.EvilReqs) == 0 {
			viol("C11:e2e-documented-key-ineffective:"+g.Name, "the documented key of this group did not direct git-lfs to the server it names")
		}
		return res
	}
	if len(g.GitKVs) > 0 {
		// precedence groups: Git's own lfs.url / remote.*.lfsurl must be the endpoints shown and used
		if len(run.EvilReqs) > 0 {
			viol("C11:e2e-lfsconfig-beats-git:requests:"+g.Name, "git-lfs contacted the server named in .lfsconfig although Git's own configuration sets the same key: "+strings.Join(c11Head(run.EvilReqs, 4), "; "))
		}
		if strings.Contains(run.EnvOut, "<evil>") {
			viol("C11:e2e-lfsconfig-beats-git:env:"+g.Name, "`git lfs env` shows the .lfsconfig value although Git's own configuration sets the same key: "+c11FirstLines(run.EnvOut, 8))
		}
		return res
	}
	// cause = key classes of the planted keys that git-lfs did NOT report as ignored (all planted keys if it reported
	// every one of them): derived from the observed warning, so one defect has one fingerprint whatever group shows it
	cause := c11Cause(g, run.Cmds[0].Err, upper)
	// fingerprints are derived from the observed effect, not from the group that was planted
	tags := map[string][]string{}
	for _, rq := range run.EvilReqs {
		t := c11EvilTag(rq)
		tags[t] = append(tags[t], rq)
	}
	var tnames []string
	for t := range tags {
		tnames = append(tnames, t)
	}
	sort.Strings(tnames)
	for _, t := range tnames {
		viol("C11:e2e-evil-host-contacted:"+t, "git-lfs sent requests to a host that is named only by undocumented .lfsconfig keys: "+strings.Join(c11Head(tags[t], 4), "; "))
	}
	if len(run.EvilHdr) > 0 {
		viol("C11:e2e-header-injected", "requests carry a header configured only in .lfsconfig: "+strings.Join(c11Head(run.EvilHdr, 3), "; "))
	}
	if len(run.Redirect) > 0 {
		viol("C11:e2e-path-redirected:"+strings.Split(run.Redirect[0], "/")[0], "git-lfs wrote files to a directory named only in .lfsconfig: "+strings.Join(run.Redirect, ", "))
	}
	if len(envd) > 0 {
		viol("C11:e2e-env-changed:"+cause, "`git lfs env` differs from the run without .lfsconfig: "+strings.Join(c11Head(envd, 8), " | "))
	}
	if len(codeDiff) > 0 {
		viol("C11:e2e-command-outcome-changed:"+cause, "commands end differently than without .lfsconfig: "+strings.Join(codeDiff, "; "))
	} else if !run.SmudgeOK && base.SmudgeOK {
		viol("C11:e2e-smudge-output-changed:"+cause, "git lfs smudge no longer yields the object content")
	}
	return res
}

// c11EvilTag names the undocumented key family that led git-lfs to the evil server, from the request path
// (every hostile URL value has its own first path segment).
func c11EvilTag(req string) string {
	i := strings.LastIndex(req, " /")
	seg := ""
	if i >= 0 {
		seg = strings.SplitN(req[i+2:], "/", 2)[0]
	}
	switch seg {
	case "ld.git", "pd.git", "lpd.git":
		return "remote.<two-part>"
	case "fp.git", "fu.git", "flp":
		return "remote.<dotted>.*"
	case "ro.git", "rop.git", "rolp":
		return "remote.<name>.*"
	case "br.git", "bpr.git":
		return "branch.<name>.*"
	case "o.git", "f.git":
		return "good-url-rewritten-or-proxied"
	case "allowed", "allowed2", "x", "xp", "y", "z":
		return "documented-key:" + seg
	}
	return "other"
}

// c11CauseClass abstracts one planted key to its key class; all non-command properties of an extension are one class.
func c11CauseClass(canon string) string {
	if strings.HasPrefix(canon, "lfs.extension.") && !strings.HasSuffix(canon, ".clean") && !strings.HasSuffix(canon, ".smudge") && strings.Count(canon, ".") >= 3 {
		return "lfs.extension.<name>.<prop>"
	}
	return c11LeakClass(canon)
}

func c11Cause(g *c11Group, envStderr string, upper bool) string {
	ignored := map[string]bool{}
	inWarn := false
	for _, l := range strings.Split(envStderr, "\n") {
		if strings.Contains(l, "keys were ignored") {
			inWarn = true
			continue
		}
		if inWarn && strings.HasPrefix(l, "  ") {
			ignored[strings.TrimSpace(l)] = true
		}
	}
	repl := strings.NewReplacer(phGood, "<good>", phEvil, "<evil>", phSent, "<sent>", phRoot, "<root>")
	accepted := map[string]bool{}
	all := map[string]bool{}
	for _, kv := range g.KVs {
		k := c11Key{Sec: kv.Sec, Var: kv.Var}
		if kv.Sub != noSub {
			k.Sub, k.HasSub = repl.Replace(kv.Sub), true
		}
		cn := k.Canon()
		if c11Documented(cn) {
			continue
		}
		all[c11CauseClass(cn)] = true
		if !ignored[cn] {
			accepted[c11CauseClass(cn)] = true
		}
	}
	if len(accepted) == 0 {
		accepted = all
	}
	var l []string
	for c := range accepted {
		l = append(l, c)
	}
	sort.Strings(l)
	if len(l) > 6 {
		l = append(l[:6], fmt.Sprintf("+%d-more", len(l)-6))
	}
	return strings.Join(l, "+")
}

func c11Head(l []string, n int) []string {
	if len(l) > n {
		return l[:n]
	}
	return l
}

func c11FirstLines(s string, n int) string {
	ls := strings.Split(strings.TrimSpace(s), "\n")
	if len(ls) > n {
		ls = ls[:n]
	}
	return strings.Join(ls, " / ")
}
