package c11

// C11 — key dictionary: every configuration key git-lfs (or git) reads, as (section, subsection, variable)
// triples with a behaviour-changing hostile value and a different value for Git's own configuration.
// The dictionary is completed at check time with every key literal read by the Go sources of the tree
// under test ($VERIF_REPO), so a newly introduced reader is enumerated (and counted as "consumed") too.

import (
	"os"
	"path/filepath"
	"regexp"
	"sort"
	"strings"
)

// documented allow-list, docs/man/git-lfs-config.adoc section LFSCONFIG (fixed with the property).
var c11DocPlain = []string{"lfs.allowincompletepush", "lfs.fetchexclude", "lfs.fetchinclude", "lfs.gitprotocol",
	"lfs.locksverify", "lfs.pushurl", "lfs.skipdownloaderrors", "lfs.url"}

// c11Documented reports whether canonical key k (as printed by `git config -l`) is in the documented allow-list:
// the eight plain keys, lfs.{*}.access, remote.{name}.lfsurl ({*}/{name} = a non-absent subsection).
func c11Documented(k string) bool {
	for _, p := range c11DocPlain {
		if k == p {
			return true
		}
	}
	if strings.HasPrefix(k, "lfs.") && strings.HasSuffix(k, ".access") && len(k) >= len("lfs..access") {
		return true
	}
	if strings.HasPrefix(k, "remote.") && strings.HasSuffix(k, ".lfsurl") && len(k) >= len("remote..lfsurl") {
		return true
	}
	return false
}

// c11Entry is one (section, variable) of the dictionary.  Sub == "*" means "apply every generic subsection shape",
// Sub == "-" means "two-part key only".
type c11Entry struct {
	Sec, Sub, Var string
	Val, GitVal   string
}

// generic subsection shapes applied to every entry with Sub=="*"
var c11Shapes = []struct{ Name, Sub string }{
	{"none", "\x00"}, // no subsection at all (two-part key)
	{"origin", "origin"},
	{"dotted", "a.b"},
	{"url", "https://good.example/o.git"},
	{"empty", ""},
	{"eq", "x=y"},
	// subsections whose components are themselves variable names of the allowed key forms (remote.<x.lfsurl>.url,
	// remote.<lfsurl>.pushurl, lfs.<x.access>.url, ...): a filter that looks at a fixed index instead of the last part
	// of the key takes a piece of the NAME for the variable
	{"name.lfsurl", "x.lfsurl"},
	{"lfsurl", "lfsurl"},
	{"name.access", "x.access"},
	{"access", "access"},
	{"lfsurl.name", "lfsurl.x"},
}

const (
	c11Evil = "https://evil.example/"
	c11Good = "https://good.example/"
)

func c11BaseDict() []c11Entry {
	var d []c11Entry
	add := func(sec, sub string, kv ...string) {
		if len(kv)%3 != 0 {
			panic("c11 dictionary: triples expected for " + sec)
		}
		for i := 0; i+2 < len(kv); i += 3 {
			d = append(d, c11Entry{Sec: sec, Sub: sub, Var: kv[i], Val: kv[i+1], GitVal: kv[i+2]})
		}
	}
	// --- section lfs, generic shapes
	add("lfs", "*",
		"url", c11Evil+"lfsurl", c11Good+"gitlfsurl",
		"pushurl", c11Evil+"lfspushurl", c11Good+"gitlfspushurl",
		"allowincompletepush", "true", "false",
		"fetchexclude", "evilx*", "gitx*",
		"fetchinclude", "evili*", "giti*",
		"gitprotocol", "http", "https",
		"locksverify", "false", "true",
		"skipdownloaderrors", "true", "false",
		"access", "basic", "none",
		"standalonetransferagent", "evil", "gitagent",
		"storage", "evilstore", "gitstore",
		"concurrenttransfers", "3", "5",
		"basictransfersonly", "true", "false",
		"tustransfers", "true", "false",
		"dialtimeout", "1", "2",
		"tlstimeout", "1", "2",
		"activitytimeout", "1", "2",
		"keepalive", "1", "2",
		"cachecredentials", "false", "true",
		"largefilewarning", "true", "false",
		"forceprogress", "true", "false",
		"setlockablereadonly", "false", "true",
		"lockignoredfiles", "true", "false",
		"defaulttokenttl", "99999", "5",
		"fetchrecentrefsdays", "99", "5",
		"fetchrecentremoterefs", "false", "true",
		"fetchrecentcommitsdays", "99", "5",
		"fetchrecentalways", "true", "false",
		"pruneoffsetdays", "0", "5",
		"pruneremotetocheck", "a.b", "origin",
		"pruneverifyremotealways", "true", "false",
		"pruneverifyunreachablealways", "true", "false",
		"sshtransfer", "always", "never",
		"contenttype", "false", "true",
		"repositoryformatversion", "9", "0",
		"foo", "evil", "git",
	)
	add("lfs", "transfer", "maxretries", "1", "5", "maxretrydelay", "0", "5", "maxverifies", "1", "5",
		"enablehrefrewrite", "true", "false", "batchsize", "1", "50")
	add("lfs", "ssh", "automultiplex", "false", "true", "retries", "1", "3")
	add("lfs", "remote", "autodetect", "true", "false", "searchall", "true", "false")
	add("lfs", "customtransfer.evil", "path", "/bin/false", "/bin/true", "args", "--evil", "--git",
		"concurrent", "false", "true", "direction", "download", "both")
	add("lfs", "customtransfer.e.vil", "path", "/bin/false", "/bin/true")
	add("lfs", "extension.evil", "clean", "/bin/false %f", "/bin/cat", "smudge", "/bin/false %f", "/bin/cat",
		"priority", "7", "3", "foo", "evil", "git", "access", "basic", "none")
	add("lfs", "extension.e.vil", "clean", "/bin/false %f", "/bin/cat", "priority", "7", "3")
	// --- remote
	add("remote", "*",
		"url", c11Evil+"r.git", c11Good+"gr.git",
		"pushurl", c11Evil+"rp.git", c11Good+"grp.git",
		"lfsurl", c11Evil+"rlfs", c11Good+"grlfs",
		"lfspushurl", c11Evil+"rlfsp", c11Good+"grlfsp",
		"fetch", "+refs/heads/*:refs/remotes/evil/*", "+refs/heads/*:refs/remotes/g/*",
		"push", "refs/heads/evil", "refs/heads/git",
		"proxy", "http://evil.example:3128", "http://good.example:3128",
		"access", "basic", "none",
		"foo", "evil", "git",
		"lfsdefault", "a.b", "origin",
		"lfspushdefault", "a.b", "origin",
		"pushdefault", "a.b", "origin",
	)
	// --- other sections
	add("credential", "*", "helper", "!/bin/false", "!/bin/true", "usehttppath", "true", "false",
		"protectprotocol", "false", "true", "skipwwwauth", "true", "false", "username", "evil", "git")
	add("core", "*", "askpass", "/bin/false", "/bin/true", "sshcommand", "/bin/false", "/bin/true",
		"hookspath", "evilhooks", "githooks", "sharedrepository", "0666", "0600", "attributesfile", "evilattrs", "gitattrs",
		"autocrlf", "true", "false", "editor", "/bin/false", "/bin/true", "pager", "/bin/false", "/bin/true",
		"fsmonitor", "/bin/false", "false", "gitproxy", "/bin/false", "/bin/true")
	add("http", "*", "proxy", "http://evil.example:3128", "http://good.example:3128", "sslverify", "false", "true",
		"sslcainfo", "evilca.pem", "gitca.pem", "sslcapath", "evilcadir", "gitcadir", "sslcert", "evilcert.pem", "gitcert.pem",
		"sslkey", "evilkey.pem", "gitkey.pem", "extraheader", "X-Evil: 1", "X-Git: 1", "cookiefile", "evilcookies", "gitcookies",
		"version", "HTTP/1.1", "HTTP/2", "sslbackend", "schannel", "openssl", "schannelusesslcainfo", "true", "false",
		"sslcertpasswordprotected", "true", "false")
	add("url", "*", "insteadof", c11Good, "https://other.example/", "pushinsteadof", c11Good, "https://other.example/")
	add("url", c11Evil, "insteadof", c11Good, "https://other.example/", "pushinsteadof", c11Good, "https://other.example/")
	add("filter", "lfs", "clean", "/bin/false", "git-lfs clean -- %f", "smudge", "/bin/false", "git-lfs smudge -- %f",
		"process", "/bin/false", "git-lfs filter-process", "required", "false", "true")
	add("filter", "*", "clean", "/bin/false", "cat")
	add("ssh", "*", "variant", "putty", "ssh")
	add("include", "*", "path", "/dev/null", "/nonexistent/c11-git-include.cfg")
	add("includeif", "gitdir:/", "path", "/dev/null", "/nonexistent/c11-git-include.cfg")
	add("branch", "main", "remote", "a.b", "origin", "pushremote", "a.b", "origin", "merge", "refs/heads/evil", "refs/heads/main")
	add("branch", "*", "remote", "a.b", "origin")
	add("user", "*", "name", "Evil", "Git", "email", "evil@evil.example", "git@good.example")
	add("push", "*", "default", "matching", "simple")
	add("extensions", "-", "objectformat", "sha256", "sha1")
	add("alias", "*", "evil", "!/bin/false", "!/bin/true")
	add("protocol", "*", "allow", "always", "never")
	add("safe", "*", "directory", "*", "/nowhere")
	add("gc", "*", "auto", "0", "1")
	// the "<anything>.<x>.access" shape of the filter, outside section lfs
	add("http", "*", "access", "basic", "none")
	add("credential", "*", "access", "basic", "none")
	add("core", "*", "access", "basic", "none")
	add("url", "*", "access", "basic", "none")
	add("foo", "*", "access", "basic", "none", "bar", "evil", "git")
	// --- wrapped keys: a key of one of the forms .lfsconfig may legitimately set (lfs.<x>.access, remote.<name>.lfsurl, and the
	// filter's "<anything>.<x>.access") whose middle part is itself the text of a key that configures something dangerous.  A reader
	// that searches the configuration by an unanchored or prefix/suffix pattern would take the wrapper for the dangerous key.
	for _, inner := range c11WrappedInner {
		add("remote", inner, "lfsurl", "/bin/false", c11Good+"grlfs")
		add("lfs", inner, "access", "/bin/false", "none")
		if i := strings.IndexByte(inner, '.'); i > 0 {
			// the inner key's own section with ".access" appended: lfs.customtransfer.evil.path.access, credential.helper.access, ...
			add(inner[:i], inner[i+1:], "access", "/bin/false", "none")
		}
	}
	return d
}

// c11WrappedInner lists the dangerous keys that are embedded as the middle part of an allowed key form.
var c11WrappedInner = []string{
	"lfs.customtransfer.evil.path", "lfs.customtransfer.evil.args", "lfs.extension.evil.clean", "lfs.extension.evil.smudge",
	"lfs.standalonetransferagent", "lfs.url", "lfs.storage",
	"credential.helper", "core.askpass", "core.sshcommand", "core.hookspath", "http.proxy", "http.extraheader", "http.sslverify",
	"url.https://evil.example/.insteadof", "filter.lfs.clean", "filter.lfs.process", "remote.origin.url", "remote.origin.pushurl", "ssh.variant",
}

// c11Key is one concrete key of the enumeration.
type c11Key struct {
	Sec, Sub, Var string
	HasSub        bool
	Shape         string
	Val, GitVal   string
}

// Canon is the key as `git config -l` prints it (section and variable lower-cased, subsection verbatim).
func (k c11Key) Canon() string {
	if !k.HasSub {
		return strings.ToLower(k.Sec) + "." + strings.ToLower(k.Var)
	}
	return strings.ToLower(k.Sec) + "." + k.Sub + "." + strings.ToLower(k.Var)
}

// Class is the fingerprint class of the key: concrete names are abstracted, the shape of the subsection is kept.
func (k c11Key) Class() string { return c11ClassOf(k.Canon()) }

func c11ClassOf(canon string) string {
	parts := strings.Split(canon, ".")
	if len(parts) < 2 {
		return canon
	}
	sec, v := parts[0], parts[len(parts)-1]
	if len(parts) == 2 {
		return sec + "." + v
	}
	sub := strings.Join(parts[1:len(parts)-1], ".")
	switch {
	case sec == "lfs" && (strings.HasPrefix(sub, "customtransfer.") || strings.HasPrefix(sub, "extension.")):
		return sec + "." + sub[:strings.Index(sub, ".")] + ".<name>." + v
	case sec == "lfs" && (sub == "transfer" || sub == "ssh" || sub == "remote" || sub == "customtransfer" || sub == "extension"):
		return sec + "." + sub + "." + v
	case sec == "filter" && sub == "lfs":
		return "filter.lfs." + v
	case sub == "":
		return sec + ".<empty>." + v
	case strings.Contains(sub, "="):
		return sec + ".<name-with-eq>." + v
	case strings.Contains(sub, "://"):
		return sec + ".<url>." + v
	case strings.Contains(sub, "."):
		return sec + ".<dotted-name>." + v
	default:
		return sec + ".<name>." + v
	}
}

func c11ExpandDict(d []c11Entry) []c11Key {
	var ks []c11Key
	seen := map[string]bool{}
	push := func(k c11Key) {
		id := k.Canon()
		if seen[id] {
			return
		}
		seen[id] = true
		ks = append(ks, k)
	}
	for _, e := range d {
		if e.Sub == "-" {
			push(c11Key{Sec: e.Sec, Var: e.Var, Val: e.Val, GitVal: e.GitVal, Shape: "none"})
		} else if e.Sub == "*" {
			for _, s := range c11Shapes {
				k := c11Key{Sec: e.Sec, Var: e.Var, Val: e.Val, GitVal: e.GitVal, Shape: s.Name}
				if s.Sub != "\x00" {
					k.Sub, k.HasSub = s.Sub, true
				}
				push(k)
			}
		} else {
			push(c11Key{Sec: e.Sec, Sub: e.Sub, HasSub: true, Var: e.Var, Val: e.Val, GitVal: e.GitVal, Shape: "fixed"})
		}
	}
	return ks
}

// ---------------------------------------------------------------------------------------------
// reader patterns: which canonical keys does git-lfs consume?  (regexps over the canonical key)

var c11CuratedReaders = []string{
	// plain two-part keys
	`lfs\.(url|pushurl|allowincompletepush|fetchexclude|fetchinclude|gitprotocol|skipdownloaderrors|storage|concurrenttransfers|basictransfersonly|tustransfers|dialtimeout|tlstimeout|keepalive|cachecredentials|largefilewarning|forceprogress|setlockablereadonly|lockignoredfiles|defaulttokenttl|fetchrecentrefsdays|fetchrecentremoterefs|fetchrecentcommitsdays|fetchrecentalways|pruneoffsetdays|pruneremotetocheck|pruneverifyremotealways|pruneverifyunreachablealways|repositoryformatversion)`,
	// URL-scoped (urlconfig: lfs.<url>.x with fallback lfs.x)
	`lfs\.(.*\.)?(access|locksverify|sshtransfer|contenttype|activitytimeout|standalonetransferagent)`,
	`lfs\.transfer\.(maxretries|maxretrydelay|maxverifies|enablehrefrewrite|batchsize)`,
	`lfs\.ssh\.(automultiplex|retries)`,
	`lfs\.remote\.(autodetect|searchall)`,
	`lfs\.customtransfer\..+\.(path|args|concurrent|direction)`,
	`lfs\.extension\.[^.]+\.(clean|smudge|priority)`,
	`remote\.(lfsdefault|lfspushdefault|pushdefault)`,
	`remote\..*\.(url|pushurl|lfsurl|lfspushurl)`,
	`credential\.(.*\.)?(helper|usehttppath|protectprotocol|skipwwwauth)`,
	`core\.(askpass|sshcommand|hookspath|sharedrepository|attributesfile|autocrlf)`,
	`http\.(.*\.)?(proxy|sslverify|sslcainfo|sslcert|sslkey|extraheader|cookiefile|version|sslbackend|schannelusesslcainfo|sslcertpasswordprotected)`,
	`http\.sslcapath`,
	`url\..*\.(insteadof|pushinsteadof)`,
	`filter\.lfs\.(clean|smudge|process)`,
	`ssh\.variant`,
	`branch\..+\.(remote|pushremote|merge)`,
	`user\.(name|email)`,
	`push\.default`,
	`extensions\.objectformat`,
}

type c11Readers struct {
	res  []*regexp.Regexp
	Srcs []string // pattern sources (for evidence)
	// Extracted holds the patterns found in the sources at check time that the curated list did not already cover.
	Extracted []string
	// Found is the number of distinct read patterns the extraction saw in the sources (covered or not).
	Found int
}

func (r *c11Readers) add(src string) {
	re, err := regexp.Compile("^(?:" + src + ")$")
	if err != nil {
		return
	}
	r.res = append(r.res, re)
	r.Srcs = append(r.Srcs, src)
}

// Consumed reports whether some git-lfs code path reads canonical key k.
func (r *c11Readers) Consumed(k string) bool {
	lk := c11FoldKey(k)
	for _, re := range r.res {
		if re.MatchString(lk) {
			return true
		}
	}
	return false
}

// c11FoldKey lower-cases section and variable, keeping the subsection (Git's canonical form).
func c11FoldKey(k string) string {
	parts := strings.Split(k, ".")
	if len(parts) < 3 {
		return strings.ToLower(k)
	}
	last := len(parts) - 1
	return strings.ToLower(parts[0]) + "." + strings.Join(parts[1:last], ".") + "." + strings.ToLower(parts[last])
}

var (
	c11ReGet    = regexp.MustCompile(`\.(?:Get|GetAll|Bool|Int)\(\s*"([A-Za-z]+\.[A-Za-z0-9.]+)"`)
	c11ReURLGet = regexp.MustCompile(`\.(?:Get|GetAll|Bool|Int)\(\s*"([a-z]+)"\s*,\s*[^,"]+,\s*"([A-Za-z]+)"`)
	c11ReFmt    = regexp.MustCompile(`Sprintf\(\s*"([a-z]+\.[A-Za-z0-9.%]*%[sv][A-Za-z0-9.%]*)"`)
	c11ReCat    = regexp.MustCompile(`"([a-z]+\.)"\s*\+\s*[A-Za-z_][A-Za-z0-9_.]*\s*\+\s*"(\.[A-Za-z]+)"`)
	c11ReConst  = regexp.MustCompile(`=\s*"((?:lfs|core|http|remote|credential|url|ssh|filter)\.[a-z][A-Za-z0-9.]+)"`)
)

// c11ExtractReaders scans the non-test Go sources of the tree under test for configuration key reads.
func c11ExtractReaders(repo string) (patterns []string, representatives []c11Entry) {
	seen := map[string]bool{}
	addPat := func(p string, rep c11Entry) {
		if seen[p] {
			return
		}
		seen[p] = true
		patterns = append(patterns, p)
		representatives = append(representatives, rep)
	}
	skipDir := map[string]bool{"vendor": true, "t": true, "docs": true, "script": true, "debian": true, "rpm": true, "po": true, "verifx": true, ".git": true}
	filepath.Walk(repo, func(p string, info os.FileInfo, err error) error {
		if err != nil {
			return nil
		}
		if info.IsDir() {
			rel, _ := filepath.Rel(repo, p)
			if skipDir[strings.Split(rel, string(filepath.Separator))[0]] {
				return filepath.SkipDir
			}
			return nil
		}
		if !strings.HasSuffix(p, ".go") || strings.HasSuffix(p, "_test.go") {
			return nil
		}
		b, e := os.ReadFile(p)
		if e != nil {
			return nil
		}
		src := string(b)
		for _, m := range c11ReGet.FindAllStringSubmatch(src, -1) {
			k := strings.ToLower(m[1])
			parts := strings.Split(k, ".")
			rep := c11Entry{Sec: parts[0], Sub: "*", Var: parts[len(parts)-1], Val: "evil", GitVal: "git"}
			if len(parts) > 2 {
				rep.Sub = strings.Join(parts[1:len(parts)-1], ".")
			}
			addPat(regexp.QuoteMeta(k), rep)
		}
		for _, m := range c11ReConst.FindAllStringSubmatch(src, -1) {
			k := strings.ToLower(m[1])
			parts := strings.Split(k, ".")
			rep := c11Entry{Sec: parts[0], Sub: "*", Var: parts[len(parts)-1], Val: "evil", GitVal: "git"}
			if len(parts) > 2 {
				rep.Sub = strings.Join(parts[1:len(parts)-1], ".")
			}
			addPat(regexp.QuoteMeta(k), rep)
		}
		for _, m := range c11ReURLGet.FindAllStringSubmatch(src, -1) {
			sec, v := strings.ToLower(m[1]), strings.ToLower(m[2])
			addPat(regexp.QuoteMeta(sec)+`\.(.*\.)?`+regexp.QuoteMeta(v), c11Entry{Sec: sec, Sub: "*", Var: v, Val: "evil", GitVal: "git"})
		}
		for _, m := range c11ReFmt.FindAllStringSubmatch(src, -1) {
			k := strings.ToLower(m[1])
			pat := strings.NewReplacer(`%s`, `.+`, `%v`, `.+`).Replace(regexp.QuoteMeta(k))
			parts := strings.Split(strings.NewReplacer("%s", "evil", "%v", "evil").Replace(k), ".")
			if len(parts) < 3 {
				continue
			}
			addPat(pat, c11Entry{Sec: parts[0], Sub: strings.Join(parts[1:len(parts)-1], "."), Var: parts[len(parts)-1], Val: "evil", GitVal: "git"})
		}
		for _, m := range c11ReCat.FindAllStringSubmatch(src, -1) {
			sec := strings.TrimSuffix(strings.ToLower(m[1]), ".")
			v := strings.TrimPrefix(strings.ToLower(m[2]), ".")
			addPat(regexp.QuoteMeta(sec)+`\..*\.`+regexp.QuoteMeta(v), c11Entry{Sec: sec, Sub: "*", Var: v, Val: "evil", GitVal: "git"})
		}
		return nil
	})
	return
}

// c11BuildDictionary returns the enumerated keys and the reader patterns for the tree under test.
func c11BuildDictionary(repo string) ([]c11Key, *c11Readers) {
	rd := &c11Readers{}
	for _, s := range c11CuratedReaders {
		rd.add(s)
	}
	dict := c11BaseDict()
	curatedKeys := c11ExpandDict(dict)
	pats, reps := c11ExtractReaders(repo)
	rd.Found = len(pats)
	type extra struct {
		pat string
		rep c11Entry
	}
	var extras []extra
	for i, p := range pats {
		re, err := regexp.Compile("^(?:" + p + ")$")
		if err != nil {
			continue
		}
		// a source pattern is "covered" when some curated reader pattern consumes a key that matches it
		covered := false
		for _, k := range curatedKeys {
			if re.MatchString(c11FoldKey(k.Canon())) && rd.Consumed(k.Canon()) {
				covered = true
				break
			}
		}
		if !covered {
			extras = append(extras, extra{p, reps[i]})
		}
	}
	sort.Slice(extras, func(i, j int) bool { return extras[i].pat < extras[j].pat })
	for _, e := range extras {
		rd.add(e.pat)
		rd.Extracted = append(rd.Extracted, e.pat)
		dict = append(dict, e.rep)
	}
	return c11ExpandDict(dict), rd
}
