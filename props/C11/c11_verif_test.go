package c11

// C11 — a repository's .lfsconfig can only set the documented safe keys.
//
// Part "inproc": bounded exhaustive enumeration of (key x subsection shape x spelling x multiplicity x location x
// Git-side setting) through the REAL configuration loading (config.New() in a process whose cwd is the repository,
// exactly what commands/run.go does: `git config -l`, `git config -l -f .lfsconfig` / `--blob :.lfsconfig` /
// `--blob HEAD:.lfsconfig`, readGitConfig filter) and the real consumers (endpoint finder, tq manifest, extensions).
// Because config.New() depends on the process cwd, cases are executed by a pool of worker processes (this test
// binary re-executed with VERIF_C11_WORKER set), one case at a time per worker.
//
// Part "e2e" (c11_e2e_verif_test.go): the real git-lfs binary with sentinel programs and an "evil" LFS server.

import (
	"bufio"
	"bytes"
	"encoding/json"
	"fmt"
	"io"
	"os"
	"os/exec"
	"path/filepath"
	"regexp"
	"runtime"
	"sort"
	"strings"
	"sync"
	"testing"
	"time"

	"github.com/git-lfs/git-lfs/v3/config"
	"github.com/git-lfs/git-lfs/v3/lfsapi"
	"github.com/git-lfs/git-lfs/v3/subprocess"
	"github.com/git-lfs/git-lfs/v3/tq"
	"github.com/git-lfs/git-lfs/v3/verifx/vx"
)

// ---------------------------------------------------------------------------------------------
// case description

var (
	c11Spellings = []string{"lower", "UPPER", "Mixed", "dotted-section-syntax"}
	c11Mults     = []string{"single", "duplicated", "with-safe-key", "via-include", "newline-injected", "then-garbage",
		// multiplicities that only make sense together with a Git-side value: the duplicated key repeats Git's own value
		"dup[gitval,other]", "dup[other,gitval]", "dup[gitval,gitval,other]"}
	c11Locs      = []string{"worktree", "index-only", "HEAD-only", "bare-HEAD"}
	c11GitSides  = []string{"absent", "local", "global", "env", "included", "worktree-config"}
)

type c11Case struct {
	Key      c11Key
	Spelling int
	Mult     int
	Loc      int
	GitSide  int
	// GitKind is the form of the value the Git-level copy of the key has: 0 = the dictionary's Git value, 1 = BLANK
	// (`key =`, the usual way to cancel a value of a lower-priority file), 2 = VALUELESS (`[lfs]\n\tkey`, Git's
	// spelling of boolean true; the .lfsconfig copy then says "false").
	GitKind int
}

var c11GitKinds = []string{"value", "git-blank", "git-valueless"}

func (c c11Case) ID() string {
	id := fmt.Sprintf("%s|%s|%s|%s|%s", c.Key.Canon(), c11Spellings[c.Spelling], c11Mults[c.Mult], c11Locs[c.Loc], c11GitSides[c.GitSide])
	if c.GitKind != 0 {
		id += "|" + c11GitKinds[c.GitKind]
	}
	return id
}

// effKey is the key of the case with the values the Git-value kind dictates.
func (c c11Case) effKey() c11Key {
	k := c.Key
	switch c.GitKind {
	case 1:
		k.GitVal = ""
	case 2:
		k.GitVal = ""
		k.Val = "false"
	}
	return k
}

// c11GitStanza renders the Git-level copy of the key of the case.
func c11GitStanza(c c11Case) string {
	k := c.effKey()
	if c.GitKind == 2 {
		hdr := "[" + k.Sec + "]"
		if k.HasSub {
			hdr = "[" + k.Sec + " " + c11Quote(k.Sub) + "]"
		}
		return hdr + "\n\t" + k.Var + "\n"
	}
	return c11Stanza(k, 0, k.GitVal)
}

func c11IsBoolKey(k c11Key) bool {
	return (k.Val == "true" || k.Val == "false") && (k.GitVal == "true" || k.GitVal == "false")
}

func c11Quote(s string) string {
	s = strings.ReplaceAll(s, `\`, `\\`)
	s = strings.ReplaceAll(s, `"`, `\"`)
	s = strings.ReplaceAll(s, "\n", `\n`)
	return `"` + s + `"`
}

var c11ReDottedOK = regexp.MustCompile(`^[a-z0-9.-]+$`)

// c11Stanza renders one key in the requested spelling.
func c11Stanza(k c11Key, spelling int, val string) string {
	sec, v := k.Sec, k.Var
	switch spelling {
	case 1:
		sec, v = strings.ToUpper(sec), strings.ToUpper(v)
	case 2:
		sec = strings.ToUpper(sec[:1]) + sec[1:]
		v = strings.ToUpper(v[:1]) + v[1:]
		if len(v) > 2 {
			v = v[:len(v)-1] + strings.ToUpper(v[len(v)-1:])
		}
	}
	var hdr string
	switch {
	case !k.HasSub:
		hdr = "[" + sec + "]"
	case spelling == 3 && c11ReDottedOK.MatchString(k.Sub):
		hdr = "[" + sec + "." + k.Sub + "]" // deprecated [section.subsection] syntax
	default:
		hdr = "[" + sec + " " + c11Quote(k.Sub) + "]"
	}
	return hdr + "\n\t" + v + " = " + c11Quote(val) + "\n"
}

// companion safe key used by the with-safe-key / newline-injected / then-garbage multiplicities
func c11Companion(k c11Key) (canon string, stanzaKey c11Key) {
	if k.Canon() == "lfs.fetchexclude" {
		return "lfs.fetchinclude", c11Key{Sec: "lfs", Var: "fetchinclude"}
	}
	return "lfs.fetchexclude", c11Key{Sec: "lfs", Var: "fetchexclude"}
}

const c11SafeVal = "c11safe*"

// c11NBaseMults is the number of multiplicities that do not refer to the Git-side value.
const c11NBaseMults = 6

// c11LfsConfig returns the .lfsconfig text, the text of the included file ("" if none) and the values of the
// hostile key that the file carries (last = the one that would be in effect).
func c11LfsConfig(c c11Case, incPath string) (main, inc string, vals []string, companion string) {
	k := c.effKey()
	switch c.Mult {
	case 0:
		return c11Stanza(k, c.Spelling, k.Val), "", []string{k.Val}, ""
	case 1:
		return c11Stanza(k, c.Spelling, k.Val+"-dup") + c11Stanza(k, c.Spelling, k.Val), "", []string{k.Val + "-dup", k.Val}, ""
	case 2:
		cc, ck := c11Companion(k)
		return c11Stanza(ck, 0, c11SafeVal) + c11Stanza(k, c.Spelling, k.Val), "", []string{k.Val}, cc
	case 3:
		return "[include]\n\tpath = " + c11Quote(incPath) + "\n", c11Stanza(k, c.Spelling, k.Val), []string{k.Val}, ""
	case 4:
		cc, ck := c11Companion(k)
		return c11Stanza(ck, 0, c11SafeVal+"\n"+k.Canon()+"="+k.Val), "", []string{k.Val}, cc
	case 5:
		return c11Stanza(k, c.Spelling, k.Val) + "[unterminated \"\n\tthis is = not [valid\n", "", []string{k.Val}, ""
	case 6:
		return c11Stanza(k, c.Spelling, k.GitVal) + c11Stanza(k, c.Spelling, k.Val), "", []string{k.GitVal, k.Val}, ""
	case 7:
		return c11Stanza(k, c.Spelling, k.Val) + c11Stanza(k, c.Spelling, k.GitVal), "", []string{k.Val, k.GitVal}, ""
	default:
		return c11Stanza(k, c.Spelling, k.GitVal) + c11Stanza(k, c.Spelling, k.GitVal) + c11Stanza(k, c.Spelling, k.Val), "", []string{k.GitVal, k.GitVal, k.Val}, ""
	}
}

// ---------------------------------------------------------------------------------------------
// worker side: repositories, one case

type c11Worker struct {
	dir, home, nb, bare, incDir string
	nbBase, bareBase            string // base commit ids
	readmeBlobNB, readmeBlobB   string
	baseline                    map[string]map[string]string
	env                         []string
	curKey                      string // canonical key of the case being observed
}

var c11FixedDateEnv = []string{"GIT_AUTHOR_DATE=2024-01-01T12:00:00Z", "GIT_COMMITTER_DATE=2024-01-01T12:00:00Z"}

func (w *c11Worker) git(dir string, stdin string, args ...string) (string, error) {
	cmd := exec.Command("git", args...)
	cmd.Dir = dir
	cmd.Env = append(os.Environ(), c11FixedDateEnv...)
	if stdin != "" {
		cmd.Stdin = strings.NewReader(stdin)
	}
	var out, errb bytes.Buffer
	cmd.Stdout, cmd.Stderr = &out, &errb
	if err := cmd.Run(); err != nil {
		return "", fmt.Errorf("git %v in %s: %v: %s", args, dir, err, errb.String())
	}
	return strings.TrimSpace(out.String()), nil
}

func (w *c11Worker) mustGit(dir, stdin string, args ...string) string {
	s, err := w.git(dir, stdin, args...)
	if err != nil {
		panic(vx.ToolError{Msg: err.Error()})
	}
	return s
}

func c11NewWorker(dir string) *c11Worker {
	w := &c11Worker{dir: dir, home: filepath.Join(dir, "home"), nb: filepath.Join(dir, "nb"), bare: filepath.Join(dir, "bare.git"),
		incDir: filepath.Join(dir, "inc"), baseline: map[string]map[string]string{}}
	for _, d := range []string{w.home, w.nb, w.bare, w.incDir} {
		os.MkdirAll(d, 0755)
	}
	os.Setenv("HOME", w.home)
	os.Setenv("XDG_CONFIG_HOME", filepath.Join(w.home, ".config"))
	os.Unsetenv("GIT_DIR")
	os.Unsetenv("GIT_WORK_TREE")
	subprocess.ResetEnvironment()
	w.mustGit(w.nb, "", "init", "-q", "-b", "main")
	w.mustGit(w.bare, "", "init", "-q", "--bare", "-b", "main")
	w.readmeBlobNB = w.mustGit(w.nb, "readme\n", "hash-object", "-w", "--stdin")
	w.readmeBlobB = w.mustGit(w.bare, "readme\n", "hash-object", "-w", "--stdin")
	os.WriteFile(filepath.Join(w.nb, "README"), []byte("readme\n"), 0644)
	w.nbBase = w.commit(w.nb, w.readmeBlobNB, "")
	w.bareBase = w.commit(w.bare, w.readmeBlobB, "")
	w.setRef(w.nb, w.nbBase)
	w.setRef(w.bare, w.bareBase)
	w.mustGit(w.nb, "", "read-tree", w.nbBase)
	w.mustGit(w.nb, "", "update-index", "--refresh")
	b, err := os.ReadFile(filepath.Join(w.nb, ".git", "index"))
	if err != nil {
		panic(vx.ToolError{Msg: err.Error()})
	}
	os.WriteFile(filepath.Join(w.nb, ".git", "index.base"), b, 0644)
	return w
}

// commit builds a root commit holding README (+ .lfsconfig when lfsBlob != "") with plumbing only.
func (w *c11Worker) commit(repo, readmeBlob, lfsBlob string) string {
	tree := ""
	if lfsBlob != "" {
		tree += "100644 blob " + lfsBlob + "\t.lfsconfig\n"
	}
	tree += "100644 blob " + readmeBlob + "\tREADME\n"
	t := w.mustGit(repo, tree, "mktree")
	return w.mustGit(repo, "c\n", "-c", "user.name=V", "-c", "user.email=v@example.com", "commit-tree", t)
}

func (w *c11Worker) gitDirOf(repo string) string {
	if repo == w.bare {
		return repo
	}
	return filepath.Join(repo, ".git")
}

func (w *c11Worker) setRef(repo, sha string) {
	p := filepath.Join(w.gitDirOf(repo), "refs", "heads", "main")
	os.MkdirAll(filepath.Dir(p), 0755)
	if err := os.WriteFile(p, []byte(sha+"\n"), 0644); err != nil {
		panic(vx.ToolError{Msg: err.Error()})
	}
}

// Git's own configuration of the case repositories: two ordinary remotes, one of them with a dot in its name.
const (
	c11OriginURL = c11Good + "o.git"
	c11DottedURL = c11Good + "ab.git"
)

func c11BaseGitConfig(bare bool) string {
	b := "false"
	if bare {
		b = "true"
	}
	return "[core]\n\trepositoryformatversion = 0\n\tfilemode = true\n\tbare = " + b + "\n" +
		"[remote \"origin\"]\n\turl = " + c11OriginURL + "\n\tfetch = +refs/heads/*:refs/remotes/origin/*\n" +
		"[remote \"a.b\"]\n\turl = " + c11DottedURL + "\n\tfetch = +refs/heads/*:refs/remotes/a.b/*\n"
}

var c11GitRemotes = []string{"origin", "a.b"}

// c11GitTruth is what Git itself says the URL of a remote is (git remote get-url [--push]) in the base config.
func c11GitTruth(remote string, push bool) string {
	if remote == "origin" {
		return c11OriginURL
	}
	return c11DottedURL
}

type c11Obs struct {
	All     map[string][]string
	Snap    map[string]string
	Stderr  string
	LoadErr bool
	Panic   string
	// Get is what the real Git.Get answers for the key of the case (what Bool/Int/the endpoint finder use)
	Get   string
	GetOK bool
}

// observe loads the configuration the way every git-lfs command does and takes the semantic snapshot.
func (w *c11Worker) observe(repo string) (o c11Obs) {
	if err := os.Chdir(repo); err != nil {
		panic(vx.ToolError{Msg: err.Error()})
	}
	errFile, err := os.CreateTemp(w.dir, "stderr")
	if err != nil {
		panic(vx.ToolError{Msg: err.Error()})
	}
	saved := os.Stderr
	os.Stderr = errFile
	defer func() {
		os.Stderr = saved
		if e := recover(); e != nil {
			if te, ok := e.(vx.ToolError); ok {
				panic(te)
			}
			o.Panic = fmt.Sprint(e)
		}
		errFile.Seek(0, 0)
		b, _ := io.ReadAll(errFile)
		errFile.Close()
		os.Remove(errFile.Name())
		o.Stderr = string(b)
		o.LoadErr = strings.Contains(o.Stderr, "Error reading `git config`")
		os.Chdir(w.dir)
	}()
	cfg := config.New()
	o.All = cfg.Git.All()
	if w.curKey != "" {
		o.Get, o.GetOK = cfg.Git.Get(w.curKey)
	}
	s := map[string]string{}
	o.Snap = s
	s["remote"] = cfg.Remote()
	s["pushremote"] = cfg.PushRemote()
	rs := append([]string(nil), cfg.Remotes()...)
	sort.Strings(rs)
	s["remotes"] = strings.Join(rs, ",")
	var exts []string
	for n, e := range cfg.Extensions() {
		exts = append(exts, fmt.Sprintf("%s{name=%s clean=%q smudge=%q prio=%d}", n, e.Name, e.Clean, e.Smudge, e.Priority))
	}
	sort.Strings(exts)
	s["ext"] = strings.Join(exts, ";")
	if se, err := cfg.SortedExtensions(); err != nil {
		s["ext"] += " sort-error"
	} else {
		for _, e := range se {
			s["ext"] += " >" + e.Name
		}
	}
	client, err := lfsapi.NewClient(cfg)
	if err != nil {
		s["client-error"] = err.Error()
		return
	}
	ef := client.Endpoints
	for _, r := range c11GitRemotes {
		s["giturl:"+r+":fetch"] = ef.GitRemoteURL(r, false)
		s["giturl:"+r+":push"] = ef.GitRemoteURL(r, true)
		for _, op := range []string{"download", "upload"} {
			ep := ef.Endpoint(op, r)
			s["ep:"+r+":"+op] = ep.Url
			s["access:"+r+":"+op] = c11Mode(ef, ep.Url)
		}
	}
	dl := ef.Endpoint("download", cfg.Remote())
	ul := ef.Endpoint("upload", cfg.PushRemote())
	s["ep:default:download"] = dl.Url
	s["ep:default:upload"] = ul.Url
	s["access:default:download"] = c11Mode(ef, dl.Url)
	s["access:default:upload"] = c11Mode(ef, ul.Url)
	s["gitprotocol"] = ef.GitProtocol()
	if hd, err := cfg.HookDir(); err == nil {
		s["hookdir"] = c11Rel(repo, hd)
	} else {
		s["hookdir"] = "error"
	}
	s["storage"] = c11Rel(repo, cfg.LFSStorageDir())
	s["fetchinclude"] = strings.Join(cfg.FetchIncludePaths(), ",")
	s["fetchexclude"] = strings.Join(cfg.FetchExcludePaths(), ",")
	s["skipdlerr"] = fmt.Sprint(cfg.SkipDownloadErrors())
	s["misc"] = fmt.Sprintf("basiconly=%v tus=%v batch=%d lockro=%v progress=%v autodetect=%v searchall=%v perms=%o",
		cfg.BasicTransfersOnly(), cfg.TusTransfersAllowed(), cfg.TransferBatchSize(), cfg.SetLockableFilesReadOnly(), cfg.ForceProgress(),
		cfg.AutoDetectRemoteEnabled(), cfg.SearchAllRemotesEnabled(), cfg.RepositoryPermissions(false))
	for _, op := range []string{"download", "upload"} {
		remote := cfg.Remote()
		if op == "upload" {
			remote = cfg.PushRemote()
		}
		m := tq.NewManifest(cfg.Filesystem(), client, op, remote)
		dn := m.GetDownloadAdapterNames()
		un := m.GetUploadAdapterNames()
		sort.Strings(dn)
		sort.Strings(un)
		s["manifest:"+op] = fmt.Sprintf("dl=%s ul=%s retries=%d delay=%d conc=%d standalone=%v", strings.Join(dn, ","), strings.Join(un, ","),
			m.MaxRetries(), m.MaxRetryDelay(), m.ConcurrentTransfers(), m.IsStandaloneTransfer())
		// the SET of transfer adapters is a field of its own: no documented .lfsconfig key (not even the endpoint-changing
		// lfs.url / remote.<name>.lfsurl, which may legitimately change the rest of the manifest) can add or remove an adapter
		s["adapters:"+op] = "dl=" + strings.Join(dn, ",") + " ul=" + strings.Join(un, ",")
	}
	s["client-conc"] = fmt.Sprint(client.ConcurrentTransfers())
	return
}

func c11Mode(ef lfsapi.EndpointFinder, url string) string {
	a := ef.AccessFor(url)
	return string(a.Mode())
}

func c11Rel(repo, p string) string {
	if r, err := filepath.Rel(repo, p); err == nil && !strings.HasPrefix(r, "..") {
		return "<repo>/" + r
	}
	return p
}

// place resets the repositories and puts Git's configuration and the .lfsconfig where the case wants them.
func (w *c11Worker) place(c c11Case, withLfsConfig bool) (repo string) {
	bare := c.Loc == 3
	repo = w.nb
	if bare {
		repo = w.bare
	}
	gd := w.gitDirOf(repo)
	// --- reset
	os.Remove(filepath.Join(w.nb, ".lfsconfig"))
	os.Remove(filepath.Join(gd, "config.worktree"))
	os.Remove(filepath.Join(w.home, ".gitconfig"))
	os.Remove(filepath.Join(w.incDir, "inc.cfg"))
	os.Remove(filepath.Join(w.incDir, "gitinc.cfg"))
	for _, e := range os.Environ() {
		if strings.HasPrefix(e, "GIT_CONFIG_") && !strings.HasPrefix(e, "GIT_CONFIG_NOSYSTEM") {
			os.Unsetenv(strings.SplitN(e, "=", 2)[0])
		}
	}
	if !bare {
		b, _ := os.ReadFile(filepath.Join(gd, "index.base"))
		os.WriteFile(filepath.Join(gd, "index"), b, 0644)
		w.setRef(repo, w.nbBase)
	} else {
		w.setRef(repo, w.bareBase)
	}
	// --- Git's own configuration
	gcfg := c11BaseGitConfig(bare)
	if strings.EqualFold(c.Key.Sec, "extensions") {
		// Git refuses to open a version-0 repository whose own configuration names a v1-only extension
		// (extensions.objectformat): the Git-side copy of such a key needs repositoryformatversion = 1.
		gcfg = strings.Replace(gcfg, "repositoryformatversion = 0", "repositoryformatversion = 1", 1)
	}
	gitStanza := c11GitStanza(c)
	gs := c.GitSide
	if gs == 5 && bare {
		gs = 1
	}
	switch gs {
	case 1:
		gcfg += gitStanza
	case 2:
		os.WriteFile(filepath.Join(w.home, ".gitconfig"), []byte(gitStanza), 0644)
	case 3:
		os.Setenv("GIT_CONFIG_COUNT", "1")
		os.Setenv("GIT_CONFIG_KEY_0", c.Key.Canon())
		os.Setenv("GIT_CONFIG_VALUE_0", c.effKey().GitVal)
	case 4:
		p := filepath.Join(w.incDir, "gitinc.cfg")
		os.WriteFile(p, []byte(gitStanza), 0644)
		gcfg += "[include]\n\tpath = " + c11Quote(p) + "\n"
	case 5:
		gcfg += "[extensions]\n\tworktreeConfig = true\n"
		os.WriteFile(filepath.Join(gd, "config.worktree"), []byte(gitStanza), 0644)
	}
	if err := os.WriteFile(filepath.Join(gd, "config"), []byte(gcfg), 0644); err != nil {
		panic(vx.ToolError{Msg: err.Error()})
	}
	subprocess.ResetEnvironment()
	if !withLfsConfig {
		return repo
	}
	// --- .lfsconfig
	incPath := filepath.Join(w.incDir, "inc.cfg")
	main, inc, _, _ := c11LfsConfig(c, incPath)
	if inc != "" {
		os.WriteFile(incPath, []byte(inc), 0644)
	}
	switch c.Loc {
	case 0:
		if err := os.WriteFile(filepath.Join(repo, ".lfsconfig"), []byte(main), 0644); err != nil {
			panic(vx.ToolError{Msg: err.Error()})
		}
	case 1:
		blob := w.mustGit(repo, main, "hash-object", "-w", "--stdin")
		w.mustGit(repo, "", "update-index", "--add", "--cacheinfo", "100644,"+blob+",.lfsconfig")
	case 2:
		blob := w.mustGit(repo, main, "hash-object", "-w", "--stdin")
		w.setRef(repo, w.commit(repo, w.readmeBlobNB, blob))
	case 3:
		blob := w.mustGit(repo, main, "hash-object", "-w", "--stdin")
		w.setRef(repo, w.commit(repo, w.readmeBlobB, blob))
	}
	return repo
}

// gitAnswer asks Git itself what the value of a key is in the repository as placed (`git config --get`, with
// --type=bool for the valueless form): ok=false when Git does not answer (key unset at Git level, or a key it rejects).
func (w *c11Worker) gitAnswer(repo, canon string, asBool bool) (val string, ok bool) {
	args := []string{"config", "--get"}
	if asBool {
		args = append(args, "--type=bool")
	}
	cmd := exec.Command("git", append(args, canon)...)
	cmd.Dir = repo
	cmd.Env = os.Environ()
	out, err := cmd.Output()
	if err != nil {
		return "", false
	}
	return strings.TrimSuffix(string(out), "\n"), true
}

// fields of the snapshot that a documented key may legitimately change
func c11FieldAllowed(field string, lkeys []string) bool {
	for _, k := range lkeys {
		if !c11Documented(k) {
			continue
		}
		switch {
		case k == "lfs.url" || k == "lfs.pushurl" || strings.HasSuffix(k, ".lfsurl"):
			if strings.HasPrefix(field, "ep:") || strings.HasPrefix(field, "access:") || strings.HasPrefix(field, "manifest:") {
				return true
			}
			if field == "remotes" && strings.HasSuffix(k, ".lfsurl") {
				return true // remote.{name}.lfsurl makes {name} a remote git-lfs knows
			}
		case strings.HasSuffix(k, ".access"):
			if strings.HasPrefix(field, "access:") {
				return true
			}
		case k == "lfs.gitprotocol":
			if field == "gitprotocol" || strings.HasPrefix(field, "ep:") {
				return true
			}
		case k == "lfs.fetchinclude":
			if field == "fetchinclude" {
				return true
			}
		case k == "lfs.fetchexclude":
			if field == "fetchexclude" {
				return true
			}
		case k == "lfs.skipdownloaderrors":
			if field == "skipdlerr" {
				return true
			}
		}
	}
	return false
}

var c11ReMultiReaders = regexp.MustCompile(`^(http\.(.*\.)?extraheader|url\..*\.(insteadof|pushinsteadof))$`)

// fingerprint class used by the "unlisted key effective" clause: the remote.* family is grouped by the shape that
// lets it through (two-part key / name containing a dot), everything else by section.<shape>.variable.
func c11LeakClass(canon string) string {
	// git-lfs splits every `git config -l` line at the first '=': that prefix is the key it really sees
	seen := canon
	if i := strings.IndexByte(seen, '='); i >= 0 {
		seen = seen[:i]
	}
	parts := strings.Split(seen, ".")
	if parts[0] == "remote" {
		if len(parts) == 2 {
			return "remote.<two-part>"
		}
		if len(parts) > 3 {
			return "remote.<dotted>.*"
		}
	}
	return c11ClassOf(canon)
}

func c11Contains(l []string, s string) bool {
	for _, x := range l {
		if x == s {
			return true
		}
	}
	return false
}

var c11Keys []c11Key
var c11Rd *c11Readers

// c11InprocCase maps the choice vector to a case.  quick = union of axis-aligned slices through the product,
// thorough = the full product (plus the Git-level slice).
func c11InprocCase(x *vx.X, thorough bool) c11Case {
	var c c11Case
	// the [section.subsection] spelling only exists for subsections made of [a-z0-9.-]
	nSpell := func(k c11Key) int {
		if k.HasSub && c11ReDottedOK.MatchString(k.Sub) {
			return len(c11Spellings)
		}
		return len(c11Spellings) - 1
	}
	isLevelKey := func(k c11Key) bool {
		cn := k.Canon()
		return c11Documented(cn) || k.Sec == "remote" || strings.HasPrefix(cn, "lfs.extension.")
	}
	if thorough {
		// 0 = full product with gitside in {absent, local}; 1 = Git-level slice (every level x every location);
		// 2 = coincidence slice (level keys x duplicated-with-Git's-value multiplicities x every level x every location)
		top := x.In(4)
		if top == 3 {
			// Git-value slice: the Git-level copy of the key is BLANK (level keys x every level x every location) or
			// VALUELESS (boolean keys x file-based levels x every location)
			c11GitValueSlice(x, &c, true)
			return c
		}
		if top == 0 {
			c.Key = c11Keys[x.In(len(c11Keys))]
			c.Spelling = x.In(nSpell(c.Key))
			c.Mult = x.In(c11NBaseMults)
			c.Loc = x.In(len(c11Locs))
			c.GitSide = x.In(2)
			return c
		}
		sub := c11LevelKeys()
		c.Key = sub[x.In(len(sub))]
		if top == 2 {
			c.Mult = c11NBaseMults + x.In(len(c11Mults)-c11NBaseMults)
		}
		c.GitSide = 1 + x.In(len(c11GitSides)-1)
		c.Loc = x.In(len(c11Locs))
		return c
	}
	switch x.In(7) {
	case 6: // Git-value slice: the Git-level copy of the key is BLANK (level keys x (5 Git levels at worktree + Git-local at the
		// 3 other locations)) or VALUELESS (boolean keys x the 4 file-based Git levels at worktree)
		c11GitValueSlice(x, &c, false)
	case 5: // coincidence slice: the duplicated .lfsconfig key repeats the value Git's own configuration has
		// (documented keys: every Git level; remote.* / lfs.extension.* keys: Git-local), worktree location
		sub := c11LevelKeys()
		c.Key = sub[x.In(len(sub))]
		c.Mult = c11NBaseMults + x.In(len(c11Mults)-c11NBaseMults)
		if c11Documented(c.Key.Canon()) {
			c.GitSide = 1 + x.In(len(c11GitSides)-1)
		} else {
			c.GitSide = 1
		}
	case 0: // every key at every location
		c.Key = c11Keys[x.In(len(c11Keys))]
		c.Loc = x.In(len(c11Locs))
	case 1: // every key in every non-default spelling
		c.Key = c11Keys[x.In(len(c11Keys))]
		c.Spelling = 1 + x.In(nSpell(c.Key)-1)
	case 2: // every key in every non-default multiplicity (the garbage-line variant only for the level-slice keys:
		// it makes `git config` fail as a whole, whatever the key)
		c.Key = c11Keys[x.In(len(c11Keys))]
		n := c11NBaseMults - 2
		if isLevelKey(c.Key) {
			n++
		}
		c.Mult = 1 + x.In(n)
	case 3: // every key also set in Git's local configuration
		c.Key = c11Keys[x.In(len(c11Keys))]
		c.GitSide = 1
	case 4: // documented / remote.* / lfs.extension.* keys: every Git level at the worktree location, Git-local at the other locations
		sub := c11LevelKeys()
		c.Key = sub[x.In(len(sub))]
		nl := len(c11GitSides) - 1
		v := x.In(nl + len(c11Locs) - 1)
		if v < nl {
			c.GitSide = 1 + v
		} else {
			c.GitSide = 1
			c.Loc = 1 + v - nl
		}
	}
	return c
}

// c11FileLevels are the Git levels that are files (a valueless key cannot be given through GIT_CONFIG_COUNT).
var c11FileLevels = []int{1, 2, 4, 5}

func c11GitValueSlice(x *vx.X, c *c11Case, thorough bool) {
	c.GitKind = 1 + x.In(2)
	if c.GitKind == 1 {
		sub := c11LevelKeys()
		c.Key = sub[x.In(len(sub))]
		nl := len(c11GitSides) - 1
		if thorough {
			c.GitSide = 1 + x.In(nl)
			c.Loc = x.In(len(c11Locs))
			return
		}
		v := x.In(nl + len(c11Locs) - 1)
		if v < nl {
			c.GitSide = 1 + v
		} else {
			c.GitSide = 1
			c.Loc = 1 + v - nl
		}
		return
	}
	sub := c11BoolKeys()
	c.Key = sub[x.In(len(sub))]
	c.GitSide = c11FileLevels[x.In(len(c11FileLevels))]
	if thorough {
		c.Loc = x.In(len(c11Locs))
	}
}

var c11BoolKeysCache []c11Key

func c11BoolKeys() []c11Key {
	if c11BoolKeysCache == nil {
		for _, k := range c11Keys {
			if c11IsBoolKey(k) {
				c11BoolKeysCache = append(c11BoolKeysCache, k)
			}
		}
	}
	return c11BoolKeysCache
}

var c11LevelKeysCache []c11Key

func c11LevelKeys() []c11Key {
	if c11LevelKeysCache == nil {
		for _, k := range c11Keys {
			cn := k.Canon()
			if c11Documented(cn) || k.Sec == "remote" || strings.HasPrefix(cn, "lfs.extension.") {
				c11LevelKeysCache = append(c11LevelKeysCache, k)
			}
		}
	}
	return c11LevelKeysCache
}

// runInproc executes one case inside a worker process.
func (w *c11Worker) runInproc(x *vx.X, thorough bool) vx.Result {
	c := c11InprocCase(x, thorough)
	k := c.effKey()
	canon := k.Canon()
	w.curKey = canon
	_, _, lvals, companion := c11LfsConfig(c, "")
	lkeys := []string{canon}
	if companion != "" {
		lkeys = append(lkeys, companion)
	}

	// baseline: same Git configuration, no .lfsconfig anywhere
	bkey := fmt.Sprintf("%v|%d|%s", c.Loc == 3, c.GitSide, canon)
	if c.GitSide == 0 {
		bkey = fmt.Sprintf("%v|0", c.Loc == 3)
	} else if c.GitKind != 0 {
		bkey += "|" + c11GitKinds[c.GitKind]
	}
	base, ok := w.baseline[bkey]
	if !ok {
		repo := w.place(c, false)
		bo := w.observe(repo)
		if bo.Panic != "" || bo.LoadErr {
			return vx.Result{Inconcl: "baseline configuration (no .lfsconfig) could not be loaded: " + c.ID() + ": " + c11FirstLines(bo.Stderr+bo.Panic, 2), Sample: map[string]interface{}{"case": c.ID(), "stderr": bo.Stderr, "panic": bo.Panic}}
		}
		base = bo.Snap
		if len(w.baseline) < 4096 {
			w.baseline[bkey] = base
		}
	}
	repo := w.place(c, true)
	o := w.observe(repo)
	// what Git itself answers for the key in this repository (last value wins, blank included); the dictionary's
	// Git value is only the fallback for keys `git config --get` does not answer for
	gitSays, gitAnswered := k.GitVal, false
	if c.GitSide != 0 {
		if v, ok := w.gitAnswer(repo, canon, c.GitKind == 2); ok {
			gitSays, gitAnswered = v, true
		} else if c.GitKind == 2 {
			gitSays = "true"
		}
	}

	r := vx.Result{}
	sample := map[string]interface{}{"case": c.ID(), "key": canon, "lfsconfig_value": k.Val}
	r.Sample = sample
	class := c11ClassOf(canon)
	viol := func(fp, msg string) {
		main, inc, _, _ := c11LfsConfig(c, "<inc.cfg>")
		r.Violations = append(r.Violations, vx.Violation{Fingerprint: fp, Msg: msg + "\n.lfsconfig (" + c11Locs[c.Loc] + "):\n" + main + inc,
			Detail: map[string]interface{}{"case": c.ID(), "stderr": o.Stderr}})
	}
	if o.Panic != "" {
		viol("C11:config-load-panic:"+class, "loading the configuration panicked: "+o.Panic)
		r.Outcome = "panic"
		return r
	}

	// --- disposition of the hostile key
	all := o.All[canon]
	// lonly: the values that exist only in .lfsconfig (a value equal to the one Git's own configuration sets is Git's)
	lonly := lvals
	if c.GitSide != 0 {
		lonly = nil
		for _, v := range lvals {
			if v != k.GitVal && !(gitAnswered && c.GitKind != 2 && v == gitSays) {
				lonly = append(lonly, v)
			}
		}
	}
	visible := false
	for _, v := range lonly {
		if c11Contains(all, v) {
			visible = true
		}
	}
	last := ""
	if len(all) > 0 {
		last = all[len(all)-1]
	}
	if o.GetOK || len(all) == 0 {
		// the value in effect is what the real Git.Get returns (Bool, Int, the endpoint finder, URLConfig all go through it)
		last = o.Get
	}
	inEffect := visible && (c11Contains(lonly, last) || c11ReMultiReaders.MatchString(c11FoldKey(canon)))
	warned := strings.Contains(o.Stderr, "keys were ignored") && strings.Contains(o.Stderr, "  "+canon+"\n")
	documented := c11Documented(canon)
	consumed := c11Rd.Consumed(canon)
	disp := "absent"
	switch {
	case o.LoadErr:
		disp = "git-config-dropped(load-error)"
	case inEffect && documented:
		disp = "effective-documented"
	case inEffect && consumed:
		disp = "effective-UNLISTED"
	case inEffect:
		disp = "stored-but-unread"
	case visible:
		disp = "shadowed-by-git"
	case warned:
		disp = "ignored+warned"
	}
	parsed := visible || warned || (companion != "" && c11Contains(o.All[companion], c11SafeVal)) || (c.Mult == 4 && len(o.All[companion]) > 0)
	if parsed {
		r.NonTrivial = []string{fmt.Sprintf("%016x", vx.Hash64(c.ID()))}
	}

	// clause A: only documented keys take effect
	if inEffect && !documented && consumed {
		viol("C11:unlisted-key-effective:"+c11LeakClass(canon),
			fmt.Sprintf("key %q is not in the documented .lfsconfig allow-list, comes only from .lfsconfig, and is in effect (Git.Get(%q)=%q, all=%q); git-lfs reads this key", canon, canon, last, all))
	}
	// a documented key placed directly in .lfsconfig but not honoured (e.g. a subsection containing '=' that git-lfs
	// cannot parse out of `git config -l`): not demanded by the statement (a safety property); recorded in the outcome
	if documented && c.GitSide == 0 && c.Mult != 3 && c.Mult != 5 && !o.LoadErr && !inEffect {
		disp = "documented-but-dropped"
	}
	// clause E: Git's own value wins
	prec := ""
	if c.GitSide != 0 && !o.LoadErr {
		prec = " git-wins"
		if c.GitKind != 0 {
			prec = " git-wins(" + c11GitKinds[c.GitKind] + ")"
		}
		sample["git_config_get"] = gitSays
		sample["git_answered"] = gitAnswered
		if last == gitSays && (o.GetOK || gitSays == "") {
			// Git's value is the effective one
		} else if !o.GetOK || !c11Contains(lonly, last) {
			// neither value is what git-lfs uses (e.g. a key git-lfs cannot parse out of `git config -l`): nobody wins
			prec = " neither-wins"
		} else {
			prec = " GIT-LOSES"
			if c.GitKind != 0 {
				prec += "(" + c11GitKinds[c.GitKind] + ")"
			}
			fp := "C11:lfsconfig-beats-git:" + class + ":" + c11GitSides[c.GitSide]
			if c.GitKind == 2 {
				fp = "C11:lfsconfig-beats-valueless-git-key:" + class
			}
			viol(fp, fmt.Sprintf("key %q is set in Git's own configuration (%s, %s; `git config --get` answers %q) and to %q in .lfsconfig, but Git.Get returns %q (all=%q)", canon, c11GitSides[c.GitSide], c11GitKinds[c.GitKind], gitSays, lvals, last, all))
		}
	}
	// semantic snapshot against the baseline
	var diffs []string
	fields := map[string]bool{}
	for f := range base {
		fields[f] = true
	}
	for f := range o.Snap {
		fields[f] = true
	}
	for f := range fields {
		if base[f] != o.Snap[f] {
			diffs = append(diffs, f)
		}
	}
	sort.Strings(diffs)
	eff := ""
	if !o.LoadErr {
		var unexplained, beaten []string
		for _, f := range diffs {
			switch {
			case strings.HasPrefix(f, "giturl:"):
				// clause C: a Git remote's URL as git-lfs sees it differs from what Git says
				parts := strings.Split(f, ":")
				truth := c11GitTruth(parts[1], parts[2] == "push")
				if c.GitSide != 0 && (canon == "remote."+parts[1]+".url" || canon == "remote."+parts[1]+".pushurl") {
					continue // Git's own configuration of this case sets that URL itself
				}
				if o.Snap[f] != "" && o.Snap[f] != truth {
					eff += " REMOTE-URL-REWRITTEN"
					viol("C11:git-remote-url-rewritten:"+class, fmt.Sprintf("Git says the %s URL of remote %q is %q, git-lfs (GitRemoteURL) uses %q because of %q in .lfsconfig",
						parts[2], parts[1], truth, o.Snap[f], canon))
				}
			case f == "ext":
				eff += " EXTENSION-REGISTERED"
				extClass := class
				if strings.HasPrefix(canon, "lfs.extension.") && !strings.HasSuffix(canon, ".clean") && !strings.HasSuffix(canon, ".smudge") {
					extClass = "lfs.extension.<name>.<non-command-property>"
				}
				viol("C11:filter-extension-registered:"+extClass, fmt.Sprintf("the set of filter extensions changed from [%s] to [%s] because of %q in .lfsconfig (warned as ignored: %v)", base[f], o.Snap[f], canon, warned))
			default:
				if c.GitSide != 0 && c11FieldAllowed(f, []string{canon}) && !(companion != "" && c11FieldAllowed(f, []string{companion})) {
					// clause E, observed through the consumers: the key is ALSO set in Git's own configuration, the baseline has
					// exactly that Git configuration and no .lfsconfig, so a field this key controls must not move at all
					// (a consumer that merges all values instead of taking Git's would show up here and nowhere else)
					beaten = append(beaten, fmt.Sprintf("%s: %q -> %q", f, base[f], o.Snap[f]))
				} else if !c11FieldAllowed(f, lkeys) {
					unexplained = append(unexplained, fmt.Sprintf("%s: %q -> %q", f, base[f], o.Snap[f]))
				}
			}
		}
		if len(beaten) > 0 {
			eff += " GIT-LOSES-IN-EFFECT"
			fp := "C11:lfsconfig-beats-git-in-effect:" + class + ":" + c11GitSides[c.GitSide]
			if c.GitKind == 2 {
				fp = "C11:lfsconfig-beats-valueless-git-key:" + class
			}
			viol(fp, fmt.Sprintf("key %q is set to %q in Git's own configuration (%s) and to %q in .lfsconfig; Git's value must win, but what git-lfs does differs from the same Git configuration without .lfsconfig: %s", canon, k.GitVal, c11GitSides[c.GitSide], lvals, strings.Join(beaten, "; ")))
		}
		if len(unexplained) > 0 {
			eff += " UNDOCUMENTED-EFFECT"
			if len(r.Violations) == 0 {
				viol("C11:undocumented-effect:"+c11LeakClass(canon), fmt.Sprintf("%q in .lfsconfig changed git-lfs behaviour outside what the documented keys control: %s", canon, strings.Join(unexplained, "; ")))
			}
		} else if len(diffs) > 0 && eff == "" {
			eff = " documented-effect"
		}
	}
	r.Outcome = "inproc: " + disp + prec + eff
	sample["outcome"] = r.Outcome
	sample["changed_fields"] = diffs
	if len(r.Violations) > 6 {
		r.Violations = r.Violations[:6]
	}
	return r
}

// ---------------------------------------------------------------------------------------------
// worker process protocol

type c11Req struct {
	Prefix []vx.Point `json:"prefix"`
}

func c11WorkerMain() {
	dir := os.Getenv("VERIF_C11_WORKER")
	thorough := os.Getenv("VERIF_TIER") == "thorough"
	c11Keys, c11Rd = c11BuildDictionary(c11RepoDir())
	out := os.NewFile(3, "resp")
	enc := json.NewEncoder(out)
	var w *c11Worker
	func() {
		defer func() {
			if e := recover(); e != nil {
				enc.Encode(vx.Result{ToolErr: fmt.Sprintf("worker setup failed: %v", e)})
				os.Exit(3)
			}
		}()
		w = c11NewWorker(dir)
	}()
	enc.Encode(vx.Result{Outcome: "ready"})
	in := bufio.NewReaderSize(os.Stdin, 1<<20)
	for {
		line, err := in.ReadBytes('\n')
		if len(line) > 0 {
			var req c11Req
			if e := json.Unmarshal(line, &req); e != nil {
				enc.Encode(vx.Result{ToolErr: "bad request: " + e.Error()})
				continue
			}
			res := vx.SafeRun(func(x *vx.X) vx.Result { return w.runInproc(x, thorough) }, req.Prefix)
			if e := enc.Encode(res); e != nil {
				os.Exit(4)
			}
		}
		if err != nil {
			os.Exit(0)
		}
	}
}

type c11Proc struct {
	cmd  *exec.Cmd
	in   io.WriteCloser
	out  *bufio.Reader
	outf *os.File
	dir  string
}

type c11Pool struct {
	mu      sync.Mutex
	free    chan *c11Proc
	scratch string
	n       int
	next    int
	all     []*c11Proc
}

func (p *c11Pool) spawn() (*c11Proc, error) {
	p.mu.Lock()
	p.next++
	id := p.next
	p.mu.Unlock()
	dir := filepath.Join(p.scratch, fmt.Sprintf("c11w%d", id))
	os.MkdirAll(dir, 0755)
	self := os.Getenv("VERIF_SELF")
	if self == "" {
		self = os.Args[0]
	}
	cmd := exec.Command(self, "-test.run", "^TestVerifC11$", "-test.timeout", "0", "-test.count", "1")
	cmd.Env = append(os.Environ(), "VERIF_C11_WORKER="+dir)
	cmd.Dir = dir
	pr, pw, err := os.Pipe()
	if err != nil {
		return nil, err
	}
	cmd.ExtraFiles = []*os.File{pw}
	stdin, err := cmd.StdinPipe()
	if err != nil {
		return nil, err
	}
	logf, _ := os.Create(filepath.Join(dir, "worker.log"))
	cmd.Stdout, cmd.Stderr = logf, logf
	if err := cmd.Start(); err != nil {
		return nil, err
	}
	pw.Close()
	if logf != nil {
		logf.Close()
	}
	pc := &c11Proc{cmd: cmd, in: stdin, out: bufio.NewReaderSize(pr, 1<<20), outf: pr, dir: dir}
	var hello vx.Result
	line, err := pc.out.ReadBytes('\n')
	if err != nil || json.Unmarshal(line, &hello) != nil || hello.Outcome != "ready" {
		pc.kill()
		lg, _ := os.ReadFile(filepath.Join(dir, "worker.log"))
		return nil, fmt.Errorf("worker did not start: %v %s %s", err, hello.ToolErr, lg)
	}
	p.mu.Lock()
	p.all = append(p.all, pc)
	p.mu.Unlock()
	return pc, nil
}

func (pc *c11Proc) kill() {
	pc.in.Close()
	if pc.cmd.Process != nil {
		pc.cmd.Process.Kill()
	}
	pc.cmd.Wait()
	pc.outf.Close()
}

func c11NewPool(scratch string, n int) (*c11Pool, error) {
	p := &c11Pool{free: make(chan *c11Proc, n), scratch: scratch, n: n}
	var wg sync.WaitGroup
	errs := make(chan error, n)
	for i := 0; i < n; i++ {
		wg.Add(1)
		go func() {
			defer wg.Done()
			pc, err := p.spawn()
			if err != nil {
				errs <- err
				return
			}
			p.free <- pc
		}()
	}
	wg.Wait()
	select {
	case err := <-errs:
		p.Close()
		return nil, err
	default:
	}
	return p, nil
}

func (p *c11Pool) Close() {
	p.mu.Lock()
	all := p.all
	p.all = nil
	p.mu.Unlock()
	for _, pc := range all {
		pc.kill()
	}
}

// Exec runs one prefix in a free worker.  A worker that dies is replaced; the death is reported as a tool error
// (the code under test runs in-process there, so a crash would be visible as o.Panic first).
func (p *c11Pool) Exec(prefix []vx.Point) vx.Result {
	pc := <-p.free
	b, _ := json.Marshal(c11Req{Prefix: prefix})
	b = append(b, '\n')
	type ans struct {
		line []byte
		err  error
	}
	ch := make(chan ans, 1)
	go func() {
		if _, err := pc.in.Write(b); err != nil {
			ch <- ans{nil, err}
			return
		}
		line, err := pc.out.ReadBytes('\n')
		ch <- ans{line, err}
	}()
	var a ans
	select {
	case a = <-ch:
	case <-time.After(120 * time.Second):
		a = ans{nil, fmt.Errorf("worker timeout")}
	}
	var res vx.Result
	if a.err == nil {
		if e := json.Unmarshal(a.line, &res); e != nil {
			a.err = e
		}
	}
	if a.err != nil {
		pc.kill()
		lg, _ := os.ReadFile(filepath.Join(pc.dir, "worker.log"))
		if len(lg) > 2000 {
			lg = lg[len(lg)-2000:]
		}
		npc, err := p.spawn()
		if err != nil {
			panic(vx.ToolError{Msg: "cannot respawn worker: " + err.Error()})
		}
		p.free <- npc
		if strings.Contains(a.err.Error(), "timeout") {
			return vx.Result{Points: prefix, Inconcl: "worker timeout (tool guard)"}
		}
		return vx.Result{Points: prefix, ToolErr: fmt.Sprintf("worker died: %v\n%s", a.err, lg)}
	}
	p.free <- pc
	return res
}

func c11RepoDir() string {
	if r := os.Getenv("VERIF_REPO"); r != "" {
		return r
	}
	return "/repo"
}

// ---------------------------------------------------------------------------------------------

func TestVerifC11(t *testing.T) {
	if os.Getenv("VERIF_C11_WORKER") != "" {
		c11WorkerMain()
		return
	}
	c := vx.NewCheck("C11", "exploration")
	scratch := os.Getenv("VERIF_SCRATCH")
	if scratch == "" {
		fmt.Println("TOOL-ERROR VERIF_SCRATCH not set (run through ./check C11)")
		os.Exit(2)
	}
	c11Keys, c11Rd = c11BuildDictionary(c11RepoDir())
	thorough := c.Thorough()
	var rf *vx.ReplayFile
	if c.Replay != "" {
		// the choice vector of a replay file is laid out by the tier that produced it
		var err error
		if rf, err = c.LoadReplay(); err != nil {
			fmt.Println("TOOL-ERROR cannot load replay:", err)
			os.Exit(2)
		}
		if rf.Tier == "thorough" || rf.Tier == "quick" {
			thorough = rf.Tier == "thorough"
			c.Tier = rf.Tier
			os.Setenv("VERIF_TIER", rf.Tier) // worker processes read it
		}
	}
	c.Rule = "inproc: one case = one .lfsconfig holding ONE dictionary key (section x subsection shape {none, plain name, dotted name, URL, empty, name with '=', names whose components are variable names of the allowed key forms: x.lfsurl, lfsurl, x.access, access, lfsurl.x} x variable; dictionary = curated list of every key git-lfs/git reads " +
		"+ every key literal extracted from the Go sources of the tree at check time) in one spelling {lower, UPPER, Mixed, [section.sub] syntax} and multiplicity " +
		"{single, duplicated, next to a safe key, via [include], injected through a newline in a safe key's value, followed by a garbage line; with a Git-side value also: duplicated with one copy equal to Git's value} at one location " +
		"{worktree file, index only, HEAD only, bare HEAD} with the same key absent/present at one level of Git's own configuration {local, global, GIT_CONFIG_COUNT env, included file, worktree config}, the Git-level copy holding the dictionary's Git value, a BLANK value (`key =`) or, for boolean keys, the VALUELESS form (`[lfs]\\n\\tkey` = true, .lfsconfig then says false); 'Git wins' is judged against what `git config --get` itself answers in the case repository and against the real Git.Get; " +
		"loaded by the real config.New() in a process whose cwd is the repository and observed through Git.All(), Extensions(), Remotes(), Remote()/PushRemote(), the real endpoint finder and tq manifest. " +
		"quick = union of axis-aligned slices (all keys x 4 locations; all keys x applicable spellings; all keys x multiplicities [garbage-line variant: level keys only]; all keys x Git-local; documented/remote.*/lfs.extension.* keys x (5 Git levels at worktree + Git-local at the 3 other locations); coincidence slice: the same level keys listed twice/thrice in .lfsconfig with one value EQUAL to the Git-level value {[gitval,other],[other,gitval],[gitval,gitval,other]} x (documented keys: 5 Git levels, others: Git-local) at worktree; Git-value slice: level keys x BLANK Git value x (5 Git levels at worktree + Git-local at the 3 other locations) and boolean keys x VALUELESS Git key x 4 file-based Git levels at worktree), thorough = full product keys x spellings x multiplicities x locations x {absent, Git-local} + level keys x 5 levels x 4 locations + coincidence slice x 5 levels x 4 locations + Git-value slice x every level x 4 locations. " +
		"e2e: one case = one hostile key group (or all groups together) placed in .lfsconfig / in Git's own config (control) / in both, at one location, then a fixed script of real git-lfs commands " +
		"(env, add via filter-process, push, fetch, pull, locks, smudge, install --local, ext list) against a good and an evil fake LFS server with sentinel programs. " +
		"distinct_nontrivial = distinct cases in which the .lfsconfig was demonstrably parsed by git-lfs (its key was reported as ignored, or a value of it reached the environment)"
	c.Assumptions = []string{
		"documented allow-list = docs/man/git-lfs-config.adoc section LFSCONFIG: the eight lfs.* keys, lfs.{*}.access, remote.{name}.lfsurl ({*},{name} = any present subsection)",
		"a key 'takes effect' when a value that exists only in .lfsconfig is what Git.Get returns (or is among GetAll for the multi-valued readers http.*.extraheader, url.*.insteadof) AND git-lfs has a reader for that key, or when the semantic snapshot (remote selection, remote URLs, endpoints, extensions, adapters, hook dir, storage dir, ...) differs from the snapshot without .lfsconfig in a field no documented key controls; a key that is merely stored but that nothing reads is counted (outcome stored-but-unread), not reported",
		"system git 2.39.5; GIT_CONFIG_NOSYSTEM=1; hermetic HOME per worker",
		"a syntactically broken worktree .lfsconfig makes git-lfs drop ALL of Git's configuration (outcome git-config-dropped); the statement does not forbid that, it is counted, not reported",
	}
	c.Bounds["dictionary_keys"] = len(c11Keys)
	c.Bounds["spellings"] = len(c11Spellings)
	c.Bounds["multiplicities"] = c11NBaseMults
	c.Bounds["coincidence_multiplicities"] = len(c11Mults) - c11NBaseMults
	c.Bounds["locations"] = len(c11Locs)
	c.Bounds["git_levels"] = len(c11GitSides) - 1
	c.Bounds["level_slice_keys"] = len(c11LevelKeys())
	c.Bounds["subsection_shapes"] = len(c11Shapes)
	c.Bounds["git_value_kinds"] = len(c11GitKinds)
	c.Bounds["boolean_keys_valueless_slice"] = len(c11BoolKeys())
	c.Bounds["inproc_space"] = map[bool]string{false: "union of 7 axis-aligned slices", true: "full product keys x spellings x multiplicities x locations x {absent,local} + level slice + coincidence slice + Git-value slice"}[thorough]
	c.Bounds["reader_patterns_found_in_source"] = c11Rd.Found
	c.Bounds["reader_patterns_not_in_curated_list"] = len(c11Rd.Extracted)

	nw := runtime.NumCPU()
	if nw > 16 {
		nw = 16
	}
	if c.Replay != "" {
		nw = 1
	}
	var pool *c11Pool
	getPool := func() *c11Pool {
		if pool == nil {
			var err error
			pool, err = c11NewPool(scratch, nw)
			if err != nil {
				fmt.Println("TOOL-ERROR cannot start worker pool:", err)
				os.Exit(2)
			}
		}
		return pool
	}
	var dumpMu sync.Mutex
	dump := func(r vx.Result) vx.Result {
		if f := os.Getenv("C11_DUMP"); f != "" {
			if m, ok := r.Sample.(map[string]interface{}); ok {
				dumpMu.Lock()
				if fh, err := os.OpenFile(f, os.O_APPEND|os.O_CREATE|os.O_WRONLY, 0644); err == nil {
					fmt.Fprintf(fh, "%s\t%v\t%v\n", r.Outcome, m["case"], m["changed_fields"])
					fh.Close()
				}
				dumpMu.Unlock()
			}
		}
		return r
	}
	inprocExec := func(p []vx.Point) vx.Result { return dump(getPool().Exec(p)) }
	e2e := c11NewE2E(scratch, thorough)
	e2eExec := func(p []vx.Point) vx.Result { return vx.SafeRun(e2e.run, p) }

	if rf != nil {
		exec := inprocExec
		if rf.Scenario == "e2e" {
			exec = e2eExec
		}
		r := exec(rf.Prefix)
		st := vx.NewStats()
		st.Absorb(rf.Prefix, &r, 0)
		fmt.Printf("REPLAY scenario=%s outcome=%q violations=%d\n", rf.Scenario, r.Outcome, len(r.Violations))
		if b, err := json.MarshalIndent(r.Sample, "  ", " "); err == nil {
			fmt.Printf("  case: %s\n", b)
		}
		code := c.Finish([]vx.Part{{Scenario: rf.Scenario, Stats: st, Exec: exec}}, nil)
		if pool != nil {
			pool.Close()
		}
		os.Exit(code)
	}

	only := os.Getenv("VERIF_ONLY")
	// the two parts run concurrently: both mostly wait for git / git-lfs subprocesses
	deadline := c.DeadlineAfter(185*time.Second, 22*time.Minute)
	var e2eStats, inprocStats *vx.Stats
	var wg sync.WaitGroup
	if only == "" || only == "e2e" {
		wg.Add(1)
		go func() {
			defer wg.Done()
			ex := &vx.Explorer{Name: "e2e", BoundEnv: 0, BoundSch: 0, BoundSum: -1, Run: e2e.run, Workers: nw, Deadline: deadline}
			e2eStats = ex.Explore()
		}()
	}
	if only == "" || only == "inproc" {
		wg.Add(1)
		go func() {
			defer wg.Done()
			getPool()
			ex := &vx.Explorer{Name: "inproc", BoundEnv: 0, BoundSch: 0, BoundSum: -1, Exec: inprocExec, Workers: nw, Deadline: deadline}
			inprocStats = ex.Explore()
		}()
	}
	wg.Wait()
	var parts []vx.Part
	if e2eStats != nil {
		parts = append(parts, vx.Part{Scenario: "e2e", Stats: e2eStats, Exec: e2eExec})
	}
	if inprocStats != nil {
		parts = append(parts, vx.Part{Scenario: "inproc", Stats: inprocStats, Exec: inprocExec})
	}
	extra := map[string]interface{}{
		"reader_patterns_extracted": c11Rd.Extracted,
		"doc_allowlist_in_tree":     c11DocAllowListInTree(c11RepoDir()),
	}
	code := c.Finish(parts, extra)
	if pool != nil {
		pool.Close()
	}
	os.Exit(code)
}

// c11DocAllowListInTree reads the LFSCONFIG section of the man page of the tree under test (evidence only:
// the property is fixed against the allow-list hard-coded above).
func c11DocAllowListInTree(repo string) []string {
	b, err := os.ReadFile(filepath.Join(repo, "docs", "man", "git-lfs-config.adoc"))
	if err != nil {
		return []string{"(man page not readable: " + err.Error() + ")"}
	}
	s := string(b)
	i := strings.Index(s, "== LFSCONFIG")
	if i < 0 {
		return []string{"(no LFSCONFIG section)"}
	}
	s = s[i:]
	if j := strings.Index(s[3:], "\n== "); j >= 0 {
		s = s[:j+3]
	}
	var r []string
	for _, l := range strings.Split(s, "\n") {
		if strings.HasPrefix(l, "* ") {
			r = append(r, strings.ReplaceAll(strings.TrimPrefix(l, "* "), `\`, ""))
		}
	}
	return r
}
