package c13

// C13 — repository shapes, base-repository builder and the reference model.
//
// A shape is a tiny history written down as data: for every commit (and for the index) the complete
// list of tree entries.  An LFS entry names a content id and a pointer *form* (canonical pointer,
// one of three non-canonical but decodable encodings, or the raw content committed as a plain blob);
// the form of an entry is either fixed or taken from a "slot" of the enumerated form assignment.
// Whether a path is LFS-tracked in a commit is stated by construction (and self-checked against
// `git check-attr` / `git ls-tree` when a base repository is built).  The reference model never asks
// git-lfs anything: expectations are computed from this data alone.

import (
	"bytes"
	"crypto/sha1"
	"encoding/hex"
	"fmt"
	"os"
	"path/filepath"
	"sort"
	"strings"
	"sync"

	"github.com/git-lfs/git-lfs/v3/verifx/gitx"
)

type form int

const (
	fCanon form = iota // canonical pointer text
	fCRLF              // CRLF line endings (decodable, not canonical)
	fRaw               // the content itself committed as a plain git blob ("should have been a pointer")
	fNoNL              // canonical text without the final newline (decodable, not canonical)
	fAlias             // pre-release version URL alias (decodable, not canonical)
)

var formNames = map[form]string{fCanon: "canon", fCRLF: "crlf", fRaw: "raw", fNoNL: "nonl", fAlias: "alias"}

func (f form) isPointer() bool    { return f != fRaw }
func (f form) nonCanonical() bool { return f == fCRLF || f == fNoNL || f == fAlias }

type entKind int

const (
	kLFS     entKind = iota // LFS content in some form
	kText                   // ordinary git file with literal text
	kSymlink                // mode 120000, literal target
)

type ent struct {
	path    string
	kind    entKind
	content int    // kLFS: index into contents
	slot    int    // kLFS: >=0 form taken from the assignment; -1: use fixed
	fixed   form   // kLFS with slot -1
	tracked bool   // path is LFS-tracked by this tree's .gitattributes (by construction)
	text    string // kText / kSymlink
}

type tree []ent

// revSpec is one revision argument with its documented reading.
type revSpec struct {
	arg          string // "" = no argument
	commits      []int  // commits inspected (indices into shape.commits)
	base         int    // for ranges: index of A in A..B (objects reachable from A or its ancestors are only "may"); -1 otherwise
	useIndex     bool   // no argument: the index is examined too (objects)
	thoroughOnly bool
}

// exclSpec is one fetch-filter configuration of the repository (lfs.fetchexclude / lfs.fetchinclude).
// Only lfs.fetchexclude is documented to restrict fsck (docs/man/git-lfs-fsck.adoc); lfs.fetchinclude
// must not change what fsck examines, so the model ignores `include` except for labelling a miss.
type exclSpec struct {
	pattern  string          // value of lfs.fetchexclude ("" = unset)
	paths    map[string]bool // paths of this shape the pattern matches (gitignore semantics; by construction)
	include  string          // value of lfs.fetchinclude ("" = unset)
	incPaths map[string]bool // LFS paths of this shape inside the include pattern (by construction; some inside, some outside)
}

type shape struct {
	name     string
	commits  []tree
	index    tree  // nil: index == HEAD
	objects  []int // content ids present in the local store (may include unreferenced ones)
	nslots   int
	revs     []revSpec
	excl     []exclSpec
	inclCfgs []exclSpec    // configurations that set lfs.fetchinclude (alone, and together with lfs.fetchexclude)
	objForms [][]form      // form assignments used by the "objects" slice (first = all canonical)
	attrVars []attrVariant // sizes/layouts of the .gitattributes files explored by the "attrsize" slice (nil: none)
	note     string
	// index-state family (c13_index_verif_test.go): one HEAD, many staged states
	family   string                      // "" = history shapes with the standard slices; "index" = index-state shapes with their own slices; "attrlay" = the attribute-layout world (c13_attr_verif_test.go)
	layouts  []attrLayout                // family "attrlay": layout of the attribute files of commit i
	wtKeep   []string                    // paths removed from the index whose work-tree file stays (git rm --cached); content = HEAD's blob
	diffWant func(assign []form) []string // expected `git diff-index -M --cached HEAD` entries (self-check of the construction), nil: not checked
}

const attrLine = " filter=lfs diff=lfs merge=lfs -text\n"

// deterministic contents; sizes straddle the 1024-byte pointer cutoff
var contentSizes = []int{40, 1500, 300, 2048, 77, 1100, 9, 5000}

func contentBytes(i int) []byte { return gitx.Content("bin", contentSizes[i], uint32(1000+i)) }

var (
	contentOnce sync.Once
	contentOid  []string
	contentData [][]byte
)

func initContents() {
	contentOnce.Do(func() {
		for i := range contentSizes {
			b := contentBytes(i)
			contentData = append(contentData, b)
			contentOid = append(contentOid, gitx.Oid(b))
		}
	})
}

func pointerBytes(content int, f form) []byte {
	initContents()
	oid, n := contentOid[content], len(contentData[content])
	switch f {
	case fCanon:
		return []byte(fmt.Sprintf("version https://git-lfs.github.com/spec/v1\noid sha256:%s\nsize %d\n", oid, n))
	case fCRLF:
		return []byte(fmt.Sprintf("version https://git-lfs.github.com/spec/v1\r\noid sha256:%s\r\nsize %d\r\n", oid, n))
	case fNoNL:
		return []byte(fmt.Sprintf("version https://git-lfs.github.com/spec/v1\noid sha256:%s\nsize %d", oid, n))
	case fAlias:
		return []byte(fmt.Sprintf("version https://hawser.github.com/spec/v1\noid sha256:%s\nsize %d\n", oid, n))
	case fRaw:
		return contentData[content]
	}
	panic("bad form")
}

func (e ent) formIn(assign []form) form {
	if e.kind != kLFS {
		return fCanon
	}
	if e.slot >= 0 {
		return assign[e.slot]
	}
	return e.fixed
}

// attrVariant pads the .gitattributes files of a shape: the size of an attributes blob is an input
// dimension of its own (a blob of >= 1024 bytes is "too large to be a pointer", yet must still be read
// as attributes).  Size 0 = the short file as written in the shape table.  The tracking lines stay the
// same and are placed first (padding after) or last (padding before); padding = comment lines and
// patterns for extensions that no file of the shape has.  Tracked-ness is therefore unchanged, which the
// base builder re-checks with `git check-attr` for every variant.
type attrVariant struct {
	name       string
	rootSize   int
	rootLast   bool
	nestedSize int
	nestedLast bool
}

var attrShort = attrVariant{name: "short"}

func padAttr(tracking string, size int, last bool) string {
	if size == 0 {
		return tracking
	}
	if size < len(tracking)+2 {
		panic("padAttr: size too small")
	}
	var pad strings.Builder
	for i := 0; ; i++ {
		line := fmt.Sprintf("*.pad%03d"+strings.TrimSuffix(attrLine, "\n")+"\n", i)
		if i%3 == 0 {
			line = fmt.Sprintf("# padding line %03d: nothing below matches a file of this repository\n", i)
		}
		if len(tracking)+pad.Len()+len(line) > size-2 {
			break
		}
		pad.WriteString(line)
	}
	r := size - len(tracking) - pad.Len()
	filler := "#" + strings.Repeat("x", r-2) + "\n"
	out := tracking + pad.String() + filler
	if last {
		out = pad.String() + filler + tracking
	}
	if len(out) != size {
		panic("padAttr: size arithmetic")
	}
	return out
}

func (e ent) blob(assign []form, av attrVariant) []byte {
	switch e.kind {
	case kLFS:
		return pointerBytes(e.content, e.formIn(assign))
	case kText:
		if e.path == ".gitattributes" {
			return []byte(padAttr(e.text, av.rootSize, av.rootLast))
		}
		if strings.HasSuffix(e.path, "/.gitattributes") {
			return []byte(padAttr(e.text, av.nestedSize, av.nestedLast))
		}
	}
	return []byte(e.text)
}

func (e ent) mode() string {
	if e.kind == kSymlink {
		return "120000"
	}
	return "100644"
}

func gitBlobSha(data []byte) string {
	h := sha1.New()
	fmt.Fprintf(h, "blob %d\x00", len(data))
	h.Write(data)
	return hex.EncodeToString(h.Sum(nil))
}

func attrs(patterns ...string) string {
	var b strings.Builder
	for _, p := range patterns {
		b.WriteString(p + attrLine)
	}
	return b.String()
}

func lfs(path string, content, slot int) ent {
	return ent{path: path, kind: kLFS, content: content, slot: slot, tracked: true}
}
func lfsFixed(path string, content int, f form, tracked bool) ent {
	return ent{path: path, kind: kLFS, content: content, slot: -1, fixed: f, tracked: tracked}
}
func text(path, s string) ent { return ent{path: path, kind: kText, text: s} }

func set(paths ...string) map[string]bool {
	m := map[string]bool{}
	for _, p := range paths {
		m[p] = true
	}
	return m
}

func allCanon(n int) []form { return make([]form, n) }

// shapes returns the repository shapes.  Commits are linear; commit i has parent i-1.
func shapes() []shape {
	binAttr := text(".gitattributes", attrs("*.bin"))
	two := func() []revSpec {
		return []revSpec{
			{arg: "", commits: []int{1}, base: -1, useIndex: true},
			{arg: "HEAD", commits: []int{1}, base: -1},
			{arg: "HEAD^", commits: []int{0}, base: -1},
			{arg: "HEAD^..HEAD", commits: []int{1}, base: 0},
		}
	}
	var r []shape

	// S0: two commits, one file modified (old version only in HEAD^), one added; one unreferenced object in the store.
	r = append(r, shape{
		name: "basic",
		commits: []tree{
			{binAttr, lfs("a.bin", 0, 0), lfs("b.bin", 1, 1), text("README.md", "# readme\n")},
			{binAttr, lfs("a.bin", 0, 0), lfs("b.bin", 3, 1), lfs("c.bin", 2, 2), text("README.md", "# readme\n")},
		},
		objects:  []int{0, 1, 2, 3, 4}, // 4 is referenced by nothing
		nslots:   3,
		revs:     append(two(), revSpec{arg: "main", commits: []int{1}, base: -1, thoroughOnly: true}),
		excl:     []exclSpec{{pattern: "", paths: nil}, {pattern: "/b.bin", paths: set("b.bin")}},
		inclCfgs: []exclSpec{{include: "/a.bin", incPaths: set("a.bin")}, {pattern: "/b.bin", paths: set("b.bin"), include: "/c.bin", incPaths: set("c.bin")}},
		objForms: [][]form{allCanon(3), {fCRLF, fCanon, fRaw}},
	})

	// S1: duplicate content under two paths (same oid), the second added in HEAD.
	r = append(r, shape{
		name: "dup",
		commits: []tree{
			{binAttr, lfs("a.bin", 0, 0), lfs("b.bin", 1, 1)},
			{binAttr, lfs("a.bin", 0, 0), lfs("b.bin", 1, 1), lfs("sub/d.bin", 0, 2)},
		},
		objects: []int{0, 1, 2}, // 2 unreferenced
		nslots:  3,
		revs:    two(),
		// "/a.bin" exempts a.bin but NOT sub/d.bin, which references the same object; "sub/" the other way round.
		excl:     []exclSpec{{pattern: "", paths: nil}, {pattern: "sub/", paths: set("sub/d.bin")}, {pattern: "/a.bin", paths: set("a.bin")}},
		inclCfgs: []exclSpec{{include: "sub/", incPaths: set("sub/d.bin")}, {pattern: "sub/", paths: set("sub/d.bin"), include: "/b.bin", incPaths: set("b.bin")}},
		objForms: [][]form{allCanon(3), {fCanon, fCanon, fCRLF}},
	})

	// S2: staged state differs from HEAD: new file staged, existing file modified in the index, one file removed from the index.
	r = append(r, shape{
		name: "staged",
		commits: []tree{
			{binAttr, lfs("a.bin", 0, 2)},
			{binAttr, lfs("a.bin", 0, 2), lfs("b.bin", 1, 1)},
		},
		index:    tree{binAttr, lfs("b.bin", 3, 1), lfs("e.bin", 2, 0)},
		objects:  []int{0, 1, 2, 3},
		nslots:   3,
		revs:     two(),
		excl:     []exclSpec{{pattern: "", paths: nil}, {pattern: "/e.bin", paths: set("e.bin")}},
		inclCfgs: []exclSpec{{include: "/a.bin", incPaths: set("a.bin")}, {pattern: "/e.bin", paths: set("e.bin"), include: "/a.bin", incPaths: set("a.bin")}},
		objForms: [][]form{allCanon(3), {fCRLF, fRaw, fCanon}},
	})

	// S3: .gitattributes changes between the commits: *.dat becomes tracked only in HEAD.
	r = append(r, shape{
		name: "attrs",
		commits: []tree{
			{binAttr, lfs("a.bin", 0, 0), lfsFixed("x.dat", 1, fRaw, false)},
			{text(".gitattributes", attrs("*.bin", "*.dat")), lfs("a.bin", 0, 0), lfs("x.dat", 1, 1), lfs("y.dat", 2, 2)},
		},
		objects:  []int{0, 1, 2},
		nslots:   3,
		revs:     two(),
		excl:     []exclSpec{{pattern: "", paths: nil}, {pattern: "*.dat", paths: set("x.dat", "y.dat")}},
		inclCfgs: []exclSpec{{include: "*.bin", incPaths: set("a.bin")}, {pattern: "*.dat", paths: set("x.dat", "y.dat"), include: "/x.dat", incPaths: set("x.dat")}},
		objForms: [][]form{allCanon(3), {fCanon, fRaw, fNoNL}},
	})

	// S4: nested .gitattributes, symlink, tracked empty file, untracked pointer-shaped file, path with blanks and quotes.
	subAttr := text("sub/.gitattributes", attrs("*.dat"))
	misc := func(xc int) tree {
		return tree{binAttr, subAttr,
			lfs("a.bin", 0, 0),
			lfs("sub/x.dat", xc, 1),
			lfs("sp ace/q \"1\".bin", 4, 2),
			text("x.dat", "plain data file outside sub/, not tracked\n"),
			text("empty.bin", ""), // a tracked empty file is its own (empty) pointer
			{path: "link.bin", kind: kSymlink, text: "a.bin"},
			lfsFixed("ptr.txt", 5, fCRLF, false), // pointer-shaped but not LFS-tracked
			text("plain.txt", "hello\n"),
		}
	}
	r = append(r, shape{
		name:     "misc",
		commits:  []tree{misc(1), misc(2)},
		objects:  []int{0, 1, 2, 4, 5},
		nslots:   3,
		revs:     two(),
		excl:     []exclSpec{{pattern: "", paths: nil}, {pattern: "/sub", paths: set("sub/x.dat")}},
		inclCfgs: []exclSpec{{include: "/sub", incPaths: set("sub/x.dat")}, {pattern: "/sub", paths: set("sub/x.dat"), include: "/a.bin", incPaths: set("a.bin")}},
		objForms: [][]form{allCanon(3), {fAlias, fCRLF, fRaw}},
		attrVars: []attrVariant{
			{name: "root1023", rootSize: 1023}, {name: "root1024", rootSize: 1024}, {name: "root1025", rootSize: 1025}, {name: "root4000", rootSize: 4000},
			{name: "root1024last", rootSize: 1024, rootLast: true}, {name: "root4000last", rootSize: 4000, rootLast: true},
			{name: "nested1023", nestedSize: 1023}, {name: "nested1024", nestedSize: 1024}, {name: "nested1025", nestedSize: 1025}, {name: "nested4000", nestedSize: 4000},
			{name: "nested1024last", nestedSize: 1024, nestedLast: true}, {name: "nested4000last", nestedSize: 4000, nestedLast: true},
			{name: "both4000", rootSize: 4000, nestedSize: 4000, nestedLast: true},
		},
	})

	// S5: three commits with a deletion; more revision arguments.
	r = append(r, shape{
		name: "three",
		commits: []tree{
			{binAttr, lfs("a.bin", 0, 0)},
			{binAttr, lfs("a.bin", 1, 0), lfs("b.bin", 2, 1)},
			{binAttr, lfs("a.bin", 1, 0), lfs("c.bin", 3, 2)},
		},
		objects: []int{0, 1, 2, 3},
		nslots:  3,
		revs: []revSpec{
			{arg: "", commits: []int{2}, base: -1, useIndex: true},
			{arg: "HEAD", commits: []int{2}, base: -1},
			{arg: "HEAD~1", commits: []int{1}, base: -1},
			{arg: "HEAD~2", commits: []int{0}, base: -1, thoroughOnly: true},
			{arg: "HEAD~2..HEAD", commits: []int{1, 2}, base: 0},
			{arg: "HEAD~2..HEAD~1", commits: []int{1}, base: 0, thoroughOnly: true},
			{arg: "HEAD..HEAD", commits: nil, base: 2, thoroughOnly: true},
		},
		excl:     []exclSpec{{pattern: "", paths: nil}, {pattern: "/a.bin", paths: set("a.bin")}},
		inclCfgs: []exclSpec{{include: "/c.bin", incPaths: set("c.bin")}, {pattern: "/a.bin", paths: set("a.bin"), include: "/b.bin", incPaths: set("b.bin")}},
		objForms: [][]form{allCanon(3), {fRaw, fCRLF, fCanon}},
	})
	r = append(r, indexShapes()...)
	r = append(r, alShape()) // appended last: the positions of the earlier shapes stay
	for i := range r {
		if len(r[i].objForms[0]) != r[i].nslots {
			panic("shape table: objForms")
		}
	}
	return r
}

// ---------------------------------------------------------------------------------------------
// base repositories

type baseInfo struct {
	dir     string
	commits []string // commit ids, index = commit number
	err     string
	// family "attrlay": per commit, path -> value of the filter attribute as `git check-attr` evaluates it against that
	// commit's tree (attrTruth); nil for the other shapes, whose tracked-ness is stated by construction and self-checked
	truth []map[string]string
}

type baseCache struct {
	mu    sync.Mutex
	m     map[string]*baseEntry
	world *gitx.World
	root  string
}

type baseEntry struct {
	once sync.Once
	info *baseInfo
}

func formKey(a []form) string {
	s := make([]string, len(a))
	for i, f := range a {
		s[i] = formNames[f]
	}
	return strings.Join(s, ",")
}

func (bc *baseCache) get(sh *shape, assign []form, av attrVariant) *baseInfo {
	key := sh.name + "-" + strings.ReplaceAll(formKey(assign), ",", "_")
	if av.name != "short" {
		key += "-" + av.name
	}
	bc.mu.Lock()
	e := bc.m[key]
	if e == nil {
		e = &baseEntry{}
		bc.m[key] = e
	}
	bc.mu.Unlock()
	e.once.Do(func() {
		info := &baseInfo{dir: filepath.Join(bc.root, key)}
		defer func() {
			if p := recover(); p != nil {
				info.err = fmt.Sprint(p)
			}
			e.info = info
		}()
		buildBase(bc.world, sh, assign, av, info)
	})
	return e.info
}

func fiData(b *bytes.Buffer, data []byte) {
	fmt.Fprintf(b, "data %d\n", len(data))
	b.Write(data)
	b.WriteByte('\n')
}

func fiPath(p string) string {
	if strings.ContainsAny(p, "\"\n") || strings.HasPrefix(p, " ") {
		q := strings.ReplaceAll(p, "\\", "\\\\")
		q = strings.ReplaceAll(q, "\"", "\\\"")
		q = strings.ReplaceAll(q, "\n", "\\n")
		return "\"" + q + "\""
	}
	return p
}

// buildBase writes the history with one `git fast-import` stream (deterministic ids), loads the index
// state, checks the files out (pointer text, as after GIT_LFS_SKIP_SMUDGE), fills the local LFS store
// and self-checks the result against the shape table.
func buildBase(w *gitx.World, sh *shape, assign []form, av attrVariant, info *baseInfo) {
	initContents()
	dir := info.dir
	os.RemoveAll(dir)
	os.MkdirAll(dir, 0755)
	must := func(r gitx.Res, what string) string {
		if !r.OK() {
			panic(fmt.Sprintf("base %s: %s failed: %s", filepath.Base(dir), what, r))
		}
		return r.Out
	}
	must(w.Git(dir, "init", "-q", "-b", "main", "--template="), "git init")
	const when = "1704110400 +0000"
	var s bytes.Buffer
	writeTree := func(t tree) {
		s.WriteString("deleteall\n")
		for _, e := range t {
			fmt.Fprintf(&s, "M %s inline %s\n", e.mode(), fiPath(e.path))
			fiData(&s, e.blob(assign, av))
		}
	}
	for i, t := range sh.commits {
		fmt.Fprintf(&s, "commit refs/heads/main\nmark :%d\ncommitter V <v@example.com> %s\n", i+1, when)
		fiData(&s, []byte(fmt.Sprintf("commit %d", i)))
		if i > 0 {
			fmt.Fprintf(&s, "from :%d\n", i)
		}
		writeTree(t)
	}
	if sh.index != nil {
		fmt.Fprintf(&s, "commit refs/verif/index\ncommitter V <v@example.com> %s\n", when)
		fiData(&s, []byte("index state"))
		fmt.Fprintf(&s, "from :%d\n", len(sh.commits))
		writeTree(sh.index)
	}
	must(w.RunIn(dir, s.Bytes(), nil, "git", "fast-import", "--quiet"), "git fast-import")
	for i := range sh.commits {
		back := len(sh.commits) - 1 - i
		info.commits = append(info.commits, strings.TrimSpace(must(w.Git(dir, "rev-parse", fmt.Sprintf("main~%d", back)), "rev-parse")))
	}
	idxTree := "main"
	if sh.index != nil {
		idxTree = "refs/verif/index"
	}
	must(w.Git(dir, "read-tree", idxTree), "read-tree")
	if sh.index != nil {
		must(w.Git(dir, "update-ref", "-d", "refs/verif/index"), "update-ref -d")
	}
	// hooks + local filter config first, so that no later git-lfs command has anything left to install
	must(w.LFS(dir, "install", "--local"), "git lfs install --local")
	must(w.RunIn(dir, nil, []string{"GIT_LFS_SKIP_SMUDGE=1"}, "git", "checkout-index", "-a", "-u", "-f"), "checkout-index")
	lfsdir := filepath.Join(dir, ".git", "lfs")
	for _, c := range sh.objects {
		gitx.PutObject(lfsdir, contentData[c])
	}
	os.MkdirAll(filepath.Join(lfsdir, "tmp"), 0755)
	// `git rm --cached`: the file left the index but is still in the work tree (untracked now), holding HEAD's blob
	for _, p := range sh.wtKeep {
		found := false
		for _, e := range sh.commits[len(sh.commits)-1] {
			if e.path == p {
				gitx.WriteFile(dir, p, e.blob(assign, av), 0644)
				found = true
			}
		}
		if !found {
			panic("shape table: wtKeep path " + p + " is not in HEAD")
		}
	}
	// ---- self-check of the construction (tool error when it fails, never a violation)
	for i, t := range sh.commits {
		checkTree(w, dir, info.commits[i], t, assign, av, fmt.Sprintf("commit %d", i))
	}
	// index content
	it := sh.index
	if it == nil {
		it = sh.commits[len(sh.commits)-1]
	}
	out := must(w.Git(dir, "ls-files", "-s", "-z"), "ls-files")
	got := map[string]string{}
	for _, rec := range strings.Split(out, "\x00") {
		if rec == "" {
			continue
		}
		tab := strings.IndexByte(rec, '\t')
		f := strings.Fields(rec[:tab])
		got[rec[tab+1:]] = f[0] + " " + f[1]
	}
	for _, e := range it {
		want := e.mode() + " " + gitBlobSha(e.blob(assign, av))
		if got[e.path] != want {
			panic(fmt.Sprintf("base %s: index entry %q is %q, want %q", filepath.Base(dir), e.path, got[e.path], want))
		}
		delete(got, e.path)
	}
	if len(got) != 0 {
		panic(fmt.Sprintf("base %s: unexpected index entries %v", filepath.Base(dir), got))
	}
	if sh.family == "attrlay" {
		// tracked-ness is git's own answer per commit tree; the table's declarations are only checked against it
		info.truth = attrTruth(w, filepath.Dir(dir), sh, dir, info.commits)
		checkLayoutTable(sh, info.truth)
		return
	}
	// tracked-ness by construction == git's own attribute lookup (index tree; HEAD tree when they agree on attributes)
	var paths []string
	for _, e := range it {
		if e.kind != kSymlink {
			paths = append(paths, e.path)
		}
	}
	args := append([]string{"check-attr", "--cached", "-z", "filter", "--"}, paths...)
	out = must(w.Git(dir, args...), "check-attr")
	f := strings.Split(out, "\x00")
	attr := map[string]string{}
	for i := 0; i+2 < len(f); i += 3 {
		attr[f[i]] = f[i+2]
	}
	for _, e := range it {
		if e.kind == kSymlink {
			continue
		}
		isLfs := attr[e.path] == "lfs"
		want := e.tracked || (e.kind == kText && e.path == "empty.bin")
		if isLfs != want {
			panic(fmt.Sprintf("base %s: path %q filter=%q but shape says tracked=%v", filepath.Base(dir), e.path, attr[e.path], want))
		}
	}
	// the staged state is what the table claims it is, in the terms git-lfs' index scan sees it (`git diff-index -M --cached HEAD`)
	if sh.diffWant != nil {
		out = must(w.Git(dir, "diff-index", "-M", "--cached", "--name-status", "-z", "HEAD"), "diff-index")
		f := strings.Split(out, "\x00")
		var got []string
		for i := 0; i+1 < len(f); {
			st := f[i]
			if st == "" {
				break
			}
			if st[0] == 'R' || st[0] == 'C' {
				if i+2 >= len(f) {
					panic("diff-index: short rename record")
				}
				score := "<100"
				if st[1:] == "100" {
					score = "100"
				}
				got = append(got, fmt.Sprintf("%c%s %s>%s", st[0], score, f[i+1], f[i+2]))
				i += 3
			} else {
				got = append(got, st+" "+f[i+1])
				i += 2
			}
		}
		want := append([]string(nil), sh.diffWant(assign)...)
		sort.Strings(got)
		sort.Strings(want)
		if strings.Join(got, "|") != strings.Join(want, "|") {
			panic(fmt.Sprintf("base %s: git diff-index -M --cached HEAD says %v, the state table says %v", filepath.Base(dir), got, want))
		}
	}
}

func checkTree(w *gitx.World, dir, commit string, t tree, assign []form, av attrVariant, what string) {
	r := w.Git(dir, "ls-tree", "-r", "-z", commit)
	if !r.OK() {
		panic("ls-tree failed: " + r.String())
	}
	got := map[string]string{}
	for _, rec := range strings.Split(r.Out, "\x00") {
		if rec == "" {
			continue
		}
		tab := strings.IndexByte(rec, '\t')
		f := strings.Fields(rec[:tab])
		got[rec[tab+1:]] = f[0] + " " + f[2]
	}
	for _, e := range t {
		want := e.mode() + " " + gitBlobSha(e.blob(assign, av))
		if got[e.path] != want {
			panic(fmt.Sprintf("base %s: %s entry %q is %q, want %q", filepath.Base(dir), what, e.path, got[e.path], want))
		}
		delete(got, e.path)
	}
	if len(got) != 0 {
		panic(fmt.Sprintf("base %s: %s has unexpected entries %v", filepath.Base(dir), what, got))
	}
}

// ---------------------------------------------------------------------------------------------
// reference model

type level int

const (
	lvNone level = iota // must not be reported / touched
	lvMay               // documentation silent: either answer accepted
	lvMust              // must be reported when damaged
)

type expectation struct {
	// objects: oid -> level and why (reason of the strongest demand)
	obj    map[string]level
	objWhy map[string]string
	// oid -> true when an in-scope path matching lfs.fetchexclude references it as well
	objAlsoExcluded map[string]bool
	// oid -> true when a path matching lfs.fetchexclude in an inspected COMMIT tree references it (the class of finding-1.md:
	// the commit scan lists every blob once, under one of its paths)
	objExcludedInCommit map[string]bool
	// oid -> true when a demanding (tracked, non-exempt) in-scope path lies inside lfs.fetchinclude (only used to label a miss)
	objInsideInclude map[string]bool
	// pointer problems
	ncMust, ncMay   map[string]string // git blob sha -> lfs oid
	rawMust, rawMay map[string]bool   // path
	rawPairs        map[string]bool   // "commit path" pairs that really are non-pointers at tracked paths in inspected commits (incl. may)
	rawIndexOnly    map[string]bool   // paths that are raw at a tracked path of the index state (no commit to attribute them to)
	ncWhy, rawWhy   map[string]string
	// family "attrlay" only (git's own attribute answer available): where a demanded problem sits and which present,
	// NOT LFS-tracked files of the inspected commits a false report could be about
	ncAt        map[string][2]string // demanded non-canonical blob -> {commit index, path} (first inspected commit)
	rawAt       map[string]string    // demanded raw path -> commit index (first inspected commit)
	untrackedNC map[string][2]string // blob sha of a non-canonical pointer at a path that is not LFS-tracked -> {commit index, path}
	untrackedAt map[string]string    // "commit path" of a regular file that is not LFS-tracked in that commit -> commit index
}

func raise(m map[string]level, why map[string]string, oid string, l level, reason string) {
	if l > m[oid] {
		m[oid] = l
		why[oid] = reason
	}
}

// expect computes, from the shape table alone, what `git lfs fsck <flags> <rev>` has to say.
//
// Objects.  An object is demanded (lvMust) when some LFS-tracked path that does not match
// lfs.fetchexclude references it through a decodable pointer in an inspected tree (the commit(s) named,
// and the index when no revision is given).  For a range A..B only the objects that are not referenced
// anywhere in A or its ancestors are lvMust; the others referenced by the range's trees are lvMay (the man
// page says "that range is inspected" without saying whether unchanged files count).  Pointer-shaped
// blobs at paths that are not LFS-tracked are lvMay.  Everything else is lvNone.
//
// Pointers.  For every inspected commit (never the index: "for --objects, the index"), every tracked regular
// file that is raw content must be named by path, every tracked non-canonical pointer by its blob id.
// Paths matching lfs.fetchexclude and index-only entries are lvMay.
func expect(sh *shape, assign []form, info *baseInfo, rv revSpec, ex exclSpec, doObjects, doPointers bool) *expectation {
	initContents()
	x := &expectation{obj: map[string]level{}, objWhy: map[string]string{}, objAlsoExcluded: map[string]bool{}, objExcludedInCommit: map[string]bool{}, objInsideInclude: map[string]bool{}, ncMust: map[string]string{}, ncMay: map[string]string{},
		rawMust: map[string]bool{}, rawMay: map[string]bool{}, rawPairs: map[string]bool{}, rawIndexOnly: map[string]bool{}, ncWhy: map[string]string{}, rawWhy: map[string]string{},
		ncAt: map[string][2]string{}, rawAt: map[string]string{}, untrackedNC: map[string][2]string{}, untrackedAt: map[string]string{}}
	// is the path LFS-tracked in commit c?  git's own answer where it was asked (family attrlay), else the shape table (self-checked); c < 0 = the index
	trk := func(c int, e ent) bool {
		if c >= 0 && info != nil && info.truth != nil {
			return info.truth[c][e.path] == "lfs"
		}
		return e.tracked
	}
	refsOf := func(t tree) map[string]bool {
		m := map[string]bool{}
		for _, e := range t {
			if e.kind == kLFS && e.formIn(assign).isPointer() {
				m[contentOid[e.content]] = true
			}
		}
		return m
	}
	if doObjects {
		baseRefs := map[string]bool{}
		if rv.base >= 0 {
			for i := 0; i <= rv.base; i++ {
				for o := range refsOf(sh.commits[i]) {
					baseRefs[o] = true
				}
			}
		}
		scan := func(t tree, src string, c int) {
			for _, e := range t {
				if e.kind != kLFS || !e.formIn(assign).isPointer() {
					continue
				}
				oid := contentOid[e.content]
				switch {
				case ex.paths[e.path]:
					// exempt: contributes nothing
					x.objAlsoExcluded[oid] = true
					if src == "commit" {
						x.objExcludedInCommit[oid] = true
					}
				case !trk(c, e):
					raise(x.obj, x.objWhy, oid, lvMay, "untracked-pointer")
				case baseRefs[oid]:
					raise(x.obj, x.objWhy, oid, lvMay, "range-unchanged")
				default:
					raise(x.obj, x.objWhy, oid, lvMust, src)
					if ex.incPaths[e.path] {
						x.objInsideInclude[oid] = true
					}
				}
			}
		}
		for _, c := range rv.commits {
			scan(sh.commits[c], "commit", c)
		}
		if rv.useIndex && sh.index != nil {
			scan(sh.index, "index", -1)
		}
	}
	if doPointers {
		scan := func(t tree, commit string, may bool, c int) {
			for _, e := range t {
				if e.kind != kLFS {
					continue
				}
				if !trk(c, e) {
					if c >= 0 && info.truth != nil {
						x.untrackedAt[commit+" "+e.path] = fmt.Sprint(c)
						if e.formIn(assign).nonCanonical() {
							x.untrackedNC[gitBlobSha(e.blob(assign, attrShort))] = [2]string{fmt.Sprint(c), e.path}
						}
					}
					continue
				}
				f := e.formIn(assign)
				soft := may || ex.paths[e.path]
				why := "commit"
				if may {
					why = "index-only"
				} else if ex.paths[e.path] {
					why = "fetchexcluded"
				}
				if f == fRaw {
					if commit != "" {
						x.rawPairs[commit+" "+e.path] = true
					} else {
						x.rawIndexOnly[e.path] = true
					}
					if soft {
						x.rawMay[e.path] = true
					} else {
						x.rawMust[e.path] = true
						x.rawWhy[e.path] = why
						if _, ok := x.rawAt[e.path]; !ok {
							x.rawAt[e.path] = fmt.Sprint(c)
						}
					}
				} else if f.nonCanonical() {
					sha := gitBlobSha(e.blob(assign, attrShort))
					if soft {
						x.ncMay[sha] = contentOid[e.content]
					} else {
						x.ncMust[sha] = contentOid[e.content]
						x.ncWhy[sha] = formNames[f]
						if _, ok := x.ncAt[sha]; !ok {
							x.ncAt[sha] = [2]string{fmt.Sprint(c), e.path}
						}
					}
				}
			}
		}
		for _, c := range rv.commits {
			scan(sh.commits[c], info.commits[c], false, c)
		}
		if rv.useIndex && sh.index != nil {
			scan(sh.index, "", true, -1)
		}
	}
	return x
}

func sortedKeys(m map[string]bool) []string {
	var r []string
	for k := range m {
		r = append(r, k)
	}
	sort.Strings(r)
	return r
}

func sortedStrKeys[V any](m map[string]V) []string {
	var r []string
	for k := range m {
		r = append(r, k)
	}
	sort.Strings(r)
	return r
}
