package c13

// C13 — `git lfs fsck` reports exactly the damaged objects and pointers and only moves those.
//
// End-to-end exploration on the real git-lfs binary.  One execution = one case:
//   (slice, shape, pointer-form assignment, damage vector over the local objects, revision argument,
//    flag set, lfs.fetchexclude value)
// The base repository of (shape, form assignment) is built once (content-addressed under $VERIF_SCRATCH),
// copied per case, damaged, `git lfs fsck ...` is run in it and the report, the exit status and the
// before/after state of the whole repository directory are compared with the reference model
// (c13_model_verif_test.go).  Nothing is sampled: every slice is a complete product of stated domains.

import (
	"fmt"
	"io/fs"
	"os"
	"path/filepath"
	"regexp"
	"runtime"
	"sort"
	"strconv"
	"strings"
	"sync/atomic"
	"syscall"
	"testing"
	"time"

	"github.com/git-lfs/git-lfs/v3/verifx/gitx"
	"github.com/git-lfs/git-lfs/v3/verifx/vx"
)

// damage kinds applied to one local object file
const (
	dIntact = iota
	dDeleted
	dTruncated
	dExtended
	dBitflip
	dReplaced // bytes of another (valid) object of the same store
	nDamage
)

var damageNames = []string{"intact", "deleted", "truncated", "extended", "bitflip", "replaced"}

type flagSet struct {
	args              []string
	objects, pointers bool // which checks the documentation says are performed
	dry               bool
}

var (
	flNone   = flagSet{nil, true, true, false}
	flObj    = flagSet{[]string{"--objects"}, true, false, false}
	flPtr    = flagSet{[]string{"--pointers"}, false, true, false}
	flDry    = flagSet{[]string{"--dry-run"}, true, true, true}
	flDryObj = flagSet{[]string{"--dry-run", "--objects"}, true, false, true}
	flDryPtr = flagSet{[]string{"--dry-run", "--pointers"}, false, true, true}
	flBoth   = flagSet{[]string{"--objects", "--pointers"}, true, true, false}
	flShort  = flagSet{[]string{"-d", "--pointers", "--objects"}, true, true, true}
)

// damageVectors lists every vector over n objects with lo..hi damaged ones (each damaged one in
// every one of the 5 kinds), ordered by number of damaged objects.
func damageVectors(n, lo, hi int) [][]int {
	var out [][]int
	for want := lo; want <= hi && want <= n; want++ {
		var rec func(pos, left int, cur []int)
		rec = func(pos, left int, cur []int) {
			if pos == n {
				if left == 0 {
					out = append(out, append([]int(nil), cur...))
				}
				return
			}
			if n-pos > left {
				rec(pos+1, left, append(cur, dIntact))
			}
			if left > 0 {
				for d := 1; d < nDamage; d++ {
					rec(pos+1, left-1, append(cur, d))
				}
			}
		}
		rec(0, want, nil)
	}
	return out
}

func vecKey(v []int) string {
	b := make([]byte, len(v))
	for i, d := range v {
		b[i] = byte('0' + d)
	}
	return string(b)
}

func formAssignments(alphabet []form, n int) [][]form {
	out := [][]form{{}}
	for i := 0; i < n; i++ {
		var next [][]form
		for _, a := range out {
			for _, f := range alphabet {
				next = append(next, append(append([]form(nil), a...), f))
			}
		}
		out = next
	}
	return out
}

// slice = one complete product of domains for one shape:
// forms x damages x (revision arguments of the shape) x flags x (fetchexclude values of the shape)
type sliceDef struct {
	name     string
	shape    int
	forms    [][]form
	damages  [][]int
	flags    []flagSet
	attrVars []attrVariant // nil: only the short .gitattributes files of the shape table
	revs     []revSpec     // nil: every revision argument of the shape in this tier
	excl     []exclSpec    // nil: every fetchexclude value of the shape
	cwds     []string      // nil: fsck is started from the top of the work tree; else: from each of these sub-directories (relative, must exist in the work tree)
	skip     bool          // VERIF_ONLY (debugging aid) deselected this slice; it keeps its position so that choice vectors stay valid
}

func (sl *sliceDef) domains(p *plan, sh *shape) ([]attrVariant, []revSpec, []exclSpec) {
	av, rv, ex := sl.attrVars, sl.revs, sl.excl
	if av == nil {
		av = []attrVariant{attrShort}
	}
	if rv == nil {
		rv = p.revs[sl.shape]
	}
	if ex == nil {
		ex = sh.excl
	}
	return av, rv, ex
}

type plan struct {
	slices []sliceDef
	revs   [][]revSpec // per shape: the revision arguments of this tier
	kObj   int
	alpha  []form
}

// mixedDamage: first object bit-flipped, last-but-one deleted (crossed with every form assignment in the "pointers" slices).
func mixedDamage(n int) []int {
	a := make([]int, n)
	a[0] = dBitflip
	if n > 2 {
		a[n-2] = dDeleted
	}
	return a
}

func without(all [][]form, drop ...[]form) [][]form {
	d := map[string]bool{}
	for _, a := range drop {
		d[formKey(a)] = true
	}
	var r [][]form
	for _, a := range all {
		if !d[formKey(a)] {
			r = append(r, a)
		}
	}
	return r
}

func makePlan(shs []shape, thorough bool) plan {
	p := plan{}
	p.alpha = []form{fCanon, fCRLF, fRaw}
	p.kObj = 1
	if thorough {
		p.alpha = []form{fCanon, fCRLF, fRaw, fNoNL}
		p.kObj = 2
	}
	for si, sh := range shs {
		var revs []revSpec
		for _, rv := range sh.revs {
			if thorough || !rv.thoroughOnly {
				revs = append(revs, rv)
			}
		}
		p.revs = append(p.revs, revs)
		if sh.family != "" {
			continue // the index-state shapes and the attribute-layout world have their own slices (indexSlices, attrSlices), appended below
		}
		n := len(sh.objects)
		none := make([]int, n)
		canon := allCanon(sh.nslots)
		if len(sh.attrVars) > 0 {
			// attrsize: size and layout of the root / nested .gitattributes blob x EVERY form assignment (pointer check)
			all := formAssignments([]form{fCanon, fCRLF, fRaw}, sh.nslots)
			if thorough {
				p.slices = append(p.slices, sliceDef{name: "attrsize/" + sh.name, shape: si, forms: all, damages: [][]int{none}, flags: []flagSet{flNone, flPtr}, attrVars: sh.attrVars})
			} else {
				var quickVars []attrVariant
				for _, v := range sh.attrVars {
					if v.rootSize == 0 || v.nestedSize == 0 { // the combined variant is thorough-only
						quickVars = append(quickVars, v)
					}
				}
				p.slices = append(p.slices, sliceDef{name: "attrsize/" + sh.name, shape: si, forms: all, damages: [][]int{none}, flags: []flagSet{flNone, flPtr},
					attrVars: quickVars, revs: revs[:1], excl: sh.excl[:1]})
			}
		}
		// fetchinclude: configurations that set lfs.fetchinclude (alone / with lfs.fetchexclude) so that some LFS paths are inside and
		// some outside x every vector with <=1 damaged object x every revision argument.  Only lfs.fetchexclude may restrict fsck.
		if thorough {
			p.slices = append(p.slices, sliceDef{name: "fetchinclude/" + sh.name, shape: si, forms: sh.objForms, damages: damageVectors(n, 0, 1), flags: []flagSet{flNone, flObj, flDry}, excl: sh.inclCfgs})
		} else {
			p.slices = append(p.slices, sliceDef{name: "fetchinclude/" + sh.name, shape: si, forms: [][]form{canon}, damages: damageVectors(n, 0, 1), flags: []flagSet{flNone}, excl: sh.inclCfgs})
		}
		if !thorough {
			// objects: all-canonical history x every vector with <=1 damaged object
			// (fetchexclude is crossed here only for shape dup; for the others the pointers/* slice below crosses it with the mixed damage)
			oex := sh.excl[:1]
			if sh.name == "dup" {
				oex = sh.excl
			}
			p.slices = append(p.slices, sliceDef{name: "objects/" + sh.name, shape: si, forms: [][]form{canon}, damages: damageVectors(n, 0, 1), flags: []flagSet{flNone, flDry}, excl: oex})
			// pointers: every other form assignment x the mixed damage vector
			p.slices = append(p.slices, sliceDef{name: "pointers/" + sh.name, shape: si, forms: without(formAssignments(p.alpha, sh.nslots), canon), damages: [][]int{mixedDamage(n)}, flags: []flagSet{flNone, flPtr, flObj}})
			continue
		}
		p.slices = append(p.slices, sliceDef{name: "objects1/" + sh.name, shape: si, forms: sh.objForms, damages: damageVectors(n, 0, 1), flags: []flagSet{flNone, flObj, flPtr, flDry}})
		p.slices = append(p.slices, sliceDef{name: "objects2/" + sh.name, shape: si, forms: [][]form{canon}, damages: damageVectors(n, 2, 2), flags: []flagSet{flNone}})
		p.slices = append(p.slices, sliceDef{name: "pointers/" + sh.name, shape: si, forms: without(formAssignments(p.alpha, sh.nslots), sh.objForms...), damages: [][]int{none, mixedDamage(n)}, flags: []flagSet{flNone, flPtr, flDry}})
		p.slices = append(p.slices, sliceDef{name: "flags/" + sh.name, shape: si, forms: sh.objForms[1:], damages: [][]int{mixedDamage(n)}, flags: []flagSet{flDryObj, flDryPtr, flBoth, flShort}})
		if sh.name == "dup" || sh.name == "staged" {
			// the remaining (assignment over {canon,crlf,raw}) x (single damage) cells: with objects1 and pointers the product is complete there
			fls := []flagSet{flNone}
			if sh.name == "staged" {
				fls = []flagSet{flNone, flDry}
			}
			p.slices = append(p.slices, sliceDef{name: "cross/" + sh.name, shape: si, forms: without(formAssignments([]form{fCanon, fCRLF, fRaw}, sh.nslots), sh.objForms...), damages: damageVectors(n, 1, 1), flags: fls})
		}
	}
	// best effort only (the 32 workers interleave subtrees): a single-worker DFS finishes the subtree of slice 1 first and the rest of slice 0 last, so the attrsize slices go right after slice 0
	var front, rest []sliceDef
	for i, sl := range p.slices {
		if i > 0 && strings.HasPrefix(sl.name, "attrsize/") {
			front = append(front, sl)
		} else {
			rest = append(rest, sl)
		}
	}
	p.slices = append(append([]sliceDef{rest[0]}, front...), rest[1:]...)
	// the index-state dimension of the no-argument form (c13_index_verif_test.go); appended, so the positions of the history slices stay
	p.slices = append(p.slices, indexSlices(shs, thorough)...)
	// the attribute-layout dimension of the checked commits and the invoking-directory dimension (c13_attr_verif_test.go); appended last
	p.slices = append(p.slices, attrSlices(shs, thorough, p.revs)...)
	if only := os.Getenv("VERIF_ONLY"); only != "" { // debugging aid: explore only the slices whose name starts with one of the comma-separated prefixes
		for i := range p.slices {
			keep := false
			for _, pre := range strings.Split(only, ",") {
				if pre != "" && strings.HasPrefix(p.slices[i].name, pre) {
					keep = true
				}
			}
			p.slices[i].skip = !keep
		}
	}
	return p
}

// ---------------------------------------------------------------------------------------------
// repository snapshots

type fileState struct {
	Mode  string
	Sha   string
	Ino   uint64
	Mtime int64
	Size  int64
}

// snapshot records every regular file and symlink below root (directories are not recorded: git-lfs
// creates lfs/tmp etc. on any command).
func snapshot(root string) map[string]fileState {
	m := map[string]fileState{}
	filepath.WalkDir(root, func(p string, d fs.DirEntry, err error) error {
		if err != nil || d.IsDir() {
			return nil
		}
		rel, _ := filepath.Rel(root, p)
		fi, e := os.Lstat(p)
		if e != nil {
			return nil
		}
		st := fileState{Mode: fi.Mode().String(), Size: fi.Size()}
		if fi.Mode()&os.ModeSymlink != 0 {
			st.Sha, _ = os.Readlink(p)
		} else if fi.Mode().IsRegular() {
			b, e := os.ReadFile(p)
			if e != nil {
				st.Sha = "unreadable"
			} else {
				st.Sha = gitx.Oid(b)
			}
			if strings.HasPrefix(rel, ".git/lfs/") {
				if s, ok := fi.Sys().(*syscall.Stat_t); ok {
					st.Ino = s.Ino
				}
				st.Mtime = fi.ModTime().UnixNano()
			}
		}
		m[rel] = st
		return nil
	})
	return m
}

func pathClass(rel string) string {
	switch {
	case strings.HasPrefix(rel, ".git/lfs/objects/"):
		return "lfs-objects"
	case strings.HasPrefix(rel, ".git/lfs/bad/"):
		return "lfs-bad"
	case strings.HasPrefix(rel, ".git/lfs/"):
		return "lfs-other"
	case strings.HasPrefix(rel, ".git/hooks/"):
		return "hooks"
	case rel == ".git/index":
		return "index"
	case rel == ".git/config":
		return "config"
	case strings.HasPrefix(rel, ".git/"):
		return "gitdir"
	}
	return "worktree"
}

// ---------------------------------------------------------------------------------------------
// report parsing

var (
	reObj = regexp.MustCompile(`^objects: (openError|corruptObject): (.*) \(([0-9a-f]{64})\) (could not be checked: .*|is corrupt)$`)
	reNC  = regexp.MustCompile(`^pointer: nonCanonicalPointer: Pointer for ([0-9a-f]{64}) \(blob ([0-9a-f]{40})\) was not canonical$`)
	reRaw = regexp.MustCompile(`^pointer: unexpectedGitObject: (".*") \(treeish ([0-9a-f]{40})\) should have been a pointer but was not$`)
)

type report struct {
	open, corrupt map[string][]string // oid -> names
	nc            map[string]string   // blob -> oid
	raw           map[string]bool     // "commit path"
	rawPaths      map[string]bool
	repair, ok    bool
	unknown       []string
}

func parseReport(out string) *report {
	r := &report{open: map[string][]string{}, corrupt: map[string][]string{}, nc: map[string]string{}, raw: map[string]bool{}, rawPaths: map[string]bool{}}
	for _, ln := range strings.Split(out, "\n") {
		ln = strings.TrimRight(ln, "\r")
		if ln == "" {
			continue
		}
		if m := reObj.FindStringSubmatch(ln); m != nil {
			if m[1] == "openError" {
				r.open[m[3]] = append(r.open[m[3]], m[2])
			} else {
				r.corrupt[m[3]] = append(r.corrupt[m[3]], m[2])
			}
			continue
		}
		if m := reNC.FindStringSubmatch(ln); m != nil {
			r.nc[m[2]] = m[1]
			continue
		}
		if m := reRaw.FindStringSubmatch(ln); m != nil {
			if p, err := strconv.Unquote(m[1]); err == nil {
				r.raw[m[2]+" "+p] = true
				r.rawPaths[p] = true
				continue
			}
		}
		if strings.HasPrefix(ln, "objects: repair: ") {
			r.repair = true
			continue
		}
		if ln == "Git LFS fsck OK" {
			r.ok = true
			continue
		}
		r.unknown = append(r.unknown, ln)
	}
	return r
}

// ---------------------------------------------------------------------------------------------

var caseSeq int64

type env struct {
	world  *gitx.World
	bases  *baseCache
	shapes []shape
	plan   plan
	cases  string
	replaying bool
}

func applyDamage(lfsdir string, sh *shape, vec []int) {
	initContents()
	for i, d := range vec {
		c := sh.objects[i]
		p := gitx.ObjectPath(lfsdir, contentOid[c])
		data := contentData[c]
		var nb []byte
		switch d {
		case dIntact:
			continue
		case dDeleted:
			if err := os.Remove(p); err != nil {
				panic(err)
			}
			continue
		case dTruncated:
			nb = append([]byte(nil), data[:len(data)/2]...)
		case dExtended:
			nb = append(append([]byte(nil), data...), 'x')
		case dBitflip:
			nb = append([]byte(nil), data...)
			nb[len(nb)/2] ^= 0x01
		case dReplaced:
			nb = contentData[sh.objects[(i+1)%len(sh.objects)]]
		}
		// rewrite in place: same directory entry, as a failing disk or an interrupted writer would leave it
		if err := os.WriteFile(p, nb, 0644); err != nil {
			panic(err)
		}
	}
}

func (ev *env) run(x *vx.X) vx.Result {
	initContents()
	pl := ev.plan
	sl := pl.slices[x.In(len(pl.slices))]
	sh := &ev.shapes[sl.shape]
	if sl.skip && !ev.replaying {
		return vx.Result{Outcome: "slice deselected by VERIF_ONLY"}
	}
	avs, revs, excls := sl.domains(&pl, sh)
	assign := sl.forms[x.In(len(sl.forms))]
	av := avs[x.In(len(avs))]
	vec := sl.damages[x.In(len(sl.damages))]
	rv := revs[x.In(len(revs))]
	fl := sl.flags[x.In(len(sl.flags))]
	ex := excls[x.In(len(excls))]
	cwd := ""
	if sl.cwds != nil { // (no choice point for the slices that always start at the top: their choice vectors stay as they were)
		cwd = sl.cwds[x.In(len(sl.cwds))]
	}

	id := fmt.Sprintf("%s forms=%s attrs=%s damage=%s rev=%q flags=%v exclude=%q include=%q", sh.name, formKey(assign), av.name, vecKey(vec), rv.arg, fl.args, ex.pattern, ex.include)
	if cwd != "" {
		id += fmt.Sprintf(" cwd=%q", cwd)
	}
	res := vx.Result{Counters: map[string]int64{}}
	sample := map[string]interface{}{"shape": sh.name, "forms": formKey(assign), "gitattributes": av.name, "rev": rv.arg, "flags": strings.Join(fl.args, " "), "fetchexclude": ex.pattern, "fetchinclude": ex.include}
	dm := map[string]string{}
	for i, d := range vec {
		if d != dIntact {
			dm[contentOid[sh.objects[i]][:12]] = damageNames[d]
		}
	}
	sample["damage"] = dm
	if cwd != "" {
		sample["started_from"] = cwd + "/"
	}
	// family attrlay: the layout of the attribute files of commit c; the fingerprint of a wrong answer about a path the layout's
	// mechanism applies to ends in the mechanism's name (one defect class each), everywhere else fingerprints are as before
	layClass := func(commitIdx, path string) string {
		if sh.layouts == nil || commitIdx == "" {
			return ""
		}
		c, err := strconv.Atoi(commitIdx)
		if err != nil || c < 0 || c >= len(sh.layouts) {
			return ""
		}
		if cl := sh.layouts[c].classOf(path); cl != "" {
			return ":" + cl
		}
		return ""
	}
	if sh.layouts != nil {
		var ls []string
		for _, c := range rv.commits {
			ls = append(ls, sh.layouts[c].name)
		}
		sample["attribute_layouts_of_the_checked_commits"] = ls
	}
	res.Sample = sample

	base := ev.bases.get(sh, assign, av)
	if base.err != "" {
		res.ToolErr = "base repository construction failed: " + base.err
		return res
	}
	dir := filepath.Join(ev.cases, fmt.Sprintf("c%d", atomic.AddInt64(&caseSeq, 1)))
	gitx.CopyTree(base.dir, dir)
	defer os.RemoveAll(dir)
	lfsdir := filepath.Join(dir, ".git", "lfs")
	applyDamage(lfsdir, sh, vec)
	if ex.pattern != "" || ex.include != "" {
		f, err := os.OpenFile(filepath.Join(dir, ".git", "config"), os.O_APPEND|os.O_WRONLY, 0644)
		if err != nil {
			panic(err)
		}
		fmt.Fprintf(f, "[lfs]\n")
		if ex.include != "" {
			fmt.Fprintf(f, "\tfetchinclude = %s\n", ex.include)
		}
		if ex.pattern != "" {
			fmt.Fprintf(f, "\tfetchexclude = %s\n", ex.pattern)
		}
		f.Close()
	}
	before := snapshot(dir)
	args := append([]string{"fsck"}, fl.args...)
	if rv.arg != "" {
		args = append(args, rv.arg)
	}
	runDir := dir
	if cwd != "" {
		runDir = filepath.Join(dir, filepath.FromSlash(cwd))
		if fi, err := os.Stat(runDir); err != nil || !fi.IsDir() {
			res.ToolErr = "invoking directory " + cwd + " does not exist in the work tree of the base repository"
			return res
		}
	}
	cr := ev.world.LFS(runDir, args...)
	if cr.TimedOut {
		res.Inconcl = "git lfs fsck timed out (tool guard)"
		return res
	}
	after := snapshot(dir)
	rep := parseReport(cr.Out)
	exp := expect(sh, assign, base, rv, ex, fl.objects, fl.pointers)
	sample["exit"] = cr.Code
	sample["stdout"] = cr.Out

	seenFp := map[string]bool{}
	viol := func(fp, msg string) {
		// one violation per fingerprint and case; the maps below are walked in sorted order, so which one is kept does not depend on map order
		if seenFp[fp] {
			return
		}
		seenFp[fp] = true
		if len(res.Violations) < 16 {
			res.Violations = append(res.Violations, vx.Violation{Fingerprint: fp, Msg: msg + "\ncase: " + id + "\n" + cr.String(),
				Detail: map[string]interface{}{"case": id, "exit": cr.Code, "stdout": cr.Out, "stderr": cr.Err}})
		}
	}
	cnt := func(k string) { res.Counters[k]++ }

	// state of every store object after the damage
	damageOf := map[string]int{}
	inStore := map[string]bool{}
	for i, c := range sh.objects {
		damageOf[contentOid[c]] = vec[i]
		inStore[contentOid[c]] = true
	}
	// referenced oids whose object was never in the store do not occur: every shape stores all its contents
	isBad := func(oid string) bool { return damageOf[oid] != dIntact }

	// ---- clause O1: every demanded damaged object is named; O2: nothing else is named
	reported := map[string]bool{}
	for o := range rep.open {
		reported[o] = true
	}
	for o := range rep.corrupt {
		reported[o] = true
	}
	nMustBad := 0
	for _, oid := range sortedStrKeys(exp.obj) {
		lv := exp.obj[oid]
		if !isBad(oid) {
			continue
		}
		switch lv {
		case lvMust:
			nMustBad++
			outsideInclude := ex.include != "" && !exp.objInsideInclude[oid]
			if reported[oid] {
				cnt("O1.demanded-damaged-object-named/" + damageNames[damageOf[oid]])
				if exp.objWhy[oid] == "index" {
					cnt("O1.object-demanded-by-the-index-only-named")
					if exp.objExcludedInCommit[oid] {
						cnt("O1.object-demanded-by-the-index-only-named/fetchexcluded-in-HEAD")
					}
				}
				if outsideInclude {
					cnt("O1.demanded-damaged-object-outside-fetchinclude-named")
				}
			} else {
				ctx := exp.objWhy[oid]
				if outsideInclude {
					// lfs.fetchinclude is not documented to restrict fsck
					ctx = "outside-fetchinclude"
				} else if exp.objWhy[oid] == "commit" && exp.objExcludedInCommit[oid] {
					// a checked commit holds the pointer blob under a non-excluded AND under an excluded path (finding-1.md)
					ctx = "shared-with-fetchexcluded-path"
				} else if exp.objWhy[oid] == "index" && exp.objExcludedInCommit[oid] {
					// only the index demands it (staged move / copy / edit), HEAD has a pointer to it under an excluded path
					ctx = "index-entry-shares-object-with-fetchexcluded-head-path"
				}
				viol("C13:object-not-reported:"+ctx, fmt.Sprintf("object %s is %s and is referenced by a checked, non-exempt LFS file (%s) but fsck does not name it", oid, damageNames[damageOf[oid]], exp.objWhy[oid]))
			}
		case lvMay:
			if reported[oid] {
				cnt("O.may-named/" + exp.objWhy[oid])
			} else {
				cnt("O.may-silent/" + exp.objWhy[oid])
			}
		}
	}
	for _, oid := range sortedKeys(reported) {
		switch {
		case !inStore[oid] && exp.obj[oid] == lvNone:
			viol("C13:object-falsely-reported:unknown-oid", fmt.Sprintf("fsck names object %s which no checked file references", oid))
		case !isBad(oid):
			viol("C13:object-falsely-reported:intact", fmt.Sprintf("fsck names object %s although it is present and hashes to its id", oid))
		case exp.obj[oid] == lvNone:
			why := "out-of-scope"
			if !fl.objects {
				why = "objects-check-not-requested"
			} else if exp.objAlsoExcluded[oid] {
				why = "fetchexcluded"
			}
			viol("C13:object-falsely-reported:"+why, fmt.Sprintf("fsck names damaged object %s which is outside the checked scope (%s)", oid, why))
		}
	}
	// damaged objects outside the scope stayed silent (the "nothing else" half, exercised)
	for oid, d := range damageOf {
		if d != dIntact && exp.obj[oid] == lvNone && !reported[oid] {
			cnt("O2.out-of-scope-damaged-object-silent")
		}
	}
	// a deleted object cannot be "corrupt", a present one cannot fail to open
	for oid := range rep.corrupt {
		if damageOf[oid] == dDeleted {
			viol("C13:object-misreported:missing-as-corrupt", fmt.Sprintf("object %s was deleted but is reported corrupt", oid))
		}
	}

	// ---- clause P1/P2: pointer problems
	nMustPtr := 0
	for _, sha := range sortedStrKeys(exp.ncMust) {
		oid := exp.ncMust[sha]
		nMustPtr++
		if got, ok := rep.nc[sha]; ok {
			cnt("P1.noncanonical-pointer-named/" + exp.ncWhy[sha])
			if got != oid {
				viol("C13:pointer-misreported:wrong-oid", fmt.Sprintf("non-canonical pointer blob %s reported with oid %s, want %s", sha, got, oid))
			}
		} else {
			at := exp.ncAt[sha]
			fp := "C13:pointer-not-reported:noncanonical-" + exp.ncWhy[sha]
			if cl := layClass(at[0], at[1]); cl != "" {
				fp = "C13:pointer-not-reported" + cl // one class per attribute mechanism, whatever the form of the file
			}
			viol(fp, fmt.Sprintf("tracked file in a checked commit is a non-canonical pointer (blob %s, form %s) but fsck does not name it", sha, exp.ncWhy[sha]))
		}
	}
	for _, p := range sortedKeys(exp.rawMust) {
		nMustPtr++
		if rep.rawPaths[p] {
			cnt("P1.non-pointer-file-named")
		} else {
			fp := "C13:pointer-not-reported:raw-content"
			if cl := layClass(exp.rawAt[p], p); cl != "" {
				fp = "C13:pointer-not-reported" + cl
			}
			viol(fp, fmt.Sprintf("tracked file %q in a checked commit is raw content, not a pointer, but fsck does not name it", p))
		}
	}
	for _, sha := range sortedStrKeys(rep.nc) {
		if _, ok := exp.ncMust[sha]; ok {
			continue
		}
		if _, ok := exp.ncMay[sha]; ok {
			cnt("P.may-named/noncanonical")
			continue
		}
		why := "out-of-scope"
		if !fl.pointers {
			why = "pointers-check-not-requested"
		} else if at, ok := exp.untrackedNC[sha]; ok {
			// the blob is a file of an inspected commit at a path which, by git's own attribute lookup on that tree, does not have filter=lfs
			why = "untracked-path"
			if cl := layClass(at[0], at[1]); cl != "" {
				viol("C13:pointer-falsely-reported:untracked-path"+cl, fmt.Sprintf("fsck reports blob %s (%q) as non-canonical pointer, but in that commit the path does not have filter=lfs (git check-attr on the commit's tree)", sha, at[1]))
				continue
			}
		}
		viol("C13:pointer-falsely-reported:noncanonical:"+why, fmt.Sprintf("fsck reports blob %s as non-canonical pointer but no tracked file of a checked commit is that blob", sha))
	}
	for _, pair := range sortedKeys(rep.raw) {
		p := pair[41:]
		if exp.rawPairs[pair] {
			if exp.rawMay[p] && !exp.rawMust[p] {
				cnt("P.may-named/raw")
			}
			continue
		}
		if exp.rawIndexOnly[p] {
			cnt("P.may-named/raw-index-only")
			continue
		}
		if c, ok := exp.untrackedAt[pair]; ok && fl.pointers {
			// the file exists in that inspected commit, but git's own attribute lookup on that tree says it does not have filter=lfs
			fp := "C13:pointer-falsely-reported:raw:untracked-path"
			if cl := layClass(c, p); cl != "" {
				fp = "C13:pointer-falsely-reported:untracked-path" + cl
			}
			viol(fp, fmt.Sprintf("fsck reports %q (treeish %s) as non-pointer, but in that commit the path does not have filter=lfs (git check-attr on the commit's tree)", p, pair[:40]))
			continue
		}
		if exp.rawMay[p] || exp.rawMust[p] {
			// right path, but attributed to a commit that is not inspected or where it is fine
			viol("C13:pointer-falsely-reported:raw:wrong-commit", fmt.Sprintf("fsck reports %q for treeish %s where it is not a tracked non-pointer of an inspected commit", p, pair[:40]))
			continue
		}
		why := "out-of-scope"
		if !fl.pointers {
			why = "pointers-check-not-requested"
		}
		viol("C13:pointer-falsely-reported:raw:"+why, fmt.Sprintf("fsck reports %q (treeish %s) as non-pointer but it is not a tracked non-pointer file of a checked commit", p, pair[:40]))
	}
	for sha := range exp.ncMay {
		if _, ok := rep.nc[sha]; !ok {
			cnt("P.may-silent/noncanonical")
		}
	}
	if fl.pointers && len(exp.ncMust)+len(exp.ncMay)+len(exp.rawMust)+len(exp.rawMay) == 0 && len(rep.nc)+len(rep.raw) == 0 {
		cnt("P2.no-pointer-problem-none-named")
	}
	// the "nothing else" half over paths that an attribute line takes out of LFS (or that no line puts into it): content or a
	// non-canonical pointer there, and fsck silent about it
	if fl.pointers {
		for pair, c := range exp.untrackedAt {
			if !rep.raw[pair] {
				ci, _ := strconv.Atoi(c)
				cnt("P2.file-at-path-without-filter=lfs-not-named/" + sh.layouts[ci].name)
			}
		}
		for _, c := range rv.commits {
			if sh.layouts != nil {
				cnt("L.attribute-layout-checked/" + sh.layouts[c].name)
			}
		}
	}
	if cwd != "" {
		what := "no-argument"
		if strings.Contains(rv.arg, "..") {
			what = "range"
		} else if rv.arg != "" {
			what = "committish"
		}
		cnt("W.started-from-sub-directory/" + sh.name + "/" + cwd + "/" + what)
		if nMustPtr > 0 {
			cnt("W.started-from-sub-directory-with-demanded-pointer-problem/" + what)
		}
	}
	for _, u := range rep.unknown {
		if strings.HasPrefix(u, "objects:") || strings.HasPrefix(u, "pointer:") {
			viol("C13:unparsed-report-line", "fsck printed a report line the harness cannot interpret: "+u)
		} else {
			cnt("other-stdout-line")
		}
	}

	// ---- clause E: exit status
	nReported := len(reported) + len(rep.nc) + len(rep.raw)
	switch {
	// (exit 0 while a demanded problem exists but is not named is already reported by the O1/P1 clauses under its
	// own, more specific fingerprint; here the exit status is compared with what fsck itself named)
	case cr.Code == 0 && nReported > 0:
		viol("C13:exit:success-despite-report", "fsck names problems but exits 0")
	case cr.Code != 0 && nReported == 0:
		viol("C13:exit:failure-without-report", fmt.Sprintf("fsck exits %d but names nothing (stderr: %s)", cr.Code, strings.TrimSpace(cr.Err)))
	case cr.Code != 0 && cr.Code != 1:
		viol("C13:exit:abnormal", fmt.Sprintf("fsck exits %d", cr.Code))
	case cr.Code == 0 && nMustBad+nMustPtr == 0:
		cnt("E.exit0-nothing-demanded")
	case cr.Code == 0:
		cnt("E.exit0-despite-demanded-problem(reported-by-O1/P1)")
	default:
		cnt("E.exit1-with-report")
	}

	// ---- clause M (moved aside), T (intact untouched), D (--dry-run changes nothing)
	var changed []string
	for rel, b := range before {
		a, ok := after[rel]
		if !ok {
			changed = append(changed, "removed "+rel)
		} else if a != b {
			changed = append(changed, "changed "+rel)
		}
	}
	for rel := range after {
		if _, ok := before[rel]; !ok {
			changed = append(changed, "added "+rel)
		}
	}
	sort.Strings(changed)
	// new files in git-lfs' transient area lfs/tmp are tolerated (also under --dry-run) and only counted, see Assumptions and finding-2.md
	var tmpAdded []string
	{
		var rest []string
		for _, ch := range changed {
			if strings.HasPrefix(ch, "added .git/lfs/tmp/") {
				tmpAdded = append(tmpAdded, ch)
			} else {
				rest = append(rest, ch)
			}
		}
		changed = rest
	}
	if len(tmpAdded) > 0 {
		cnt("lfs-tmp-file-left-behind")
		if fl.dry {
			cnt("lfs-tmp-file-left-behind-under-dry-run")
		}
	}
	// a NEW, VALID object (aa/bb/<oid> whose bytes hash to <oid>) appearing in lfs/objects: the clean filter that
	// fsck's `git diff-index -M HEAD` starts stored a work-tree file (finding-3.md).  The statement does not forbid
	// it without --dry-run (tolerated, counted); under --dry-run it is a change of lfs/objects.
	var objAdded []string
	{
		var rest []string
		for _, ch := range changed {
			rel := strings.TrimPrefix(ch, "added ")
			if rel != ch && strings.HasPrefix(rel, ".git/lfs/objects/") {
				n := filepath.Base(rel)
				if len(n) == 64 && rel == filepath.Join(".git/lfs/objects", n[0:2], n[2:4], n) && after[rel].Sha == n {
					objAdded = append(objAdded, ch)
					continue
				}
			}
			rest = append(rest, ch)
		}
		changed = rest
	}
	if len(objAdded) > 0 {
		cnt("valid-object-created-during-fsck")
	}
	if fl.dry {
		if len(changed) > 0 {
			viol("C13:dry-run-changed:"+pathClass(strings.SplitN(changed[0], " ", 2)[1]), "--dry-run changed the repository: "+strings.Join(append(changed, objAdded...), "; "))
		} else if len(objAdded) > 0 {
			viol("C13:dry-run-changed:valid-object-created-by-clean-filter", "--dry-run added a (valid) object to lfs/objects, nothing else changed: "+strings.Join(objAdded, "; "))
		} else {
			cnt("D.dry-run-left-every-file-identical")
			if nReported > 0 {
				cnt("D.dry-run-with-report-left-every-file-identical")
			}
		}
	} else {
		explained := map[string]bool{}
		moved := 0
		for oid := range inStore {
			src, _ := filepath.Rel(dir, gitx.ObjectPath(lfsdir, oid))
			dst := filepath.Join(".git", "lfs", "bad", oid)
			bs, had := before[src]
			_, still := after[src]
			as, inBad := after[dst]
			_, wasBad := before[dst]
			corrupt := had && damageOf[oid] != dIntact // present with wrong bytes
			wantMove := corrupt && len(rep.corrupt[oid]) > 0
			if corrupt && exp.obj[oid] == lvMust && !wantMove && reported[oid] {
				wantMove = true // named (whatever the label): it has to be moved aside
			}
			switch {
			case !had && inBad && !wasBad && as.Sha == oid:
				// The object was absent before fsck (and reported as such); while fsck ran, the clean filter started by its
				// `git diff-index -M HEAD` stored a work-tree file's content as this object (finding-3.md), and the repair
				// step then moved that new, VALID object into lfs/bad (finding-4.md).
				viol("C13:moved:valid-object-created-by-clean-filter-moved-to-bad", fmt.Sprintf("object %s did not exist before fsck; afterwards lfs/bad/%s holds bytes that hash to the oid (an intact object was created during the run and moved aside as corrupt)", oid, oid))
				explained["added "+dst] = true
			case wantMove:
				if still {
					viol("C13:moved:corrupt-object-left-in-place", fmt.Sprintf("corrupt object %s was reported but is still in lfs/objects", oid))
				}
				if !inBad {
					viol("C13:moved:corrupt-object-not-in-bad", fmt.Sprintf("corrupt object %s was reported but lfs/bad/%s does not exist (deleted instead of moved?)", oid, oid))
				} else if as.Sha != bs.Sha {
					viol("C13:moved:bytes-differ", fmt.Sprintf("lfs/bad/%s does not hold the bytes the corrupt object had", oid))
				} else {
					moved++
					cnt("M.corrupt-object-moved-with-its-bytes/" + damageNames[damageOf[oid]])
				}
				explained["removed "+src] = true
				explained["added "+dst] = true
			case had && !still:
				what := "intact"
				if corrupt {
					what = "corrupt-but-not-reported"
				}
				viol("C13:touched:object-removed:"+what, fmt.Sprintf("object %s (%s) disappeared from lfs/objects", oid, what))
				explained["removed "+src] = true
				if inBad && !wasBad {
					explained["added "+dst] = true
				}
			case had && still && after[src] != bs:
				what := "intact"
				if corrupt {
					what = "damaged"
				}
				viol("C13:touched:object-modified:"+what, fmt.Sprintf("object file %s (%s) was modified or replaced (content, mode, inode or mtime differ)", oid, what))
				explained["changed "+src] = true
			case had && damageOf[oid] == dIntact:
				cnt("T.intact-object-untouched")
			case had:
				cnt("T.unreported-damaged-object-untouched")
			}
		}
		for _, c := range changed {
			if !explained[c] {
				viol("C13:touched:"+pathClass(strings.SplitN(c, " ", 2)[1]), "fsck changed a file it had no reason to touch: "+c)
			}
		}
		if moved > 0 && !rep.repair {
			cnt("repair-line-missing")
		}
	}

	// outcome class (vacuity indicator) and non-triviality
	res.Outcome = fmt.Sprintf("exit=%d open=%d corrupt=%d noncanon=%d nonpointer=%d moved=%d", cr.Code, len(rep.open), len(rep.corrupt), len(rep.nc), len(rep.rawPaths),
		func() int {
			n := 0
			for rel := range after {
				if strings.HasPrefix(rel, ".git/lfs/bad/") {
					n++
				}
			}
			return n
		}())
	nontrivial := false
	for _, d := range vec {
		if d != dIntact {
			nontrivial = true
		}
	}
	for _, f := range assign {
		if f != fCanon {
			nontrivial = true
		}
	}
	if av.name != attrShort.name {
		nontrivial = true
		res.Counters["A.padded-gitattributes-case/"+av.name]++
	}
	if cwd != "" || sh.family == "attrlay" {
		nontrivial = true
	}
	if sh.family == "index" {
		res.Counters["I.index-state/"+strings.TrimPrefix(sh.name, "ix-")+"/"+formKey(assign)]++
		if sh.index != nil && rv.useIndex {
			nontrivial = true // the index differs from HEAD and is examined
		}
	}
	if nontrivial {
		res.NonTrivial = []string{id}
	}
	return res
}

func TestVerifC13(t *testing.T) {
	c := vx.NewCheck("C13", "exploration")
	scratch := os.Getenv("VERIF_SCRATCH")
	if scratch == "" || os.Getenv("VERIF_GITLFS") == "" {
		fmt.Println("TOOL-ERROR C13 needs VERIF_SCRATCH and VERIF_GITLFS (run through ./check C13)")
		os.Exit(2)
	}
	w, err := gitx.NewWorld(scratch)
	if err != nil {
		fmt.Println("TOOL-ERROR", err)
		os.Exit(2)
	}
	defer w.Close()
	gitx.CmdTimeout = 60 * time.Second
	shs := shapes()
	ev := &env{world: w, shapes: shs, plan: makePlan(shs, c.Thorough()), cases: filepath.Join(w.Root, "cases"),
		bases: &baseCache{m: map[string]*baseEntry{}, world: w, root: filepath.Join(w.Root, "base")}}
	os.MkdirAll(ev.cases, 0755)
	os.MkdirAll(ev.bases.root, 0755)

	total := 0
	per := map[string]interface{}{}
	for _, sl := range ev.plan.slices {
		sh := shs[sl.shape]
		sl := sl
		if sl.skip {
			continue
		}
		avs, rvs, exs := sl.domains(&ev.plan, &sh)
		n := len(sl.forms) * len(avs) * len(sl.damages) * len(rvs) * len(sl.flags) * len(exs)
		if sl.cwds != nil {
			n *= len(sl.cwds)
		}
		total += n
		if sh.family == "index" {
			// one slice per staged state: listed per group, the per-state products have the same domains except that ixform/* exists only for states with a form slot
			key := sl.name[:strings.IndexByte(sl.name, '/')] + "/<index state>"
			m, _ := per[key].(map[string]int)
			if m == nil {
				m = map[string]int{"form_assignments": len(sl.forms), "gitattributes_variants": len(avs), "damage_vectors": len(sl.damages), "rev_args": len(rvs), "flag_sets": len(sl.flags), "fetchexclude_values": len(exs)}
				per[key] = m
			}
			m["index_states"]++
			m["cases"] += n
			continue
		}
		m := map[string]int{"form_assignments": len(sl.forms), "gitattributes_variants": len(avs), "damage_vectors": len(sl.damages), "rev_args": len(rvs), "flag_sets": len(sl.flags), "fetchexclude_values": len(exs), "cases": n}
		if sl.cwds != nil {
			m["invoking_directories"] = len(sl.cwds)
		}
		per[sl.name] = m
	}
	nHist := 0
	var ixNames []string
	for _, sh := range shs {
		switch sh.family {
		case "index":
			ixNames = append(ixNames, strings.TrimPrefix(sh.name, "ix-"))
		case "attrlay":
			var ln []string
			for _, l := range sh.layouts {
				ln = append(ln, l.name)
			}
			c.Bounds["attribute_layouts"] = ln
		default:
			nHist++
		}
	}
	var alpha []string
	for _, f := range ev.plan.alpha {
		alpha = append(alpha, formNames[f])
	}
	c.Bounds["shapes"] = nHist
	c.Bounds["index_states"] = ixNames
	if only := os.Getenv("VERIF_ONLY"); only != "" {
		c.Bounds["VERIF_ONLY"] = only
		fmt.Println("NOTE: VERIF_ONLY restricts the exploration to the slices with prefix", only)
	}
	c.Bounds["pointer_form_alphabet"] = alpha
	c.Bounds["max_damaged_objects_in_objects_slices"] = ev.plan.kObj
	c.Bounds["damage_kinds"] = damageNames[1:]
	c.Bounds["slices"] = per
	c.Bounds["planned_cases"] = total
	c.Rule = "one case = (shape, pointer-form assignment to the 3 form slots, .gitattributes size/layout variant, damage vector over the local objects, revision argument, flag set, lfs.fetchexclude value, directory fsck is started from [top of the work tree except in the cwd/* slices]); " +
		"the explored set is a union of disjoint COMPLETE products (slices, listed with their sizes under bounds.slices), every slice crossed with every revision argument and fetchexclude value of its shape: " +
		"quick: objects/* = all-canonical history x every damage vector with <=1 damaged object (5 damage kinds) x {no flag, --dry-run} (fetchexclude crossed only for shape dup); pointers/* = every other assignment over {canon,crlf,raw} x the mixed damage vector x {no flag, --pointers, --objects}. " +
		"thorough: objects1/* = {all canonical, one mixed assignment} x <=1 damaged x {no flag, --objects, --pointers, --dry-run}; objects2/* = all canonical x exactly 2 damaged (all kind pairs) x {no flag}; pointers/* = every other assignment over {canon,crlf,raw,nonl} x {intact, mixed damage} x {no flag, --pointers, --dry-run}; " +
		"flags/* = 4 further flag spellings on the mixed assignment; cross/{dup,staged} = the remaining (assignment over {canon,crlf,raw} x single damage) cells (staged: also under --dry-run) so that forms x single damages is a full product there.  " +
		"both tiers: fetchinclude/* = 2 configurations per shape that set lfs.fetchinclude (alone; together with lfs.fetchexclude), some LFS paths inside and some outside the include pattern, x every damage vector with <=1 damaged object x every revision argument (quick: all-canonical, no flag; thorough: + mixed assignment, x {no flag, --objects, --dry-run}).  " +
		"both tiers: attrsize/misc = size and layout of the .gitattributes blobs (root and nested: 1023, 1024, 1025, 4000 bytes with the tracking lines first, 1024 and 4000 with them last; thorough adds both-large, all revision arguments and fetchexclude values) x all 27 assignments over {canon,crlf,raw} x {no flag, --pointers}.  " +
		"both tiers, INDEX STATES of the no-argument form (c13_index_verif_test.go): one small world (HEAD: keep/a.bin, keep/b.bin, skip/s.bin; store c0..c4) x the staged states listed under bounds.index_states " +
		"(add, modify, type change pointer->content, rm --cached, rm, mv within a directory / into a sub-directory / from the excluded directory to a non-excluded one (also into a sub-directory) / the other way / both at once, mv + new content, mv + new file at the old path, chained mv, swapped contents, copy within / out of / into the excluded directory / to an excluded and a non-excluded path at once; each self-checked against `git diff-index -M --cached HEAD`: A, M, D, R100, R<100); one entry per state takes its form from a slot (canonical = plain operation, crlf/nonl = rename + edit with similarity < 100%, raw = staged content instead of a pointer).  " +
		"quick: ixobj/<state> = main form x {intact, every one of the 4 referenced objects c0..c3 deleted, every one bit-flipped} x no argument x no flag x 4 filter configurations {none, fetchexclude=skip/, fetchinclude=keep/, both}; ixform/<state> = the other forms of {canon,crlf,raw} x one mixed damage vector x {none, fetchexclude=skip/} x {no flag, --pointers}; ixflags/<state> = main form x mixed vector x fetchexclude=skip/ x {no argument, HEAD} x {no flag, --objects, --pointers, --dry-run}.  " +
		"thorough: ixobj = all 5 damage kinds on every object; ixobj-morecfg = 3 more configurations {fetchexclude=/keep/a.bin (old path of the moves only), fetchexclude=m.bin (new path only), fetchinclude=skip/} x {deleted, bit flip}; ixform = other forms of {canon,crlf,raw,nonl} x {intact, 2 mixed vectors} x 3 configurations x {no flag, --pointers, --dry-run}; ixflags = 2 mixed vectors x 2 configurations x {no argument, HEAD} x 5 flag sets.  " +
		"both tiers, ATTRIBUTE LAYOUTS of the checked commits (c13_attr_verif_test.go): one world 'al' whose every commit has another layout of .gitattributes / vendor/.gitattributes (listed under bounds.attribute_layouts: the subject path vendor/lib.bin taken out of LFS after a general `*.bin filter=lfs` line by -filter / !filter / filter=<other> / !<macro> / -<macro>, in the same file, by a more specific pattern or by the nested file; left in LFS by a -text-only line; made LFS by the nested file only; switched on again after being switched off; `lockable` on the filter line, on its own line after / before / nested, and alone) over the same files (a.bin = control path, vendor/lib.bin = subject path, 3 text files); which paths have filter=lfs in a commit is git's own answer (`git check-attr --cached filter` on a throw-away index holding that commit's tree, empty work tree), never a model of an attributes parser.  " +
		"quick: attrlay/each = every assignment over {canon,crlf,raw} to (control, subject) x every layout as a single committish (HEAD, HEAD~k) x --pointers; attrlay/multi = every assignment x {no argument, the whole history as one range} x {no flag, --pointers}.  thorough: alphabet {canon,crlf,raw,nonl} x {intact, one mixed damage vector} x {no flag, --pointers, --objects, --dry-run}.  " +
		"both tiers, INVOKING DIRECTORY (slices cwd/*): fsck started from a sub-directory of the work tree instead of its top, expectation unchanged: cwd/al = every assignment x {vendor/ (holds the subject path), docs/ (holds no LFS path)} x {no argument, HEAD, HEAD~1, HEAD~2..HEAD} x {no flag} (thorough: + --pointers, --dry-run, damage); cwd/dup = all 27 assignments over {canon,crlf,raw} x sub/ x every revision argument of shape dup x the mixed damage vector x {no flag} (thorough: + --pointers, --dry-run); cwd/ix-<state> = every staged index state (main form) x keep/ x no argument x the mixed damage vector x {no flag} (thorough: 2 vectors x {none, fetchexclude=skip/} x {no flag, --objects, --dry-run}): the index scan's `git diff-index` is started from the sub-directory too; thorough: cwd/misc = all 27 assignments x {sub/, 'sp ace/'} x every revision argument x {no flag, --pointers}.  " +
		"distinct_nontrivial = distinct cases in which at least one object is damaged, one path is not a canonical pointer, a .gitattributes file is padded, the examined index differs from HEAD, the case belongs to the attribute-layout world or fsck is started from a sub-directory (all-intact all-canonical cases of an unchanged index only count as executions)"
	c.Assumptions = []string{
		"scope per docs/man/git-lfs-fsck.adoc: no argument = HEAD plus (objects only) the index; one committish = that commit only; A..B = the commits in the range",
		"A..B, objects: an object referenced by a tree of the range but already referenced in A or an ancestor may or may not be named (man page silent on whether unchanged files of the range count); objects first referenced inside the range must be named",
		"paths matching lfs.fetchexclude are exempt from the object check; an object that a non-matching tracked path of the scope references as well is still demanded; for the pointer check of matching paths either answer is accepted (man page does not say)",
		"lfs.fetchinclude does not restrict fsck: the man page names only lfs.fetchexclude ('any Git LFS files whose paths match one in that list will not be checked') and the statement quantifies over fetchexclude; an object needed by a tracked, non-excluded path is demanded whether or not the path matches lfs.fetchinclude",
		"pointer problems that exist only in the index (no-argument form) may or may not be named: the statement says 'and index', the man page restricts the index to --objects",
		"a pointer-shaped blob at a path that is not LFS-tracked references an object 'maybe': naming its damaged object is accepted, not demanded; such a file is never a pointer problem",
		"the label (openError vs corruptObject) is not part of the property except that a deleted object must not be called corrupt; duplicate lines are tolerated; the NAME shown next to an oid is not checked",
		"'--dry-run changes nothing' is read as: lfs/objects, lfs/bad, the Git object database, refs, index, config, hooks and the working tree are unchanged (every regular file and symlink of the repository directory: content and mode; inode and mtime too below .git/lfs); NEW files below .git/lfs/tmp (git-lfs' transient area) are tolerated and counted (counter lfs-tmp-file-left-behind*, see props/C13/finding-2.md); creation of empty directories and directory mtimes are ignored",
		"without --dry-run the same comparison applies, except that reported corrupt objects must have moved to lfs/bad/<oid> with their bytes, and that a NEW valid object appearing in lfs/objects (stored by the clean filter which fsck's `git diff-index -M HEAD` starts on a stat-dirty work-tree file) is tolerated and counted: the statement forbids touching intact objects and moving anything but corrupt ones, not adding valid ones; under --dry-run it is reported (props/C13/finding-3.md)",
		"index states: the reference scope of the no-argument form is HEAD plus (object check only) the index, each tree at its own current paths: an object is demanded when a tracked, non-excluded path of HEAD or of the index references it through a decodable pointer, whatever the staged operation was (a file staged for deletion or moved away is still in HEAD; a moved/copied/added file counts at its NEW path); rename detection is an implementation detail of the scan and must not change the answer",
		"a file is 'tracked' in a commit iff git itself gives its path filter=lfs from the attribute files of THAT commit's tree (gitattributes(5) precedence: nested file over parent directory's, later line over earlier, `!attr`/`-attr`/`attr=other` of a later or more specific line override, macros only from the top-level file, `lockable` is unrelated to `filter`); a file at a path without filter=lfs is no pointer problem whatever it contains, a pointer-shaped one references its object 'maybe'",
		"the directory `git lfs fsck` is started from is not part of the statement: started from any sub-directory of the work tree the same report, exit status and moves are demanded as from its top",
		"work tree holds pointer text (as after GIT_LFS_SKIP_SMUDGE=1 checkout) and is stat-clean; hooks and local filter config are installed beforehand; linear histories only",
		"git 2.39.5; subprocess timeout 60 s is a tool guard (=> inconclusive)",
	}
	exec := func(p []vx.Point) vx.Result { return vx.SafeRun(ev.run, p) }
	if c.Replay != "" {
		rf, err := c.LoadReplay()
		if err != nil {
			fmt.Println("TOOL-ERROR cannot load replay:", err)
			os.Exit(2)
		}
		if rf.Tier != "" && rf.Tier != c.Tier {
			// the choice domains depend on the tier
			ev.plan = makePlan(shs, rf.Tier == "thorough")
		}
		ev.replaying = true
		r := exec(rf.Prefix)
		st := vx.NewStats()
		st.Absorb(rf.Prefix, &r, 0)
		if b, ok := r.Sample.(map[string]interface{}); ok {
			fmt.Printf("replayed case: %v\n", b)
		}
		code := c.Finish([]vx.Part{{Scenario: "fsck", Stats: st, Exec: exec}}, nil)
		w.Close()
		os.Exit(code)
	}
	workers := 2 * runtime.NumCPU()
	if n, err := strconv.Atoi(os.Getenv("VERIF_C13_WORKERS")); err == nil && n > 0 {
		workers = n
	}
	e := &vx.Explorer{Name: "C13", Workers: workers, BoundEnv: 0, BoundSch: 0, BoundSum: -1, Run: ev.run, Deadline: c.DeadlineAfter(360*time.Second, 23*time.Minute)}
	st := e.Explore()
	extra := map[string]interface{}{"base_repositories_built": len(ev.bases.m), "planned_cases": total}
	code := c.Finish([]vx.Part{{Scenario: "fsck", Stats: st, Exec: exec}}, extra)
	w.Close()
	os.Exit(code)
}
