package c13

// C13 — the ATTRIBUTE-LAYOUT dimension of the checked commits and the INVOKING-DIRECTORY dimension.
//
// Attribute layouts.  One small world ("al"): a linear history in which EVERY COMMIT HAS ANOTHER LAYOUT of
// its .gitattributes files (root file and, for some, vendor/.gitattributes) while the other files stay the
// same: a.bin (control path, form slot 0), vendor/lib.bin (subject path, form slot 1), three ordinary text
// files.  The layouts take the subject path out of LFS again after a general `*.bin filter=lfs` line
// (-filter, !filter, filter=<other>, !<macro>, -<macro>; by a later line of the same file, by a more
// specific pattern, by a nested file), leave it in LFS although a later line matches it (-text only), make
// it LFS by a nested file only, switch the filter on again after switching it off, or carry `lockable` on
// the filter line, on a line of its own (before / after / nested) or alone.  A layout is picked with the
// revision argument (HEAD~k = the single commit with that layout); the no-argument form and a range over
// the whole history (every layout in one run) are explored too.
//
// WHICH PATHS ARE LFS-TRACKED IN A COMMIT IS NEVER MODELLED: the base builder loads the commit's tree into a
// throw-away index and asks git itself (`git check-attr --cached filter`, work tree = an empty directory, so
// only the attribute files of THAT tree count).  The reference model uses that answer.  The layout table
// also declares what the answer is meant to be; a disagreement is a construction error (tool error), so a
// typo cannot silently turn a layout into a copy of another one.
//
// Invoking directory.  `git lfs fsck` started from a sub-directory of the work tree (slices cwd/*): the
// statement does not mention the current directory, so the expectation is the one of the same case started
// from the top level.

import (
	"fmt"
	"os"
	"path/filepath"
	"strings"
	"sync"

	"github.com/git-lfs/git-lfs/v3/verifx/gitx"
)

const (
	alCtl  = "a.bin"
	alSubj = "vendor/lib.bin"
	alMac  = "[attr]lfs filter=lfs diff=lfs merge=lfs -text\n"
)

// attrLayout is one layout of the attribute files of a commit of the "al" world.
type attrLayout struct {
	name   string
	root   string // .gitattributes
	nested string // vendor/.gitattributes ("" = no such file)
	// declared answer of `git check-attr filter` (self-check of the table only; the model uses git's answer)
	ctlLFS, subjLFS bool
	// class = the mechanism of the layout, used as the last component of the fingerprint of a wrong answer about
	// one of the paths in classPaths (nil = the subject path only); "" = ordinary layout, fingerprints as elsewhere
	class      string
	classPaths []string
}

func (l attrLayout) classOf(path string) string {
	if l.class == "" {
		return ""
	}
	if l.classPaths == nil {
		if path == alSubj {
			return l.class
		}
		return ""
	}
	for _, p := range l.classPaths {
		if p == path {
			return l.class
		}
	}
	return ""
}

const (
	clOff     = "filter-switched-off"      // a later / more specific / nested line un-sets or re-assigns the filter
	clMacNeg  = "macro-negated"            // `-<macro>`: git does not expand the macro (filter stays what earlier lines did NOT get to set)
	clLock    = "lockable-on-its-own-line" // the path is LFS (filter line) and another line gives it `lockable` only
	clOnAgain = "filter-switched-on-again" // filter un-set by one line, set to lfs again by a line that git ranks higher
)

// attrLayouts: commit i of the "al" world has layout i; the LAST one is HEAD.
func attrLayouts() []attrLayout {
	B := "*.bin" + attrLine
	both := []string{alCtl, alSubj}
	return []attrLayout{
		{name: "plain", root: B, ctlLFS: true, subjLFS: true},
		// ---- taken out again by a line of the same file
		{name: "same-bang-filter", root: B + "vendor/lib.bin !filter\n", ctlLFS: true, class: clOff},
		{name: "same-filter-other", root: B + "vendor/*.bin filter=crypt diff=crypt\n", ctlLFS: true, class: clOff},
		{name: "same-doublestar-minus-filter", root: B + "vendor/** -filter\n", ctlLFS: true, class: clOff},
		{name: "same-minus-text-only", root: B + "vendor/*.bin -text -diff\n", ctlLFS: true, subjLFS: true},
		// ---- a macro
		{name: "macro", root: alMac + "*.bin lfs\n", ctlLFS: true, subjLFS: true},
		{name: "macro-bang", root: alMac + "*.bin lfs\nvendor/*.bin !lfs\n", ctlLFS: true, class: clOff},
		{name: "macro-minus", root: alMac + "*.bin lfs\nvendor/*.bin -lfs\n", ctlLFS: true, class: clMacNeg},
		{name: "nested-macro-bang", root: alMac + "*.bin lfs\n", nested: "*.bin !lfs\n", ctlLFS: true, class: clOff},
		// ---- taken out again by the nested file
		{name: "nested-bang-filter", root: B, nested: "*.bin !filter\n", ctlLFS: true, class: clOff},
		{name: "nested-filter-other", root: B, nested: "lib.bin filter=crypt\n", ctlLFS: true, class: clOff},
		{name: "nested-minus-text-only", root: B, nested: "*.bin -text\n", ctlLFS: true, subjLFS: true},
		// ---- made LFS by the nested file only
		{name: "nested-only", root: "*.txt text\n", nested: B, subjLFS: true},
		// ---- lockable
		{name: "lockable-same-line", root: "*.bin filter=lfs diff=lfs merge=lfs -text lockable\n", ctlLFS: true, subjLFS: true},
		{name: "lockable-next-line", root: B + "*.bin lockable\n", ctlLFS: true, subjLFS: true, class: clLock, classPaths: both},
		{name: "lockable-next-line-specific", root: B + "vendor/*.bin lockable\n", ctlLFS: true, subjLFS: true, class: clLock},
		{name: "lockable-line-before", root: "*.bin lockable\n" + B, ctlLFS: true, subjLFS: true, class: clLock, classPaths: both},
		{name: "lockable-nested", root: B, nested: "*.bin lockable\n", ctlLFS: true, subjLFS: true, class: clLock},
		{name: "lockable-alone", root: "a.bin" + attrLine + "vendor/*.bin lockable\n", ctlLFS: true},
		// ---- switched off, then on again
		{name: "on-again-same", root: B + "vendor/*.bin -filter\nvendor/lib.bin filter=lfs\n", ctlLFS: true, subjLFS: true, class: clOnAgain},
		{name: "on-again-order", root: "vendor/*.bin -filter\n" + B, ctlLFS: true, subjLFS: true, class: clOnAgain},
		{name: "on-again-nested", root: B + "vendor/*.bin -filter\n", nested: "*.bin filter=lfs\n", ctlLFS: true, subjLFS: true, class: clOnAgain},
		// ---- the two layouts of the seeded change's demonstration come last: HEAD~1 and HEAD (no-argument form, cwd slices)
		{name: "same-minus-filter", root: B + "vendor/*.bin -filter -diff -merge\n", ctlLFS: true, class: clOff},
		{name: "nested-minus-filter", root: B, nested: "*.bin -filter -diff -merge\n", ctlLFS: true, class: clOff},
	}
}

func alTree(l attrLayout) tree {
	t := tree{text(".gitattributes", l.root)}
	if l.nested != "" {
		t = append(t, text("vendor/.gitattributes", l.nested))
	}
	return append(t,
		lfs(alCtl, 0, 0),
		lfs(alSubj, 1, 1),
		text("vendor/NOTICE.txt", "vendored third-party files\n"),
		text("docs/guide.txt", "guide\n"),
		text("README.md", "# attribute layouts\n"),
	)
}

// alShape: the attribute-layout world as a shape of family "attrlay".  ent.tracked of its LFS entries is NOT
// used (baseInfo.truth replaces it); it is set to the declared value only so that a reader of a replay sees it.
func alShape() shape {
	lays := attrLayouts()
	sh := shape{name: "al", family: "attrlay", objects: []int{0, 1, 2}, nslots: 2, objForms: [][]form{allCanon(2)},
		excl: []exclSpec{{}}, inclCfgs: nil, layouts: lays,
		note: "every commit has another layout of the attribute files; tracked-ness per commit = git check-attr on that tree"}
	n := len(lays)
	for _, l := range lays {
		t := alTree(l)
		for i := range t {
			switch t[i].path {
			case alCtl:
				t[i].tracked = l.ctlLFS
			case alSubj:
				t[i].tracked = l.subjLFS
			}
		}
		sh.commits = append(sh.commits, t)
	}
	// revision arguments: [0] none, [1] HEAD, [2] the whole history as a range, [3] the last two commits as a range, [4..] HEAD~k for k = 1..n-1 (one layout each)
	sh.revs = []revSpec{
		{arg: "", commits: []int{n - 1}, base: -1, useIndex: true},
		{arg: "HEAD", commits: []int{n - 1}, base: -1},
	}
	var all []int
	for i := 1; i < n; i++ {
		all = append(all, i)
	}
	sh.revs = append(sh.revs, revSpec{arg: fmt.Sprintf("HEAD~%d..HEAD", n-1), commits: all, base: 0})
	sh.revs = append(sh.revs, revSpec{arg: "HEAD~2..HEAD", commits: []int{n - 2, n - 1}, base: n - 3})
	for k := 1; k < n; k++ {
		sh.revs = append(sh.revs, revSpec{arg: fmt.Sprintf("HEAD~%d", k), commits: []int{n - 1 - k}, base: -1})
	}
	return sh
}

// ---------------------------------------------------------------------------------------------
// git's own answer: which paths of a commit's tree have filter=lfs

var (
	truthMu    sync.Mutex
	truthCache = map[string][]map[string]string{} // shape name -> per commit: path -> value of the filter attribute
)

// attrTruth evaluates `git check-attr filter` against the TREE of every commit of the shape: the tree is read into a
// throw-away index file, the work tree is an empty directory and --cached makes git read attribute files from that
// index only (git 2.39 has no --source).  The answer depends on the attribute blobs and the path names only, not on
// the pointer forms, so it is computed once per shape (from the first base repository built) and shared.
func attrTruth(w *gitx.World, scratch string, sh *shape, dir string, commits []string) []map[string]string {
	truthMu.Lock()
	defer truthMu.Unlock()
	if t, ok := truthCache[sh.name]; ok {
		return t
	}
	tmp := filepath.Join(scratch, "truth-"+sh.name)
	os.RemoveAll(tmp)
	empty := filepath.Join(tmp, "empty-work-tree")
	if err := os.MkdirAll(empty, 0755); err != nil {
		panic(err)
	}
	defer os.RemoveAll(tmp)
	gitdir := filepath.Join(dir, ".git")
	var out []map[string]string
	for i, c := range commits {
		env := []string{"GIT_DIR=" + gitdir, "GIT_WORK_TREE=" + empty, "GIT_INDEX_FILE=" + filepath.Join(tmp, fmt.Sprintf("index-%d", i))}
		if r := w.RunIn(empty, nil, env, "git", "read-tree", c); !r.OK() {
			panic("attrTruth: read-tree failed: " + r.String())
		}
		var paths []string
		for _, e := range sh.commits[i] {
			if e.kind != kSymlink && filepath.Base(e.path) != ".gitattributes" {
				paths = append(paths, e.path)
			}
		}
		args := append([]string{"check-attr", "--cached", "-z", "filter", "--"}, paths...)
		r := w.RunIn(empty, nil, env, "git", args...)
		if !r.OK() {
			panic("attrTruth: check-attr failed: " + r.String())
		}
		f := strings.Split(r.Out, "\x00")
		m := map[string]string{}
		for j := 0; j+2 < len(f); j += 3 {
			m[f[j]] = f[j+2]
		}
		if len(m) != len(paths) {
			panic(fmt.Sprintf("attrTruth: check-attr answered for %d of %d paths", len(m), len(paths)))
		}
		out = append(out, m)
	}
	truthCache[sh.name] = out
	return out
}

// checkLayoutTable: the declared answers of the layout table == git's answers (construction self-check).
func checkLayoutTable(sh *shape, truth []map[string]string) {
	for i, l := range sh.layouts {
		for p, want := range map[string]bool{alCtl: l.ctlLFS, alSubj: l.subjLFS} {
			if got := truth[i][p] == "lfs"; got != want {
				panic(fmt.Sprintf("layout table: layout %s declares filter=lfs:%v for %q but git check-attr says %q", l.name, want, p, truth[i][p]))
			}
		}
		for p, v := range truth[i] {
			if p != alCtl && p != alSubj && v == "lfs" {
				panic(fmt.Sprintf("layout table: layout %s: %q has filter=lfs", l.name, p))
			}
		}
	}
}

// ---------------------------------------------------------------------------------------------
// slices

// alMixed: the control path's object is bit-flipped, the unreferenced one deleted.
var alMixed = []int{dBitflip, dIntact, dDeleted}

// attrSlices: the complete products over the attribute-layout world and the invoking-directory slices.
//
//	attrlay/each   every assignment over the alphabet to (control, subject) x every layout as a single commit (HEAD~k / HEAD) x flags
//	attrlay/multi  every assignment x {no argument, the whole history as a range} x flags
//	cwd/al         every assignment x started from {vendor/ (holds the subject path), docs/ (holds no LFS path)} x {none, HEAD, HEAD~1, HEAD~2..HEAD} x flags
//	cwd/ix-<state> every staged index state (main form) x started from keep/ x no argument x mixed damage (thorough: 2 vectors x {none, fetchexclude=skip/} x 3 flag sets)
//	cwd/dup        every assignment over the 3 slots x started from sub/ x every revision argument x mixed damage
//	cwd/misc       (thorough) every assignment x started from {sub/, "sp ace/"} x every revision argument
func attrSlices(shs []shape, thorough bool, allRevs [][]revSpec) []sliceDef {
	var out []sliceDef
	for si := range shs {
		sh := &shs[si]
		switch {
		case sh.family == "attrlay":
			none := make([]int, len(sh.objects))
			alpha := []form{fCanon, fCRLF, fRaw}
			if thorough {
				alpha = []form{fCanon, fCRLF, fRaw, fNoNL}
			}
			forms := formAssignments(alpha, sh.nslots)
			single := append([]revSpec{sh.revs[1]}, sh.revs[4:]...)
			multi := []revSpec{sh.revs[0], sh.revs[2]}
			cwdRevs := []revSpec{sh.revs[0], sh.revs[1], sh.revs[4], sh.revs[3]}
			if !thorough {
				out = append(out, sliceDef{name: "attrlay/each", shape: si, forms: forms, damages: [][]int{none}, flags: []flagSet{flPtr}, revs: single, excl: sh.excl})
				out = append(out, sliceDef{name: "attrlay/multi", shape: si, forms: forms, damages: [][]int{none}, flags: []flagSet{flNone, flPtr}, revs: multi, excl: sh.excl})
				out = append(out, sliceDef{name: "cwd/al", shape: si, forms: forms, damages: [][]int{none}, flags: []flagSet{flNone}, revs: cwdRevs, excl: sh.excl, cwds: []string{"vendor", "docs"}})
			} else {
				out = append(out, sliceDef{name: "attrlay/each", shape: si, forms: forms, damages: [][]int{none, alMixed}, flags: []flagSet{flNone, flPtr, flObj, flDry}, revs: single, excl: sh.excl})
				out = append(out, sliceDef{name: "attrlay/multi", shape: si, forms: forms, damages: [][]int{none, alMixed}, flags: []flagSet{flNone, flPtr, flObj, flDry}, revs: multi, excl: sh.excl})
				out = append(out, sliceDef{name: "cwd/al", shape: si, forms: forms, damages: [][]int{none, alMixed}, flags: []flagSet{flNone, flPtr, flDry}, revs: cwdRevs, excl: sh.excl, cwds: []string{"vendor", "docs"}})
			}
		case sh.family == "index":
			// the index scan (`git diff-index`) is started from the sub-directory too: every staged state x a mixed damage vector, no-argument form
			n := strings.TrimPrefix(sh.name, "ix-")
			if !thorough {
				out = append(out, sliceDef{name: "cwd/ix-" + n, shape: si, forms: sh.objForms[:1], damages: [][]int{ixMixed}, flags: []flagSet{flNone}, revs: sh.revs[:1], excl: sh.excl[:1], cwds: []string{"keep"}})
			} else {
				out = append(out, sliceDef{name: "cwd/ix-" + n, shape: si, forms: sh.objForms[:1], damages: [][]int{ixMixed, ixMixed2}, flags: []flagSet{flNone, flObj, flDry}, revs: sh.revs[:1], excl: sh.excl[:2], cwds: []string{"keep"}})
			}
		case sh.name == "dup":
			all := formAssignments([]form{fCanon, fCRLF, fRaw}, sh.nslots)
			fls := []flagSet{flNone}
			if thorough {
				fls = []flagSet{flNone, flPtr, flDry}
			}
			out = append(out, sliceDef{name: "cwd/dup", shape: si, forms: all, damages: [][]int{mixedDamage(len(sh.objects))}, flags: fls, revs: allRevs[si], excl: sh.excl[:1], cwds: []string{"sub"}})
		case sh.name == "misc" && thorough:
			all := formAssignments([]form{fCanon, fCRLF, fRaw}, sh.nslots)
			out = append(out, sliceDef{name: "cwd/misc", shape: si, forms: all, damages: [][]int{mixedDamage(len(sh.objects))}, flags: []flagSet{flNone, flPtr}, revs: allRevs[si], excl: sh.excl[:1], cwds: []string{"sub", "sp ace"}})
		}
	}
	return out
}
