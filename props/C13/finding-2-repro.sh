#!/bin/sh
# finding-2: `git lfs fsck --dry-run` leaves a new (empty) file in .git/lfs/tmp
# trigger: pointer text in the work tree (GIT_LFS_SKIP_SMUDGE clone), a staged delete+add pair (here: git mv) and a stat-dirty file
set -e
BIN=${GITLFS:-/verif/.build/C13/git-lfs}
T=$(mktemp -d /tmp/C13-f2-XXXXXX); cd "$T"
mkdir bin home; ln -s "$BIN" bin/git-lfs
export HOME=$T/home PATH=$T/bin:/usr/bin:/bin GIT_CONFIG_NOSYSTEM=1 LC_ALL=C
git config --global user.name V; git config --global user.email v@example.com; git config --global init.defaultBranch main
git lfs install >/dev/null
git init -q src; cd src
git lfs track '*.bin' >/dev/null
echo AAAA >a.bin; echo BBBB >b.bin
git add .; git commit -qm c1; cd ..
GIT_LFS_SKIP_SMUDGE=1 git clone -q src repo 2>/dev/null; cd repo
mkdir -p .git/lfs/objects; cp -r ../src/.git/lfs/objects/* .git/lfs/objects/     # objects present locally
git mv a.bin e.bin
sleep 1.1; touch e.bin                                                            # stat-dirty
git status --short
mkdir -p .git/lfs/tmp; rm -f .git/lfs/tmp/*
echo "--- before: $(ls .git/lfs/tmp | wc -l) file(s) in .git/lfs/tmp"
git lfs fsck --dry-run; echo "exit=$?"
echo "--- after:  $(ls .git/lfs/tmp | wc -l) file(s) in .git/lfs/tmp"; ls -l .git/lfs/tmp
echo "--- the file comes from the clean filter that 'git diff-index -M HEAD' (run by fsck's index scan) starts for rename detection:"
rm -f .git/lfs/tmp/*; git diff-index -M HEAD >/dev/null; echo "$(ls .git/lfs/tmp | wc -l) file(s)"
echo "--- with --pointers (no index scan) nothing is added:"
rm -f .git/lfs/tmp/*; git lfs fsck --dry-run --pointers; echo "$(ls .git/lfs/tmp | wc -l) file(s)"
cd /; rm -rf "$T"
