#!/bin/sh
# finding 4: `git lfs fsck` (no revision argument, no --dry-run) can move an INTACT object into .git/lfs/bad:
# the object is missing when the HEAD scan looks for it (reported "openError"), the index scan's
# `git diff-index -M HEAD` then runs the LFS clean filter on a stat-dirty work-tree file (rename detection),
# which stores the file's content as exactly that object (finding 3), and the repair step finally renames
# every reported oid that exists in the store into lfs/bad - including the one that has just been created.
set -e
BIN=${GITLFS:-/verif/.build/C13/git-lfs}
T=$(mktemp -d /tmp/C13-f4-XXXXXX); cd "$T"
mkdir bin home; ln -s "$BIN" bin/git-lfs
export HOME=$T/home PATH=$T/bin:/usr/bin:/bin GIT_CONFIG_NOSYSTEM=1 LC_ALL=C
git config --global user.name V; git config --global user.email v@example.com; git config --global init.defaultBranch main
git lfs install >/dev/null
git init -q repo; cd repo
git lfs track '*.bin' >/dev/null
echo AAAA >a.bin; echo BBBB >b.bin
sleep 1.1; git add .; git commit -qm c1
git mv a.bin e.bin                       # staged rename = delete + add pair; e.bin holds the real content
git status --short
sleep 1.1; touch e.bin                   # stat-dirty
OID=$(sha256sum <e.bin | cut -d' ' -f1)
OBJ=.git/lfs/objects/$(echo $OID | cut -c1-2)/$(echo $OID | cut -c3-4)/$OID
rm "$OBJ"                                # the object of a.bin/e.bin is missing locally
echo "--- before: objects:"; find .git/lfs/objects -type f | sort; echo "--- before: lfs/bad:"; ls .git/lfs/bad 2>/dev/null || echo "(does not exist)"
git lfs fsck && echo "exit=0" || echo "exit=$?"
echo "--- after: objects:"; find .git/lfs/objects -type f | sort
echo "--- after: lfs/bad:"; ls .git/lfs/bad
echo "--- sha256 of lfs/bad/$OID:"; sha256sum <.git/lfs/bad/$OID | cut -d' ' -f1
[ "$(sha256sum <.git/lfs/bad/$OID | cut -d' ' -f1)" = "$OID" ] && echo "=> the file in lfs/bad is INTACT (hashes to its name); it did not exist when fsck started"
cd /; rm -rf "$T"
