#!/bin/sh
# finding-6: a path whose filter is un-set by one attribute line and set to lfs again by a line that git ranks higher
# (later line of the same file / nested file) is LFS-tracked for git, but fsck's pointer check skips it
BIN=${GITLFS:-/verif/.build/C13/git-lfs}
T=$(mktemp -d /tmp/C13-f6-XXXXXX); cd "$T"
mkdir bin home; ln -s "$BIN" bin/git-lfs
export HOME=$T/home PATH=$T/bin:/usr/bin:/bin GIT_CONFIG_NOSYSTEM=1 LC_ALL=C
git config --global user.name V; git config --global user.email v@example.com; git config --global init.defaultBranch main
run() { # $1 = title, $2 = .gitattributes text, $3 = vendor/.gitattributes text or ''
  rm -rf repo; git init -q repo; cd repo; mkdir vendor
  printf "$2" > .gitattributes
  [ -n "$3" ] && printf "$3" > vendor/.gitattributes
  printf 'raw data, not a pointer\n' > vendor/big.bin
  printf 'raw data, not a pointer (2)\n' > vendor/other.bin
  git add -A; git commit -qm one
  echo "--- $1"
  git check-attr filter -- vendor/big.bin vendor/other.bin | sed 's/^/   git: /'
  git lfs fsck --pointers | sed 's/ (treeish [0-9a-f]*)//; s/^/   fsck: /'
  git lfs fsck --pointers >/dev/null; echo "   exit=$?"
  cd ..
}
F='filter=lfs diff=lfs merge=lfs -text'
run "control: vendor/*.bin opted out, nothing opted in again" "*.bin $F\nvendor/*.bin -filter\n" ''
run "vendor/*.bin opted out, vendor/big.bin opted in again by a LATER line" "*.bin $F\nvendor/*.bin -filter\nvendor/big.bin $F\n" ''
run "the opt-out line comes FIRST, the general filter line after it (last matching line wins in git)" "vendor/*.bin -filter\n*.bin $F\n" ''
run "opted out in the top-level file, opted in again by vendor/.gitattributes" "*.bin $F\nvendor/*.bin -filter\n" "big.bin $F\n"
cd /; rm -rf "$T"
