#!/bin/sh
# finding-1: fsck misses a missing/corrupt object when the first path naming its pointer blob matches lfs.fetchexclude
set -e
BIN=${GITLFS:-/verif/.build/C13/git-lfs}
T=$(mktemp -d /tmp/C13-f1-XXXXXX); cd "$T"
mkdir bin home; ln -s "$BIN" bin/git-lfs
export HOME=$T/home PATH=$T/bin:/usr/bin:/bin GIT_CONFIG_NOSYSTEM=1 LC_ALL=C
git config --global user.name V; git config --global user.email v@example.com; git config --global init.defaultBranch main
git lfs install >/dev/null
git init -q repo; cd repo
git lfs track '*.bin' >/dev/null
mkdir sub
echo AAAA >a.bin; echo AAAA >sub/d.bin; echo BBBB >b.bin      # a.bin and sub/d.bin: same content, same LFS object
sleep 1.1   # keep the index entries from being 'racily clean' (git would re-run the clean filter and re-create objects)
git add .; git commit -qm c1
OID=$(sha256sum <a.bin | cut -d' ' -f1)
OBJ=.git/lfs/objects/$(echo $OID | cut -c1-2)/$(echo $OID | cut -c3-4)/$OID
echo "--- intact";                                   git lfs fsck; echo "exit=$?"
echo CORRUPT >>"$OBJ"
echo "--- object corrupt, no fetchexclude (dry run)";  git lfs fsck --dry-run || echo "exit=$?"
echo "--- object corrupt, lfs.fetchexclude=/a.bin  (sub/d.bin does NOT match and needs the object)"
git config lfs.fetchexclude /a.bin
git lfs fsck; echo "exit=$?"; echo "object file now: $(cat $OBJ | tr "\n" " ")"
rm "$OBJ"
echo "--- object missing, lfs.fetchexclude=/a.bin"
git lfs fsck; echo "exit=$?"; ls "$OBJ" 2>&1 | sed "s#.*: ##"
echo "--- control: lfs.fetchexclude=/sub (a.bin does not match)"
git config lfs.fetchexclude /sub
git lfs fsck --dry-run || echo "exit=$?"
cd /; rm -rf "$T"
