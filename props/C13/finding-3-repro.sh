#!/bin/sh
# note 3: `git lfs fsck --dry-run` (no revision argument) can ADD an object to .git/lfs/objects:
# its index scan runs `git diff-index -M HEAD` with the LFS clean filter enabled; rename detection on a stat-dirty
# work-tree file runs `git-lfs clean`, which stores the file's content as an LFS object.
set -e
BIN=${GITLFS:-/verif/.build/C13/git-lfs}
T=$(mktemp -d /tmp/C13-f3-XXXXXX); cd "$T"
mkdir bin home; ln -s "$BIN" bin/git-lfs
export HOME=$T/home PATH=$T/bin:/usr/bin:/bin GIT_CONFIG_NOSYSTEM=1 LC_ALL=C
git config --global user.name V; git config --global user.email v@example.com; git config --global init.defaultBranch main
git lfs install >/dev/null
git init -q repo; cd repo
git lfs track '*.bin' >/dev/null
echo AAAA >a.bin; echo BBBB >b.bin
sleep 1.1; git add .; git commit -qm c1
git mv a.bin e.bin                       # staged rename = delete + add pair; e.bin holds the real content
git status --short
sleep 1.1; touch e.bin                   # stat-dirty
OID=$(sha256sum <e.bin | cut -d' ' -f1)
OBJ=.git/lfs/objects/$(echo $OID | cut -c1-2)/$(echo $OID | cut -c3-4)/$OID
rm "$OBJ"                                # the object of a.bin/e.bin is missing locally
echo "--- objects before:"; find .git/lfs/objects -type f | sort
git lfs fsck --dry-run && echo "exit=0" || echo "exit=$?"
echo "--- objects after --dry-run:"; find .git/lfs/objects -type f | sort
echo "--- second run:"; git lfs fsck --dry-run && echo "exit=0" || echo "exit=$?"
cd /; rm -rf "$T"
