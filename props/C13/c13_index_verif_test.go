package c13

// C13 — the INDEX-STATE dimension of the no-argument form `git lfs fsck`.
//
// One small world (HEAD = one commit: keep/a.bin -> c0, keep/b.bin -> c1, skip/s.bin -> c2, all canonical
// pointers; local store = c0..c4, c3 is what staged changes bring in, c4 is referenced by nothing) crossed
// with a table of STAGED STATES.  A staged state is written down as data: which HEAD paths left the index,
// which entries were put into it (new path or replacing a HEAD path), and which of those pairs git is
// expected to present as a rename.  The index tree that results is loaded with read-tree and the work tree
// is checked out from it, so the repository is in the state `git add` / `git rm [--cached]` / `git mv` /
// `cp + git add` leave behind; that git really sees the state as claimed (A / M / D / R100 / R<100 entries of
// `git diff-index -M --cached HEAD`, which is what git-lfs' index scan reads) is self-checked per base
// repository.  One entry of a state may take its pointer FORM from the enumerated slot 0: canonical =
// the plain operation, another decodable encoding = "rename + edit" (similarity < 100%), raw = the
// staged file is content instead of a pointer (type change).
//
// The reference model is unchanged: for the no-argument form the scope is HEAD plus (object check only)
// the index, each tree at its own current paths; lfs.fetchexclude exempts paths, lfs.fetchinclude nothing.

import (
	"path"
	"strings"
)

const (
	ixKeepA = "keep/a.bin"
	ixKeepB = "keep/b.bin"
	ixSkipS = "skip/s.bin"
)

// contents: c0 = keep/a.bin, c1 = keep/b.bin, c2 = skip/s.bin, c3 = brought in by staged changes, c4 = unreferenced
var ixObjects = []int{0, 1, 2, 3, 4}

func ixHead() tree {
	return tree{
		text(".gitattributes", attrs("*.bin")),
		lfsFixed(ixKeepA, 0, fCanon, true),
		lfsFixed(ixKeepB, 1, fCanon, true),
		lfsFixed(ixSkipS, 2, fCanon, true),
		text("README.md", "# index states\n"),
	}
}

type ixState struct {
	name    string
	del     []string    // HEAD paths that are not in the index
	put     []ent       // entries put into the index (a new path, or replacing the HEAD entry of that path)
	renames [][2]string // (HEAD path, put path) pairs that are the same file moved: git must show R when both blobs are pointers to one object
	wtKeep  []string    // deleted paths whose work-tree file stays (git rm --cached)
	main    form        // form of the slot entry in the main product (fCanon; fRaw for the type-change states)
	what    string      // the git commands that produce the state
}

func (s ixState) slotted() bool {
	for _, e := range s.put {
		if e.kind == kLFS && e.slot >= 0 {
			return true
		}
	}
	return false
}

func fx(path string, content int) ent { return lfsFixed(path, content, fCanon, true) }

func ixStates() []ixState {
	return []ixState{
		{name: "none", what: "nothing staged (control)"},
		{name: "add", put: []ent{lfs("keep/n.bin", 3, 0)}, what: "git add keep/n.bin (new file)"},
		{name: "add-excl", put: []ent{lfs("skip/n.bin", 3, 0)}, what: "git add skip/n.bin (new file below the excluded directory)"},
		{name: "modify", put: []ent{lfs(ixKeepA, 3, 0)}, what: "new content for keep/a.bin; git add"},
		{name: "modify-excl", put: []ent{lfs(ixSkipS, 3, 0)}, what: "new content for skip/s.bin; git add"},
		{name: "typechange", put: []ent{lfs(ixKeepA, 0, 0)}, main: fRaw, what: "keep/a.bin replaced by its content (not a pointer any more) and added without the filter"},
		{name: "typechange-excl", put: []ent{lfs(ixSkipS, 2, 0)}, main: fRaw, what: "skip/s.bin replaced by its content and added without the filter"},
		{name: "rm-cached", del: []string{ixKeepA}, wtKeep: []string{ixKeepA}, what: "git rm --cached keep/a.bin"},
		{name: "rm", del: []string{ixKeepA}, what: "git rm keep/a.bin"},
		{name: "rm-excl", del: []string{ixSkipS}, what: "git rm skip/s.bin"},
		{name: "mv-within", del: []string{ixKeepA}, put: []ent{lfs("keep/m.bin", 0, 0)}, renames: [][2]string{{ixKeepA, "keep/m.bin"}}, what: "git mv keep/a.bin keep/m.bin"},
		{name: "mv-sub", del: []string{ixKeepA}, put: []ent{lfs("keep/sub/a.bin", 0, 0)}, renames: [][2]string{{ixKeepA, "keep/sub/a.bin"}}, what: "git mv keep/a.bin keep/sub/a.bin"},
		{name: "mv-out", del: []string{ixSkipS}, put: []ent{lfs("keep/s.bin", 2, 0)}, renames: [][2]string{{ixSkipS, "keep/s.bin"}}, what: "git mv skip/s.bin keep/s.bin (excluded -> not excluded)"},
		{name: "mv-out-sub", del: []string{ixSkipS}, put: []ent{lfs("keep/sub/s.bin", 2, 0)}, renames: [][2]string{{ixSkipS, "keep/sub/s.bin"}}, what: "git mv skip/s.bin keep/sub/s.bin"},
		{name: "mv-in", del: []string{ixKeepA}, put: []ent{lfs("skip/a.bin", 0, 0)}, renames: [][2]string{{ixKeepA, "skip/a.bin"}}, what: "git mv keep/a.bin skip/a.bin (not excluded -> excluded)"},
		{name: "mv-both", del: []string{ixSkipS, ixKeepA}, put: []ent{lfs("keep/s.bin", 2, 0), fx("skip/a.bin", 0)},
			renames: [][2]string{{ixSkipS, "keep/s.bin"}, {ixKeepA, "skip/a.bin"}}, what: "git mv skip/s.bin keep/s.bin; git mv keep/a.bin skip/a.bin"},
		{name: "mv-edit", del: []string{ixKeepA}, put: []ent{lfs("keep/m.bin", 3, 0)}, what: "git mv keep/a.bin keep/m.bin, then new content (another object) for keep/m.bin; git add"},
		{name: "mv-replace", put: []ent{fx("keep/m.bin", 0), lfs(ixKeepA, 3, 0)}, what: "git mv keep/a.bin keep/m.bin, then a new file at keep/a.bin; git add"},
		{name: "mv-chain", del: []string{ixKeepA}, put: []ent{fx(ixKeepB, 0), fx("keep/c.bin", 1)}, what: "git mv keep/b.bin keep/c.bin; git mv keep/a.bin keep/b.bin"},
		{name: "swap", put: []ent{fx(ixKeepA, 1), fx(ixKeepB, 0)}, what: "keep/a.bin and keep/b.bin exchange their contents; git add"},
		{name: "copy", put: []ent{lfs("keep/copy.bin", 0, 0)}, what: "cp keep/a.bin keep/copy.bin; git add"},
		{name: "copy-out", put: []ent{lfs("keep/s2.bin", 2, 0)}, what: "cp skip/s.bin keep/s2.bin; git add (excluded -> not excluded)"},
		{name: "copy-in", put: []ent{lfs("skip/a2.bin", 0, 0)}, what: "cp keep/a.bin skip/a2.bin; git add (not excluded -> excluded)"},
		// one pointer blob staged under TWO new paths, the excluded one sorting first; HEAD has it under an excluded path only
		{name: "copy-two", put: []ent{fx("skip/s2.bin", 2), lfs("vis/s2.bin", 2, 0)}, what: "cp skip/s.bin skip/s2.bin; cp skip/s.bin vis/s2.bin; git add (same blob at an excluded and a non-excluded new path)"},
	}
}

func (s ixState) indexTree(head tree) tree {
	if len(s.del)+len(s.put) == 0 {
		return nil
	}
	drop := set(s.del...)
	for _, e := range s.put {
		drop[e.path] = true
	}
	var t tree
	for _, e := range head {
		if !drop[e.path] {
			t = append(t, e)
		}
	}
	return append(t, s.put...)
}

// diffWant: what `git diff-index -M --cached HEAD` has to list for the state under a form assignment.
// A declared rename shows as R100 when the moved blob is byte-identical, as R<100 when it is another
// decodable encoding of the same pointer (similarity well above git's 50% threshold; a pointer to another
// object shares only the version line with the old one and is below it) and as D + A otherwise.
func (s ixState) diffWant(head tree) func(assign []form) []string {
	return func(assign []form) []string {
		headEnt := map[string]ent{}
		for _, e := range head {
			headEnt[e.path] = e
		}
		putEnt := map[string]ent{}
		for _, e := range s.put {
			putEnt[e.path] = e
		}
		var out []string
		paired := map[string]bool{}
		for _, rn := range s.renames {
			src, dst := headEnt[rn[0]], putEnt[rn[1]]
			f := dst.formIn(assign)
			if src.content == dst.content && f.isPointer() {
				score := "<100"
				if f == src.formIn(assign) {
					score = "100"
				}
				out = append(out, "R"+score+" "+rn[0]+">"+rn[1])
				paired[rn[0]], paired[rn[1]] = true, true
			}
		}
		for _, p := range s.del {
			if !paired[p] {
				out = append(out, "D "+p)
			}
		}
		for _, e := range s.put {
			if paired[e.path] {
				continue
			}
			h, inHead := headEnt[e.path]
			switch {
			case !inHead:
				out = append(out, "A "+e.path)
			case string(h.blob(assign, attrShort)) != string(e.blob(assign, attrShort)):
				out = append(out, "M "+e.path)
			}
		}
		return out
	}
}

// fetch-filter configurations of the index world.  Which paths a pattern matches is stated here by
// construction (gitignore semantics of the three pattern kinds used), never asked from git-lfs.
type ixCfgDef struct {
	pattern, include string
	pm, im           func(string) bool
}

func under(dir string) func(string) bool {
	return func(p string) bool { return strings.HasPrefix(p, dir) }
}
func exactly(q string) func(string) bool { return func(p string) bool { return p == q } }
func named(b string) func(string) bool   { return func(p string) bool { return path.Base(p) == b } }

// 0..3 are explored in both tiers, 4..6 in the thorough tier only
var ixCfgDefs = []ixCfgDef{
	{},
	{pattern: "skip/", pm: under("skip/")},
	{include: "keep/", im: under("keep/")},
	{pattern: "skip/", pm: under("skip/"), include: "keep/", im: under("keep/")},
	{pattern: "/keep/a.bin", pm: exactly("keep/a.bin")}, // only the OLD path of the moves inside keep/ is excluded
	{pattern: "m.bin", pm: named("m.bin")},              // only the NEW path of mv-within / mv-edit / mv-replace is excluded
	{include: "skip/", im: under("skip/")},
}

func indexShapes() []shape {
	head := ixHead()
	var r []shape
	for _, s := range ixStates() {
		idx := s.indexTree(head)
		paths := map[string]bool{}
		for _, t := range []tree{head, idx} {
			for _, e := range t {
				if e.kind == kLFS {
					paths[e.path] = true
				}
			}
		}
		var cfgs []exclSpec
		for _, d := range ixCfgDefs {
			x := exclSpec{pattern: d.pattern, include: d.include}
			for p := range paths {
				if d.pm != nil && d.pm(p) {
					if x.paths == nil {
						x.paths = map[string]bool{}
					}
					x.paths[p] = true
				}
				if d.im != nil && d.im(p) {
					if x.incPaths == nil {
						x.incPaths = map[string]bool{}
					}
					x.incPaths[p] = true
				}
			}
			cfgs = append(cfgs, x)
		}
		sh := shape{
			name:     "ix-" + s.name,
			family:   "index",
			commits:  []tree{head},
			index:    idx,
			objects:  ixObjects,
			nslots:   1,
			revs:     []revSpec{{arg: "", commits: []int{0}, base: -1, useIndex: true}, {arg: "HEAD", commits: []int{0}, base: -1}},
			excl:     cfgs,
			objForms: [][]form{{s.main}},
			wtKeep:   s.wtKeep,
			note:     s.what,
		}
		if idx != nil {
			sh.diffWant = s.diffWant(head)
		}
		r = append(r, sh)
	}
	return r
}

// damage vectors of the index world (positions = c0..c4)
func ixSingleDamages(nObj int, kinds []int) [][]int {
	out := [][]int{make([]int, len(ixObjects))}
	for i := 0; i < nObj; i++ {
		for _, d := range kinds {
			v := make([]int, len(ixObjects))
			v[i] = d
			out = append(out, v)
		}
	}
	return out
}

var (
	ixMixed  = []int{dBitflip, dIntact, dDeleted, dTruncated, dIntact}  // c0 corrupt, c2 missing, c3 corrupt
	ixMixed2 = []int{dDeleted, dIntact, dExtended, dReplaced, dIntact} // c0 missing, c2 corrupt, c3 holds c4's bytes
)

// indexSlices: the complete products explored over the index world (appended after the history slices).
//
//	ixobj/<state>   main form x single damages x no-argument form x no flag x fetch-filter configurations
//	ixform/<state>  (states with a slot) the other forms x fixed damage vectors x configurations x flags
//	ixflags/<state> main form x fixed damage vectors x configurations x {no argument, HEAD} x flag sets
func indexSlices(shs []shape, thorough bool) []sliceDef {
	states := ixStates()
	byName := map[string]ixState{}
	for _, s := range states {
		byName["ix-"+s.name] = s
	}
	pick := func(all []exclSpec, idx ...int) []exclSpec {
		var r []exclSpec
		for _, i := range idx {
			r = append(r, all[i])
		}
		return r
	}
	var out []sliceDef
	for si := range shs {
		sh := &shs[si]
		if sh.family != "index" {
			continue
		}
		st := byName[sh.name]
		noArg, both := sh.revs[:1], sh.revs
		mainForms := [][]form{{st.main}}
		var others [][]form
		alpha := []form{fCanon, fCRLF, fRaw}
		if thorough {
			alpha = []form{fCanon, fCRLF, fRaw, fNoNL}
		}
		for _, f := range alpha {
			if f != st.main {
				others = append(others, []form{f})
			}
		}
		n := strings.TrimPrefix(sh.name, "ix-")
		if !thorough {
			out = append(out, sliceDef{name: "ixobj/" + n, shape: si, forms: mainForms, damages: ixSingleDamages(4, []int{dDeleted, dBitflip}), flags: []flagSet{flNone}, revs: noArg, excl: pick(sh.excl, 0, 1, 2, 3)})
			if st.slotted() {
				out = append(out, sliceDef{name: "ixform/" + n, shape: si, forms: others, damages: [][]int{ixMixed}, flags: []flagSet{flNone, flPtr}, revs: noArg, excl: pick(sh.excl, 0, 1)})
			}
			out = append(out, sliceDef{name: "ixflags/" + n, shape: si, forms: mainForms, damages: [][]int{ixMixed}, flags: []flagSet{flNone, flObj, flPtr, flDry}, revs: both, excl: pick(sh.excl, 1)})
			continue
		}
		out = append(out, sliceDef{name: "ixobj/" + n, shape: si, forms: mainForms, damages: ixSingleDamages(5, []int{dDeleted, dTruncated, dExtended, dBitflip, dReplaced}), flags: []flagSet{flNone}, revs: noArg, excl: pick(sh.excl, 0, 1, 2, 3)})
		out = append(out, sliceDef{name: "ixobj-morecfg/" + n, shape: si, forms: mainForms, damages: ixSingleDamages(5, []int{dDeleted, dBitflip}), flags: []flagSet{flNone}, revs: noArg, excl: pick(sh.excl, 4, 5, 6)})
		if st.slotted() {
			out = append(out, sliceDef{name: "ixform/" + n, shape: si, forms: others, damages: [][]int{make([]int, len(ixObjects)), ixMixed, ixMixed2}, flags: []flagSet{flNone, flPtr, flDry}, revs: noArg, excl: pick(sh.excl, 0, 1, 3)})
		}
		out = append(out, sliceDef{name: "ixflags/" + n, shape: si, forms: mainForms, damages: [][]int{ixMixed, ixMixed2}, flags: []flagSet{flNone, flObj, flPtr, flDry, flDryObj}, revs: both, excl: pick(sh.excl, 0, 1)})
	}
	return out
}
