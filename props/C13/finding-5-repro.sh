#!/bin/sh
# finding-5: a `lockable`-only attribute line (next to the filter=lfs line for the same files) makes fsck skip those files in the pointer check
BIN=${GITLFS:-/verif/.build/C13/git-lfs}
T=$(mktemp -d /tmp/C13-f5-XXXXXX); cd "$T"
mkdir bin home; ln -s "$BIN" bin/git-lfs
export HOME=$T/home PATH=$T/bin:/usr/bin:/bin GIT_CONFIG_NOSYSTEM=1 LC_ALL=C
git config --global user.name V; git config --global user.email v@example.com; git config --global init.defaultBranch main
# no LFS filter is configured: files are committed exactly as written (a raw file under an LFS pattern = what fsck --pointers exists to find)
run() { # $1 = title, $2 = .gitattributes text, $3 = docs/.gitattributes text or ''
  rm -rf repo; git init -q repo; cd repo; mkdir docs
  printf "$2" > .gitattributes
  [ -n "$3" ] && printf "$3" > docs/.gitattributes
  printf 'raw photoshop data, not a pointer\n' > x.psd
  printf 'raw photoshop data, not a pointer (2)\n' > docs/y.psd
  git add -A; git commit -qm one
  echo "--- $1"
  git check-attr filter lockable -- x.psd docs/y.psd | sed 's/^/   git: /'
  git lfs fsck --pointers | sed 's/ (treeish [0-9a-f]*)//; s/^/   fsck: /'
  git lfs fsck --pointers >/dev/null; echo "   exit=$?"
  cd ..
}
F='*.psd filter=lfs diff=lfs merge=lfs -text'
run "control: lockable on the filter line (what 'git lfs track --lockable' writes)" "$F lockable\n" ''
run "lockable on a line of its own AFTER the filter line"  "$F\n*.psd lockable\n" ''
run "lockable on a line of its own BEFORE the filter line" "*.psd lockable\n$F\n" ''
run "lockable in a nested docs/.gitattributes"             "$F\n" '*.psd lockable\n'
cd /; rm -rf "$T"
