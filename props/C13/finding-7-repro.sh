#!/bin/sh
# finding-7: `-<macro>` (macro attribute set to false) does not expand the macro in git, so the path has no filter;
# fsck's pointer check still expects a pointer there (false positive, exit 1 on an intact repository)
BIN=${GITLFS:-/verif/.build/C13/git-lfs}
T=$(mktemp -d /tmp/C13-f7-XXXXXX); cd "$T"
mkdir bin home; ln -s "$BIN" bin/git-lfs
export HOME=$T/home PATH=$T/bin:/usr/bin:/bin GIT_CONFIG_NOSYSTEM=1 LC_ALL=C
git config --global user.name V; git config --global user.email v@example.com; git config --global init.defaultBranch main
run() { # $1 = title, $2 = .gitattributes text
  rm -rf repo; git init -q repo; cd repo; mkdir vendor
  printf "$2" > .gitattributes
  printf 'plain vendored blob, not an LFS file\n' > vendor/lib.bin
  git add -A; git commit -qm one
  echo "--- $1"
  git check-attr filter -- vendor/lib.bin | sed 's/^/   git: /'
  git lfs fsck --pointers | sed 's/ (treeish [0-9a-f]*)//; s/^/   fsck: /'
  git lfs fsck --pointers >/dev/null; echo "   exit=$?"
  cd ..
}
M='[attr]lfs filter=lfs diff=lfs merge=lfs -text\n*.bin lfs\n'
run "control: vendor/*.bin !lfs (macro unspecified)" "${M}vendor/*.bin !lfs\n"
run "vendor/*.bin -lfs (macro set to false)"        "${M}vendor/*.bin -lfs\n"
cd /; rm -rf "$T"
