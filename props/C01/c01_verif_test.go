package commands

// C01 — clean then smudge returns the original bytes; the pointer names their SHA-256 and length.
// (C08 shares this driver and library; its parts live in c01_c08_verif_test.go.)
//
// Delivery paths (one vx.Part each):
//   inproc         commands.clean / commands.smudge in worker processes with an exactly chunked io.Reader
//   oneshot        the real `git-lfs clean` / `git-lfs smudge` fed through a kernel pipe with the same exact chunking
//   filterprocess  the real `git-lfs filter-process` driven by a pkt-line client (packet sizes 1,1023,1024,1025,65516,1/65516)
//   git            real `git add` + `git checkout`, `git hash-object --path` + `git cat-file --filters`
//   merge          real `git merge` through `git lfs merge-driver`

import (
	"bytes"
	"fmt"
	"os"
	"path/filepath"
	"runtime"
	"sort"
	"strings"
	"testing"
	"time"

	"github.com/git-lfs/git-lfs/v3/verifx/gitx"
	"github.com/git-lfs/git-lfs/v3/verifx/vx"
)

type c01Env struct {
	prop     string
	thorough bool
	scratch  string
	pool     *vx.ProcPool
	inputs   []c01Input
	stored   map[string]string // input name|ext -> scratch file with the bytes local storage must hold
}

type c01Part struct {
	name string
	run  vx.RunFunc
}

func c01Viol(prop string, f *c01Fail, class, caseID string, detail map[string]interface{}) vx.Violation {
	if detail == nil {
		detail = map[string]interface{}{}
	}
	detail["case"] = caseID
	return vx.Violation{Fingerprint: prop + ":" + f.Clause + ":" + class, Msg: f.Msg + "\ncase: " + caseID, Detail: detail}
}

// ---------------------------------------------------------------------------------------------------------
// C01 inputs and chunkings

func c01Sizes(thorough bool) []int {
	s := []int{0, 1, 2, 5, 1023, 1024, 1025, 4096, 65515, 65516, 65517}
	if thorough {
		s = append(s, 131032, 131033, 3<<20)
	}
	return s
}

func c01Inputs(thorough bool) []c01Input {
	var r []c01Input
	r = append(r, c01Input{Name: "empty", Kind: "zero", Data: []byte{}})
	for _, kind := range []string{"bin", "text", "zero"} {
		for _, n := range c01Sizes(thorough) {
			if n == 0 || (n == 5 && kind != "bin") || (n == 3<<20 && kind != "bin") {
				continue
			}
			r = append(r, c01Input{Name: fmt.Sprintf("%s%d", kind, n), Kind: kind, Data: gitx.Content(kind, n, uint32(n))})
		}
	}
	// whitespace-only content (must be stored like any other content; only the zero-length file is the empty pointer)
	for _, n := range []int{1, 2, 1023, 1024, 1025, 2048} {
		d := make([]byte, n)
		for i := range d {
			d[i] = " \n\t\r\n"[i%5]
		}
		r = append(r, c01Input{Name: fmt.Sprintf("blank%d", n), Kind: "blank", Data: d})
	}
	r = append(r, c01Input{Name: "blank-nl1", Kind: "blank", Data: []byte("\n")}, c01Input{Name: "blank-crlf2", Kind: "blank", Data: []byte("\r\n")})
	// pointer look-alikes: canonical pointer text followed by non-blank padding up to the size (never parseable as a whole)
	p := c01BasePointerText(0)
	for _, n := range []int{len(p) + 1, 1023, 1024, 1025, 4096, 65517} {
		d := append([]byte(p), bytes.Repeat([]byte{'x'}, n-len(p))...)
		r = append(r, c01Input{Name: fmt.Sprintf("look%d", n), Kind: "look", Data: d, PtrEnd: len(p)})
	}
	// look-alikes under 1024 bytes that have the SHAPE of a pointer but an invalid value: not pointers, so they are content like
	// any other (hashed, stored, named by the emitted pointer) -- they fail the decoder with an ordinary error, not with its
	// "not a pointer" error, which is a different path through clean
	oid0 := "4d7a214614ab2935c943f9e0ff69d22eadbb8f32b1258daaa5e2ca24d17e2393"
	bad := map[string]string{
		"short-oid":    fmt.Sprintf("version %s\noid sha256:%s\nsize 12345\n", c01Version, oid0[:40]),
		"spec-v2":      fmt.Sprintf("version https://git-lfs.github.com/spec/v2\noid sha256:%s\nsize 12345\n", oid0),
		"size-unit":    fmt.Sprintf("version %s\noid sha256:%s\nsize 12 KB\n", c01Version, oid0),
		"oid-md5":      fmt.Sprintf("version %s\noid md5:%s\nsize 12345\n", c01Version, oid0[:32]),
		"dup-ext-prio": fmt.Sprintf("version %s\next-0-a sha256:%s\next-0-b sha256:%s\noid sha256:%s\nsize 12345\n", c01Version, oid0, oid0, oid0),
		"neg-size":     fmt.Sprintf("version %s\noid sha256:%s\nsize -5\n", c01Version, oid0),
	}
	var bn []string
	for k := range bad {
		bn = append(bn, k)
	}
	sort.Strings(bn)
	for _, k := range bn {
		if c01ImplParses([]byte(bad[k])) {
			continue // the decoder of the tree under test accepts it: then it is a pointer for C01's purposes and C08 judges it
		}
		r = append(r, c01Input{Name: "lookbad-" + k, Kind: "lookbad", Data: []byte(bad[k])})
	}
	return r
}

func c01Chunkings(in c01Input) []c01Chunking {
	n := len(in.Data)
	if n <= 1 {
		return []c01Chunking{{}}
	}
	if n <= 6 {
		return c01Compositions(n)
	}
	cand := []int{1, 1023, 1024, 1025, 65516, n - 1}
	if in.PtrEnd > 0 {
		cand = append(cand, in.PtrEnd-1, in.PtrEnd, in.PtrEnd+1)
	}
	r := c01CutSets(n, cand)
	if n <= 1025 {
		r = append(r, c01Chunking{Every: 1})
	}
	return r
}

var c01WTLens = []int{0, 1, 100, 1023, 1024, 1025, -1}

// chunkings with which the emitted pointer is fed back to smudge
func c01SmudgeChunkings(full bool) []c01Chunking {
	r := []c01Chunking{{}, {Every: 1}, {Cuts: []int{1}}, {Cuts: []int{60}}, {Cuts: []int{60, 120}}}
	if full {
		for p := 2; p < 330; p++ {
			if p != 60 {
				r = append(r, c01Chunking{Cuts: []int{p}})
			}
		}
	}
	return r
}

// ---------------------------------------------------------------------------------------------------------
// part: inproc

// smudge class of a pointer delivered with chunking sm
func c01SmudgeClass(ptr []byte, sm c01Chunking, ext string) string {
	cl := "pointer-split-across-reads"
	if fr := sm.firstRead(len(ptr)); fr > 0 && fr < len(ptr) && c01IsPointerText(ptr[:fr]) {
		cl = "pointer-cut-leaves-shorter-valid-pointer"
	}
	if ext != "" {
		cl += ",ext=" + ext
	}
	return cl
}

func (e *c01Env) partInproc() c01Part {
	run := func(x *vx.X) vx.Result {
		in := e.inputs[x.In(len(e.inputs))]
		n := len(in.Data)
		ext := c01ExtKinds[x.In(len(c01ExtKinds))]
		full := ext == "" || e.thorough // quick: extensions with a reduced working-tree / chunking product
		wts := c01WTStates(n, c01WTLens)
		if !full {
			wts = c01WTStates(n, []int{0})
			wts = wts[:len(wts)-1]
		}
		wt := wts[x.In(len(wts))]
		chs := c01Chunkings(in)
		if !full {
			var k []c01Chunking
			for _, c := range chs {
				if len(c.Cuts) <= 1 {
					k = append(k, c)
				}
			}
			chs = k
		}
		ch := chs[x.In(len(chs))]
		eof := false
		if full {
			eof = x.In(2) == 1
		}
		plain := wt.Kind == "absent" && len(ch.Cuts) == 0 && ch.Every == 0 && !eof
		pre := ""
		if plain && ext == "" && n > 0 {
			pre = []string{"", "present", "wrongsize"}[x.In(3)]
		}
		smChs := []c01Chunking{{}}
		if plain && pre == "" && n > 0 {
			smChs = c01SmudgeChunkings(in.Name == "bin4096" || in.Name == "look1025" || in.Name == "text1")
		}
		sm := smChs[x.In(len(smChs))]
		smSingle := len(sm.Cuts) == 0 && sm.Every == 0
		req := c01Req{Repo: ext, InputFile: in.File, Path: "f.bin", WT: wt, Ch: ch, EOFLast: eof, Pre: pre}
		if smSingle {
			req.Smudge = []c01Chunking{{}}
		}
		caseID := fmt.Sprintf("inproc input=%s ext=%q worktree=%s chunking=%s eof-with-last-read=%v store=%q smudge-chunking=%s", in.Name, ext, wt, ch, eof, pre, sm)
		r := vx.Result{Evals: 1, Counters: map[string]int64{}, Sample: map[string]interface{}{"delivery": "in-process commands.clean/commands.smudge", "input": in.Name, "bytes": n,
			"extension": ext, "worktree_file": wt.String(), "chunking": ch.String(), "eof_with_last_read": eof, "store_before": pre, "pointer_chunking_for_smudge": sm.String()}}
		if n > 0 {
			r.NonTrivial = []string{caseID}
		}
		cl := map[string]int64{}
		defer func() {
			for k, v := range cl {
				r.Counters["clause:"+k] += v
			}
		}()
		obs, died, inconcl, toolerr := c01Inproc(e.pool, req)
		if inconcl != "" {
			r.Inconcl = inconcl
			return r
		}
		if toolerr != "" {
			r.ToolErr = toolerr
			return r
		}
		class := c01Class(in, wt.relation(n), ch, ext)
		if pre == "wrongsize" {
			class = "stored-object-has-wrong-size"
		}
		bucket := c01SizeBucket(n)
		cl["filter-does-not-abort"]++
		if died != "" {
			if pre == "wrongsize" && strings.Contains(died, "Files don't match") {
				// documented refusal: no pointer is emitted for a stored object of the wrong length
				r.Outcome = "inproc/refused-files-dont-match/" + bucket
				return r
			}
			r.Outcome = "inproc/ABORTED/" + bucket
			r.Violations = append(r.Violations, c01Viol(e.prop, &c01Fail{"filter-aborted", "git-lfs terminated the process instead of emitting a pointer / content:\n" + c01LastLines(died, 6)}, class, caseID, nil))
			return r
		}
		var fail *c01Fail
		branch := ""
		if obs.CleanPanic != "" {
			fail = &c01Fail{"clean-panicked", "clean panicked: " + obs.CleanPanic}
		} else {
			branch, fail = c01JudgeClean(ext, in.Data, obs.CleanOut, obs.Store, cl)
		}
		if fail != nil {
			r.Violations = append(r.Violations, c01Viol(e.prop, fail, class, caseID, map[string]interface{}{"emitted": c01Short(obs.CleanOut), "store": obs.Store,
				"bytes_consumed_from_stream": obs.Consumed, "reads": obs.Reads, "clean_error": obs.CleanErr, "stderr": obs.Stderr}))
		} else if smSingle {
			r.Evals++
			if len(obs.Smudges) != 1 {
				r.ToolErr = "worker returned no smudge observation for a correct pointer"
				return r
			}
			if fail = c01JudgeSmudge(in.Data, obs.Smudges[0], cl); fail != nil {
				r.Violations = append(r.Violations, c01Viol(e.prop, fail, class, caseID, map[string]interface{}{"pointer": string(obs.CleanOut), "store_after": obs.StoreAfter}))
			}
		} else {
			// the emitted pointer handed to smudge in pieces (own request: a process exit is then attributable)
			r.Evals++
			smClass := c01SmudgeClass(obs.CleanOut, sm, ext)
			sreq := c01Req{Repo: ext, InputFile: in.File, Path: "f.bin", WT: wt, NoClean: true, SmudgeSrc: obs.CleanOut, Smudge: []c01Chunking{sm}, PreStore: []string{e.stored[in.Name+"|"+ext]}}
			sobs, sdied, sinc, sterr := c01Inproc(e.pool, sreq)
			if sinc != "" {
				r.Inconcl = sinc
				return r
			}
			if sterr != "" {
				r.ToolErr = sterr
				return r
			}
			cl["filter-does-not-abort"]++
			if sdied != "" {
				fail = &c01Fail{"smudge-aborted", fmt.Sprintf("smudge of the emitted %d-byte pointer delivered as %s terminated the process:\n%s", len(obs.CleanOut), sm, c01LastLines(sdied, 6))}
			} else if len(sobs.Smudges) != 1 {
				r.ToolErr = "worker returned no smudge observation"
				return r
			} else {
				fail = c01JudgeSmudge(in.Data, sobs.Smudges[0], cl)
			}
			if fail != nil {
				r.Violations = append(r.Violations, c01Viol(e.prop, fail, smClass, caseID, map[string]interface{}{"pointer": string(obs.CleanOut), "first_read": c01Short(obs.CleanOut[:sm.firstRead(len(obs.CleanOut))]), "store_before_smudge": sobs.Store, "store_after_smudge": sobs.StoreAfter}))
			}
		}
		res := "ok"
		if fail != nil {
			res = "FAIL-" + fail.Clause
		}
		smo := "smudge-1-read"
		if !smSingle {
			smo = "smudge-split"
		}
		r.Outcome = fmt.Sprintf("inproc/%s/%s/wt-%s/%s/%s", branch, bucket, wt.relation(n), smo, res)
		return r
	}
	return c01Part{"inproc", run}
}

// ---------------------------------------------------------------------------------------------------------
// e2e helpers

// c01Repo creates a repository in a fresh world.  process=false removes filter.lfs.process from the global config
// (Git then uses the one-shot clean/smudge commands).
func c01Repo(scratch string, process bool, ext string) (*gitx.World, string) {
	w, err := gitx.NewWorld(scratch)
	if err != nil {
		panic(vx.ToolError{Msg: "cannot create world: " + err.Error()})
	}
	if !process {
		p := filepath.Join(w.Home, ".gitconfig")
		b, _ := os.ReadFile(p)
		os.WriteFile(p, []byte(strings.Replace(string(b), "\tprocess = git-lfs filter-process\n", "", 1)), 0644)
	}
	repo := w.Init("r", false)
	if ext != "" {
		s := ""
		for _, c := range c01ExtCommands(ext) {
			s += fmt.Sprintf("[lfs \"extension.%s\"]\n\tclean = %s\n\tsmudge = %s\n\tpriority = %d\n", c.Name, c.Clean, c.Smudge, c.Prio)
		}
		f, err := os.OpenFile(filepath.Join(repo, ".git", "config"), os.O_APPEND|os.O_WRONLY, 0644)
		if err != nil {
			panic(vx.ToolError{Msg: err.Error()})
		}
		f.WriteString(s)
		f.Close()
	}
	return w, repo
}

func c01LfsDir(repo string) string { return filepath.Join(repo, ".git", "lfs") }

func c01PutWT(repo, path string, wt c01WT, in []byte) {
	os.Remove(filepath.Join(repo, path))
	if b, ok := wt.bytesFor(in); ok {
		gitx.WriteFile(repo, path, b, 0644)
	}
}

func c01SmudgeObsOf(out []byte, err string) c01SmudgeObs {
	o := c01SmudgeObs{Len: int64(len(out)), Sha: c01Sha(out), Err: err}
	if len(out) <= 4096 {
		o.Small = out
	}
	return o
}

// quick tier: the real-binary parts leave out most of the all-zero inputs (same sizes as bin/text); thorough: all inputs
func (e *c01Env) e2eInputs() []c01Input {
	if e.thorough {
		return e.inputs
	}
	var r []c01Input
	for _, in := range e.inputs {
		if in.Kind == "zero" && in.Name != "empty" && in.Name != "zero1024" && in.Name != "zero65517" {
			continue
		}
		r = append(r, in)
	}
	return r
}

// ---------------------------------------------------------------------------------------------------------
// part: oneshot (real binary, real pipe, exact chunking)

func (e *c01Env) oneshotChunkings(in c01Input, wt c01WT, ext string) []c01Chunking {
	n := len(in.Data)
	if n <= 1 {
		return []c01Chunking{{}}
	}
	if n <= 6 {
		return c01Compositions(n)
	}
	cand := []int{1, 1023, 1024, 1025, 65516, n - 1}
	if in.PtrEnd > 0 {
		cand = append(cand, in.PtrEnd-1, in.PtrEnd, in.PtrEnd+1)
	}
	if !e.thorough && (wt.Kind != "absent" || ext != "") {
		// quick: the full chunking set only without a file at the path and without extensions
		c := []c01Chunking{{}, {Cuts: []int{1}}}
		if n > 1024 {
			c = append(c, c01Chunking{Cuts: []int{1024}})
		}
		return c
	}
	var r []c01Chunking
	for _, c := range c01CutSets(n, cand) {
		if len(c.Cuts) <= 1 || e.thorough {
			r = append(r, c)
		}
	}
	if n <= 1025 && wt.Kind == "absent" {
		r = append(r, c01Chunking{Every: 1})
	}
	return r
}

func (e *c01Env) partOneshot() c01Part {
	exts := []string{"", "chain"}
	lens := []int{0, 100, 1024, -1}
	ins := e.e2eInputs()
	run := func(x *vx.X) vx.Result {
		in := ins[x.In(len(ins))]
		n := len(in.Data)
		ext := exts[x.In(len(exts))]
		wts := c01WTStates(n, lens)
		wts = wts[:len(wts)-1] // one "longer" state
		if ext != "" && !e.thorough {
			wts = wts[:1]
		}
		wt := wts[x.In(len(wts))]
		chs := e.oneshotChunkings(in, wt, ext)
		ch := chs[x.In(len(chs))]
		plain := wt.Kind == "absent" && len(ch.Cuts) == 0 && ch.Every == 0
		pre := ""
		if plain && ext == "" && n > 0 {
			pre = []string{"", "present", "wrongsize"}[x.In(3)]
		}
		caseID := fmt.Sprintf("oneshot input=%s ext=%q worktree=%s chunking=%s store=%q", in.Name, ext, wt, ch, pre)
		r := vx.Result{Evals: 1, Counters: map[string]int64{}, Sample: map[string]interface{}{"delivery": "real `git-lfs clean -- f.bin` / `git-lfs smudge -- f.bin`, stdin = kernel pipe written chunk by chunk (next chunk after FIONREAD==0)",
			"input": in.Name, "bytes": n, "extension": ext, "worktree_file": wt.String(), "chunking": ch.String(), "store_before": pre}}
		if n > 0 {
			r.NonTrivial = []string{caseID}
		}
		w, repo := c01Repo(e.scratch, false, ext)
		defer w.Close()
		c01PutWT(repo, "f.bin", wt, in.Data)
		exp := c01ExpectFor(ext, in.Data)
		switch pre {
		case "present":
			gitx.PutObject(c01LfsDir(repo), exp.Stored)
		case "wrongsize":
			p := gitx.ObjectPath(c01LfsDir(repo), exp.StoredOid)
			os.MkdirAll(filepath.Dir(p), 0755)
			os.WriteFile(p, exp.Stored[:len(exp.Stored)-1], 0644)
		}
		bin := filepath.Join(w.BinDir, "git-lfs")
		cr := c01RunGated(w, repo, nil, []string{bin, "clean", "--", "f.bin"}, in.Data, ch.cutsFor(n))
		if cr.Inconcl != "" || cr.ExecFail != "" {
			r.Inconcl = "clean: " + cr.Inconcl + cr.ExecFail
			return r
		}
		class := c01Class(in, wt.relation(n), ch, ext)
		bucket := c01SizeBucket(n)
		store := c01ScanStore(c01LfsDir(repo))
		cl := map[string]int64{}
		defer func() {
			for k, v := range cl {
				r.Counters["clause:"+k] += v
			}
		}()
		detail := map[string]interface{}{"emitted": c01Short(cr.Out), "exit": cr.Code, "stderr": c01LastLines(cr.Err, 6), "store": store, "unread_bytes_left_in_pipe": cr.Unread, "bytes_never_written": cr.NotSent}
		if pre == "wrongsize" {
			class = "stored-object-has-wrong-size"
			if cr.Code != 0 && len(cr.Out) == 0 {
				r.Outcome = "oneshot/refused-files-dont-match/" + bucket
				return r
			}
		}
		cl["filter-exit-0"]++
		if cr.Code != 0 {
			r.Outcome = "oneshot/ABORTED/" + bucket
			r.Violations = append(r.Violations, c01Viol(e.prop, &c01Fail{"filter-aborted", fmt.Sprintf("`git-lfs clean` exited %d: %s", cr.Code, c01LastLines(cr.Err, 4))}, class, caseID, detail))
			return r
		}
		branch, fail := c01JudgeClean(ext, in.Data, cr.Out, store, cl)
		if fail != nil {
			r.Violations = append(r.Violations, c01Viol(e.prop, fail, class, caseID, detail))
			r.Outcome = fmt.Sprintf("oneshot/%s/%s/wt-%s/FAIL-%s", branch, bucket, wt.relation(n), fail.Clause)
			return r
		}
		// smudge the emitted pointer: single write, and (plain cases) in two writes
		smCh := []c01Chunking{{}}
		if plain && pre == "" && n > 0 {
			smCh = append(smCh, c01Chunking{Cuts: []int{60}}, c01Chunking{Cuts: []int{1}})
		}
		res := "ok"
		for _, sc := range smCh {
			r.Evals++
			sr := c01RunGated(w, repo, nil, []string{bin, "smudge", "--", "f.bin"}, cr.Out, sc.cutsFor(len(cr.Out)))
			if sr.Inconcl != "" || sr.ExecFail != "" {
				r.Inconcl = "smudge: " + sr.Inconcl + sr.ExecFail
				return r
			}
			f := c01JudgeSmudge(in.Data, c01SmudgeObsOf(sr.Out, c01LastLines(sr.Err, 3)), cl)
			if f == nil {
				cl["filter-exit-0"]++
				if sr.Code != 0 {
					f = &c01Fail{"filter-aborted", fmt.Sprintf("`git-lfs smudge` exited %d: %s", sr.Code, c01LastLines(sr.Err, 4))}
				}
			}
			if f != nil {
				scClass := class
				if len(sc.cutsFor(len(cr.Out))) > 0 {
					scClass = "pointer-split-across-reads"
					if ext != "" {
						scClass += ",ext=" + ext
					}
				}
				r.Violations = append(r.Violations, c01Viol(e.prop, f, scClass, caseID+" smudge-chunking="+sc.String(), map[string]interface{}{"pointer": string(cr.Out), "exit": sr.Code}))
				res = "FAIL-" + f.Clause
				break
			}
		}
		r.Outcome = fmt.Sprintf("oneshot/%s/%s/wt-%s/%s", branch, bucket, wt.relation(n), res)
		return r
	}
	return c01Part{"oneshot", run}
}

// ---------------------------------------------------------------------------------------------------------
// part: filterprocess

type c01Pk struct {
	name  string
	sizes []int
	max   int // only for inputs up to this size (0: all)
}

var c01Packetisations = []c01Pk{{"65516", []int{65516}, 0}, {"1", []int{1}, 1025}, {"1023", []int{1023}, 0}, {"1024", []int{1024}, 0}, {"1025", []int{1025}, 0}, {"1/65516", []int{1, 65516}, 0}}

func c01PksFor(n int) []c01Pk {
	var r []c01Pk
	for _, p := range c01Packetisations {
		if p.max == 0 || n <= p.max {
			r = append(r, p)
		}
	}
	return r
}

func (e *c01Env) partFilterProcess() c01Part {
	exts := []string{"", "rot"}
	lens := []int{0, 100, 1024, -1}
	ins := e.e2eInputs()
	run := func(x *vx.X) vx.Result {
		in := ins[x.In(len(ins))]
		n := len(in.Data)
		ext := exts[x.In(len(exts))]
		wts := c01WTStates(n, lens)
		wts = wts[:len(wts)-1]
		if ext != "" && !e.thorough {
			wts = wts[:1]
		}
		wt := wts[x.In(len(wts))]
		pks := c01PksFor(n)
		if !e.thorough && !(wt.Kind == "absent" || (wt.Kind == "prefix" && wt.N == 0)) {
			pks = []c01Pk{c01Packetisations[0], c01Packetisations[3]} // quick: all packetisations only without a file / with an empty file at the path
		}
		pk := pks[x.In(len(pks))]
		delay := false
		if e.thorough || wt.Kind == "absent" {
			delay = x.In(2) == 1 // capability=delay negotiated, can-delay=1 on the smudge request
		}
		caseID := fmt.Sprintf("filter-process input=%s ext=%q worktree=%s packets=%s can-delay=%v", in.Name, ext, wt, pk.name, delay)
		r := vx.Result{Evals: 1, Counters: map[string]int64{}, Sample: map[string]interface{}{"delivery": "real `git-lfs filter-process`, own pkt-line client: command=clean then command=smudge of the returned pointer in the same session",
			"input": in.Name, "bytes": n, "extension": ext, "worktree_file": wt.String(), "packet_payload_sizes": pk.name, "can_delay": delay}}
		if n > 0 {
			r.NonTrivial = []string{caseID}
		}
		w, repo := c01Repo(e.scratch, true, ext)
		defer w.Close()
		c01PutWT(repo, "f.bin", wt, in.Data)
		class := c01Class(in, wt.relation(n), c01Chunking{}, ext)
		bucket := c01SizeBucket(n)
		cl := map[string]int64{}
		defer func() {
			for k, v := range cl {
				r.Counters["clause:"+k] += v
			}
		}()
		fp, err := c01StartFP(w, repo, nil, delay)
		if err != nil {
			if fp != nil {
				fp.Close()
			}
			r.Inconcl = "filter-process handshake did not complete"
			_ = err
			return r
		}
		status, out, rerr := fp.Request("clean", "f.bin", in.Data, pk.sizes)
		var sstatus string
		var sout []byte
		var serr error
		cleanOK := rerr == nil && status == "success"
		if cleanOK {
			sstatus, sout, serr = fp.Request("smudge", "f.bin", out, pk.sizes)
		}
		code, stderr, timedOut := fp.Close()
		if timedOut {
			r.Inconcl = "filter-process timeout"
			return r
		}
		store := c01ScanStore(c01LfsDir(repo))
		detail := map[string]interface{}{"clean_status": status, "clean_protocol_error": fmt.Sprint(rerr), "emitted": c01Short(out), "store": store, "exit": code, "stderr": c01LastLines(stderr, 6)}
		cl["filter-process-answers-success"]++
		if !cleanOK {
			r.Outcome = "filterprocess/ABORTED/" + bucket
			r.Violations = append(r.Violations, c01Viol(e.prop, &c01Fail{"filter-aborted", fmt.Sprintf("filter-process clean request: status=%q protocol error: %v; exit %d; stderr: %s", status, rerr, code, c01LastLines(stderr, 3))}, class, caseID, detail))
			return r
		}
		branch, fail := c01JudgeClean(ext, in.Data, out, store, cl)
		if fail == nil {
			cl["filter-process-answers-success"]++
			if serr != nil || sstatus != "success" {
				fail = &c01Fail{"filter-aborted", fmt.Sprintf("filter-process smudge request: status=%q protocol error: %v; stderr: %s", sstatus, serr, c01LastLines(stderr, 3))}
			} else {
				r.Evals++
				fail = c01JudgeSmudge(in.Data, c01SmudgeObsOf(sout, ""), cl)
			}
		}
		if fail == nil {
			cl["filter-process-exits-0"]++
			if code != 0 {
				fail = &c01Fail{"filter-aborted", fmt.Sprintf("filter-process exited %d after answering: %s", code, c01LastLines(stderr, 3))}
			}
		}
		res := "ok"
		if fail != nil {
			r.Violations = append(r.Violations, c01Viol(e.prop, fail, class, caseID, detail))
			res = "FAIL-" + fail.Clause
		}
		r.Outcome = fmt.Sprintf("filterprocess/%s/%s/wt-%s/%s", branch, bucket, wt.relation(n), res)
		return r
	}
	return c01Part{"filterprocess", run}
}

// ---------------------------------------------------------------------------------------------------------
// part: git (real git add / checkout / hash-object --path / cat-file --filters)

func (e *c01Env) partGit() c01Part {
	exts := []string{""}
	if e.thorough {
		exts = []string{"", "rot"}
	}
	type action struct {
		name string
		wt   c01WT // state at the named path when the filter runs (hash-object) / junk before checkout
		add  bool
	}
	ins := e.inputs
	if !e.thorough {
		ins = nil
		keep := map[string]bool{"empty": true, "bin1": true, "bin1023": true, "bin1024": true, "bin1025": true, "bin65517": true, "text1023": true, "text1024": true, "text1025": true, "text65516": true,
			"zero4096": true, "look1023": true, "look1024": true, "look4096": true}
		for _, in := range e.inputs {
			if keep[in.Name] {
				ins = append(ins, in)
			}
		}
	}
	run := func(x *vx.X) vx.Result {
		in := ins[x.In(len(ins))]
		n := len(in.Data)
		process := x.In(2) == 0
		ext := exts[x.In(len(exts))]
		acts := []action{{"add+checkout(absent)", c01WT{Kind: "absent"}, true}, {"add+checkout-f(shorter-file-present)", c01WT{Kind: "prefix", N: 0}, true}, {"add+checkout-f(longer-file-present)", c01WT{Kind: "longer", N: 2000}, true},
			{"hash-object(absent)", c01WT{Kind: "absent"}, false}, {"hash-object(longer)", c01WT{Kind: "longer", N: 1}, false}}
		for _, l := range []int{0, 100, 1024, n - 1} {
			if l >= 0 && l < n {
				dup := false
				for _, a := range acts {
					if !a.add && a.wt.Kind == "prefix" && a.wt.N == l {
						dup = true
					}
				}
				if !dup {
					acts = append(acts, action{fmt.Sprintf("hash-object(prefix%d)", l), c01WT{Kind: "prefix", N: l}, false})
				}
			}
		}
		act := acts[x.In(len(acts))]
		mode := "one-shot filters"
		if process {
			mode = "filter-process"
		}
		caseID := fmt.Sprintf("git input=%s ext=%q mode=%s action=%s", in.Name, ext, mode, act.name)
		r := vx.Result{Evals: 1, Counters: map[string]int64{}, Sample: map[string]interface{}{"delivery": "real git 2.39 driving the filters", "input": in.Name, "bytes": n, "extension": ext, "filter_mode": mode, "action": act.name}}
		if n > 0 {
			r.NonTrivial = []string{caseID}
		}
		w, repo := c01Repo(e.scratch, process, ext)
		defer w.Close()
		gitx.WriteFile(repo, ".gitattributes", []byte("*.bin filter=lfs -text\n"), 0644)
		cl := map[string]int64{}
		defer func() {
			for k, v := range cl {
				r.Counters["clause:"+k] += v
			}
		}()
		bucket := c01SizeBucket(n)
		var blob []byte
		var class string
		fail := (*c01Fail)(nil)
		timeout := func(rs gitx.Res) bool {
			if rs.TimedOut {
				r.Inconcl = "git command timeout"
			}
			return rs.TimedOut
		}
		if act.add {
			class = c01Class(in, "same", c01Chunking{}, ext)
			gitx.WriteFile(repo, "f.bin", in.Data, 0644)
			rs := w.Git(repo, "add", ".gitattributes", "f.bin")
			if timeout(rs) {
				return r
			}
			cl["git-command-succeeds"]++
			if !rs.OK() {
				fail = &c01Fail{"filter-aborted", "git add failed: " + c01LastLines(rs.Err, 4)}
			} else {
				rb := w.Git(repo, "cat-file", "blob", ":f.bin")
				blob = []byte(rb.Out)
			}
		} else {
			class = c01Class(in, act.wt.relation(n), c01Chunking{}, ext)
			c01PutWT(repo, "f.bin", act.wt, in.Data)
			rs := w.RunIn(repo, in.Data, nil, "git", "hash-object", "-w", "--path=f.bin", "--stdin")
			if timeout(rs) {
				return r
			}
			cl["git-command-succeeds"]++
			if !rs.OK() {
				fail = &c01Fail{"filter-aborted", "git hash-object --path failed: " + c01LastLines(rs.Err, 4)}
			} else {
				id := strings.TrimSpace(rs.Out)
				rb := w.Git(repo, "cat-file", "blob", id)
				blob = []byte(rb.Out)
				if strings.TrimSpace(rs.Err) != "" {
					r.Counters["git-stderr-nonempty"]++
				}
			}
		}
		store := c01ScanStore(c01LfsDir(repo))
		detail := map[string]interface{}{"blob": c01Short(blob), "store": store}
		branch := ""
		if fail == nil {
			branch, fail = c01JudgeClean(ext, in.Data, blob, store, cl)
		}
		if fail == nil {
			// back through smudge
			var got []byte
			if act.add {
				rs := w.Git(repo, "commit", "-qm", "c")
				if timeout(rs) {
					return r
				}
				if !rs.OK() {
					r.Inconcl = "git commit did not succeed"
					return r
				}
				os.Remove(filepath.Join(repo, "f.bin"))
				if jb, ok := act.wt.bytesFor(in.Data); ok {
					gitx.WriteFile(repo, "f.bin", append([]byte("junk"), jb...), 0644)
				}
				rs = w.Git(repo, "checkout", "-f", "--", "f.bin")
				if timeout(rs) {
					return r
				}
				cl["git-command-succeeds"]++
				if !rs.OK() {
					fail = &c01Fail{"filter-aborted", "git checkout failed: " + c01LastLines(rs.Err, 4)}
				}
				got, _ = os.ReadFile(filepath.Join(repo, "f.bin"))
			} else {
				id := strings.TrimSpace(w.RunIn(repo, blob, nil, "git", "hash-object", "-w", "--no-filters", "--stdin").Out)
				rc := w.Git(repo, "cat-file", "--filters", "--path=f.bin", id)
				if timeout(rc) {
					return r
				}
				cl["git-command-succeeds"]++
				if !rc.OK() {
					fail = &c01Fail{"filter-aborted", "git cat-file --filters failed: " + c01LastLines(rc.Err, 4)}
				}
				got = []byte(rc.Out)
			}
			if fail == nil {
				r.Evals++
				fail = c01JudgeSmudge(in.Data, c01SmudgeObsOf(got, ""), cl)
			}
		}
		res := "ok"
		if fail != nil {
			r.Violations = append(r.Violations, c01Viol(e.prop, fail, class, caseID, detail))
			res = "FAIL-" + fail.Clause
		}
		r.Outcome = fmt.Sprintf("git/%s/%s/%s/%s", strings.SplitN(act.name, "(", 2)[0], branch, bucket, res)
		return r
	}
	return c01Part{"git", run}
}

// ---------------------------------------------------------------------------------------------------------
// part: merge (git merge through git lfs merge-driver; the driver cleans the merged text over the file named by --output,
// which holds the current side's pointer)

type c01MergeCase struct {
	name                string
	base, ours, theirs  []byte
	program             string // "" = default (git merge-file); otherwise the --program value
	merged              []byte // expected merged text (nil: computed with git merge-file)
	oursDigits, mDigits int
}

func c01Lines(from, to int, tag string, width int) []byte {
	var b bytes.Buffer
	for i := from; i < to; i++ {
		l := fmt.Sprintf("%s %03d ", tag, i)
		b.WriteString(l + strings.Repeat("x", width-len(l)-1) + "\n")
	}
	return b.Bytes()
}

func c01MergeCases() []c01MergeCase {
	var r []c01MergeCase
	// three-way merges with the default program: ours rewrites the first line (same length), theirs changes the tail
	mk := func(name string, baseLines, theirsLines, width int) {
		base := c01Lines(0, baseLines, "line", width)
		ours := append(c01Lines(0, 1, "OURS", width), c01Lines(1, baseLines, "line", width)...)
		var theirs []byte
		if theirsLines <= baseLines {
			theirs = c01Lines(0, theirsLines, "line", width)
		} else {
			theirs = append(append([]byte{}, base...), c01Lines(baseLines, theirsLines, "more", width)...)
		}
		r = append(r, c01MergeCase{name: name, base: base, ours: ours, theirs: theirs})
	}
	mk("digits-4-to-3", 12, 9, 100)   // ours 1200 bytes, merged 900: new pointer 1 byte shorter
	mk("digits-4-to-2", 101, 9, 10)   // ours 1010 bytes, merged 90: 2 bytes shorter
	mk("digits-3-to-2", 20, 5, 10)    // ours 200, merged 50
	mk("digits-5-to-3", 120, 5, 100)  // ours 12000, merged 500
	mk("digits-equal-4", 12, 14, 100) // 1200 -> 1400
	mk("digits-equal-3", 5, 8, 100)   // 500 -> 800
	mk("digits-3-to-4", 9, 12, 100)   // 900 -> 1200
	mk("digits-2-to-4", 9, 120, 10)   // 90 -> 1200
	mk("merged-1023", 11, 10, 100)    // placeholder sizes, adjusted below
	mk("merged-1024", 11, 10, 100)
	// exact sizes around the pointer cutoff for the merged text: adjust theirs' last line
	for i := range r {
		var want int
		switch r[i].name {
		case "merged-1023":
			want = 1023
		case "merged-1024":
			want = 1024
		default:
			continue
		}
		// merged = ours' first line + theirs' remaining lines; theirs = 10 lines of 100 => merged 1000; append a line to reach want
		extra := want - 1000
		r[i].theirs = append(r[i].theirs, []byte(strings.Repeat("y", extra-1)+"\n")...)
	}
	// pointer look-alike text (not parseable as a whole: extra line) merged to something shorter
	p := c01BasePointerText(0)
	base := []byte(p + "foo bar 1\nfoo bar 2\nfoo bar 3\nfoo bar 4\nfoo bar 5\nfoo bar 6\n")
	ours := bytes.Replace(base, []byte("size 12345"), []byte("size 54321"), 1)
	theirs := []byte(p + "foo bar 1\nfoo bar 2\nfoo bar 3\n")
	r = append(r, c01MergeCase{name: "lookalike-3-to-3", base: base, ours: ours, theirs: theirs})
	// custom merge programs (documented --program): take the other side verbatim
	take := "cat %B >%D"
	big := c01Lines(0, 12, "line", 100)
	r = append(r, c01MergeCase{name: "program-take-theirs-empty", base: big, ours: append(c01Lines(0, 1, "OURS", 100), big[100:]...), theirs: []byte{}, program: take, merged: []byte{}})
	r = append(r, c01MergeCase{name: "program-take-theirs-1-byte", base: big, ours: append(c01Lines(0, 1, "OURS", 100), big[100:]...), theirs: []byte("z"), program: take, merged: []byte("z")})
	r = append(r, c01MergeCase{name: "program-take-theirs-longer", base: []byte("a\n"), ours: []byte("b\n"), theirs: c01Lines(0, 30, "line", 100), program: take, merged: c01Lines(0, 30, "line", 100)})
	r = append(r, c01MergeCase{name: "program-take-theirs-from-empty-ours", base: []byte("a\n"), ours: []byte{}, theirs: c01Lines(0, 3, "line", 100), program: take, merged: c01Lines(0, 3, "line", 100)})
	return r
}

func (e *c01Env) partMerge() c01Part {
	cases := c01MergeCases()
	run := func(x *vx.X) vx.Result {
		mc := cases[x.In(len(cases))]
		process := x.In(2) == 0
		mode := "one-shot filters"
		if process {
			mode = "filter-process"
		}
		caseID := fmt.Sprintf("merge case=%s mode=%s", mc.name, mode)
		r := vx.Result{Evals: 1, Counters: map[string]int64{}, NonTrivial: []string{caseID}}
		w, repo := c01Repo(e.scratch, process, "")
		defer w.Close()
		cl := map[string]int64{}
		defer func() {
			for k, v := range cl {
				r.Counters["clause:"+k] += v
			}
		}()
		driver := "git lfs merge-driver --ancestor %O --current %A --other %B --marker-size %L --output %A"
		if mc.program != "" {
			driver += " --program '" + strings.ReplaceAll(mc.program, "%", "%%") + "'"
		}
		w.MustGit(repo, "config", "merge.lfs-text.driver", driver)
		gitx.WriteFile(repo, ".gitattributes", []byte("*.txt filter=lfs diff=lfs merge=lfs-text -text\n"), 0644)
		must := func(args ...string) bool {
			rs := w.Git(repo, args...)
			if rs.TimedOut {
				r.Inconcl = "git command timeout"
				return false
			}
			if !rs.OK() {
				// a failing git command emits no wrong pointer: not a verdict of this property; the other parts decide
				r.Inconcl = fmt.Sprintf("setup step git %s did not succeed", args[0])
				return false
			}
			return true
		}
		gitx.WriteFile(repo, "a.txt", mc.base, 0644)
		if !must("add", ".") || !must("commit", "-qm", "base") || !must("checkout", "-q", "-b", "theirs") {
			return r
		}
		gitx.WriteFile(repo, "a.txt", mc.theirs, 0644)
		if !must("commit", "-qam", "theirs") || !must("checkout", "-q", "main") {
			return r
		}
		gitx.WriteFile(repo, "a.txt", mc.ours, 0644)
		if !must("commit", "-qam", "ours") {
			return r
		}
		// expected merged text
		merged := mc.merged
		if merged == nil {
			d := filepath.Join(w.Root, "ref")
			gitx.WriteFile(d, "ours", mc.ours, 0644)
			gitx.WriteFile(d, "base", mc.base, 0644)
			gitx.WriteFile(d, "theirs", mc.theirs, 0644)
			rs := w.Git(d, "merge-file", "-p", "ours", "base", "theirs")
			if !rs.OK() {
				r.ToolErr = "reference merge-file reported conflicts for case " + mc.name
				return r
			}
			merged = []byte(rs.Out)
		}
		oursPtr := c01Canon(c01Sha(mc.ours), len(mc.ours))
		newPtr := c01Canon(c01Sha(merged), len(merged))
		rel := "equal-length"
		if len(newPtr) < len(oursPtr) {
			rel = "new-pointer-shorter-than-output-file"
		} else if len(newPtr) > len(oursPtr) {
			rel = "new-pointer-longer-than-output-file"
		}
		r.Sample = map[string]interface{}{"delivery": "real `git merge` with merge.lfs-text.driver = git lfs merge-driver ... --output %A", "case": mc.name, "filter_mode": mode,
			"ours_bytes": len(mc.ours), "merged_bytes": len(merged), "output_file_before": rel, "program": mc.program}
		rs := w.Git(repo, "merge", "-q", "-m", "merged", "theirs")
		if rs.TimedOut {
			r.Inconcl = "git merge timeout"
			return r
		}
		class := "merge," + rel
		detail := map[string]interface{}{"merge_exit": rs.Code, "merge_stderr": c01LastLines(rs.Err, 6), "expected_pointer": newPtr, "pointer_in_output_file_before": oursPtr}
		var fail *c01Fail
		cl["git-command-succeeds"]++
		branch := ""
		if !rs.OK() {
			fail = &c01Fail{"merge-failed", fmt.Sprintf("git merge exited %d although the merge program reports a clean merge: %s", rs.Code, c01LastLines(rs.Err+rs.Out, 4))}
		} else {
			blob := []byte(w.Git(repo, "cat-file", "blob", "HEAD:a.txt").Out)
			detail["merge_result_blob"] = c01Short(blob)
			store := c01ScanStore(c01LfsDir(repo))
			branch, fail = c01JudgeClean("", merged, blob, store, cl)
			if fail != nil {
				fail.Clause = "merge-result-" + fail.Clause
				fail.Msg = "blob recorded by `git merge` for the merged text: " + fail.Msg
			} else {
				got, _ := os.ReadFile(filepath.Join(repo, "a.txt"))
				r.Evals++
				if f := c01JudgeSmudge(merged, c01SmudgeObsOf(got, ""), cl); f != nil {
					f.Clause = "merge-worktree-differs"
					f.Msg = "working-tree file after the merge: " + f.Msg
					fail = f
				}
			}
		}
		res := "ok"
		if fail != nil {
			r.Violations = append(r.Violations, c01Viol(e.prop, fail, class, caseID, detail))
			res = "FAIL-" + fail.Clause
		}
		r.Outcome = fmt.Sprintf("merge/%s/%s/%s", branch, rel, res)
		return r
	}
	return c01Part{"merge", run}
}

// ---------------------------------------------------------------------------------------------------------
// part: extfail — a pointer-extension program that FAILS (exit 3): the only extension, the last or a non-last program
// of the pipeline; after consuming its input and writing nothing / after writing 3 bytes / before reading; during
// clean or during smudge.  The statement is judged only when git-lfs reports success: a clean that succeeded must have
// emitted a pointer that records what is stored and that smudges back to the original bytes; a smudge that succeeded
// must have produced the original bytes.  A clean / smudge / git command that fails is fine.

func (e *c01Env) partExtFail() c01Part {
	keep := map[string]bool{"empty": true, "bin1": true, "text1023": true, "text4096": true, "bin65517": true}
	var ins []c01Input
	for _, in := range e.inputs {
		if keep[in.Name] || (e.thorough && (in.Kind == "text" || in.Kind == "look")) {
			ins = append(ins, in)
		}
	}
	poss := []string{"only", "last", "nonlast"}
	behs := []string{"nowrite", "partial", "early"}
	phases := []string{"clean", "smudge"}
	deliveries := []string{"inproc", "oneshot", "git add+checkout (filter-process)", "git add+checkout (one-shot filters)"}
	run := func(x *vx.X) vx.Result {
		in := ins[x.In(len(ins))]
		n := len(in.Data)
		pos := poss[x.In(len(poss))]
		phase := phases[x.In(len(phases))]
		bs := behs
		if n > 1025 {
			bs = behs[:2] // a program that exits before reading a long input can leave clean blocked on its pipe: not enumerated
		}
		beh := bs[x.In(len(bs))]
		delivery := deliveries[x.In(len(deliveries))]
		ch := c01Chunking{}
		if beh != "early" && n > 1 && (delivery == "inproc" || delivery == "oneshot") && x.In(2) == 1 {
			ch = c01Chunking{Cuts: []int{1}}
		}
		ext := fmt.Sprintf("xf/%s/%s/%s", pos, beh, phase)
		class := fmt.Sprintf("extension-%s-fails,%s,%s-program", phase, beh, pos)
		caseID := fmt.Sprintf("extfail input=%s failing=%s/%s/%s delivery=%s chunking=%s", in.Name, phase, pos, beh, delivery, ch)
		r := vx.Result{Evals: 1, Counters: map[string]int64{}, NonTrivial: []string{caseID}, Sample: map[string]interface{}{"delivery": delivery, "input": in.Name, "bytes": n,
			"failing_phase": phase, "failing_program": pos, "failure": beh, "chunking": ch.String()}}
		cl := map[string]int64{}
		defer func() {
			for k, v := range cl {
				r.Counters["clause:"+k] += v
			}
		}()
		viol := func(f *c01Fail, detail map[string]interface{}) {
			r.Violations = append(r.Violations, c01Viol(e.prop, f, class, caseID, detail))
		}
		// judge what a successful clean emitted: pointer, object as the pointer says; with a working pipeline also the model
		judgeClean := func(out []byte, store []c01StoreFile) (*c01Ptr, *c01Fail) {
			if phase == "smudge" {
				_, f := c01JudgeClean(ext, in.Data, out, store, cl)
				p, _ := c01ParsePointer(out)
				return p, f
			}
			cl["successful-clean-emits-a-pointer"]++
			p, err := c01ParsePointer(out)
			if err != nil {
				return nil, &c01Fail{"output-not-a-pointer", fmt.Sprintf("clean reported success although an extension program failed, and emitted %s", c01Short(out))}
			}
			if p.Size > 0 {
				cl["successful-clean-stored-what-the-pointer-says"]++
				o := c01FindObject(store, p.Oid)
				if o == nil {
					return p, &c01Fail{"object-missing", fmt.Sprintf("clean reported success although an extension program failed; pointer names %s (size %d) which is not in local storage", p.Oid, p.Size)}
				}
				if o.Sha != p.Oid || o.Size != p.Size {
					return p, &c01Fail{"stored-differs-from-pointer", fmt.Sprintf("object stored under %s has %d bytes hashing to %s; pointer says size %d", p.Oid, o.Size, o.Sha, p.Size)}
				}
			}
			return p, nil
		}
		smudgeFail := func(got c01SmudgeObs) *c01Fail {
			f := c01JudgeSmudge(in.Data, got, cl)
			if f != nil && phase == "clean" {
				f.Msg = "clean reported success although an extension program failed (exit 3); the pointer it emitted does not lead back to the content: " + f.Msg
			} else if f != nil {
				f.Msg = "smudge reported success although an extension program failed (exit 3): " + f.Msg
			}
			return f
		}
		outcome := func(s string) {
			r.Outcome = fmt.Sprintf("extfail/%s/%s/%s/%s/%s", strings.SplitN(delivery, " ", 2)[0], phase, pos, beh, s)
		}

		switch {
		case delivery == "inproc":
			req := c01Req{Repo: ext, InputFile: in.File, Path: "f.bin", WT: c01WT{Kind: "absent"}, Ch: ch}
			obs, died, inconcl, toolerr := c01Inproc(e.pool, req)
			if inconcl != "" {
				r.Inconcl = inconcl
				return r
			}
			if toolerr != "" {
				r.ToolErr = toolerr
				return r
			}
			if died != "" || obs.CleanErr != "" || obs.CleanPanic != "" {
				if phase == "smudge" {
					viol(&c01Fail{"filter-aborted", "clean failed although only a smudge program is broken: " + c01LastLines(died+obs.CleanErr+obs.CleanPanic, 4)}, nil)
					outcome("FAIL-clean-aborted")
					return r
				}
				outcome("clean-refused")
				return r
			}
			p, f := judgeClean(obs.CleanOut, obs.Store)
			if f != nil {
				viol(f, map[string]interface{}{"emitted": c01Short(obs.CleanOut), "store": obs.Store})
				outcome("FAIL-" + f.Clause)
				return r
			}
			// smudge the emitted pointer in a request of its own (a process exit = smudge failed, which is fine)
			r.Evals++
			_ = p
			pre := []string{e.stored[in.Name+"|"+c01BaseExt(ext)]}
			if phase == "clean" {
				// clean succeeded with a failing program: smudge with the same configuration (its smudge programs work)
				sreq := req
				sreq.Smudge = []c01Chunking{{}}
				obs2, died2, inc2, terr2 := c01Inproc(e.pool, sreq) // clean again + smudge in the same request (true round trip)
				if inc2 != "" {
					r.Inconcl = inc2
					return r
				}
				if terr2 != "" {
					r.ToolErr = terr2
					return r
				}
				if died2 != "" {
					viol(&c01Fail{"smudge-aborted", "clean reported success although an extension program failed (exit 3); smudging the emitted pointer then fails:\n" + c01LastLines(died2, 5)}, map[string]interface{}{"pointer": string(obs.CleanOut), "store": obs.Store})
					outcome("FAIL-smudge-aborted")
					return r
				}
				if len(obs2.Smudges) == 1 {
					if f := smudgeFail(obs2.Smudges[0]); f != nil {
						viol(f, map[string]interface{}{"pointer": string(obs.CleanOut), "store": obs.Store})
						outcome("FAIL-" + f.Clause)
						return r
					}
				}
				outcome("clean-succeeded-roundtrip-ok")
				return r
			}
			sreq := c01Req{Repo: ext, InputFile: in.File, Path: "f.bin", WT: c01WT{Kind: "absent"}, NoClean: true, SmudgeSrc: obs.CleanOut, Smudge: []c01Chunking{{}}, PreStore: pre}
			sobs, sdied, sinc, sterr := c01Inproc(e.pool, sreq)
			if sinc != "" {
				r.Inconcl = sinc
				return r
			}
			if sterr != "" {
				r.ToolErr = sterr
				return r
			}
			if sdied != "" || len(sobs.Smudges) != 1 || sobs.Smudges[0].Err != "" || sobs.Smudges[0].Panic != "" {
				outcome("smudge-refused")
				return r
			}
			if f := smudgeFail(sobs.Smudges[0]); f != nil {
				viol(f, map[string]interface{}{"pointer": string(obs.CleanOut)})
				outcome("FAIL-" + f.Clause)
				return r
			}
			outcome("smudge-succeeded-ok")
			return r

		case delivery == "oneshot":
			w, repo := c01Repo(e.scratch, false, ext)
			defer w.Close()
			bin := filepath.Join(w.BinDir, "git-lfs")
			cr := c01RunGated(w, repo, nil, []string{bin, "clean", "--", "f.bin"}, in.Data, ch.cutsFor(n))
			if cr.Inconcl != "" || cr.ExecFail != "" {
				r.Inconcl = "clean: " + cr.Inconcl + cr.ExecFail
				return r
			}
			if cr.Code != 0 {
				if phase == "smudge" {
					viol(&c01Fail{"filter-aborted", fmt.Sprintf("`git-lfs clean` exited %d although only a smudge program is broken: %s", cr.Code, c01LastLines(cr.Err, 3))}, nil)
					outcome("FAIL-clean-aborted")
					return r
				}
				outcome("clean-refused")
				return r
			}
			store := c01ScanStore(c01LfsDir(repo))
			_, f := judgeClean(cr.Out, store)
			if f != nil {
				viol(f, map[string]interface{}{"emitted": c01Short(cr.Out), "store": store, "stderr": c01LastLines(cr.Err, 3)})
				outcome("FAIL-" + f.Clause)
				return r
			}
			r.Evals++
			sr := c01RunGated(w, repo, nil, []string{bin, "smudge", "--", "f.bin"}, cr.Out, nil)
			if sr.Inconcl != "" || sr.ExecFail != "" {
				r.Inconcl = "smudge: " + sr.Inconcl + sr.ExecFail
				return r
			}
			if sr.Code != 0 {
				if phase == "clean" {
					viol(&c01Fail{"smudge-aborted", fmt.Sprintf("`git-lfs clean` exited 0 although an extension program failed (exit 3); `git-lfs smudge` of the emitted pointer exits %d: %s", sr.Code, c01LastLines(sr.Err, 3))}, map[string]interface{}{"pointer": string(cr.Out), "store": store})
					outcome("FAIL-smudge-aborted")
					return r
				}
				outcome("smudge-refused")
				return r
			}
			if f := smudgeFail(c01SmudgeObsOf(sr.Out, c01LastLines(sr.Err, 2))); f != nil {
				viol(f, map[string]interface{}{"pointer": string(cr.Out), "store": store})
				outcome("FAIL-" + f.Clause)
				return r
			}
			outcome(phase + "-succeeded-ok")
			return r

		default: // real git
			process := strings.Contains(delivery, "filter-process")
			w, repo := c01Repo(e.scratch, process, ext)
			defer w.Close()
			gitx.WriteFile(repo, ".gitattributes", []byte("*.bin filter=lfs -text\n"), 0644)
			gitx.WriteFile(repo, "f.bin", in.Data, 0644)
			rs := w.Git(repo, "add", ".gitattributes", "f.bin")
			if rs.TimedOut {
				r.Inconcl = "git add timeout"
				return r
			}
			if !rs.OK() {
				if phase == "smudge" {
					viol(&c01Fail{"filter-aborted", "git add failed although only a smudge program is broken: " + c01LastLines(rs.Err, 3)}, nil)
					outcome("FAIL-clean-aborted")
					return r
				}
				outcome("clean-refused")
				return r
			}
			blob := []byte(w.Git(repo, "cat-file", "blob", ":f.bin").Out)
			store := c01ScanStore(c01LfsDir(repo))
			_, f := judgeClean(blob, store)
			if f != nil {
				f.Msg = "git add succeeded; " + f.Msg
				viol(f, map[string]interface{}{"blob": c01Short(blob), "store": store, "stderr": c01LastLines(rs.Err, 3)})
				outcome("FAIL-" + f.Clause)
				return r
			}
			rc := w.Git(repo, "commit", "-qm", "c")
			if rc.TimedOut || !rc.OK() {
				r.Inconcl = "git commit did not succeed"
				return r
			}
			os.Remove(filepath.Join(repo, "f.bin"))
			r.Evals++
			rk := w.Git(repo, "checkout", "-f", "--", "f.bin")
			if rk.TimedOut {
				r.Inconcl = "git checkout timeout"
				return r
			}
			if !rk.OK() {
				if phase == "clean" {
					viol(&c01Fail{"smudge-aborted", "git add succeeded although an extension program failed (exit 3); git checkout of the file then fails: " + c01LastLines(rk.Err, 3)}, map[string]interface{}{"blob": string(blob), "store": store})
					outcome("FAIL-smudge-aborted")
					return r
				}
				outcome("smudge-refused")
				return r
			}
			got, _ := os.ReadFile(filepath.Join(repo, "f.bin"))
			if f := smudgeFail(c01SmudgeObsOf(got, "")); f != nil {
				f.Msg = "git checkout succeeded; " + f.Msg
				viol(f, map[string]interface{}{"blob": string(blob), "store": store})
				outcome("FAIL-" + f.Clause)
				return r
			}
			outcome(phase + "-succeeded-ok")
			return r
		}
	}
	return c01Part{"extfail", run}
}

// ---------------------------------------------------------------------------------------------------------
// driver

func c01Main(prop string) {
	scratch := os.Getenv("VERIF_SCRATCH")
	if scratch == "" {
		fmt.Println("TOOL-ERROR VERIF_SCRATCH not set (run through ./check)")
		os.Exit(2)
	}
	if os.Getenv("VX_WORKER") != "" {
		vx.ServeWorker(c01WorkerRun)
		return
	}
	c := vx.NewCheck(prop, "exploration")
	var rf *vx.ReplayFile
	if c.Replay != "" {
		var err error
		if rf, err = c.LoadReplay(); err != nil {
			fmt.Println("TOOL-ERROR cannot load replay:", err)
			os.Exit(2)
		}
		if rf.Tier == "thorough" || rf.Tier == "quick" {
			c.Tier = rf.Tier // case indices are those of the tier the violation was found in
		}
	}
	gitx.CmdTimeout = 90 * time.Second
	nw := runtime.NumCPU()
	if nw > 16 {
		nw = 16
	}
	pool := vx.NewProcPool(nw, []string{os.Getenv("VERIF_SELF"), "-test.run", "^TestVerif" + prop + "$", "-test.timeout", "0"}, os.Environ())
	pool.Timeout = 120 * time.Second
	defer pool.Close()
	e := &c01Env{prop: prop, thorough: c.Thorough(), scratch: scratch, pool: pool}
	c01ExtScripts(scratch)
	var parts []c01Part
	if prop == "C08" {
		e.inputs = c01WriteInputs(filepath.Join(scratch, "c01inputs"), c08Inputs(e.thorough))
		parts = e.c08Parts()
		c08Describe(c, e)
	} else {
		e.inputs = c01WriteInputs(filepath.Join(scratch, "c01inputs"), c01Inputs(e.thorough))
		e.stored = map[string]string{}
		for i, in := range e.inputs {
			for _, ext := range c01ExtKinds {
				p := filepath.Join(scratch, "c01inputs", fmt.Sprintf("%03d.%s.stored", i, ext))
				if ext == "" {
					p = in.File
				} else if err := os.WriteFile(p, c01ExpectFor(ext, in.Data).Stored, 0644); err != nil {
					fmt.Println("TOOL-ERROR cannot write scratch file:", err)
					os.Exit(2)
				}
				e.stored[in.Name+"|"+ext] = p
			}
		}
		parts = []c01Part{e.partInproc(), e.partOneshot(), e.partFilterProcess(), e.partGit(), e.partMerge(), e.partExtFail()}
		c01Describe(c, e)
	}
	finish := func(vp []vx.Part, extra map[string]interface{}) {
		code := c.Finish(vp, extra)
		pool.Close()
		os.Exit(code)
	}
	if rf != nil {
		for _, p := range parts {
			if p.name == rf.Scenario {
				run := p.run
				exec := func(pr []vx.Point) vx.Result { return vx.SafeRun(run, pr) }
				r := exec(rf.Prefix)
				st := vx.NewStats()
				st.Absorb(rf.Prefix, &r, 0)
				fmt.Printf("replayed scenario=%s outcome=%s violations=%d\n", rf.Scenario, r.Outcome, len(r.Violations))
				for _, v := range r.Violations {
					fmt.Printf("  %s: %s\n", v.Fingerprint, v.Msg)
				}
				finish([]vx.Part{{Scenario: p.name, Stats: st, Exec: exec}}, nil)
			}
		}
		fmt.Println("TOOL-ERROR replay file names unknown scenario", rf.Scenario)
		os.Exit(2)
	}
	only := os.Getenv("VERIF_ONLY")
	var vparts []vx.Part
	perPart := map[string]interface{}{}
	deadline := c.DeadlineAfter(6*time.Minute, 30*time.Minute)
	for _, p := range parts {
		if only != "" && only != p.name {
			continue
		}
		run := p.run
		exec := func(pr []vx.Point) vx.Result { return vx.SafeRun(run, pr) }
		ex := &vx.Explorer{Name: p.name, BoundEnv: 0, BoundSch: 0, BoundSum: -1, Run: run, Workers: nw, Deadline: deadline}
		t0 := time.Now()
		st := ex.Explore()
		fmt.Printf("  part %-14s executions=%d evaluations=%d outcomes=%d nontrivial=%d violations=%d inconclusive=%d exhaustive=%v %.1fs\n", p.name, st.Executions, st.Evals, len(st.Outcomes), len(st.NonTrivial), len(st.Violations), st.Inconcl, st.Exhaustive, time.Since(t0).Seconds())
		perPart[p.name] = map[string]interface{}{"executions": st.Executions, "outcome_histogram": st.Outcomes, "wall_s": time.Since(t0).Seconds()}
		vparts = append(vparts, vx.Part{Scenario: p.name, Stats: st, Exec: exec})
	}
	clauses := map[string]int64{}
	for _, vp := range vparts {
		for k, v := range vp.Stats.Counters {
			if strings.HasPrefix(k, "clause:") {
				clauses[strings.TrimPrefix(k, "clause:")] += v
			}
		}
	}
	finish(vparts, map[string]interface{}{"oracle_clause_evaluations": clauses, "parts": perPart, "worker_processes": nw})
}

func c01Describe(c *vx.Check, e *c01Env) {
	c.Rule = "one execution = one case = one choice vector (input x extension configuration x working-tree state at the named path x chunking x delivery); nothing is sampled. " +
		"inputs: kinds {LCG binary, ASCII text, zero bytes} x sizes {0,1,2,5,1023,1024,1025,4096,65515,65516,65517} (thorough: +131032,131033, 3 MiB) and pointer look-alikes (canonical pointer text + 'x' padding to 131,1023,1024,1025,4096,65517 bytes; six pointer-SHAPED texts under 1024 bytes with an invalid value: short oid, spec v2, 'size 12 KB', oid md5:, duplicate extension priority, negative size). " +
		"chunkings: all compositions for sizes<=6, otherwise every set of <=2 cut points from {1,1023,1024,1025,65516,size-1} (look-alikes: also end of the pointer text -1/0/+1) plus 1 byte per read for sizes<=1025; EOF reported separately or together with the last data. " +
		"working-tree file at the named path: absent, same bytes, prefix of length 0/1/100/1023/1024/1025/size-1, longer by 1 and by 2000. extensions: none, rot (tr; size preserving), chain rot+pfx (pfx prepends 4 bytes). " +
		"inproc: full product on commands.clean/commands.smudge (+ stored object already present / present with wrong size; the emitted pointer smudged again as one read, 1 byte per read, cut at 1/60/60+120, and for three inputs at every position). " +
		"oneshot: the real binary through a kernel pipe with exact chunking (quick: <=1 cut; thorough: <=2). filterprocess: packet payload sizes {1 (sizes<=1025),1023,1024,1025,65516,alternating 1/65516} x {plain, capability=delay + can-delay=1 on smudge (quick: only without a file at the path)}. " +
		"extfail: a pointer-extension program exiting 3 (only / last / non-last program) x {wrote nothing, wrote 3 bytes, exited before reading} x {clean, smudge} x {inproc, oneshot, git add+checkout with both filter modes} on 5 inputs (thorough: all text and look-alike inputs), judged only when git-lfs reports success. whitespace-only inputs of 1,2,1023,1024,1025,2048 bytes are part of the input set. " +
		"git: git add + git checkout -f over absent/shorter/longer file, git hash-object --path with absent/shorter/longer file + git cat-file --filters, with filter-process and with one-shot filters. merge: git merge through git lfs merge-driver with merged size having fewer/equal/more digits than the current side, merged 1023/1024 bytes, look-alike text, documented --program. " +
		"distinct_nontrivial = distinct cases with a non-empty input (the empty input is the trivial case); every case evaluates: pointer parses, size = content length, oid = SHA-256, object stored under the oid with exactly those bytes, extension lines, smudge yields the input"
	c.Assumptions = []string{
		"a pointer is judged by an independent strict grammar from docs/spec.md; text that grammar rejects but git-lfs's decoder accepts still counts as a pointer (C01 does not demand the canonical form; that is C07)",
		"extension stubs: `tr a-zA-Z n-za-mN-ZA-M` and a 2-line sh script prepending/stripping 4 bytes; their transforms are modelled in Go",
		"exact chunking through a kernel pipe relies on Linux FIONREAD reporting the unread byte count of the pipe; chunks larger than the pipe capacity are consumed progressively",
		"a stored object that already exists with the wrong length makes clean refuse ('Files don't match'); that refusal emits no pointer and is accepted",
		"system git 2.39.5 drives the git and merge parts",
	}
	c.Bounds["sizes"] = c01Sizes(e.thorough)
	c.Bounds["inputs"] = len(e.inputs)
	c.Bounds["max_cut_points"] = 2
	c.Bounds["worktree_prefix_lengths"] = "0,1,100,1023,1024,1025,size-1"
	c.Bounds["packet_payload_sizes"] = "1,1023,1024,1025,65516,1/65516"
	c.Bounds["extension_configurations"] = c01ExtKinds
	c.Bounds["merge_cases"] = len(c01MergeCases())
	if !e.thorough {
		c.Bounds["quick_tier_reductions"] = "inproc: with an extension configured only worktree {absent, same, empty file, longer+1}, <=1 cut point (+1 byte per read), separate EOF; " +
			"oneshot/filterprocess: all-zero inputs only for sizes 0,1024,65517; oneshot: <=1 cut point, and with a file at the path or an extension only {single, cut@1, cut@1024}; extension chain only without a file; " +
			"filterprocess: extension rot only without a file; all 6 packetisations only for file absent / empty, else {65516,1024}; git: 14 inputs, no extension. thorough: full products"
	}
}

func TestVerifC01(t *testing.T) { c01Main("C01") }
