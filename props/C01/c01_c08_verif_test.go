package commands

// C08 — pointers pass through clean untouched; look-alike content is never truncated; smudging bytes that do not
// parse as a pointer passes them through unchanged.  Parts (same delivery paths as C01, input alphabet sharpened
// at the dichotomy):
//   inproc, oneshot, filterprocess, git (git add / git hash-object --path, cat-file --filters), skipsmudge
//   (GIT_LFS_SKIP_SMUDGE=1 clone followed by git add -A / git stash / git commit -a).

import (
	"bytes"
	"fmt"
	"os"
	"path/filepath"
	"regexp"
	"sort"
	"strings"
	"time"

	"github.com/git-lfs/git-lfs/v3/verifx/gitx"
	"github.com/git-lfs/git-lfs/v3/verifx/vx"
)

func c08Fill(kind string, n int) []byte {
	switch kind {
	case "sp":
		return bytes.Repeat([]byte{' '}, n)
	case "nl":
		return bytes.Repeat([]byte{'\n'}, n)
	case "crlf":
		return bytes.Repeat([]byte("\r\n"), n/2+1)[:n]
	case "tab":
		return bytes.Repeat([]byte{'\t'}, n)
	case "unk": // an extra unknown line, then blanks
		l := []byte("foo bar\n")
		if n <= len(l) {
			return l[:n]
		}
		return append(l, bytes.Repeat([]byte{'\n'}, n-len(l))...)
	case "size2": // a second size line, then blanks
		l := []byte("size 7\n")
		if n <= len(l) {
			return l[:n]
		}
		return append(l, bytes.Repeat([]byte{'\n'}, n-len(l))...)
	case "x":
		return bytes.Repeat([]byte{'x'}, n)
	case "nlx": // blank line, then non-blank padding
		if n == 1 {
			return []byte{'\n'}
		}
		return append([]byte{'\n'}, bytes.Repeat([]byte{'x'}, n-1)...)
	}
	return gitx.Content("bin", n, 77)
}

// c08Lenient: an independent, deliberately lenient structural test — after trimming blanks the text has a
// "version <url>" line, an "oid sha256:<64 hex>" line and a "size <digits>" line.  Everything git-lfs's decoder may
// legitimately accept passes it; blank-only or arbitrary text does not.
var c08LenientRE = []*regexp.Regexp{regexp.MustCompile(`(?m)^version \S+\r?$`), regexp.MustCompile(`(?m)^oid sha256:[0-9a-f]{64}\r?$`), regexp.MustCompile(`(?m)^size [0-9]+\r?$`)}

func c08Lenient(b []byte) bool {
	t := bytes.TrimSpace(b)
	for _, re := range c08LenientRE {
		if !re.Match(t) {
			return false
		}
	}
	return true
}

// c08WellFormed: "the bytes are themselves a well-formed pointer (shorter than 1024 bytes)": the zero-length input, or
// fewer than 1024 bytes that git-lfs's own decoder accepts (it defines parseable) AND that structurally are a pointer
// (so that a decoder which starts accepting blank or arbitrary text does not move the oracle with it).
func c08WellFormed(b []byte) bool {
	if len(b) == 0 {
		return true
	}
	// a canonical pointer by the independent spec grammar is well formed whatever the implementation's decoder says about it
	// (a decoder that starts rejecting valid pointers must not move the oracle either)
	return c01StrictCanonical(b) || (c01ImplParses(b) && c08Lenient(b))
}

func c08Inputs(thorough bool) []c01Input {
	var r []c01Input
	add := func(name, kind string, data []byte, ptrEnd int) {
		r = append(r, c01Input{Name: name, Kind: kind, Data: data, PtrEnd: ptrEnd})
	}
	add("empty", "ptr", []byte{}, 0)
	// (1) canonical base pointers
	for i := 0; i < 6; i++ {
		p := c01BasePointerText(i)
		add(fmt.Sprintf("canon%d", i), "ptr", []byte(p), len(p))
	}
	// (2) non-canonical spellings (the implementation's own decoder decides which of them are pointers)
	bases := []int{0, 3}
	if thorough {
		bases = []int{0, 1, 2, 3, 4, 5}
	}
	for _, i := range bases {
		p := c01BasePointerText(i)
		vars := map[string]string{
			"extra-trailing-newline": p + "\n",
			"no-trailing-newline":    strings.TrimSuffix(p, "\n"),
			"leading-newline":        "\n" + p,
			"leading-space":          " " + p,
			"crlf":                   strings.ReplaceAll(p, "\n", "\r\n"),
			"trailing-spaces":        p + "   ",
			"blank-line-inside":      strings.Replace(p, "\n", "\n\n", 1),
			"alias-hawser":           strings.Replace(p, c01Version, "https://hawser.github.com/spec/v1", 1),
			"alias-git-media":        strings.Replace(p, c01Version, "http://git-media.io/v/2", 1),
			"bad-version":            strings.Replace(p, c01Version, "https://git-lfs.github.com/spec/v2", 1),
			"size-before-oid":        strings.Replace(strings.Replace(p, "\nsize ", "\nSIZE ", 1), "\noid ", "\nsize 5\noid ", 1),
			"tab-separator":          strings.Replace(p, "\nsize ", "\nsize\t", 1),
			"uppercase-oid":          strings.Replace(p, "oid sha256:4d7a", "oid sha256:4D7A", 1),
			"unknown-line":           p + "foo bar\n",
			"second-size-line":       p + "size 7\n",
			"size-zero":              fmt.Sprintf("version %s\noid sha256:%s\nsize 0\n", c01Version, c01Sha(nil)),
			"negative-size":          strings.Replace(p, "\nsize ", "\nsize -", 1),
			"truncated-mid-oid":      p[:80],
			"first-line-only":        p[:strings.Index(p, "\n")+1],
			"two-pointers":           p + p,
		}
		var names []string
		for k := range vars {
			names = append(names, k)
		}
		sort.Strings(names)
		for _, k := range names {
			add(fmt.Sprintf("var%d-%s", i, k), "ptrvar", []byte(vars[k]), len(p))
		}
	}
	// (3) a pointer extended by blanks / an extra line / a second size line / padding up to and beyond 1024 bytes
	for _, i := range []int{0, 4} {
		p := c01BasePointerText(i)
		fills := []string{"sp", "nl", "crlf", "tab", "unk", "size2", "x", "nlx", "bin"}
		if i == 4 && !thorough {
			fills = []string{"sp", "nl", "x", "bin"}
		}
		for _, fk := range fills {
			lens := []int{len(p) + 1, 1022, 1023, 1024, 1025, 2048}
			if fk == "bin" || fk == "nl" {
				lens = append(lens, 4096, 70000)
			}
			if fk == "bin" && i == 0 {
				lens = append(lens, 65515, 65516, 65517, 131032, 131033) // around one and two full pkt-line packets
			}
			for _, L := range lens {
				d := append([]byte(p), c08Fill(fk, L-len(p))...)
				add(fmt.Sprintf("ext%d-%s-%d", i, fk, L), "ptrext", d, len(p))
			}
		}
	}
	// (4) plain non-pointers
	for _, kind := range []string{"bin", "text"} {
		for _, n := range []int{1, 1023, 1024, 1025, 65515, 65516, 65517, 131032, 131033} {
			add(fmt.Sprintf("non-%s%d", kind, n), "nonptr", gitx.Content(kind, n, uint32(n)+5), 0)
		}
	}
	// (5) whitespace-only content and blank prefixes (content in full; only the zero-length input is the empty pointer)
	mixed := func(n int) []byte {
		d := make([]byte, n)
		for i := range d {
			d[i] = " \n\t\r\n"[i%5]
		}
		return d
	}
	for _, n := range []int{1, 2, 1023, 1024, 1025, 2048} {
		for _, fk := range []string{"sp", "nl", "crlf", "tab"} {
			add(fmt.Sprintf("blank-%s-%d", fk, n), "blank", c08Fill(fk, n), 0)
		}
		add(fmt.Sprintf("blank-mixed-%d", n), "blank", mixed(n), 0)
	}
	add("blank-sp-1024-then-text", "blankprefix", append(c08Fill("sp", 1024), []byte("hello world\n")...), 0)
	add("blank-nl-2000-then-text", "blankprefix", append(c08Fill("nl", 2000), []byte("hello world\n")...), 0)
	add("blank-mixed-1030-then-pointer", "blankprefix", append(mixed(1030), []byte(c01BasePointerText(0))...), 0)
	add("blank-nl-5-then-text", "blankprefix", []byte("\n\n\n\n\nhello world\n"), 0)
	add("non-version-word", "nonptr", []byte("version "), 0)
	add("non-git-lfs-word", "nonptr", []byte("git-lfs\n"), 0)
	return r
}

func c08Chunkings(in c01Input, allSingles, pairs bool) []c01Chunking {
	n := len(in.Data)
	if n <= 1 {
		return []c01Chunking{{}}
	}
	cand := []int{1, 60, 1023, 1024, 1025, n - 1}
	if in.PtrEnd > 0 {
		cand = append(cand, in.PtrEnd-1, in.PtrEnd, in.PtrEnd+1)
	}
	r := c01CutSets(n, cand)
	if !pairs {
		var k []c01Chunking
		for _, c := range r {
			if len(c.Cuts) <= 1 {
				k = append(k, c)
			}
		}
		r = k
	}
	if n <= 1025 {
		r = append(r, c01Chunking{Every: 1})
	}
	if allSingles {
		have := map[int]bool{}
		for _, c := range r {
			if len(c.Cuts) == 1 {
				have[c.Cuts[0]] = true
			}
		}
		for p := 1; p < n && p <= 1100; p++ {
			if !have[p] {
				r = append(r, c01Chunking{Cuts: []int{p}})
			}
		}
	}
	return r
}

func c08AllSingles(name string) bool {
	return name == "canon0" || name == "canon4" || name == "ext0-bin-1023" || name == "ext0-sp-1023" || name == "ext0-x-1025" || name == "var0-extra-trailing-newline"
}

// c08JudgeClean: exactly one of (A) output == input and the store is unchanged, (B) output is the canonical pointer
// of (SHA-256(input), len(input)) and the store gained exactly that object; (A) iff the whole input is < 1024 bytes
// and git-lfs's own decoder accepts it.
func c08JudgeClean(in, out []byte, before, after []c01StoreFile, cl map[string]int64) (branch string, fail *c01Fail) {
	if c08WellFormed(in) {
		branch = "A-pointer-passthrough"
		cl["A:output-equals-input"]++
		if !bytes.Equal(out, in) {
			if p, err := c01ParsePointer(out); err == nil && len(out) > 0 && p.Oid == c01Sha(in) {
				return branch, &c01Fail{"pointer-stored-as-content", fmt.Sprintf("the input is a well-formed pointer (%d bytes) but clean emitted a pointer TO it (pointer to a pointer): %s", len(in), c01Short(out))}
			}
			return branch, &c01Fail{"pointer-not-passed-through", fmt.Sprintf("the input is a well-formed pointer (%d bytes) but clean did not write it back unchanged: %s", len(in), c01Short(out))}
		}
		cl["A:store-unchanged"]++
		if fmt.Sprint(before) != fmt.Sprint(after) {
			return branch, &c01Fail{"pointer-input-changed-store", fmt.Sprintf("cleaning a pointer changed local storage: before %v after %v", before, after)}
		}
		return branch, nil
	}
	branch = "B-content-in-full"
	want := c01Canon(c01Sha(in), len(in))
	cl["B:output-is-pointer-of-whole-input"]++
	if string(out) != want {
		switch {
		case len(out) < len(in) && bytes.Equal(out, in[:len(out)]):
			return branch, &c01Fail{"content-truncated", fmt.Sprintf("the input (%d bytes) is not a pointer, but clean wrote back only its first %d bytes instead of a pointer to all of it: %s", len(in), len(out), c01Short(out))}
		case bytes.Equal(out, in):
			return branch, &c01Fail{"content-passed-through", fmt.Sprintf("the input (%d bytes) is not a well-formed pointer (<1024 bytes and parseable) but clean passed it through as if it were", len(in))}
		}
		return branch, &c01Fail{"wrong-pointer", fmt.Sprintf("the input (%d bytes, sha256 %s) is content; clean emitted %s", len(in), c01Sha(in), c01Short(out))}
	}
	cl["B:store-gained-exactly-that-object"]++
	var gained []c01StoreFile
	had := map[string]bool{}
	for _, f := range before {
		had[f.Rel] = true
	}
	for _, f := range after {
		if !had[f.Rel] {
			gained = append(gained, f)
		}
	}
	oid := c01Sha(in)
	okObj := c01FindObject(after, oid)
	if okObj == nil || okObj.Sha != oid || okObj.Size != int64(len(in)) || len(gained) > 1 || (len(gained) == 1 && gained[0].Rel != okObj.Rel) {
		return branch, &c01Fail{"store-not-exactly-the-object", fmt.Sprintf("local storage must have gained exactly object %s (%d bytes); gained %v, store now %v", oid, len(in), gained, after)}
	}
	return branch, nil
}

func c08JudgeRawSmudge(in []byte, o c01SmudgeObs, cl map[string]int64) *c01Fail {
	cl["smudge-passes-non-pointer-through"]++
	if o.Panic != "" {
		return &c01Fail{"smudge-panicked", "smudge panicked: " + o.Panic}
	}
	if o.Len != int64(len(in)) || o.Sha != c01Sha(in) {
		got := fmt.Sprintf("%d bytes sha256 %s", o.Len, o.Sha)
		if o.Small != nil {
			got = c01Short(o.Small)
		}
		return &c01Fail{"smudge-not-passthrough", fmt.Sprintf("the %d input bytes do not parse as a pointer, but smudge did not pass them through unchanged: got %s (smudge error: %q)", len(in), got, o.Err)}
	}
	return nil
}

// class of a C08 case (fingerprints): derived from the case only
func c08Class(in c01Input, ch c01Chunking) string {
	n := len(in.Data)
	var parts []string
	if fr := ch.firstRead(n); fr < n && fr < 1024 {
		switch {
		case n > 0 && c08WellFormed(in.Data):
			parts = append(parts, "pointer-split-across-reads")
		case fr > 0 && c08WellFormed(in.Data[:fr]):
			parts = append(parts, "first-read-ends-on-pointer-boundary")
		default:
			parts = append(parts, "short-first-read")
		}
	}
	if n >= 1024 && in.PtrEnd > 0 && len(bytes.TrimSpace(in.Data[in.PtrEnd:1024])) == 0 {
		parts = append(parts, "blank-padded-pointer-1024-bytes-or-longer")
	}
	if len(parts) == 0 || parts[0] == "short-first-read" {
		parts = append(parts, "kind="+in.Kind+",size"+c01SizeBucket(n))
	}
	return strings.Join(parts, ",")
}

func (e *c01Env) c08Parts() []c01Part {
	return []c01Part{e.c08PartInproc(), e.c08PartOneshot(), e.c08PartFilterProcess(), e.c08PartGit(), e.c08PartCheckout(), e.c08PartSkipSmudge()}
}

func c08Outcome(delivery, branch string, in c01Input, fail *c01Fail, sm string) string {
	n := len(in.Data)
	res := "ok"
	if fail != nil {
		res = "FAIL-" + fail.Clause
	}
	return fmt.Sprintf("%s/%s/%s/%s/%s/%s", delivery, branch, in.Kind, c01SizeBucket(n), sm, res)
}

// ---------------------------------------------------------------------------------------------------------

func (e *c01Env) c08PartInproc() c01Part {
	run := func(x *vx.X) vx.Result {
		in := e.inputs[x.In(len(e.inputs))]
		n := len(in.Data)
		wt := []c01WT{{Kind: "absent"}, {Kind: "same"}}[x.In(2)]
		eof := x.In(2) == 1
		// quick: pairs of cut points and the every-position sweep only without a file at the path and with a separate EOF
		rich := e.thorough || (wt.Kind == "absent" && !eof)
		chs := c08Chunkings(in, c08AllSingles(in.Name) && rich, rich)
		ch := chs[x.In(len(chs))]
		parses := c08WellFormed(in.Data)
		caseID := fmt.Sprintf("inproc input=%s worktree=%s chunking=%s eof-with-last-read=%v", in.Name, wt, ch, eof)
		r := vx.Result{Evals: 1, Counters: map[string]int64{}, NonTrivial: []string{caseID}, Sample: map[string]interface{}{"delivery": "in-process commands.clean/commands.smudge", "input": in.Name, "bytes": n,
			"input_parses_as_pointer": parses, "worktree_file": wt.String(), "chunking": ch.String(), "eof_with_last_read": eof, "text": c01Short(in.Data)}}
		class := c08Class(in, ch)
		cl := map[string]int64{}
		defer func() {
			for k, v := range cl {
				r.Counters["clause:"+k] += v
			}
		}()
		obs, died, inconcl, toolerr := c01Inproc(e.pool, c01Req{InputFile: in.File, Path: "f.bin", WT: wt, Ch: ch, EOFLast: eof})
		if inconcl != "" {
			r.Inconcl = inconcl
			return r
		}
		if toolerr != "" {
			r.ToolErr = toolerr
			return r
		}
		var fail *c01Fail
		branch := ""
		cl["filter-does-not-abort"]++
		if died != "" {
			fail = &c01Fail{"filter-aborted", "git-lfs terminated the process during clean:\n" + c01LastLines(died, 6)}
		} else if obs.CleanPanic != "" {
			fail = &c01Fail{"clean-panicked", "clean panicked: " + obs.CleanPanic}
		} else {
			branch, fail = c08JudgeClean(in.Data, obs.CleanOut, nil, obs.Store, cl)
		}
		if fail != nil {
			r.Violations = append(r.Violations, c01Viol(e.prop, fail, class, caseID, map[string]interface{}{"input": c01Short(in.Data), "emitted": c01Short(obs.CleanOut), "store": obs.Store, "bytes_consumed_from_stream": obs.Consumed}))
		}
		sm := "no-smudge"
		if !parses {
			// third sentence of the statement: smudging bytes that do not parse as a pointer passes them through
			r.Evals++
			sobs, sdied, sinc, sterr := c01Inproc(e.pool, c01Req{InputFile: in.File, Path: "f.bin", WT: wt, Ch: ch, EOFLast: eof, NoClean: true, RawSmudge: true})
			if sinc != "" {
				r.Inconcl = sinc
				return r
			}
			if sterr != "" {
				r.ToolErr = sterr
				return r
			}
			var sf *c01Fail
			cl["filter-does-not-abort"]++
			if sdied != "" {
				sf = &c01Fail{"smudge-not-passthrough", fmt.Sprintf("the %d input bytes do not parse as a pointer, but smudge treated them as one and terminated the process:\n%s", n, c01LastLines(sdied, 5))}
			} else {
				sf = c08JudgeRawSmudge(in.Data, *sobs.Raw, cl)
			}
			sm = "smudge-passthrough"
			if sf != nil {
				sm = "smudge-FAIL"
				r.Violations = append(r.Violations, c01Viol(e.prop, sf, class, caseID+" (smudge)", map[string]interface{}{"input": c01Short(in.Data)}))
				if fail == nil {
					fail = sf
				}
			}
		}
		r.Outcome = c08Outcome("inproc", branch, in, fail, sm)
		return r
	}
	return c01Part{"inproc", run}
}

// quick tier: the e2e parts run on the inputs of base pointer 0 with the main fill kinds; thorough: all inputs
func (e *c01Env) c08E2EInputs() []c01Input {
	if e.thorough {
		return e.inputs
	}
	var r []c01Input
	for _, in := range e.inputs {
		drop := strings.HasPrefix(in.Name, "ext4-") || strings.HasPrefix(in.Name, "var3-")
		for _, k := range []string{"-crlf-", "-tab-", "-nlx-", "-size2-"} {
			if strings.Contains(in.Name, k) {
				drop = true
			}
		}
		if !drop {
			r = append(r, in)
		}
	}
	return r
}

func (e *c01Env) c08OneshotChunkings(in c01Input, wt c01WT) []c01Chunking {
	if e.thorough {
		return c08Chunkings(in, false, true)
	}
	n := len(in.Data)
	if wt.Kind != "absent" || n <= 1 {
		return []c01Chunking{{}}
	}
	var r []c01Chunking
	for _, c := range c08Chunkings(in, false, false) {
		if c.Every == 0 || in.Name == "canon0" || in.Name == "var0-extra-trailing-newline" || in.Name == "ext0-bin-1023" {
			r = append(r, c)
		}
	}
	return r
}

func (e *c01Env) c08PartOneshot() c01Part {
	ins := e.c08E2EInputs()
	run := func(x *vx.X) vx.Result {
		in := ins[x.In(len(ins))]
		n := len(in.Data)
		wt := []c01WT{{Kind: "absent"}, {Kind: "same"}}[x.In(2)]
		chs := e.c08OneshotChunkings(in, wt)
		ch := chs[x.In(len(chs))]
		parses := c08WellFormed(in.Data)
		caseID := fmt.Sprintf("oneshot input=%s worktree=%s chunking=%s", in.Name, wt, ch)
		r := vx.Result{Evals: 1, Counters: map[string]int64{}, NonTrivial: []string{caseID}, Sample: map[string]interface{}{"delivery": "real `git-lfs clean -- f.bin` / `git-lfs smudge -- f.bin`, stdin = kernel pipe written chunk by chunk (next chunk after FIONREAD==0)",
			"input": in.Name, "bytes": n, "input_parses_as_pointer": parses, "worktree_file": wt.String(), "chunking": ch.String()}}
		class := c08Class(in, ch)
		cl := map[string]int64{}
		defer func() {
			for k, v := range cl {
				r.Counters["clause:"+k] += v
			}
		}()
		w, repo := c01Repo(e.scratch, false, "")
		defer w.Close()
		c01PutWT(repo, "f.bin", wt, in.Data)
		bin := filepath.Join(w.BinDir, "git-lfs")
		cr := c01RunGated(w, repo, nil, []string{bin, "clean", "--", "f.bin"}, in.Data, ch.cutsFor(n))
		if cr.Inconcl != "" || cr.ExecFail != "" {
			r.Inconcl = "clean: " + cr.Inconcl + cr.ExecFail
			return r
		}
		store := c01ScanStore(c01LfsDir(repo))
		var fail *c01Fail
		branch := ""
		cl["filter-exit-0"]++
		if cr.Code != 0 {
			fail = &c01Fail{"filter-aborted", fmt.Sprintf("`git-lfs clean` exited %d: %s", cr.Code, c01LastLines(cr.Err, 4))}
		} else {
			branch, fail = c08JudgeClean(in.Data, cr.Out, nil, store, cl)
		}
		if fail != nil {
			r.Violations = append(r.Violations, c01Viol(e.prop, fail, class, caseID, map[string]interface{}{"input": c01Short(in.Data), "emitted": c01Short(cr.Out), "store": store, "exit": cr.Code, "stderr": c01LastLines(cr.Err, 4), "unread_bytes_left_in_pipe": cr.Unread}))
		}
		sm := "no-smudge"
		if !parses {
			r.Evals++
			sr := c01RunGated(w, repo, nil, []string{bin, "smudge", "--", "f.bin"}, in.Data, ch.cutsFor(n))
			if sr.Inconcl != "" || sr.ExecFail != "" {
				r.Inconcl = "smudge: " + sr.Inconcl + sr.ExecFail
				return r
			}
			sf := c08JudgeRawSmudge(in.Data, c01SmudgeObsOf(sr.Out, c01LastLines(sr.Err, 3)), cl)
			if sf == nil {
				cl["filter-exit-0"]++
				if sr.Code != 0 {
					sf = &c01Fail{"filter-aborted", fmt.Sprintf("`git-lfs smudge` of non-pointer bytes exited %d: %s", sr.Code, c01LastLines(sr.Err, 4))}
				}
			}
			sm = "smudge-passthrough"
			if sf != nil {
				sm = "smudge-FAIL"
				r.Violations = append(r.Violations, c01Viol(e.prop, sf, class, caseID+" (smudge)", map[string]interface{}{"input": c01Short(in.Data), "exit": sr.Code, "stderr": c01LastLines(sr.Err, 4)}))
				if fail == nil {
					fail = sf
				}
			}
		}
		r.Outcome = c08Outcome("oneshot", branch, in, fail, sm)
		return r
	}
	return c01Part{"oneshot", run}
}

func (e *c01Env) c08PartFilterProcess() c01Part {
	ins := e.c08E2EInputs()
	run := func(x *vx.X) vx.Result {
		in := ins[x.In(len(ins))]
		n := len(in.Data)
		wt := []c01WT{{Kind: "absent"}, {Kind: "same"}}[x.In(2)]
		pks := c01PksFor(n)
		if !e.thorough {
			if wt.Kind != "absent" {
				pks = pks[:1]
			} else {
				var k []c01Pk
				for _, p := range pks {
					if p.name == "65516" || p.name == "1" || p.name == "1024" || p.name == "1/65516" {
						k = append(k, p)
					}
				}
				pks = k
			}
		}
		pk := pks[x.In(len(pks))]
		delay := x.In(2) == 1 // capability=delay negotiated, can-delay=1 on the smudge request (git checkout's mode)
		parses := c08WellFormed(in.Data)
		caseID := fmt.Sprintf("filter-process input=%s worktree=%s packets=%s can-delay=%v", in.Name, wt, pk.name, delay)
		smClass := c08Class(in, c01Chunking{})
		if delay {
			smClass += ",filter-process-can-delay"
		}
		r := vx.Result{Evals: 1, Counters: map[string]int64{}, NonTrivial: []string{caseID}, Sample: map[string]interface{}{"delivery": "real `git-lfs filter-process`, own pkt-line client", "input": in.Name, "bytes": n,
			"input_parses_as_pointer": parses, "worktree_file": wt.String(), "packet_payload_sizes": pk.name, "can_delay": delay}}
		class := c08Class(in, c01Chunking{})
		cl := map[string]int64{}
		defer func() {
			for k, v := range cl {
				r.Counters["clause:"+k] += v
			}
		}()
		w, repo := c01Repo(e.scratch, true, "")
		defer w.Close()
		c01PutWT(repo, "f.bin", wt, in.Data)
		fp, err := c01StartFP(w, repo, nil, delay)
		if err != nil {
			if fp != nil {
				fp.Close()
			}
			r.Inconcl = "filter-process handshake did not complete"
			_ = err
			return r
		}
		status, out, rerr := fp.Request("clean", "f.bin", in.Data, pk.sizes)
		store := c01ScanStore(c01LfsDir(repo))
		var sstatus string
		var sout []byte
		var serr error
		if rerr == nil && !parses {
			sstatus, sout, serr = fp.Request("smudge", "f.bin", in.Data, pk.sizes)
		}
		code, stderr, timedOut := fp.Close()
		if timedOut {
			r.Inconcl = "filter-process timeout"
			return r
		}
		var fail *c01Fail
		branch := ""
		cl["filter-process-answers-success"]++
		if rerr != nil || status != "success" {
			fail = &c01Fail{"filter-aborted", fmt.Sprintf("filter-process clean request: status=%q protocol error: %v; exit %d; stderr: %s", status, rerr, code, c01LastLines(stderr, 3))}
		} else {
			branch, fail = c08JudgeClean(in.Data, out, nil, store, cl)
		}
		if fail != nil {
			r.Violations = append(r.Violations, c01Viol(e.prop, fail, class, caseID, map[string]interface{}{"input": c01Short(in.Data), "emitted": c01Short(out), "store": store, "stderr": c01LastLines(stderr, 4)}))
		}
		sm := "no-smudge"
		if rerr == nil && !parses {
			r.Evals++
			var sf *c01Fail
			cl["filter-process-answers-success"]++
			if serr != nil || sstatus != "success" {
				sf = &c01Fail{"filter-aborted", fmt.Sprintf("filter-process smudge request of non-pointer bytes: status=%q protocol error: %v; exit %d; stderr: %s", sstatus, serr, code, c01LastLines(stderr, 3))}
			} else {
				sf = c08JudgeRawSmudge(in.Data, c01SmudgeObsOf(sout, ""), cl)
			}
			sm = "smudge-passthrough"
			if sf != nil {
				sm = "smudge-FAIL"
				r.Violations = append(r.Violations, c01Viol(e.prop, sf, smClass, caseID+" (smudge)", map[string]interface{}{"input": c01Short(in.Data), "stderr": c01LastLines(stderr, 4)}))
				if fail == nil {
					fail = sf
				}
			}
		}
		dl := ""
		if delay {
			dl = "-can-delay"
		}
		r.Outcome = c08Outcome("filterprocess"+dl, branch, in, fail, sm)
		return r
	}
	return c01Part{"filterprocess", run}
}

func (e *c01Env) c08PartGit() c01Part {
	actions := []string{"git add", "git hash-object --path (no file)", "git hash-object --path (same file)"}
	if !e.thorough {
		actions = actions[:2]
	}
	ins := e.c08E2EInputs()
	run := func(x *vx.X) vx.Result {
		in := ins[x.In(len(ins))]
		n := len(in.Data)
		process := x.In(2) == 0
		act := actions[x.In(len(actions))]
		parses := c08WellFormed(in.Data)
		mode := "one-shot filters"
		if process {
			mode = "filter-process"
		}
		caseID := fmt.Sprintf("git input=%s mode=%s action=%s", in.Name, mode, act)
		r := vx.Result{Evals: 1, Counters: map[string]int64{}, NonTrivial: []string{caseID}, Sample: map[string]interface{}{"delivery": "real git 2.39 driving the filters", "input": in.Name, "bytes": n, "input_parses_as_pointer": parses, "filter_mode": mode, "action": act}}
		class := c08Class(in, c01Chunking{})
		cl := map[string]int64{}
		defer func() {
			for k, v := range cl {
				r.Counters["clause:"+k] += v
			}
		}()
		w, repo := c01Repo(e.scratch, process, "")
		defer w.Close()
		gitx.WriteFile(repo, ".gitattributes", []byte("*.bin filter=lfs -text\n"), 0644)
		var blob []byte
		var fail *c01Fail
		cl["git-command-succeeds"]++
		if act == "git add" {
			gitx.WriteFile(repo, "f.bin", in.Data, 0644)
			rs := w.Git(repo, "add", "f.bin")
			if rs.TimedOut {
				r.Inconcl = "git add timeout"
				return r
			}
			if !rs.OK() {
				fail = &c01Fail{"filter-aborted", "git add failed: " + c01LastLines(rs.Err, 4)}
			} else {
				blob = []byte(w.Git(repo, "cat-file", "blob", ":f.bin").Out)
			}
		} else {
			if strings.Contains(act, "same") {
				gitx.WriteFile(repo, "f.bin", in.Data, 0644)
			}
			rs := w.RunIn(repo, in.Data, nil, "git", "hash-object", "-w", "--path=f.bin", "--stdin")
			if rs.TimedOut {
				r.Inconcl = "git hash-object timeout"
				return r
			}
			if !rs.OK() {
				fail = &c01Fail{"filter-aborted", "git hash-object --path failed: " + c01LastLines(rs.Err, 4)}
			} else {
				blob = []byte(w.Git(repo, "cat-file", "blob", strings.TrimSpace(rs.Out)).Out)
			}
		}
		store := c01ScanStore(c01LfsDir(repo))
		branch := ""
		if fail == nil {
			branch, fail = c08JudgeClean(in.Data, blob, nil, store, cl)
		}
		if fail != nil {
			r.Violations = append(r.Violations, c01Viol(e.prop, fail, class, caseID, map[string]interface{}{"input": c01Short(in.Data), "blob": c01Short(blob), "store": store}))
		}
		sm := "no-smudge"
		if !parses && act == "git add" {
			// a blob holding exactly these bytes under an lfs path, checked out through the smudge filter
			r.Evals++
			id := strings.TrimSpace(w.RunIn(repo, in.Data, nil, "git", "hash-object", "-w", "--no-filters", "--stdin").Out)
			rc := w.Git(repo, "cat-file", "--filters", "--path=f.bin", id)
			if rc.TimedOut {
				r.Inconcl = "git cat-file timeout"
				return r
			}
			var sf *c01Fail
			cl["git-command-succeeds"]++
			if !rc.OK() {
				sf = &c01Fail{"filter-aborted", "git cat-file --filters of a non-pointer blob failed: " + c01LastLines(rc.Err, 4)}
			} else {
				sf = c08JudgeRawSmudge(in.Data, c01SmudgeObsOf([]byte(rc.Out), ""), cl)
			}
			sm = "smudge-passthrough"
			if sf != nil {
				sm = "smudge-FAIL"
				r.Violations = append(r.Violations, c01Viol(e.prop, sf, class, caseID+" (smudge)", map[string]interface{}{"input": c01Short(in.Data)}))
				if fail == nil {
					fail = sf
				}
			}
		}
		r.Outcome = c08Outcome("git", branch, in, fail, sm)
		return r
	}
	return c01Part{"git", run}
}

// checkout: real `git checkout` / `git clone` of RAW (non-pointer) blobs sitting at LFS-tracked paths (content committed
// before the path was tracked): git drives smudge through filter-process with can-delay=1 (or the one-shot smudge);
// the file in the work tree must be the blob, byte for byte.
func (e *c01Env) c08PartCheckout() c01Part {
	var ins []c01Input
	for _, in := range e.c08E2EInputs() {
		if !c08WellFormed(in.Data) {
			ins = append(ins, in)
		}
	}
	cmds := []string{"checkout -- f.bin", "clone"}
	run := func(x *vx.X) vx.Result {
		in := ins[x.In(len(ins))]
		n := len(in.Data)
		process := x.In(2) == 0
		cmd := cmds[x.In(len(cmds))]
		mode := "one-shot filters"
		if process {
			mode = "filter-process (can-delay=1)"
		}
		caseID := fmt.Sprintf("checkout input=%s mode=%s command=%s", in.Name, mode, cmd)
		r := vx.Result{Evals: 1, Counters: map[string]int64{}, NonTrivial: []string{caseID}, Sample: map[string]interface{}{"delivery": "real git " + cmd + " of a raw blob at an LFS-tracked path", "input": in.Name, "bytes": n, "filter_mode": mode}}
		class := c08Class(in, c01Chunking{})
		if process {
			class += ",filter-process-can-delay"
		}
		w, repo := c01Repo(e.scratch, process, "")
		defer w.Close()
		step := func(name string, rs gitx.Res) bool {
			if rs.TimedOut || !rs.OK() {
				r.Inconcl = "setup step " + name + " did not succeed"
				return false
			}
			return true
		}
		gitx.WriteFile(repo, "f.bin", in.Data, 0644)
		if !step("add", w.Git(repo, "add", "f.bin")) || !step("commit", w.Git(repo, "commit", "-qm", "raw")) {
			return r
		}
		gitx.WriteFile(repo, ".gitattributes", []byte("*.bin filter=lfs -text\n"), 0644)
		if !step("add attributes", w.Git(repo, "add", ".gitattributes")) || !step("commit attributes", w.Git(repo, "commit", "-qm", "track")) {
			return r
		}
		if blob := w.Git(repo, "cat-file", "blob", "HEAD:f.bin").Out; blob != string(in.Data) {
			r.Inconcl = "setup: HEAD:f.bin is not the raw content"
			return r
		}
		target := filepath.Join(repo, "f.bin")
		var rs gitx.Res
		if cmd == "clone" {
			dst := filepath.Join(w.Root, "dst")
			rs = w.Git(w.Root, "clone", "-q", repo, dst)
			target = filepath.Join(dst, "f.bin")
		} else {
			os.Remove(target)
			rs = w.Git(repo, "checkout", "--", "f.bin")
		}
		if rs.TimedOut {
			r.Inconcl = "git " + cmd + " timeout"
			return r
		}
		var f *c01Fail
		r.Counters["clause:git-command-succeeds"]++
		if !rs.OK() {
			f = &c01Fail{"filter-aborted", fmt.Sprintf("git %s of a non-pointer blob at an LFS path failed: %s", cmd, c01LastLines(rs.Err, 4))}
		} else {
			got, _ := os.ReadFile(target)
			cl := map[string]int64{}
			f = c08JudgeRawSmudge(in.Data, c01SmudgeObsOf(got, ""), cl)
			for k, v := range cl {
				r.Counters["clause:"+k] += v
			}
			if f != nil {
				f.Msg = fmt.Sprintf("work-tree file after `git %s` (%s): ", cmd, mode) + f.Msg
			}
		}
		if f != nil {
			r.Violations = append(r.Violations, c01Viol(e.prop, f, class, caseID, map[string]interface{}{"stderr": c01LastLines(rs.Err, 4)}))
		}
		r.Outcome = c08Outcome("checkout-"+strings.SplitN(cmd, " ", 2)[0], "B-content-in-full", in, f, "smudge-passthrough")
		return r
	}
	return c01Part{"checkout", run}
}

// skip-smudge round trip: clone with GIT_LFS_SKIP_SMUDGE=1 (pointer files in the working tree, no objects), then
// git add -A / git stash / git commit -a after touching the files (and, in one variant, after a non-canonical rewrite
// of a pointer file): every LFS path's blob is byte-identical to the pointer file in the working tree (for untouched
// files: the index blob ids are unchanged) and local storage gained nothing.
func (e *c01Env) c08PartSkipSmudge() c01Part {
	ops := []string{"add -A", "stash", "commit -a", "add --renormalize"}
	variants := []string{"touched", "touched+noncanonical-rewrite", "rewritten-same-bytes"}
	type lf struct {
		path string
		data []byte
	}
	files := []lf{{"a.bin", gitx.Content("bin", 1, 1)}, {"b.bin", gitx.Content("text", 1023, 2)}, {"c.bin", gitx.Content("bin", 1024, 3)}, {"d.bin", gitx.Content("text", 5000, 4)},
		{"e.bin", []byte{}}, {"sub/f.bin", gitx.Content("bin", 70000, 5)}, {"g.bin", []byte(c01BasePointerText(0) + "xx")},
		{"h.bin", []byte("\n\n\n")}, {"i.bin", bytes.Repeat([]byte(" \t\r\n"), 400)}}
	run := func(x *vx.X) vx.Result {
		op := ops[x.In(len(ops))]
		variant := variants[x.In(len(variants))]
		process := x.In(2) == 0
		mode := "one-shot filters"
		if process {
			mode = "filter-process"
		}
		caseID := fmt.Sprintf("skipsmudge op=%q variant=%s mode=%s", op, variant, mode)
		r := vx.Result{Evals: 1, Counters: map[string]int64{}, NonTrivial: []string{caseID}, Sample: map[string]interface{}{"delivery": "GIT_LFS_SKIP_SMUDGE=1 git clone, then git " + op, "variant": variant, "filter_mode": mode, "lfs_files": len(files)}}
		cl := map[string]int64{}
		defer func() {
			for k, v := range cl {
				r.Counters["clause:"+k] += v
			}
		}()
		w, src := c01Repo(e.scratch, process, "")
		defer w.Close()
		fail := func(step string, rs gitx.Res) bool {
			if rs.TimedOut {
				r.Inconcl = step + " timeout"
				return true
			}
			if !rs.OK() {
				// a failing git command emits no wrong pointer: not a verdict of this property; the other parts decide
				r.Inconcl = "setup step " + step + " did not succeed"
				return true
			}
			return false
		}
		gitx.WriteFile(src, ".gitattributes", []byte("*.bin filter=lfs diff=lfs merge=lfs -text\n"), 0644)
		gitx.WriteFile(src, "plain.txt", []byte("plain\n"), 0644)
		for _, f := range files {
			gitx.WriteFile(src, f.path, f.data, 0644)
		}
		if fail("add", w.Git(src, "add", ".")) || fail("commit", w.Git(src, "commit", "-qm", "c1")) {
			return r
		}
		// what the original commit recorded is itself subject to the dichotomy: every file here is content (B)
		srcStore := c01ScanStore(c01LfsDir(src))
		for _, f := range files {
			blob := []byte(w.Git(src, "cat-file", "blob", "HEAD:"+f.path).Out)
			want := c01Canon(c01Sha(f.data), len(f.data))
			cl["B:output-is-pointer-of-whole-input"]++
			r.Evals++
			var bf *c01Fail
			if string(blob) != want {
				clause := "wrong-pointer"
				if bytes.Equal(blob, f.data) {
					clause = "content-passed-through"
				} else if len(blob) < len(f.data) && bytes.Equal(blob, f.data[:len(blob)]) {
					clause = "content-truncated"
				}
				bf = &c01Fail{clause, fmt.Sprintf("git add + commit of %s (%d bytes, not a pointer: %s) recorded %s instead of the pointer to all of it", f.path, len(f.data), c01Short(f.data), c01Short(blob))}
			} else if len(f.data) > 0 {
				cl["B:store-gained-exactly-that-object"]++
				if o := c01FindObject(srcStore, c01Sha(f.data)); o == nil || o.Sha != c01Sha(f.data) {
					bf = &c01Fail{"store-not-exactly-the-object", fmt.Sprintf("git add of %s did not store object %s", f.path, c01Sha(f.data))}
				}
			}
			if bf != nil {
				kind := "kind=nonptr"
				if len(bytes.TrimSpace(f.data)) == 0 {
					kind = "kind=blank"
				}
				r.Violations = append(r.Violations, c01Viol(e.prop, bf, kind+",size"+c01SizeBucket(len(f.data)), caseID+" (original commit)", nil))
				r.Outcome = fmt.Sprintf("skipsmudge/%s/%s/FAIL-%s", op, variant, bf.Clause)
				return r
			}
		}
		dst := filepath.Join(w.Root, "dst")
		skip := []string{"GIT_LFS_SKIP_SMUDGE=1"}
		if fail("clone", w.GitE(w.Root, skip, "clone", "-q", src, dst)) {
			return r
		}
		wantWT := map[string][]byte{}
		for _, f := range files {
			got, _ := os.ReadFile(filepath.Join(dst, f.path))
			want := c01Canon(c01Sha(f.data), len(f.data))
			if string(got) != want {
				// with smudging skipped the pointer blob is what must land in the work tree; whether it does is C04's
				// subject — without it this scenario cannot be set up
				r.Inconcl = "skip-smudge clone did not leave the pointer file in the work tree"
				return r
			}
			wantWT[f.path] = got
		}
		ids0 := w.Git(dst, "ls-files", "-s").Out
		store0 := c01ScanStore(c01LfsDir(dst))
		// perturb
		old := time.Date(2020, 1, 2, 3, 4, 5, 0, time.UTC)
		for i, f := range files {
			p := filepath.Join(dst, f.path)
			switch variant {
			case "rewritten-same-bytes":
				os.Remove(p)
				os.WriteFile(p, wantWT[f.path], 0644)
			case "touched+noncanonical-rewrite":
				if i == 1 || i == 3 {
					nb := append(append([]byte{}, wantWT[f.path]...), '\n') // a user's editor appended a newline: still parseable
					if i == 3 {
						nb = []byte(strings.ReplaceAll(string(wantWT[f.path]), "\n", "\r\n"))
					}
					if c08WellFormed(nb) {
						os.WriteFile(p, nb, 0644)
						wantWT[f.path] = nb
					}
				}
			}
			os.Chtimes(p, old, old)
		}
		gitx.WriteFile(dst, "plain.txt", []byte("plain changed\n"), 0644)
		var rs gitx.Res
		treeish := ""
		switch op {
		case "add -A":
			rs = w.GitE(dst, skip, "add", "-A")
		case "add --renormalize":
			rs = w.GitE(dst, skip, "add", "--renormalize", ".")
		case "stash":
			rs = w.GitE(dst, skip, "stash")
			treeish = "stash@{0}"
		case "commit -a":
			rs = w.GitE(dst, skip, "commit", "-qam", "c2")
			treeish = "HEAD"
		}
		if rs.TimedOut {
			r.Inconcl = "git " + op + " timeout"
			return r
		}
		var f *c01Fail
		cl["git-command-succeeds"]++
		if !rs.OK() {
			f = &c01Fail{"filter-aborted", fmt.Sprintf("git %s failed after a skip-smudge clone: %s", op, c01LastLines(rs.Err+rs.Out, 5))}
		}
		changed := []string{}
		if f == nil {
			for _, lfile := range files {
				spec := ":" + lfile.path
				if treeish != "" {
					spec = treeish + ":" + lfile.path
				}
				blob := []byte(w.Git(dst, "cat-file", "blob", spec).Out)
				cl["A:blob-equals-pointer-file"]++
				r.Evals++
				if !bytes.Equal(blob, wantWT[lfile.path]) {
					clause := "pointer-not-passed-through"
					if p, err := c01ParsePointer(blob); err == nil && len(blob) > 0 && p.Oid == c01Sha(wantWT[lfile.path]) {
						clause = "pointer-stored-as-content"
					}
					f = &c01Fail{clause, fmt.Sprintf("after `git %s`, %s holds %s; the working tree holds the pointer file %s", op, spec, c01Short(blob), c01Short(wantWT[lfile.path]))}
					break
				}
			}
			if variant != "touched+noncanonical-rewrite" && treeish == "" {
				cl["A:index-blob-ids-unchanged"]++
				ids1 := w.Git(dst, "ls-files", "-s").Out
				strip := func(s string) string {
					var l []string
					for _, ln := range strings.Split(s, "\n") {
						if !strings.HasSuffix(ln, "\tplain.txt") {
							l = append(l, ln)
						}
					}
					return strings.Join(l, "\n")
				}
				if f == nil && strip(ids0) != strip(ids1) {
					f = &c01Fail{"index-blob-ids-changed", fmt.Sprintf("index blob ids of LFS paths changed by `git %s` after a skip-smudge clone:\nbefore:\n%s\nafter:\n%s", op, strip(ids0), strip(ids1))}
				}
			}
			cl["A:store-unchanged"]++
			store1 := c01ScanStore(c01LfsDir(dst))
			if f == nil && fmt.Sprint(store0) != fmt.Sprint(store1) {
				f = &c01Fail{"pointer-input-changed-store", fmt.Sprintf("`git %s` on pointer files added to local storage: %v", op, store1)}
			}
		}
		res := "ok"
		if f != nil {
			res = "FAIL-" + f.Clause
			r.Violations = append(r.Violations, c01Viol(e.prop, f, "skip-smudge-checkout,"+variant, caseID, map[string]interface{}{"changed": changed, "stderr": c01LastLines(rs.Err, 5)}))
		}
		r.Outcome = fmt.Sprintf("skipsmudge/%s/%s/%s", op, variant, res)
		return r
	}
	return c01Part{"skipsmudge", run}
}

func c08Describe(c *vx.Check, e *c01Env) {
	c.Rule = "one execution = one case = one choice vector (input x working-tree state x chunking x delivery); nothing is sampled. " +
		"inputs: the empty input; 5 canonical pointers (plain, size 1, max size, 1 and 2 extension lines); 20 non-canonical or damaged spellings of each of 2 (thorough: 5) of them (extra/missing final newline, leading blank, CRLF, trailing blanks, blank line inside, version aliases, wrong version, swapped/duplicate/unknown lines, size 0, negative size, upper-case oid, truncated, doubled) — git-lfs's own decoder decides which are pointers; " +
		"a pointer extended by {spaces, newlines, CRLF, tabs, an unknown line, a second size line, 'x', blank line + 'x', binary} to total lengths {pointer+1, 1022, 1023, 1024, 1025, 2048 (binary/newlines also 4096, 70000)}; non-pointers of 1/1023/1024/1025 bytes; whitespace-only inputs {spaces, LF, CR LF, tabs, mixed} x {1,2,1023,1024,1025,2048} bytes and blank prefixes followed by text / a pointer. " +
		"chunkings: every set of <=2 cut points from {1, 60, end of pointer text -1/0/+1, 1023, 1024, 1025, size-1}, 1 byte per read (sizes<=1025), and for 6 inputs every single cut position; EOF separately / with the last data; working-tree file absent / same bytes. " +
		"oracle per case: (A) output == input and store unchanged iff the input is empty or (< 1024 bytes, lfs.DecodePointer accepts it, and it has version/oid/size lines by an independent structural test), else (B) output == canonical pointer of (SHA-256(input), len(input)) and the store gained exactly that object; for inputs of class B the same bytes are also smudged: output == input. " +
		"oneshot: real binary through a kernel pipe with exact chunking (quick <=1 cut, thorough <=2); filterprocess: packet payload sizes {1,1023,1024,1025,65516,1/65516} x {plain, capability=delay negotiated + can-delay=1 on the smudge request}, the answer parsed as git parses it (status list up to the first flush, content up to a flush, final status list); checkout: real git checkout / git clone of raw non-pointer blobs at LFS-tracked paths (process filter with can-delay, and one-shot smudge); plain and pointer-prefixed binary content also at 65515,65516,65517,131032,131033 bytes (one and two full pkt-line packets); git: git add, git hash-object --path, git cat-file --filters with filter-process and one-shot filters; " +
		"skipsmudge: GIT_LFS_SKIP_SMUDGE=1 clone of 9 LFS files (0,1,1023,1024,5000,70000 bytes, look-alike, two whitespace-only) then {add -A, add --renormalize, stash, commit -a} x {mtime touched, rewritten, user appended newline / CRLF} x filter mode. " +
		"distinct_nontrivial = distinct cases (every case evaluates the dichotomy)"
	c.Assumptions = []string{
		"'well-formed pointer' = shorter than 1024 bytes and accepted by lfs.DecodePointer when handed over in one piece (the implementation defines parseable; C07 ties that decoder to the spec)",
		"for the smudge sentence, bytes 'do not parse as a pointer' iff they are not a well-formed pointer in that sense (in particular anything of 1024 bytes or more: docs/spec.md says pointer files must be less than 1024 bytes)",
		"exact chunking through a kernel pipe relies on Linux FIONREAD reporting the unread byte count of the pipe",
		"system git 2.39.5 drives the git and skipsmudge parts",
	}
	c.Bounds["inputs"] = len(e.inputs)
	c.Bounds["max_cut_points"] = 2
	c.Bounds["packet_payload_sizes"] = "1,1023,1024,1025,65516,1/65516"
	if !e.thorough {
		c.Bounds["quick_tier_reductions"] = "inproc: pairs of cut points and the every-position sweeps only for (file absent, separate EOF); non-canonical spellings of 2 base pointers; " +
			"oneshot/filterprocess/git: inputs of base pointer 0 with fills {spaces, newlines, unknown line, x, binary}; oneshot: cuts {1, end of pointer, 1024, size-1} singly, 1 byte per read for 3 inputs, same-file only unchunked; " +
			"filterprocess: packet sizes {65516,1,1024,1/65516}, same-file only 65516, each plain and with can-delay; checkout: same input subset (non-pointers only); git: git add and hash-object without file. thorough: full products"
	}
}
