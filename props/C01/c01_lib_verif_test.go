package commands

// Shared plumbing of the C01 / C08 checks (clean/smudge round trip; pointer pass-through dichotomy).
//
//   - c01ChunkReader: an io.Reader that delivers a byte string in exactly the stated chunks (model of a pipe whose
//     writer wrote chunk k and whose reader consumed it before chunk k+1 was written);
//   - the in-process worker: commands.clean / commands.smudge on a scratch repository with that reader;
//   - c01RunGated: the real one-shot binary fed through a real kernel pipe with the same exact chunking
//     (the next chunk is written only after FIONREAD on the pipe reports 0 unread bytes: an observed condition, not a pause);
//   - c01FP: a pkt-line client driving the real `git-lfs filter-process`;
//   - reference models: canonical pointer text, the stub extensions' transforms, strict pointer parser.

import (
	"bytes"
	"context"
	"crypto/sha256"
	"encoding/hex"
	"encoding/json"
	"fmt"
	"io"
	"os"
	"os/exec"
	"path/filepath"
	"regexp"
	"sort"
	"strconv"
	"strings"
	"syscall"
	"time"
	"unsafe"

	"github.com/git-lfs/git-lfs/v3/config"
	"github.com/git-lfs/git-lfs/v3/filepathfilter"
	"github.com/git-lfs/git-lfs/v3/lfs"
	"github.com/git-lfs/git-lfs/v3/tq"
	"github.com/git-lfs/git-lfs/v3/verifx/gitx"
	"github.com/git-lfs/git-lfs/v3/verifx/vx"
	"github.com/git-lfs/pktline"
)

// ---------------------------------------------------------------------------------------------------------
// small helpers

func c01Sha(b []byte) string {
	h := sha256.Sum256(b)
	return hex.EncodeToString(h[:])
}

const c01Version = "https://git-lfs.github.com/spec/v1"

// c01Canon is the spec's canonical pointer text of (oid,size) without extensions.
func c01Canon(oid string, size int) string {
	if size == 0 {
		return ""
	}
	return fmt.Sprintf("version %s\noid sha256:%s\nsize %d\n", c01Version, oid, size)
}

type c01ExtLine struct {
	Prio int
	Name string
	Oid  string
}

type c01Ptr struct {
	Oid       string
	Size      int64
	Exts      []c01ExtLine
	Canonical bool // accepted by the strict spec grammar below
}

var c01StrictRE = regexp.MustCompile(`\Aversion https://git-lfs\.github\.com/spec/v1\n((?:ext-[0-9]-[A-Za-z0-9_][A-Za-z0-9_.-]* sha256:[0-9a-f]{64}\n)*)oid sha256:([0-9a-f]{64})\nsize (0|[1-9][0-9]*)\n\z`)
var c01ExtRE = regexp.MustCompile(`ext-([0-9])-([A-Za-z0-9_][A-Za-z0-9_.-]*) sha256:([0-9a-f]{64})\n`)

// c01ParsePointer reads pointer text: first by an independent strict grammar (docs/spec.md); text that the strict
// grammar rejects but git-lfs's own decoder accepts (e.g. trailing blank line) is still a pointer for the purposes
// of C01 (the statement does not demand the canonical form), flagged Canonical=false.
func c01ParsePointer(b []byte) (*c01Ptr, error) {
	if len(b) >= 1024 {
		return nil, fmt.Errorf("%d bytes: a pointer is shorter than 1024 bytes", len(b))
	}
	if len(b) == 0 {
		return &c01Ptr{Oid: c01Sha(nil), Size: 0, Canonical: true}, nil
	}
	if m := c01StrictRE.FindSubmatch(b); m != nil {
		size, err := strconv.ParseInt(string(m[3]), 10, 64)
		if err != nil {
			return nil, err
		}
		p := &c01Ptr{Oid: string(m[2]), Size: size, Canonical: true}
		for _, e := range c01ExtRE.FindAllSubmatch(m[1], -1) {
			pr, _ := strconv.Atoi(string(e[1]))
			p.Exts = append(p.Exts, c01ExtLine{pr, string(e[2]), string(e[3])})
		}
		return p, nil
	}
	lp, err := lfs.DecodePointer(bytes.NewReader(b))
	if err != nil {
		return nil, err
	}
	if lp == nil {
		return nil, fmt.Errorf("decoder returned nil")
	}
	p := &c01Ptr{Oid: lp.Oid, Size: lp.Size}
	for _, e := range lp.Extensions {
		p.Exts = append(p.Exts, c01ExtLine{e.Priority, e.Name, e.Oid})
	}
	return p, nil
}

// c01ImplParses: "parseable" as the implementation defines it for a whole byte string handed over in one piece
// (C08: "(A) is required iff the whole input is < 1024 bytes and git-lfs's own DecodePointer accepts it").
func c01ImplParses(b []byte) bool {
	if len(b) >= 1024 {
		return false
	}
	p, err := lfs.DecodePointer(bytes.NewReader(b))
	return err == nil && p != nil
}

func c01Rot13(b []byte) []byte {
	o := make([]byte, len(b))
	for i, c := range b {
		switch {
		case c >= 'a' && c <= 'z':
			o[i] = 'a' + (c-'a'+13)%26
		case c >= 'A' && c <= 'Z':
			o[i] = 'A' + (c-'A'+13)%26
		default:
			o[i] = c
		}
	}
	return o
}

// extension configurations: "" (none), "rot" (one size-preserving extension), "chain" (rot at priority 0, then
// pfx at priority 1 which prepends 4 bytes: the stored size differs from the input size).
var c01ExtKinds = []string{"", "rot", "chain"}

// c01Stages returns the byte strings after each configured extension (model of the stub programs).
func c01Stages(ext string, in []byte) (names []string, outs [][]byte) {
	switch c01BaseExt(ext) {
	case "rot":
		return []string{"rot"}, [][]byte{c01Rot13(in)}
	case "chain":
		r := c01Rot13(in)
		return []string{"rot", "pfx"}, [][]byte{r, append([]byte("EXT1"), r...)}
	}
	return nil, nil
}

// c01Expected: what the statement requires clean to have produced for input `in`.
type c01Expect struct {
	Stored    []byte       // bytes that must sit in local storage under the pointer's oid
	ExtLines  []c01ExtLine // extension lines the pointer must carry
	EmptyPtr  bool         // empty file <-> empty pointer (no extension configured)
	StoredOid string
}

func c01ExpectFor(ext string, in []byte) c01Expect {
	e := c01Expect{Stored: in}
	names, outs := c01Stages(ext, in)
	prev := in
	for i, n := range names {
		// git-lfs records an extension only when it changed the bytes, renumbering priorities 0..k-1
		if !bytes.Equal(prev, outs[i]) {
			e.ExtLines = append(e.ExtLines, c01ExtLine{len(e.ExtLines), n, c01Sha(prev)})
		}
		prev = outs[i]
	}
	e.Stored = prev
	e.StoredOid = c01Sha(prev)
	e.EmptyPtr = len(in) == 0 && ext == ""
	return e
}

// ---------------------------------------------------------------------------------------------------------
// exact chunking

// c01Chunking: cut positions (ascending, inside (0,n)); Every>0 means a cut every Every bytes.
type c01Chunking struct {
	Cuts  []int `json:"cuts,omitempty"`
	Every int   `json:"every,omitempty"`
}

func (c c01Chunking) String() string {
	if c.Every > 0 {
		return fmt.Sprintf("every%d", c.Every)
	}
	if len(c.Cuts) == 0 {
		return "single"
	}
	s := make([]string, len(c.Cuts))
	for i, v := range c.Cuts {
		s[i] = strconv.Itoa(v)
	}
	return "cut@" + strings.Join(s, "+")
}

func (c c01Chunking) cutsFor(n int) []int {
	if c.Every > 0 {
		var r []int
		for p := c.Every; p < n; p += c.Every {
			r = append(r, p)
		}
		return r
	}
	var r []int
	for _, p := range c.Cuts {
		if p > 0 && p < n {
			r = append(r, p)
		}
	}
	return r
}

// firstRead is the number of bytes the first Read(1024-byte buffer) of the stream returns.
func (c c01Chunking) firstRead(n int) int {
	f := n
	if cs := c.cutsFor(n); len(cs) > 0 {
		f = cs[0]
	}
	if f > 1024 {
		f = 1024
	}
	return f
}

type c01ChunkReader struct {
	data        []byte
	cuts        []int
	pos         int
	eofWithLast bool
	reads       int
}

func (r *c01ChunkReader) Read(p []byte) (int, error) {
	if r.pos >= len(r.data) {
		return 0, io.EOF
	}
	if len(p) == 0 {
		return 0, nil
	}
	end := len(r.data)
	for _, c := range r.cuts {
		if c > r.pos {
			end = c
			break
		}
	}
	n := copy(p, r.data[r.pos:end])
	r.pos += n
	r.reads++
	if r.pos >= len(r.data) && r.eofWithLast {
		return n, io.EOF
	}
	return n, nil
}

// subsets of size <= 2 of the given candidate cut positions (deduplicated, inside (0,n)).
func c01CutSets(n int, cand []int) []c01Chunking {
	seen := map[int]bool{}
	var ps []int
	for _, p := range cand {
		if p > 0 && p < n && !seen[p] {
			seen[p] = true
			ps = append(ps, p)
		}
	}
	sort.Ints(ps)
	r := []c01Chunking{{}}
	for i := range ps {
		r = append(r, c01Chunking{Cuts: []int{ps[i]}})
	}
	for i := range ps {
		for j := i + 1; j < len(ps); j++ {
			r = append(r, c01Chunking{Cuts: []int{ps[i], ps[j]}})
		}
	}
	return r
}

// all compositions of n (every subset of cut positions), n <= 6.
func c01Compositions(n int) []c01Chunking {
	var r []c01Chunking
	for m := 0; m < 1<<(n-1); m++ {
		var cuts []int
		for b := 0; b < n-1; b++ {
			if m&(1<<b) != 0 {
				cuts = append(cuts, b+1)
			}
		}
		r = append(r, c01Chunking{Cuts: cuts})
	}
	return r
}

// ---------------------------------------------------------------------------------------------------------
// inputs

type c01Input struct {
	Name   string
	Kind   string // zero | bin | text | look | ptr | ptrvar | ptrext | nonptr
	Data   []byte
	PtrEnd int    // for pointer-prefixed inputs: length of the leading pointer text (0: none)
	File   string // scratch file holding Data (for the worker / stdin)
}

func c01BasePointerText(i int) string {
	oids := []string{"4d7a214614ab2935c943f9e0ff69d22eadbb8f32b1258daaa5e2ca24d17e2393", strings.Repeat("0", 64), strings.Repeat("f", 64)}
	eo := func(k int) string {
		return strings.Repeat(string("0123456789abcdef"[k%16]), 60) + fmt.Sprintf("%04x", 0xbeef+k)
	}
	switch i {
	case 0:
		return fmt.Sprintf("version %s\noid sha256:%s\nsize 12345\n", c01Version, oids[0])
	case 1:
		return fmt.Sprintf("version %s\noid sha256:%s\nsize 1\n", c01Version, oids[1])
	case 2:
		return fmt.Sprintf("version %s\noid sha256:%s\nsize 9223372036854775807\n", c01Version, oids[2])
	case 3:
		return fmt.Sprintf("version %s\next-0-a sha256:%s\noid sha256:%s\nsize 10\n", c01Version, eo(0), oids[0])
	case 5:
		// extension names with '-' and '.': docs/spec.md allows both in keys, and git-lfs writes such pointers itself when an
		// extension lfs.extension.my-filter.* is configured
		return fmt.Sprintf("version %s\next-0-my-filter sha256:%s\next-2-zip.v2 sha256:%s\noid sha256:%s\nsize 4242\n", c01Version, eo(2), eo(7), oids[0])
	default:
		return fmt.Sprintf("version %s\next-1-foo_bar1 sha256:%s\next-5-b sha256:%s\noid sha256:%s\nsize 999\n", c01Version, eo(1), eo(5), oids[0])
	}
}

// c01StrictCanonical: the text is a canonical pointer by the independent strict grammar alone (docs/spec.md: version line, ext lines
// with strictly ascending priorities, oid, size), whatever git-lfs's own decoder says about it.
func c01StrictCanonical(b []byte) bool {
	if len(b) == 0 || len(b) >= 1024 {
		return false
	}
	m := c01StrictRE.FindSubmatch(b)
	if m == nil {
		return false
	}
	if _, err := strconv.ParseInt(string(m[3]), 10, 64); err != nil {
		return false
	}
	last := -1
	for _, e := range c01ExtRE.FindAllSubmatch(m[1], -1) {
		pr, _ := strconv.Atoi(string(e[1]))
		if pr <= last {
			return false
		}
		last = pr
	}
	return true
}

func c01WriteInputs(dir string, ins []c01Input) []c01Input {
	os.MkdirAll(dir, 0755)
	for i := range ins {
		ins[i].File = filepath.Join(dir, fmt.Sprintf("%03d.in", i))
		if err := os.WriteFile(ins[i].File, ins[i].Data, 0644); err != nil {
			panic(vx.ToolError{Msg: "cannot write input file: " + err.Error()})
		}
	}
	return ins
}

// ---------------------------------------------------------------------------------------------------------
// working-tree state at the named path

type c01WT struct {
	Kind string `json:"kind"` // absent | same | prefix | longer
	N    int    `json:"n,omitempty"`
}

func (w c01WT) String() string {
	switch w.Kind {
	case "prefix":
		return fmt.Sprintf("prefix%d", w.N)
	case "longer":
		return fmt.Sprintf("longer+%d", w.N)
	}
	return w.Kind
}

func (w c01WT) bytesFor(in []byte) ([]byte, bool) {
	switch w.Kind {
	case "same":
		return in, true
	case "prefix":
		if w.N > len(in) {
			return in, true
		}
		return in[:w.N], true
	case "longer":
		return append(append([]byte{}, in...), bytes.Repeat([]byte{'W'}, w.N)...), true
	}
	return nil, false
}

// relation of the working-tree file to the stream (class of the case, used in fingerprints)
func (w c01WT) relation(n int) string {
	switch w.Kind {
	case "absent":
		return "absent"
	case "same":
		return "same"
	case "prefix":
		if w.N < n {
			return "shorter"
		}
		return "same"
	}
	return "longer"
}

func c01WTStates(n int, lens []int) []c01WT {
	r := []c01WT{{Kind: "absent"}, {Kind: "same"}}
	seen := map[int]bool{n: true}
	for _, l := range lens {
		if l < 0 {
			l = n + l // -1 => n-1
		}
		if l >= 0 && l < n && !seen[l] {
			seen[l] = true
			r = append(r, c01WT{Kind: "prefix", N: l})
		}
	}
	r = append(r, c01WT{Kind: "longer", N: 1}, c01WT{Kind: "longer", N: 2000})
	return r
}

// ---------------------------------------------------------------------------------------------------------
// in-process worker: commands.clean / commands.smudge with an exactly chunked reader

type c01Req struct {
	Repo      string        `json:"repo"` // extension configuration: "", "rot", "chain"
	InputFile string        `json:"input"`
	Path      string        `json:"path"`
	WT        c01WT         `json:"wt"`
	Ch        c01Chunking   `json:"ch"`
	EOFLast   bool          `json:"eoflast"`
	Pre       string        `json:"pre,omitempty"`    // "", "present" (correct object already stored), "wrongsize"
	Smudge    []c01Chunking `json:"smudge,omitempty"` // chunkings with which the emitted pointer is smudged again
	SmudgeEOF bool          `json:"smudgeeof,omitempty"`
	RawSmudge bool          `json:"rawsmudge,omitempty"` // smudge the INPUT bytes (C08: non-pointers pass through) with Ch
	NoClean   bool          `json:"noclean,omitempty"`
	SmudgeSrc []byte        `json:"smudgesrc,omitempty"` // with NoClean: pointer bytes to smudge with the Smudge chunkings
	PreStore  []string      `json:"prestore,omitempty"`  // files whose contents are put into local storage first
}

type c01StoreFile struct {
	Rel  string `json:"rel"`
	Size int64  `json:"size"`
	Sha  string `json:"sha"`
}

type c01SmudgeObs struct {
	Len   int64  `json:"len"`
	Sha   string `json:"sha"`
	Small []byte `json:"small,omitempty"` // the output itself when short
	Err   string `json:"err,omitempty"`
	Panic string `json:"panic,omitempty"`
}

type c01Obs struct {
	CleanOut   []byte         `json:"out"`
	CleanErr   string         `json:"err,omitempty"`
	CleanPanic string         `json:"panic,omitempty"`
	Consumed   int            `json:"consumed"`
	Reads      int            `json:"reads"`
	Store      []c01StoreFile `json:"store"`
	Smudges    []c01SmudgeObs `json:"smudges,omitempty"`
	Raw        *c01SmudgeObs  `json:"raw,omitempty"`
	StoreAfter []c01StoreFile `json:"storeafter,omitempty"`
	Stderr     string         `json:"stderr,omitempty"`
	ToolErr    string         `json:"toolerr,omitempty"`
}

func c01ScanStore(lfsdir string) []c01StoreFile {
	var r []c01StoreFile
	for _, f := range gitx.ScanStore(lfsdir) {
		r = append(r, c01StoreFile{Rel: f.Rel, Size: f.Size, Sha: f.Sha})
	}
	return r
}

type c01WRepo struct {
	dir, gitdir string
	conf        *config.Configuration
}

var c01WRepos = map[string]*c01WRepo{}

func c01ExtScripts(scratch string) (cleanPfx, smudgePfx string) {
	bin := filepath.Join(scratch, "c01bin")
	os.MkdirAll(bin, 0755)
	cleanPfx = filepath.Join(bin, "c01pfx-clean")
	smudgePfx = filepath.Join(bin, "c01pfx-smudge")
	if _, err := os.Stat(smudgePfx); err != nil {
		tmp := fmt.Sprintf("%s.%d", cleanPfx, os.Getpid())
		os.WriteFile(tmp, []byte("#!/bin/sh\nprintf 'EXT1'\nexec cat\n"), 0755)
		os.Rename(tmp, cleanPfx)
		for name, body := range map[string]string{
			"c01fail-nowrite": "#!/bin/sh\ncat >/dev/null\nexit 3\n",            // consumes its input, writes nothing, fails
			"c01fail-partial": "#!/bin/sh\nhead -c 3\ncat >/dev/null\nexit 3\n", // writes the first 3 bytes, consumes the rest, fails
			"c01fail-early":   "#!/bin/sh\nexit 3\n",                            // fails before reading
		} {
			tmp = fmt.Sprintf("%s.%d", filepath.Join(bin, name), os.Getpid())
			os.WriteFile(tmp, []byte(body), 0755)
			os.Rename(tmp, filepath.Join(bin, name))
		}
		tmp = fmt.Sprintf("%s.%d", smudgePfx, os.Getpid())
		os.WriteFile(tmp, []byte("#!/bin/sh\nexec tail -c +5\n"), 0755)
		os.Rename(tmp, smudgePfx)
	}
	return
}

// extension specifications: "", "rot", "chain", or "xf/<pos>/<behaviour>/<phase>": a configuration in which one
// extension program FAILS (exit 3) in the given phase (clean|smudge): pos only = the single extension rot,
// last / nonlast = the last / the first program of the two-stage pipeline of that phase (chain rot+pfx; smudge runs
// the chain in reverse order); behaviour nowrite | partial | early.
type c01ExtCmd struct {
	Name          string
	Clean, Smudge string
	Prio          int
}

func c01BaseExt(ext string) string {
	if strings.HasPrefix(ext, "xf/") {
		if strings.Split(ext, "/")[1] == "only" {
			return "rot"
		}
		return "chain"
	}
	return ext
}

func c01ExtCommands(ext string) []c01ExtCmd {
	base := c01BaseExt(ext)
	if base == "" {
		return nil
	}
	rot := "tr a-zA-Z n-za-mN-ZA-M"
	cmds := []c01ExtCmd{{"rot", rot, rot, 0}}
	if base == "chain" {
		c, s := c01ExtScripts(os.Getenv("VERIF_SCRATCH"))
		cmds = append(cmds, c01ExtCmd{"pfx", c, s, 1})
	}
	if strings.HasPrefix(ext, "xf/") {
		f := strings.Split(ext, "/")
		pos, beh, phase := f[1], f[2], f[3]
		fail := filepath.Join(os.Getenv("VERIF_SCRATCH"), "c01bin", "c01fail-"+beh)
		// index of the failing program in cmds (clean order: rot, pfx; smudge order: pfx, rot)
		idx := 0
		if base == "chain" {
			last := pos == "last"
			if phase == "clean" {
				if last {
					idx = 1
				}
			} else if !last {
				idx = 1
			}
		}
		if phase == "clean" {
			cmds[idx].Clean = fail
		} else {
			cmds[idx].Smudge = fail
		}
	}
	return cmds
}

// c01ConfigureExt writes the extension configuration of kind ext into the repository at dir.
func c01ConfigureExt(dir, ext string, run func(args ...string) error) error {
	for _, c := range c01ExtCommands(ext) {
		for _, kv := range [][]string{{"clean", c.Clean}, {"smudge", c.Smudge}, {"priority", fmt.Sprint(c.Prio)}} {
			if err := run("config", "lfs.extension."+c.Name+"."+kv[0], kv[1]); err != nil {
				return err
			}
		}
	}
	return nil
}

func c01WorkerRepo(kind string) (*c01WRepo, error) {
	if r, ok := c01WRepos[kind]; ok {
		return r, nil
	}
	name := strings.ReplaceAll(kind, "/", "_")
	if name == "" {
		name = "plain"
	}
	dir := filepath.Join(os.Getenv("VERIF_SCRATCH"), "c01ip", fmt.Sprintf("w%d", os.Getpid()), name)
	if err := os.MkdirAll(dir, 0755); err != nil {
		return nil, err
	}
	run := func(args ...string) error {
		cmd := exec.Command("git", args...)
		cmd.Dir = dir
		if out, err := cmd.CombinedOutput(); err != nil {
			return fmt.Errorf("git %v: %v %s", args, err, out)
		}
		return nil
	}
	if err := run("init", "-q", "-b", "main"); err != nil {
		return nil, err
	}
	if err := c01ConfigureExt(dir, kind, run); err != nil {
		return nil, err
	}
	gitdir := filepath.Join(dir, ".git")
	r := &c01WRepo{dir: dir, gitdir: gitdir, conf: config.NewIn(dir, gitdir)}
	c01WRepos[kind] = r
	return r, nil
}

type c01HashWriter struct {
	h     interface{ Write([]byte) (int, error) }
	n     int64
	small []byte
}

func (w *c01HashWriter) Write(p []byte) (int, error) {
	w.h.Write(p)
	w.n += int64(len(p))
	if len(w.small) < 4096 {
		k := 4096 - len(w.small)
		if k > len(p) {
			k = len(p)
		}
		w.small = append(w.small, p[:k]...)
	}
	return len(p), nil
}

func c01InprocSmudge(gf *lfs.GitFilter, src []byte, ch c01Chunking, eofLast bool, path string) (o c01SmudgeObs) {
	h := sha256.New()
	w := &c01HashWriter{h: h}
	rd := &c01ChunkReader{data: src, cuts: ch.cutsFor(len(src)), eofWithLast: eofLast}
	func() {
		defer func() {
			if e := recover(); e != nil {
				o.Panic = fmt.Sprint(e)
			}
		}()
		filter := filepathfilter.New(nil, nil, filepathfilter.GitIgnore)
		_, err := smudge(gf, w, rd, path, false, filter)
		if err != nil {
			o.Err = err.Error()
		}
	}()
	o.Len = w.n
	o.Sha = hex.EncodeToString(h.Sum(nil))
	if w.n <= 4096 {
		o.Small = w.small
	}
	return o
}

// c01DoInproc executes one in-process case in this (worker) process.
func c01DoInproc(req c01Req) (obs c01Obs) {
	repo, err := c01WorkerRepo(req.Repo)
	if err != nil {
		obs.ToolErr = err.Error()
		return
	}
	if err := os.Chdir(repo.dir); err != nil {
		obs.ToolErr = err.Error()
		return
	}
	in, err := os.ReadFile(req.InputFile)
	if err != nil {
		obs.ToolErr = err.Error()
		return
	}
	lfsdir := filepath.Join(repo.gitdir, "lfs")
	os.RemoveAll(filepath.Join(lfsdir, "objects"))
	for _, sub := range []string{"tmp", "logs"} {
		if ents, err := os.ReadDir(filepath.Join(lfsdir, sub)); err == nil {
			for _, e := range ents {
				os.RemoveAll(filepath.Join(lfsdir, sub, e.Name()))
			}
		}
	}
	os.Remove(filepath.Join(repo.dir, req.Path))
	if wb, ok := req.WT.bytesFor(in); ok {
		if err := os.WriteFile(filepath.Join(repo.dir, req.Path), wb, 0644); err != nil {
			obs.ToolErr = err.Error()
			return
		}
	}
	exp := c01ExpectFor(req.Repo, in)
	switch req.Pre {
	case "present":
		gitx.PutObject(lfsdir, exp.Stored)
	case "wrongsize":
		if len(exp.Stored) > 0 {
			p := gitx.ObjectPath(lfsdir, exp.StoredOid)
			os.MkdirAll(filepath.Dir(p), 0755)
			os.WriteFile(p, exp.Stored[:len(exp.Stored)-1], 0644)
		}
	}
	for _, f := range req.PreStore {
		if b, err := os.ReadFile(f); err == nil {
			gitx.PutObject(lfsdir, b)
		}
	}
	// the package-global configuration the commands use
	global.Lock()
	if cfg != repo.conf {
		cfg = repo.conf
		apiClient = nil
		tqManifest = make(map[string]tq.Manifest)
	}
	global.Unlock()
	ErrorBuffer.Reset()
	gf := lfs.NewGitFilter(cfg)

	if !req.NoClean {
		rd := &c01ChunkReader{data: in, cuts: req.Ch.cutsFor(len(in)), eofWithLast: req.EOFLast}
		var out bytes.Buffer
		func() {
			defer func() {
				if e := recover(); e != nil {
					obs.CleanPanic = fmt.Sprint(e)
				}
			}()
			_, err := clean(gf, &out, rd, req.Path, -1)
			if err != nil {
				obs.CleanErr = err.Error()
			}
		}()
		obs.CleanOut = out.Bytes()
		if obs.CleanOut == nil {
			obs.CleanOut = []byte{}
		}
		obs.Consumed = rd.pos
		obs.Reads = rd.reads
		obs.Store = c01ScanStore(lfsdir)
		// smudge what clean emitted only when it is a pointer to an object that is now in local storage (otherwise the
		// clean observation alone is returned and judged; smudge would try to download and exit)
		if p, err := c01ParsePointer(obs.CleanOut); err == nil && (p.Size == 0 || c01FindObject(obs.Store, p.Oid) != nil) {
			for _, sc := range req.Smudge {
				obs.Smudges = append(obs.Smudges, c01InprocSmudge(gf, obs.CleanOut, sc, req.SmudgeEOF, req.Path))
			}
		}
	}
	if req.NoClean && req.SmudgeSrc != nil {
		obs.Store = c01ScanStore(lfsdir)
		for _, sc := range req.Smudge {
			obs.Smudges = append(obs.Smudges, c01InprocSmudge(gf, req.SmudgeSrc, sc, req.SmudgeEOF, req.Path))
		}
	}
	if req.RawSmudge {
		o := c01InprocSmudge(gf, in, req.Ch, req.EOFLast, req.Path)
		obs.Raw = &o
	}
	obs.StoreAfter = c01ScanStore(lfsdir)
	obs.Stderr = ErrorBuffer.String()
	if len(obs.Stderr) > 600 {
		obs.Stderr = obs.Stderr[:600]
	}
	return obs
}

func c01WorkerRun(arg string) vx.RunFunc {
	return func(x *vx.X) vx.Result {
		var req c01Req
		if err := json.Unmarshal([]byte(arg), &req); err != nil {
			return vx.Result{ToolErr: "bad worker request: " + err.Error()}
		}
		obs := c01DoInproc(req)
		b, _ := json.Marshal(obs)
		return vx.Result{Outcome: string(b)}
	}
}

// c01Inproc sends one request to the pool.  died != "" when the worker process exited (os.Exit inside git-lfs code).
func c01Inproc(pool *vx.ProcPool, req c01Req) (obs c01Obs, died string, inconcl string, toolerr string) {
	b, _ := json.Marshal(req)
	r := pool.ExecArg(nil, string(b))
	if r.Inconcl != "" {
		return obs, "", r.Inconcl, ""
	}
	if r.Crashed != "" {
		return obs, r.Crashed, "", ""
	}
	if r.ToolErr != "" {
		return obs, "", "", r.ToolErr
	}
	if err := json.Unmarshal([]byte(r.Outcome), &obs); err != nil {
		return obs, "", "", "bad worker observation: " + err.Error()
	}
	if obs.ToolErr != "" {
		return obs, "", "", obs.ToolErr
	}
	return obs, "", "", ""
}

// ---------------------------------------------------------------------------------------------------------
// real binary through a real pipe with exact chunking

func c01Fionread(f *os.File) (int, error) {
	var n int32
	_, _, e := syscall.Syscall(syscall.SYS_IOCTL, f.Fd(), 0x541B /* FIONREAD */, uintptr(unsafe.Pointer(&n)))
	if e != 0 {
		return 0, e
	}
	return int(n), nil
}

type c01ProcRes struct {
	Out      []byte
	Err      string
	Code     int
	Inconcl  string
	Unread   int // bytes written to the pipe that the process never consumed
	NotSent  int // bytes never written because the process had exited
	ExecFail string
}

// c01RunGated runs argv with stdin = a kernel pipe into which data is written chunk by chunk; chunk k+1 is written
// only once the pipe has been observed empty (the process consumed chunk k), so the process sees exactly this chunking
// (each read(2) returns min(len(buf), rest of the current chunk)).
func c01RunGated(w *gitx.World, dir string, env []string, argv []string, data []byte, cuts []int) (res c01ProcRes) {
	ctx, cancel := context.WithTimeout(context.Background(), gitx.CmdTimeout)
	defer cancel()
	cmd := exec.CommandContext(ctx, argv[0], argv[1:]...)
	cmd.Dir = dir
	cmd.Env = w.Env(env...)
	pr, pw, err := os.Pipe()
	if err != nil {
		res.ExecFail = err.Error()
		return
	}
	var out, errb bytes.Buffer
	cmd.Stdin, cmd.Stdout, cmd.Stderr = pr, &out, &errb
	cmd.WaitDelay = 2 * time.Second
	if err := cmd.Start(); err != nil {
		pr.Close()
		pw.Close()
		res.ExecFail = err.Error()
		return
	}
	pr.Close()
	done := make(chan error, 1)
	go func() { done <- cmd.Wait() }()
	var werr error
	exited := false
	bounds := append(append([]int{}, cuts...), len(data))
	pos := 0
	for _, end := range bounds {
		if end <= pos {
			continue
		}
		if exited {
			break
		}
		if _, e := pw.Write(data[pos:end]); e != nil {
			res.NotSent = len(data) - pos
			exited = true
			break
		}
		pos = end
		// wait until the process has consumed everything written so far (or has gone away)
		for {
			n, e := c01Fionread(pw)
			if e != nil || n == 0 {
				break
			}
			select {
			case werr = <-done:
				exited = true
				res.Unread = n
				res.NotSent = len(data) - pos
			default:
			}
			if exited {
				break
			}
			if ctx.Err() != nil {
				break
			}
			time.Sleep(100 * time.Microsecond)
		}
	}
	pw.Close()
	if !exited {
		werr = <-done
	}
	res.Out = out.Bytes()
	res.Err = errb.String()
	if ctx.Err() == context.DeadlineExceeded {
		res.Inconcl = "command timeout"
		return
	}
	if werr != nil {
		if ee, ok := werr.(*exec.ExitError); ok {
			res.Code = ee.ExitCode()
		} else {
			res.Code = -2
			res.Err += "\n[wait] " + werr.Error()
		}
	}
	return
}

// ---------------------------------------------------------------------------------------------------------
// pkt-line client for `git-lfs filter-process`

type c01FP struct {
	cmd    *exec.Cmd
	pl     *pktline.Pktline
	stdin  io.WriteCloser
	stderr bytes.Buffer
	cancel context.CancelFunc
	ctx    context.Context
	delay  bool
}

// delay: negotiate capability=delay and send can-delay=1 with every smudge request (what git checkout does since 2.15)
func c01StartFP(w *gitx.World, dir string, env []string, delay bool) (*c01FP, error) {
	ctx, cancel := context.WithTimeout(context.Background(), gitx.CmdTimeout)
	f := &c01FP{cancel: cancel, ctx: ctx, delay: delay}
	f.cmd = exec.CommandContext(ctx, filepath.Join(w.BinDir, "git-lfs"), "filter-process")
	f.cmd.Dir = dir
	f.cmd.Env = w.Env(env...)
	in, err := f.cmd.StdinPipe()
	if err != nil {
		cancel()
		return nil, err
	}
	out, err := f.cmd.StdoutPipe()
	if err != nil {
		cancel()
		return nil, err
	}
	f.cmd.Stderr = &f.stderr
	f.stdin = in
	if err := f.cmd.Start(); err != nil {
		cancel()
		return nil, err
	}
	f.pl = pktline.NewPktline(out, in)
	if err := f.pl.WritePacketList([]string{"git-filter-client", "version=2"}); err != nil {
		return f, fmt.Errorf("handshake write: %v", err)
	}
	l, err := f.pl.ReadPacketList()
	if err != nil || len(l) != 2 || l[0] != "git-filter-server" || l[1] != "version=2" {
		return f, fmt.Errorf("handshake: %v %v", l, err)
	}
	caps := []string{"capability=clean", "capability=smudge"}
	if delay {
		caps = append(caps, "capability=delay")
	}
	if err := f.pl.WritePacketList(caps); err != nil {
		return f, fmt.Errorf("capabilities write: %v", err)
	}
	if l, err = f.pl.ReadPacketList(); err != nil {
		return f, fmt.Errorf("capabilities: %v %v", l, err)
	}
	if delay {
		ok := false
		for _, c := range l {
			if c == "capability=delay" {
				ok = true
			}
		}
		if !ok {
			return f, fmt.Errorf("capability=delay not granted: %v", l)
		}
	}
	return f, nil
}

// Request sends one clean/smudge request with the payload cut into packets of the given sizes (cycled) and reads the
// answer the way git does (sub-process.c / convert.c): packets up to the first flush are the status list, of which only
// the last "status=" line counts and every other line is ignored; then content packets up to a flush; then the final
// status list.  `out` is therefore exactly what git would keep.
func (f *c01FP) Request(command, path string, payload []byte, pk []int) (status string, out []byte, err error) {
	werr := make(chan error, 1)
	go func() {
		hdr := []string{"command=" + command, "pathname=" + path}
		if f.delay && command == "smudge" {
			hdr = append(hdr, "can-delay=1")
		}
		if e := f.pl.WritePacketList(hdr); e != nil {
			werr <- e
			return
		}
		pos, k := 0, 0
		for pos < len(payload) {
			n := pk[k%len(pk)]
			k++
			if n > len(payload)-pos {
				n = len(payload) - pos
			}
			if e := f.pl.WritePacket(payload[pos : pos+n]); e != nil {
				werr <- e
				return
			}
			pos += n
		}
		werr <- f.pl.WriteFlush()
	}()
	l1, e := f.pl.ReadPacketList()
	if e != nil {
		return "", nil, fmt.Errorf("reading status: %v (write: %v)", e, c01Drain(werr))
	}
	for _, s := range l1 {
		if strings.HasPrefix(s, "status=") {
			status = strings.TrimPrefix(s, "status=")
		}
	}
	if status != "success" {
		c01Drain(werr)
		return status, nil, nil
	}
	for {
		data, n, e := f.pl.ReadPacketWithLength()
		if e != nil {
			return status, out, fmt.Errorf("reading content: %v (write: %v)", e, c01Drain(werr))
		}
		if n == 0 {
			break
		}
		out = append(out, data...)
	}
	l2, e := f.pl.ReadPacketList()
	if e != nil {
		return status, out, fmt.Errorf("reading final status: %v (write: %v)", e, c01Drain(werr))
	}
	for _, s := range l2 {
		if strings.HasPrefix(s, "status=") {
			status = strings.TrimPrefix(s, "status=")
		}
	}
	if e := <-werr; e != nil {
		return status, out, fmt.Errorf("writing request: %v", e)
	}
	return status, out, nil
}

func c01Drain(ch chan error) error {
	select {
	case e := <-ch:
		return e
	case <-time.After(5 * time.Second):
		return fmt.Errorf("(request writer still blocked)")
	}
}

// Close ends the session; returns exit code and stderr.
func (f *c01FP) Close() (int, string, bool) {
	f.stdin.Close()
	err := f.cmd.Wait()
	timedOut := f.ctx.Err() == context.DeadlineExceeded
	f.cancel()
	code := 0
	if err != nil {
		if ee, ok := err.(*exec.ExitError); ok {
			code = ee.ExitCode()
		} else {
			code = -2
		}
	}
	return code, f.stderr.String(), timedOut
}

// ---------------------------------------------------------------------------------------------------------
// judging

type c01Fail struct {
	Clause string
	Msg    string
}

func c01Short(b []byte) string {
	if len(b) > 300 {
		return fmt.Sprintf("%q... (%d bytes, sha256 %s)", b[:300], len(b), c01Sha(b))
	}
	return fmt.Sprintf("%q", b)
}

func c01FindObject(store []c01StoreFile, oid string) *c01StoreFile {
	rel := filepath.Join(oid[0:2], oid[2:4], oid)
	for i := range store {
		if store[i].Rel == rel {
			return &store[i]
		}
	}
	return nil
}

// c01JudgeClean applies the C01 clean-side clauses to (input, emitted bytes, store listing).
// branch is the oracle branch taken (outcome class).
func c01JudgeClean(ext string, in, out []byte, store []c01StoreFile, cl map[string]int64) (branch string, fail *c01Fail) {
	exp := c01ExpectFor(ext, in)
	if exp.EmptyPtr {
		cl["empty-file-empty-pointer"]++
		if len(out) != 0 {
			return "empty", &c01Fail{"empty-not-empty-pointer", fmt.Sprintf("empty input must map to the empty pointer, clean emitted %s", c01Short(out))}
		}
		return "empty", nil
	}
	cl["output-is-a-pointer"]++
	p, err := c01ParsePointer(out)
	if err != nil {
		return "pointer", &c01Fail{"output-not-a-pointer", fmt.Sprintf("clean emitted bytes that are not a pointer (%v): %s", err, c01Short(out))}
	}
	branch = "pointer"
	if !p.Canonical {
		branch = "pointer-noncanonical"
	}
	if len(p.Exts) > 0 {
		branch += fmt.Sprintf("+%dext", len(p.Exts))
	}
	cl["pointer-size-is-content-length"]++
	if p.Size != int64(len(exp.Stored)) {
		return branch, &c01Fail{"pointer-size-differs", fmt.Sprintf("pointer says size %d, the content handed to clean has %d bytes (to be stored: %d)", p.Size, len(in), len(exp.Stored))}
	}
	cl["pointer-oid-is-content-sha256"]++
	if p.Oid != exp.StoredOid {
		return branch, &c01Fail{"pointer-oid-differs", fmt.Sprintf("pointer names oid %s, SHA-256 of the content to be stored is %s", p.Oid, exp.StoredOid)}
	}
	if p.Size > 0 {
		cl["object-stored-under-oid"]++
		o := c01FindObject(store, p.Oid)
		if o == nil {
			return branch, &c01Fail{"object-missing", fmt.Sprintf("pointer names %s but local storage has no such object (store: %v)", p.Oid, store)}
		}
		cl["stored-bytes-match-pointer"]++
		if o.Sha != p.Oid || o.Size != p.Size {
			return branch, &c01Fail{"stored-differs-from-pointer", fmt.Sprintf("object stored under %s has %d bytes hashing to %s; pointer says size %d", p.Oid, o.Size, o.Sha, p.Size)}
		}
	}
	if ext != "" {
		cl["extension-lines"]++
		if fmt.Sprint(p.Exts) != fmt.Sprint(exp.ExtLines) {
			return branch, &c01Fail{"extension-lines-differ", fmt.Sprintf("pointer carries extension lines %v, expected %v", p.Exts, exp.ExtLines)}
		}
	}
	return branch, nil
}

func c01JudgeSmudge(in []byte, o c01SmudgeObs, cl map[string]int64) *c01Fail {
	cl["smudge-yields-original"]++
	if o.Panic != "" {
		return &c01Fail{"smudge-panicked", "smudge panicked: " + o.Panic}
	}
	if o.Len != int64(len(in)) || o.Sha != c01Sha(in) {
		got := fmt.Sprintf("%d bytes sha256 %s", o.Len, o.Sha)
		if o.Small != nil {
			got = c01Short(o.Small)
		}
		return &c01Fail{"smudge-output-differs", fmt.Sprintf("smudging the emitted pointer yields %s, the original content has %d bytes sha256 %s (smudge error: %q)", got, len(in), c01Sha(in), o.Err)}
	}
	return nil
}

func c01SizeBucket(n int) string {
	switch {
	case n == 0:
		return "0"
	case n < 1024:
		return "<1024"
	case n == 1024:
		return "1024"
	case n <= 65516:
		return "<=65516"
	}
	return ">65516"
}

// c01Class: minimal class of a case for fingerprints — derived from the case only, never from the observation.
// c01IsPointerText (case classification only): accepted by git-lfs's decoder AND structurally a pointer, or empty
func c01IsPointerText(b []byte) bool {
	return len(b) < 1024 && (len(b) == 0 || c01StrictCanonical(b) || (c01ImplParses(b) && c08Lenient(b)))
}

func c01Class(in c01Input, wtRel string, ch c01Chunking, ext string) string {
	n := len(in.Data)
	var parts []string
	fr := ch.firstRead(n)
	short := fr < n && fr < 1024
	switch {
	case short && c01IsPointerText(in.Data):
		parts = append(parts, "pointer-split-across-reads")
	case short && fr > 0 && c01IsPointerText(in.Data[:fr]):
		parts = append(parts, "first-read-ends-on-pointer-boundary")
	case short:
		parts = append(parts, "short-first-read")
	}
	if wtRel == "shorter" {
		parts = append(parts, "worktree-file-shorter-than-stream")
	} else if wtRel == "longer" {
		parts = append(parts, "worktree-file-longer-than-stream")
	}
	if len(parts) == 0 {
		parts = append(parts, "kind="+in.Kind+",size"+c01SizeBucket(n))
	}
	if ext != "" {
		parts = append(parts, "ext="+ext)
	}
	return strings.Join(parts, ",")
}

func c01FirstLine(s string) string {
	s = strings.TrimSpace(s)
	if i := strings.IndexByte(s, '\n'); i >= 0 {
		s = s[:i]
	}
	if len(s) > 200 {
		s = s[:200]
	}
	return s
}

func c01LastLines(s string, n int) string {
	l := strings.Split(strings.TrimSpace(s), "\n")
	if len(l) > n {
		l = l[len(l)-n:]
	}
	return strings.Join(l, "\n")
}
