package lfsapi

// C17, scenario "provenance": WHERE the credential.protectProtocol setting comes from.
//
// The other scenarios hand the configuration to package creds as a synthetic map.  Here the configuration is read by the REAL
// loader (config.NewIn on a real throw-away repository; hermetic HOME / XDG_CONFIG_HOME / GIT_CONFIG_GLOBAL /
// GIT_CONFIG_NOSYSTEM) and credential.protectProtocol (or its URL-scoped form credential.<url>.protectProtocol) = false|true is
// placed in one SOURCE:
//
//	Git's configuration : repository (local) config, global config, GIT_CONFIG_COUNT environment, a file included from the
//	                      local config
//	NOT Git's           : .lfsconfig in the work tree, .lfsconfig only in the index, .lfsconfig only in HEAD; there the line is
//	                      alone, after each kind of key git-lfs always accepts from .lfsconfig (lfs.<url>.access,
//	                      remote.<name>.lfsurl, lfs.extension.<name>.priority), or before one
//
// optionally with a second source carrying the OPPOSITE value (in either key form).  Then the usual operations (fill / approve /
// reject with CR, LF, NUL or a plain byte in the username / path / host slot) run through the real helper chain
// (GetCredentialHelper -> ... -> `git credential <op>`, recording stand-in first on PATH; every other `git` command of the loader
// is forwarded by the stand-in to the real git).
//
// Reference: protection is enabled for the URL iff Git itself says so in that repository and environment:
// `git config --type=bool --get-urlmatch credential.protectProtocol <url>` (covers the plain and the URL-scoped key, every
// Git source and Git's own precedence); default enabled.  .lfsconfig is not Git's configuration and credential.* is not among
// the documented .lfsconfig keys, so it has no say.  The per-call oracle is the same as everywhere (c17Obs.judge).

import (
	"bytes"
	"fmt"
	"net/url"
	"os"
	"os/exec"
	"path/filepath"
	"strings"

	"github.com/git-lfs/git-lfs/v3/config"
	"github.com/git-lfs/git-lfs/v3/creds"
	"github.com/git-lfs/git-lfs/v3/subprocess"
	"github.com/git-lfs/git-lfs/v3/verifx/vx"
)

const (
	c17ProvHost    = "lfs.example.com"
	c17ProvRefURL  = "https://lfs.example.com/org/repo.git"
	c17ProvScopeTo = "https://lfs.example.com"
)

// sources of the setting
var c17ProvSources = []string{"git-local", "git-global", "git-env", "git-include", "lfsconfig-worktree", "lfsconfig-index", "lfsconfig-head"}

func c17ProvIsLfsconfig(s string) bool { return strings.HasPrefix(s, "lfsconfig-") }

// line position of the setting inside .lfsconfig
var c17ProvPositions = []string{"alone", "after-access", "after-lfsurl", "after-extension-priority", "before-access"}

// second source (opposite value)
var c17ProvSeconds = []string{"none", "git-local", "git-global", "git-env", "git-include", "lfsconfig-worktree"}

var c17ProvKeyForms = []string{"plain", "url-scoped"}

func c17ProvIniSection(form string, val bool) string {
	if form == "url-scoped" {
		return fmt.Sprintf("[credential %q]\n\tprotectProtocol = %v\n", c17ProvScopeTo, val)
	}
	return fmt.Sprintf("[credential]\n\tprotectProtocol = %v\n", val)
}

func c17ProvKey(form string) string {
	if form == "url-scoped" {
		return "credential." + c17ProvScopeTo + ".protectProtocol"
	}
	return "credential.protectProtocol"
}

func c17ProvLfsconfig(pos, form string, val bool) string {
	set := c17ProvIniSection(form, val)
	access := "[lfs \"" + c17ProvRefURL + "\"]\n\taccess = basic\n"
	lfsurl := "[remote \"origin\"]\n\tlfsurl = " + c17ProvRefURL + "\n"
	prio := "[lfs \"extension.foo\"]\n\tpriority = 1\n"
	switch pos {
	case "after-access":
		return access + set
	case "after-lfsurl":
		return lfsurl + set
	case "after-extension-priority":
		return prio + set
	case "before-access":
		return set + access
	}
	return set
}

// c17RealGit finds the real git: the first `git` on PATH that is not the recording stand-in (whose directory is the first entry).
func c17RealGit() string {
	stubDir := filepath.Join(filepath.Dir(filepath.Dir(c17RecDir())), "bin")
	for _, d := range filepath.SplitList(os.Getenv("PATH")) {
		if d == "" || filepath.Clean(d) == filepath.Clean(stubDir) {
			continue
		}
		p := filepath.Join(d, "git")
		if st, err := os.Stat(p); err == nil && !st.IsDir() && st.Mode()&0111 != 0 {
			return p
		}
	}
	panic(vx.ToolError{Msg: "C17 provenance: no real git on PATH"})
}

type c17ProvWorld struct {
	root, repo, home, global, inc string
	realGit                       string
	env                           map[string]string // hermetic environment of the case (also for the harness's own git commands)
}

func (w *c17ProvWorld) git(dir string, args ...string) (string, int) {
	cmd := exec.Command(w.realGit, args...)
	cmd.Dir = dir
	var env []string
	for _, kv := range os.Environ() {
		k := kv[:strings.Index(kv+"=", "=")]
		if _, ok := w.env[k]; ok || strings.HasPrefix(k, "GIT_") {
			continue
		}
		env = append(env, kv)
	}
	for k, v := range w.env {
		env = append(env, k+"="+v)
	}
	env = append(env, "GIT_AUTHOR_NAME=a", "GIT_AUTHOR_EMAIL=a@example.com", "GIT_COMMITTER_NAME=a", "GIT_COMMITTER_EMAIL=a@example.com",
		"GIT_AUTHOR_DATE=2000-01-01T00:00:00Z", "GIT_COMMITTER_DATE=2000-01-01T00:00:00Z")
	cmd.Env = env
	var out, errb bytes.Buffer
	cmd.Stdout, cmd.Stderr = &out, &errb
	err := cmd.Run()
	if err != nil {
		if ee, ok := err.(*exec.ExitError); ok {
			return out.String() + errb.String(), ee.ExitCode()
		}
		panic(vx.ToolError{Msg: fmt.Sprintf("C17 provenance: cannot run git %v: %v", args, err)})
	}
	return out.String(), 0
}

func (w *c17ProvWorld) mustGit(dir string, args ...string) string {
	out, code := w.git(dir, args...)
	if code != 0 {
		panic(vx.ToolError{Msg: fmt.Sprintf("C17 provenance: git %v failed (%d): %s", args, code, out)})
	}
	return out
}

func c17ProvWrite(path, content string) {
	if err := os.WriteFile(path, []byte(content), 0644); err != nil {
		panic(vx.ToolError{Msg: "C17 provenance: " + err.Error()})
	}
}

func c17RunProvenance(x *vx.X) vx.Result {
	r := vx.Result{Counters: map[string]int64{}}
	o := &c17Obs{r: &r}

	// ---- the case
	form := c17ProvKeyForms[x.In(len(c17ProvKeyForms))]
	src := c17ProvSources[x.In(len(c17ProvSources))]
	val := x.In(2) == 1 // false, true
	pos := "-"
	if c17ProvIsLfsconfig(src) {
		pos = c17ProvPositions[x.In(len(c17ProvPositions))]
	}
	var seconds []string
	for _, s := range c17ProvSeconds {
		if s == src || (c17ProvIsLfsconfig(s) && c17ProvIsLfsconfig(src)) {
			continue
		}
		seconds = append(seconds, s)
	}
	second := seconds[x.In(len(seconds))]
	form2 := form
	if second != "none" {
		form2 = c17ProvKeyForms[x.In(len(c17ProvKeyForms))]
	}
	op := c17Ops[x.In(len(c17Ops))]
	desc := fmt.Sprintf("%s=%v in %s", c17ProvKey(form), val, src)
	if pos != "-" {
		desc += " (" + pos + ")"
	}
	if second != "none" {
		desc += fmt.Sprintf("; %s=%v in %s", c17ProvKey(form2), !val, second)
		if second == "lfsconfig-worktree" {
			desc += " (after-access)"
		}
	}

	// ---- the world: a fresh repository and a hermetic environment
	w := &c17ProvWorld{root: filepath.Join(filepath.Dir(c17RecDir()), "prov"), realGit: c17RealGit()}
	os.RemoveAll(w.root)
	w.repo, w.home = filepath.Join(w.root, "repo"), filepath.Join(w.root, "home")
	w.global, w.inc = filepath.Join(w.home, "gitconfig"), filepath.Join(w.root, "included.cfg")
	for _, d := range []string{w.repo, w.home} {
		if err := os.MkdirAll(d, 0755); err != nil {
			panic(vx.ToolError{Msg: "C17 provenance: " + err.Error()})
		}
	}
	defer os.RemoveAll(w.root)
	w.env = map[string]string{"HOME": w.home, "XDG_CONFIG_HOME": w.home, "GIT_CONFIG_GLOBAL": w.global, "GIT_CONFIG_NOSYSTEM": "1",
		"GIT_TERMINAL_PROMPT": "0", "C17_REALGIT": w.realGit}
	local := "[credential]\n\tuseHttpPath = true\n"
	global := ""
	lfsconfig, lfsWhere := "", ""
	place := func(source, form string, v bool, pos string) {
		switch source {
		case "git-local":
			local += c17ProvIniSection(form, v)
		case "git-global":
			global += c17ProvIniSection(form, v)
		case "git-env":
			w.env["GIT_CONFIG_COUNT"] = "1"
			w.env["GIT_CONFIG_KEY_0"] = c17ProvKey(form)
			w.env["GIT_CONFIG_VALUE_0"] = fmt.Sprint(v)
		case "git-include":
			c17ProvWrite(w.inc, c17ProvIniSection(form, v))
			local += "[include]\n\tpath = " + w.inc + "\n"
		default:
			lfsconfig, lfsWhere = c17ProvLfsconfig(pos, form, v), source
		}
	}
	place(src, form, val, pos)
	if second != "none" {
		place(second, form2, !val, "after-access")
	}
	c17ProvWrite(w.global, global)
	w.mustGit(w.root, "init", "-q", w.repo)
	f, err := os.OpenFile(filepath.Join(w.repo, ".git", "config"), os.O_APPEND|os.O_WRONLY, 0644)
	if err != nil {
		panic(vx.ToolError{Msg: "C17 provenance: " + err.Error()})
	}
	f.WriteString(local)
	f.Close()
	if lfsconfig != "" {
		lf := filepath.Join(w.repo, ".lfsconfig")
		c17ProvWrite(lf, lfsconfig)
		switch lfsWhere {
		case "lfsconfig-index":
			w.mustGit(w.repo, "add", ".lfsconfig")
			os.Remove(lf)
		case "lfsconfig-head":
			w.mustGit(w.repo, "add", ".lfsconfig")
			w.mustGit(w.repo, "commit", "-q", "-m", "c")
			w.mustGit(w.repo, "rm", "-q", "--cached", ".lfsconfig")
			os.Remove(lf)
		}
	}

	// ---- the reference: what Git says for this repository, environment and URL
	refOut, code := w.git(w.repo, "config", "--type=bool", "--get-urlmatch", "credential.protectProtocol", c17ProvRefURL)
	protect := true
	switch {
	case code == 0 && strings.TrimSpace(refOut) == "false":
		protect = false
	case code == 0 && strings.TrimSpace(refOut) == "true":
	case code == 1 && strings.TrimSpace(refOut) == "":
		r.Counters["prov_git_has_no_setting_default_enabled"]++
	default:
		panic(vx.ToolError{Msg: fmt.Sprintf("C17 provenance: reference query failed (%d): %q", code, refOut)})
	}
	// which source holds the value git-lfs would have had to follow for a given (wrong) behaviour
	holder := func(v bool) string {
		switch {
		case val == v:
			return src
		case second != "none":
			return second
		}
		return "none"
	}
	o.provFalse, o.provTrue = holder(false), holder(true)
	o.caseKey = "prov:" + desc + ":" + op

	// ---- load the configuration with the real loader, in the repository, under the hermetic environment
	saved := map[string]*string{}
	setenv := func(k string, v *string) {
		if _, ok := saved[k]; !ok {
			if old, had := os.LookupEnv(k); had {
				saved[k] = &old
			} else {
				saved[k] = nil
			}
		}
		if v == nil {
			os.Unsetenv(k)
		} else {
			os.Setenv(k, *v)
		}
	}
	oldwd, _ := os.Getwd()
	devnull, _ := os.OpenFile(os.DevNull, os.O_WRONLY, 0)
	oldStderr := os.Stderr
	restore := func() {
		for k, v := range saved {
			if v == nil {
				os.Unsetenv(k)
			} else {
				os.Setenv(k, *v)
			}
		}
		subprocess.ResetEnvironment()
		os.Chdir(oldwd)
		os.Stderr = oldStderr
		if devnull != nil {
			devnull.Close()
		}
	}
	defer restore()
	for _, k := range []string{"GIT_DIR", "GIT_WORK_TREE", "GIT_CONFIG", "GIT_CONFIG_SYSTEM", "GIT_CONFIG_PARAMETERS", "GIT_CONFIG_COUNT",
		"GIT_CONFIG_KEY_0", "GIT_CONFIG_VALUE_0", "GIT_ASKPASS", "SSH_ASKPASS", "GIT_INDEX_FILE", "GIT_CEILING_DIRECTORIES"} {
		setenv(k, nil)
	}
	for k, v := range w.env {
		v := v
		setenv(k, &v)
	}
	subprocess.ResetEnvironment()
	if err := os.Chdir(w.repo); err != nil {
		panic(vx.ToolError{Msg: "C17 provenance: " + err.Error()})
	}
	if devnull != nil {
		os.Stderr = devnull // the loader's "unsafe '.lfsconfig' keys were ignored" warning
	}
	cfg := config.NewIn(w.repo, "")
	// sanity of the world (tool guards, not oracles): the loader must have read Git's configuration
	if v, ok := cfg.Git.Get("credential.usehttppath"); !ok || v != "true" {
		panic(vx.ToolError{Msg: "C17 provenance: the loader did not read the repository's Git configuration (git stand-in not forwarding?)"})
	}
	os.Stderr = oldStderr
	loaded := "unset"
	if v, ok := cfg.Git.Get(strings.ToLower(c17ProvKey("plain"))); ok {
		loaded = "plain=" + v
	}
	if v, ok := cfg.Git.Get("credential." + c17ProvScopeTo + ".protectprotocol"); ok {
		if loaded == "unset" {
			loaded = ""
		} else {
			loaded += ","
		}
		loaded += "scoped=" + v
	}
	if lfsconfig != "" {
		r.Counters["prov_lfsconfig_present_"+lfsWhere]++
	}
	osEnv := config.EnvironmentOf(config.MapFetcher(map[string][]string{}))

	// ---- the operations: one byte in one slot per helper call, fresh helper context per call (same loaded configuration)
	type probe struct{ slot, seq string }
	var probes []probe
	for _, slot := range []string{"username", "path", "host"} {
		for _, seq := range []string{"\r", "\n", "\x00"} {
			probes = append(probes, probe{slot, seq})
		}
	}
	probes = append(probes, probe{"username", "x"})
	positions := []int{1}
	if c17Thorough() {
		positions = []int{0, 1, 2}
	}
	var derived []string
	for _, pb := range probes {
		for _, pi := range positions {
			if pb.seq == "x" && pi != 1 {
				continue
			}
			put := func(base string) string { return c17Place(base, pb.seq, []int{0, len(base) / 2, len(base)}[pi]) }
			user, path := "user", "org/repo.git"
			// username and path travel the real channel (percent-encoded in the URL, decoded by GetCredentialHelper); a host with
			// such a byte is refused by net/url, so the host slot is set on the derived map
			switch pb.slot {
			case "username":
				user = strings.ReplaceAll(put(user), pb.seq, c17Pct(pb.seq[0]))
			case "path":
				path = strings.ReplaceAll(put(path), pb.seq, c17Pct(pb.seq[0]))
			}
			u, err := url.Parse("https://" + user + "@" + c17ProvHost + "/" + path)
			if err != nil {
				panic(vx.ToolError{Msg: "C17 provenance: " + err.Error()})
			}
			c17ResetRecs([]byte(c17DefaultAnswer))
			o.nrec = 0
			hctx := creds.NewCredentialHelperContext(cfg.Git, osEnv)
			wr := hctx.GetCredentialHelper(nil, u)
			in := c17CopyCreds(wr.Input)
			if pb.slot == "host" {
				in["host"] = []string{put(c17ProvHost)}
			}
			if _, ok := in["path"]; !ok {
				panic(vx.ToolError{Msg: "C17 provenance: credential.useHttpPath of the local configuration had no effect"})
			}
			if op != "fill" {
				in["password"] = []string{"pw"}
				if _, ok := in["username"]; !ok {
					in["username"] = []string{"user"}
				}
			}
			if c17ValueClass(in) == "plain" && pb.seq != "x" {
				panic(vx.ToolError{Msg: "C17 provenance: the probe byte did not arrive in the derived map"})
			}
			derived = append(derived, c17Quote(in))
			o.call(wr.CredentialHelper, op, in, protect)
		}
	}
	refName := map[bool]string{true: "git.on", false: "git.off"}[protect]
	srcClass := src
	if pos != "-" {
		srcClass += "(" + pos + ")"
	}
	secClass := second
	if second != "none" {
		secClass += "." + form2
	}
	c17Finish(o, &r, "provenance", fmt.Sprintf("%s=%v@%s+%s/%s/loaded:%s", form, val, srcClass, secClass, refName, loaded))
	r.Counters["prov_ref_"+refName]++
	if c17ProvIsLfsconfig(src) && (second == "none" || c17ProvIsLfsconfig(second)) {
		r.Counters["prov_setting_only_in_lfsconfig"]++
	}
	r.Sample = map[string]interface{}{"scenario": "provenance", "case": desc, "op": op, "git_says_protection_enabled": protect,
		"loader_saw": loaded, "derived_inputs": derived, "outcome": r.Outcome}
	return r
}
