#!/bin/bash
# usage: C17-repro.sh <dir containing git-lfs>
set -u
export PATH="$1:$PATH"
d=$(mktemp -d /tmp/C17-repro-XXXXXX)
export HOME=$d/home GIT_CONFIG_NOSYSTEM=1 GIT_TERMINAL_PROMPT=0; mkdir -p $HOME
cat > $d/helper.sh <<'H'
#!/bin/sh
# credential helper that records what it is given
{ echo "--- helper $1"; cat | od -c | sed 's/^/    /'; } >> "$C17_LOG"
[ "$1" = get ] && { echo username=u; echo password=p; }
exit 0
H
chmod +x $d/helper.sh
git init -q $d/r && cd $d/r
git config credential.helper "$d/helper.sh"
git config credential.useHttpPath true
git config lfs.url "http://localhost:9/a%0Db.git/info/lfs"     # %0D = carriage return in the path
git config lfs.access basic                                     # ask for credentials before the first request
run() { export C17_LOG=$d/log.$1; : > $C17_LOG; GIT_TRACE=1 git lfs locks 2>&1 | grep -E "creds: git credential|carriage return" | sed 's/^[0-9:. ]*//' ; echo "  helper invocations: $(grep -c '^--- helper get' $C17_LOG)"; grep -A3 "helper get" $C17_LOG | grep -E 'path|\\r' | head -3; }
echo "== 1. default (protection enabled): expected refused"; run 1
echo "== 2. credential.protectProtocol=false globally: delivered (documented opt-out)"
git config credential.protectProtocol false; run 2
echo "== 3. global false, but credential.http://localhost:9.protectProtocol=true for THIS host: must be refused"
git config credential.http://localhost:9.protectProtocol true; run 3
echo "== 4. control: same configuration, path without CR but CR in the user name (URL still parses): refused"
git config lfs.url "http://us%0Der@localhost:9/ab.git/info/lfs"; run 4
rm -rf $d
