package lfsapi

// C17 — credential values cannot inject lines into the git-credential protocol.
//
// Every case drives the real credential code (creds.CredentialHelperContext.GetCredentialHelper ->
// CredentialHelpers -> commandCredentialHelper.exec -> Creds.buffer -> subprocess `git credential <sub>`)
// with a recording `git` stub first on PATH that stores argv and stdin verbatim.  Three scenarios:
//   direct : raw credential maps (field x byte sequence x position x protectProtocol config x fill/approve/reject)
//   url    : maps derived by GetCredentialHelper from URLs (percent-encoded / raw bytes in userinfo, path, host;
//            credential.useHttpPath; wwwauth[] / state[] set on the context)
//   flow   : the whole lfsapi.Client.DoWithAuth exchange against a loopback server that writes raw
//            WWW-Authenticate / LFS-Authenticate header bytes, with lfs.url / remote URLs carrying encoded bytes and
//            with helper answers (state[], username, ...) that are fed back into later fill/approve calls.
// Oracle = the property statement, evaluated at every credential-helper call (see c17Obs.call).
//
// The subprocess environment and PATH are process-global in git-lfs (subprocess.fetchEnvironment caches os.Environ),
// so cases are executed by worker *processes* (this test binary re-executed with C17_WORKER set), each with its
// own record directory; the parent only runs the vx explorer and ships choice prefixes to the workers.

import (
	"bufio"
	"bytes"
	"encoding/json"
	"fmt"
	"io"
	"net/http"
	"net/http/httptest"
	"net/url"
	"os"
	"os/exec"
	"path/filepath"
	"runtime"
	"sort"
	"strconv"
	"strings"
	"sync"
	"testing"
	"time"

	"github.com/git-lfs/git-lfs/v3/config"
	"github.com/git-lfs/git-lfs/v3/creds"
	"github.com/git-lfs/git-lfs/v3/git"
	"github.com/git-lfs/git-lfs/v3/lfshttp"
	"github.com/git-lfs/git-lfs/v3/verifx/vsched"
	"github.com/git-lfs/git-lfs/v3/verifx/vx"
)

// ------------------------------------------------------------------------------------------------
// recording `git` stub

const c17StubScript = `#!/bin/sh
# recording stub for "git credential <sub>": stores argv and stdin verbatim under $C17_REC.
# (scenario provenance: the configuration loader's own git commands go to the real git named by $C17_REALGIT)
[ "$1" = credential ] || { [ -n "$C17_REALGIT" ] && exec "$C17_REALGIT" "$@"; exit 128; }
d="$C17_REC"
set -C
i=0
# (a failing redirection on the special builtin ":" would make dash exit; "true" is a regular builtin)
until { true > "$d/r$i.argv"; } 2>/dev/null; do i=$((i+1)); done
set +C
printf '%s\0' "$@" > "$d/r$i.argv"
cat > "$d/r$i.stdin"
if [ "$2" = fill ] && [ -f "$d/answer" ]; then cat "$d/answer"; fi
: > "$d/r$i.done"
exit 0
`

// The same stub in C (one exec instead of three); used when a C compiler is available, else the script is used.
const c17StubC = `#include <fcntl.h>
#include <stdio.h>
#include <stdlib.h>
#include <string.h>
#include <unistd.h>
static void wr(int fd, const char *p, size_t n) {
  while (n > 0) { ssize_t k = write(fd, p, n); if (k <= 0) _exit(70); p += k; n -= (size_t)k; }
}
int main(int argc, char **argv) {
  static char buf[1 << 16];
  char path[4096];
  const char *d = getenv("C17_REC");
  int i, fd, in;
  ssize_t n;
  if (argc < 2 || strcmp(argv[1], "credential") != 0) {
    /* scenario provenance: the configuration loader's own git commands go to the real git named by $C17_REALGIT */
    const char *rg = getenv("C17_REALGIT");
    if (rg && *rg) { execv(rg, argv); return 127; }
    return 128;
  }
  if (!d) return 71;
  for (i = 0;; i++) {
    snprintf(path, sizeof path, "%s/r%d.argv", d, i);
    fd = open(path, O_WRONLY | O_CREAT | O_EXCL, 0644);
    if (fd >= 0) break;
    if (i > 100000) return 72;
  }
  for (int a = 1; a < argc; a++) wr(fd, argv[a], strlen(argv[a]) + 1);
  close(fd);
  snprintf(path, sizeof path, "%s/r%d.stdin", d, i);
  fd = open(path, O_WRONLY | O_CREAT | O_TRUNC, 0644);
  if (fd < 0) return 73;
  while ((n = read(0, buf, sizeof buf)) > 0) wr(fd, buf, (size_t)n);
  close(fd);
  if (argc > 2 && strcmp(argv[2], "fill") == 0) {
    snprintf(path, sizeof path, "%s/answer", d);
    in = open(path, O_RDONLY);
    if (in >= 0) { while ((n = read(in, buf, sizeof buf)) > 0) wr(1, buf, (size_t)n); close(in); }
  }
  snprintf(path, sizeof path, "%s/r%d.done", d, i);
  fd = open(path, O_WRONLY | O_CREAT | O_TRUNC, 0644);
  if (fd < 0) return 74;
  close(fd);
  return 0;
}
`

// c17InstallStub writes the stub as <bin>/git and reports which implementation is in use.
func c17InstallStub(bin string) (string, error) {
	target := filepath.Join(bin, "git")
	if os.Getenv("C17_STUB") != "sh" {
		if cc, err := exec.LookPath("cc"); err == nil {
			src := filepath.Join(bin, "stub.c")
			if err := os.WriteFile(src, []byte(c17StubC), 0644); err == nil {
				for _, flags := range [][]string{{"-O1", "-static"}, {"-O1"}} {
					args := append(append([]string{}, flags...), "-o", target, src)
					if out, err := exec.Command(cc, args...).CombinedOutput(); err == nil {
						os.Remove(src)
						return "c", nil
					} else {
						_ = out
					}
				}
			}
			os.Remove(src)
		}
	}
	os.Remove(target)
	return "sh", os.WriteFile(target, []byte(c17StubScript), 0755)
}

const c17DefaultAnswer = "username=stubuser\npassword=stubpass\n"

type c17Rec struct {
	Argv  []string
	Stdin []byte
}

func c17RecDir() string { return os.Getenv("C17_REC") }

// c17ResetRecs empties the record directory and installs the helper's scripted answer for `fill`.
func c17ResetRecs(answer []byte) {
	d := c17RecDir()
	ents, err := os.ReadDir(d)
	if err != nil {
		panic(vx.ToolError{Msg: "C17: cannot read record dir: " + err.Error()})
	}
	for _, e := range ents {
		os.Remove(filepath.Join(d, e.Name()))
	}
	if err := os.WriteFile(filepath.Join(d, "answer"), answer, 0644); err != nil {
		panic(vx.ToolError{Msg: "C17: cannot write answer: " + err.Error()})
	}
}

// c17ReadRecs returns the stub invocations number from, from+1, ... that exist.
func c17ReadRecs(from int) []c17Rec {
	d := c17RecDir()
	var out []c17Rec
	for i := from; ; i++ {
		a, err := os.ReadFile(filepath.Join(d, fmt.Sprintf("r%d.argv", i)))
		if err != nil {
			return out
		}
		if _, err := os.Stat(filepath.Join(d, fmt.Sprintf("r%d.done", i))); err != nil {
			// git-lfs waits for `git credential`; a record without end marker means the stub itself failed
			panic(vx.ToolError{Msg: fmt.Sprintf("C17: stub invocation %d left no end marker", i)})
		}
		in, err := os.ReadFile(filepath.Join(d, fmt.Sprintf("r%d.stdin", i)))
		if err != nil {
			panic(vx.ToolError{Msg: "C17: stub stdin record missing: " + err.Error()})
		}
		argv := strings.Split(strings.TrimSuffix(string(a), "\x00"), "\x00")
		out = append(out, c17Rec{Argv: argv, Stdin: in})
	}
}

// ------------------------------------------------------------------------------------------------
// oracle, applied at every credential helper call

type c17Obs struct {
	r     *vx.Result
	nrec  int      // stub invocations already attributed to earlier calls of this case
	calls []string // op:class per observed call, for the outcome string
	ncall int
	// sequence scenario: the credential cache of the shared context may legitimately answer this call instead of
	// `git credential` (then "delivered" is not demanded and a missing error is no violation; the helper must
	// still never receive a value that has to be refused)
	cacheMayAnswer bool
	// finding-1 (see props/C17/finding-1.md): when the decoded URL path contains a control byte, git-lfs cannot parse
	// its own "scheme://host/path" lookup string and silently ignores URL-scoped credential.<url>.protectProtocol.
	// Violations of the CR clauses that arise exactly under that condition get this root-cause fingerprint.
	scopedIgnored bool
	fpSuffix      string // appended to fingerprints (sequence scenario: position in the sequence and what preceded)
	// provenance scenario: the source (class) holding credential.protectProtocol=false resp. =true; a CR-clause violation is
	// fingerprinted by the source whose value git-lfs followed although Git does not
	provFalse, provTrue string
	caseKey             string // flow scenario: identity of the case (maps contain the worker's ephemeral port, so they cannot serve as keys)
}

func c17CopyCreds(in creds.Creds) creds.Creds {
	out := make(creds.Creds, len(in))
	for k, v := range in {
		out[k] = append([]string(nil), v...)
	}
	return out
}

func c17SortedKeys(in creds.Creds) []string {
	ks := make([]string, 0, len(in))
	for k := range in {
		ks = append(ks, k)
	}
	sort.Strings(ks)
	return ks
}

func c17FieldKind(k string, idx int, n int) string {
	if strings.HasSuffix(k, "[]") || n > 1 {
		if idx == 0 {
			return "multi-first"
		}
		return "multi-later"
	}
	return "single"
}

// c17Refusal returns the reason the statement requires this map to be refused ("" if it must be delivered).
// Priority LF > NUL > CR only fixes the label; any of them demands refusal.
func c17Refusal(in creds.Creds, protect bool) (class, fieldKind string) {
	best := 0
	for _, k := range c17SortedKeys(in) {
		for i, v := range in[k] {
			rank, cl := 0, ""
			switch {
			case strings.Contains(v, "\n"):
				rank, cl = 3, "LF"
			case strings.Contains(v, "\x00"):
				rank, cl = 2, "NUL"
			case protect && strings.Contains(v, "\r"):
				rank, cl = 1, "CR"
			}
			if rank > best {
				best, class, fieldKind = rank, cl, c17FieldKind(k, i, len(in[k]))
			}
		}
	}
	return
}

// c17ValueClass labels the most unusual byte class among the values (for delivered-clause fingerprints/outcomes).
func c17ValueClass(in creds.Creds) string {
	cls := "plain"
	rank := 0
	for _, vs := range in {
		for _, v := range vs {
			for i := 0; i < len(v); i++ {
				b := v[i]
				r, c := 0, ""
				switch {
				case b == '\r':
					r, c = 3, "CR"
				case b < 0x20 || b == 0x7f:
					r, c = 2, "ctl"
				case b >= 0x80:
					r, c = 1, "hi"
				}
				if r > rank {
					rank, cls = r, c
				}
			}
		}
	}
	return cls
}

func c17HasSpecial(in creds.Creds) bool { return c17ValueClass(in) != "plain" }

func c17MapKey(op string, protect bool, in creds.Creds) string {
	var parts []string
	parts = append(parts, op, strconv.FormatBool(protect))
	for _, k := range c17SortedKeys(in) {
		parts = append(parts, k)
		parts = append(parts, in[k]...)
		parts = append(parts, "\x00\x00")
	}
	return fmt.Sprintf("%016x", vx.Hash64(parts...))
}

func c17Quote(in creds.Creds) string {
	var sb strings.Builder
	for _, k := range c17SortedKeys(in) {
		for _, v := range in[k] {
			fmt.Fprintf(&sb, "%s=%q ", k, v)
		}
	}
	return strings.TrimSpace(sb.String())
}

func (o *c17Obs) viol(fp, msg string, detail map[string]interface{}) {
	if o.scopedIgnored && strings.HasPrefix(fp, "C17:refused-value-reached-helper:CR:") {
		fp = "C17:url-scoped-protectProtocol-ignored:control-byte-in-url-path:CR-reached-helper"
	} else if o.scopedIgnored && fp == "C17:clean-pairs-not-delivered:CR" {
		fp = "C17:url-scoped-protectProtocol-ignored:control-byte-in-url-path:CR-refused-although-disabled"
	} else if o.provFalse != "" && strings.HasPrefix(fp, "C17:refused-value-reached-helper:CR:") {
		fp = "C17:provenance:" + o.provFalse + ":CR-reached-helper"
	} else if o.provTrue != "" && fp == "C17:clean-pairs-not-delivered:CR" {
		fp = "C17:provenance:" + o.provTrue + ":CR-refused-although-disabled"
	} else {
		fp += o.fpSuffix
	}
	if o.fpSuffix != "" {
		msg = "[" + strings.TrimPrefix(o.fpSuffix, ":") + "] " + msg
	}
	if len(o.r.Violations) < 4 {
		o.r.Violations = append(o.r.Violations, vx.Violation{Fingerprint: fp, Msg: msg, Detail: detail})
	}
}

// call performs ONE credential-helper operation on the real helper chain h and checks the statement:
//
//	value with LF or NUL, or CR while protection is enabled  => refused: an error is returned and the helper
//	                                                            (stub) received nothing
//	otherwise                                                 => the helper received exactly the supplied
//	                                                            key/value pairs, one LF-terminated line each,
//	                                                            and no other line (git-lfs's own two
//	                                                            capability[] announcement lines are tolerated)
func (o *c17Obs) call(h creds.CredentialHelper, op string, supplied creds.Creds, protect bool) (out creds.Creds, err error) {
	in := c17CopyCreds(supplied) // the pairs as supplied at call time
	var panicked bool
	out, err, panicked = c17Perform(h, op, supplied)
	if panicked {
		o.r.Counters["panic_in_helper_call"]++
	}
	recs := c17ReadRecs(o.nrec)
	o.nrec += len(recs)
	return o.judge(op, in, protect, recs, out, err)
}

// c17Perform runs one operation on the real helper chain; a panic of the code under test is an observation (an error).
func c17Perform(h creds.CredentialHelper, op string, supplied creds.Creds) (out creds.Creds, err error, panicked bool) {
	defer func() {
		if e := recover(); e != nil {
			if fmt.Sprintf("%T", e) == "vsched.abortSentinel" {
				panic(e) // the controlled scheduler is unwinding its threads (deadlock / horizon): not an observation of this call
			}
			err = fmt.Errorf("panic: %v", e)
			panicked = true
		}
	}()
	switch op {
	case "fill":
		out, err = h.Fill(supplied)
	case "approve":
		err = h.Approve(supplied)
	case "reject":
		err = h.Reject(supplied)
	}
	return
}

// judge evaluates the statement for ONE performed helper call: in = the pairs as supplied at call time, recs = the stub
// invocations caused by this call, (out, err) = what the call returned (handed back unchanged).
func (o *c17Obs) judge(op string, in creds.Creds, protect bool, recs []c17Rec, out creds.Creds, err error) (creds.Creds, error) {
	o.ncall++
	o.r.Evals++
	if c17HasSpecial(in) {
		if o.caseKey != "" {
			o.r.NonTrivial = append(o.r.NonTrivial, fmt.Sprintf("%s#%d:%s", o.caseKey, o.ncall, op))
		} else {
			o.r.NonTrivial = append(o.r.NonTrivial, c17MapKey(op, protect, in))
		}
	}
	detail := map[string]interface{}{"op": op, "protect_protocol": protect, "supplied": c17Quote(in), "error": fmt.Sprint(err)}
	var got []string
	for _, rc := range recs {
		got = append(got, fmt.Sprintf("argv=%q stdin=%q", rc.Argv, rc.Stdin))
	}
	detail["helper_received"] = got

	class, fkind := c17Refusal(in, protect)
	if class != "" {
		o.r.Counters["clause_refuse_"+class]++
		leaked := false
		for _, rc := range recs {
			if len(rc.Stdin) > 0 {
				leaked = true
			}
		}
		switch {
		case leaked:
			o.calls = append(o.calls, op+":LEAK-"+class)
			o.viol("C17:refused-value-reached-helper:"+class+":"+fkind,
				fmt.Sprintf("git credential %s: a value containing %s (protectProtocol=%v) must be refused, but the helper received input.\n supplied: %s\n helper got: %s\n error returned: %v",
					op, class, protect, c17Quote(in), strings.Join(got, " | "), err), detail)
		case err == nil && o.cacheMayAnswer:
			o.r.Counters["bad_value_answered_by_cache_helper_got_nothing"]++
			o.calls = append(o.calls, op+":cache-"+class)
		case err == nil:
			o.calls = append(o.calls, op+":SILENT-"+class)
			o.viol("C17:refusal-not-reported:"+class+":"+fkind,
				fmt.Sprintf("git credential %s: a value containing %s (protectProtocol=%v) was not passed on, but no error was returned (exchange not refused).\n supplied: %s", op, class, protect, c17Quote(in)), detail)
		default:
			if len(recs) > 0 {
				o.r.Counters["refused_stub_started_with_empty_stdin"]++
			}
			o.calls = append(o.calls, op+":refused-"+class)
		}
		return out, err
	}

	vclass := c17ValueClass(in)
	o.r.Counters["clause_deliver_"+vclass]++
	if len(recs) == 0 && o.cacheMayAnswer {
		o.r.Counters["clean_value_answered_by_cache"]++
		o.calls = append(o.calls, op+":cache-answered")
		return out, err
	}
	if len(recs) == 0 {
		o.calls = append(o.calls, op+":NOT-DELIVERED")
		o.viol("C17:clean-pairs-not-delivered:"+vclass,
			fmt.Sprintf("git credential %s: no value contains LF/NUL%s, yet the helper was not given the pairs (error: %v).\n supplied: %s",
				op, map[bool]string{true: "/CR", false: " (CR allowed: protection disabled)"}[protect], err, c17Quote(in)), detail)
		return out, err
	}
	want := map[string]int{}
	nwant := 0
	for k, vs := range in {
		for _, v := range vs {
			want[k+"="+v]++
			nwant++
		}
	}
	for ri, rc := range recs {
		if len(rc.Argv) != 2 || rc.Argv[0] != "credential" || rc.Argv[1] != op {
			o.r.Counters["unexpected_argv"]++
		}
		s := string(rc.Stdin)
		kind := ""
		var lines []string
		if !strings.HasSuffix(s, "\n") {
			kind = "unterminated"
		} else {
			lines = strings.Split(s[:len(s)-1], "\n")
			left := map[string]int{}
			for k, n := range want {
				left[k] = n
			}
			capSeen := map[string]bool{}
			extra := 0
			for _, ln := range lines {
				if left[ln] > 0 {
					left[ln]--
					continue
				}
				if (ln == "capability[]=authtype" || ln == "capability[]=state") && !capSeen[ln] {
					capSeen[ln] = true
					continue
				}
				extra++
			}
			missing := 0
			for _, n := range left {
				missing += n
			}
			switch {
			case extra > 0 && missing > 0:
				kind = "altered"
			case extra > 0:
				kind = "extra-line"
			case missing > 0:
				kind = "missing-pair"
			}
		}
		if kind != "" {
			o.calls = append(o.calls, op+":MISMATCH-"+kind)
			o.viol("C17:helper-input-differs:"+kind+":"+vclass,
				fmt.Sprintf("git credential %s (invocation %d): the helper did not receive exactly the supplied pairs (%s).\n supplied: %s\n helper stdin: %q", op, ri, kind, c17Quote(in), s), detail)
			return out, err
		}
	}
	if len(recs) > 1 {
		o.r.Counters["delivered_more_than_once"]++
	}
	o.calls = append(o.calls, op+":delivered-"+vclass)
	return out, err
}

// ------------------------------------------------------------------------------------------------
// alphabets

type c17PP struct {
	name    string
	cfg     map[string]string
	protect bool
}

const c17DirectURL = "https://h.io:8443/o/r.git"

// protectProtocol configurations.  Keys are spelled as `git config -l` delivers them (lower-case section/variable).
var c17PPs = []c17PP{
	{"default", map[string]string{}, true},
	{"false", map[string]string{"credential.protectprotocol": "false"}, false},
	{"true", map[string]string{"credential.protectprotocol": "true"}, true},
	{"url-false", map[string]string{"credential.https://h.io:8443.protectprotocol": "false"}, false},
	{"global-false-url-true", map[string]string{"credential.protectprotocol": "false", "credential.https://h.io:8443.protectprotocol": "true"}, true},
	// the same key defined more than once (e.g. in ~/.gitconfig and in .git/config): Git's rule is "the last one wins"
	{"dup-false-then-true", map[string]string{"credential.protectprotocol": "false\x00true"}, true},
	{"dup-true-then-false", map[string]string{"credential.protectprotocol": "true\x00false"}, false},
	{"url-dup-false-then-true", map[string]string{"credential.https://h.io:8443.protectprotocol": "false\x00true"}, true},
	{"url-dup-true-then-false+global-true", map[string]string{"credential.protectprotocol": "true", "credential.https://h.io:8443.protectprotocol": "true\x00false"}, false},
}

// c17GitEnv builds the Git environment of a case; a value containing NUL stands for a key defined several times, in that order.
func c17GitEnv(m map[string]string) config.Environment {
	multi := map[string][]string{}
	for k, v := range m {
		multi[k] = strings.Split(v, "\x00")
	}
	return config.EnvironmentOf(config.MapFetcher(multi))
}

type c17Field struct {
	key  string
	idx  int
	base string
}

// the git-credential protocol's attribute names, with realistic short values (contain '=', space, ':' on purpose)
var c17Fields = []c17Field{
	{"protocol", 0, "https"}, {"host", 0, "h.io:8443"}, {"path", 0, "o/r.git"}, {"username", 0, "us er"}, {"password", 0, "p=w :d"},
	{"wwwauth[]", 0, "Basic x=\"y\""}, {"wwwauth[]", 1, "Bearer z"}, {"state[]", 0, "a.b=1"}, {"state[]", 1, "c.d=2"},
	{"authtype", 0, "Bearer"}, {"credential", 0, "dG9r=="}, {"password_expiry_utc", 0, "17000"}, {"oauth_refresh_token", 0, "rt=k"},
	{"url", 0, "https://h.io/"}, {"ephemeral", 0, "1"}, {"continue", 0, "1"},
}

func c17BaseMap() creds.Creds {
	m := creds.Creds{}
	for _, f := range c17Fields {
		m[f.key] = append(m[f.key], f.base)
	}
	return m
}

var c17Palette = []string{"\n", "\r", "\x00", "\r\n", "\n\r", "\x00\n", "\t", "\x1b", "=", " ", "\x7f", "\u0085", "\u2028", "\x0b", "\x0c", "\x01", "\x80", "\x85", "\xff", "x"}

func c17AllBytes() []string {
	r := make([]string, 256)
	for i := range r {
		r[i] = string([]byte{byte(i)})
	}
	return r
}

var c17Ops = []string{"approve", "fill", "reject"}

// c17Place puts seq into base: pos 0..len(base) = insertion index, len(base)+1 = the value is seq alone.
func c17Place(base, seq string, pos int) string {
	if pos == len(base)+1 {
		return seq
	}
	return base[:pos] + seq + base[pos:]
}

func c17Thorough() bool { return os.Getenv("VERIF_TIER") == "thorough" }

func c17Env(gitEnv map[string]string) lfshttp.Context {
	return lfshttp.NewContext(git.NewReadOnlyConfig("", ""), map[string]string{}, gitEnv)
}

// c17AskpassStub is a tiny askpass program (prints a fixed answer); it is only ever started by the askpass helper's Fill.
var c17AskpassOnce sync.Once
var c17AskpassPath string

func c17AskpassStub() string {
	c17AskpassOnce.Do(func() {
		c17AskpassPath = filepath.Join(os.Getenv("VERIF_SCRATCH"), fmt.Sprintf("c17-askpass-%d.sh", os.Getpid()))
		if err := os.WriteFile(c17AskpassPath, []byte("#!/bin/sh\necho askpass-answer\n"), 0755); err != nil {
			panic(vx.ToolError{Msg: "cannot write askpass stub: " + err.Error()})
		}
	})
	return c17AskpassPath
}

func c17Finish(o *c17Obs, r *vx.Result, scen string, extra string) {
	r.Outcome = scen + "/" + extra + "/" + strings.Join(o.calls, ",")
	if o.ncall == 0 {
		r.Outcome = scen + "/" + extra + "/no-helper-call"
	}
}

// ------------------------------------------------------------------------------------------------
// scenario "direct"

func c17RunDirect(x *vx.X) vx.Result {
	r := vx.Result{Counters: map[string]int64{}}
	o := &c17Obs{r: &r}
	m := c17BaseMap()
	var op string
	var pp c17PP
	desc := ""
	chainCfg := map[string]string{}
	switch sub := x.In(5); sub {
	case 4:
		// helper-chain composition: an askpass program configured (GIT_ASKPASS / core.askpass / SSH_ASKPASS select the same code
		// path; core.askpass is the one reachable through configuration) with and without a credential.helper, general or URL-scoped.
		// The chain GetCredentialHelper builds differs (askpass helper in or out), the refusal rules must not.
		chains := []struct {
			name string
			cfg  map[string]string
		}{
			{"askpass+helper", map[string]string{"core.askpass": c17AskpassStub(), "credential.helper": "store"}},
			{"askpass+url-helper", map[string]string{"core.askpass": c17AskpassStub(), "credential.https://h.io:8443.helper": "store"}},
			{"askpass-only", map[string]string{"core.askpass": c17AskpassStub()}},
			{"helper-only", map[string]string{"credential.helper": "store"}},
		}
		ch := chains[x.In(len(chains))]
		chainCfg = ch.cfg
		op = c17Ops[x.In(len(c17Ops))]
		if ch.name == "askpass-only" {
			// the askpass helper answers fill, approve and reject itself (its Approve/Reject return nil, which ends the chain):
			// `git credential` is not part of these exchanges and the statement says nothing about them.  Kept as a counted case.
			cx := c17Env(ch.cfg)
			hctx := creds.NewCredentialHelperContext(cx.GitEnv(), cx.OSEnv())
			u, _ := url.Parse(c17DirectURL)
			c17ResetRecs([]byte(c17DefaultAnswer))
			w := hctx.GetCredentialHelper(nil, u)
			switch op {
			case "approve":
				w.CredentialHelper.Approve(m)
			case "reject":
				w.CredentialHelper.Reject(m)
			}
			r.Outcome = "direct/chain/askpass-only-ends-the-chain-before-git-credential"
			return r
		}
		pp = c17PPs[x.In(len(c17PPs))]
		f := c17Fields[x.In(len(c17Fields))]
		seq := []string{"\n", "\r", "\x00", "x"}[x.In(4)]
		m[f.key][f.idx] = c17Place(f.base, seq, len(f.base)/2)
		desc = fmt.Sprintf("chain=%s field=%s#%d seq=%q", ch.name, f.key, f.idx, seq)
	case 0, 1:
		// 0: palette x every op x every protectProtocol configuration; 1: all 256 byte values
		// quick tier bounds (thorough: the full product op x config x slot x sequence x every index for both):
		//  sub 0: approve x 5 configs x slot x palette x EVERY index; fill/reject x {unset,false} x slot x palette x middle index
		//  sub 1: approve x {unset,false} x slot x all 256 bytes x {first, middle, last index, whole value}
		seqs := c17Palette
		ops, pps := c17Ops, c17PPs
		if sub == 1 {
			seqs = c17AllBytes()
			if !c17Thorough() {
				ops, pps = c17Ops[:1], c17PPs[:2]
			}
		}
		op = ops[x.In(len(ops))]
		if sub == 0 && !c17Thorough() && op != "approve" {
			pps = c17PPs[:2]
		}
		pp = pps[x.In(len(pps))]
		f := c17Fields[x.In(len(c17Fields))]
		seq := seqs[x.In(len(seqs))]
		n := len(f.base)
		var pos int
		switch {
		case c17Thorough() || (sub == 0 && op == "approve"):
			pos = x.In(n + 2)
		case sub == 0:
			pos = n / 2
		default:
			pos = []int{0, n / 2, n, n + 1}[x.In(4)]
		}
		m[f.key][f.idx] = c17Place(f.base, seq, pos)
		desc = fmt.Sprintf("single field=%s#%d seq=%q pos=%d", f.key, f.idx, seq, pos)
	case 2:
		// two fields carry a byte each
		four := []string{"\n", "\r", "\x00", "x"}
		op = c17Ops[0]
		pp = c17PPs[x.In(2)]
		f1 := x.In(len(c17Fields))
		f2 := x.In(len(c17Fields))
		b1 := four[x.In(4)]
		b2 := four[x.In(4)]
		if f1 >= f2 {
			r.Outcome = "direct/pairs/skipped-unordered"
			return r
		}
		a, b := c17Fields[f1], c17Fields[f2]
		m[a.key][a.idx] = c17Place(a.base, b1, len(a.base)/2)
		m[b.key][b.idx] = c17Place(b.base, b2, len(b.base)/2)
		desc = fmt.Sprintf("pair %s#%d+%q %s#%d+%q", a.key, a.idx, b1, b.key, b.idx, b2)
	case 3:
		// value shapes: empty, one byte, values longer than a pipe buffer, reduced maps
		op = c17Ops[x.In(3)]
		pp = c17PPs[x.In(2)]
		fs := []c17Field{c17Fields[4], c17Fields[6], c17Fields[8]}
		f := fs[x.In(len(fs))]
		five := []string{"\n", "\r", "\x00", "x", "\x80"}
		seq := five[x.In(5)]
		shape := x.In(7)
		long := strings.Repeat("abcdefg=", 70000/8)
		switch shape {
		case 0:
			m[f.key][f.idx] = ""
		case 1:
			m[f.key][f.idx] = seq
		case 2:
			m[f.key][f.idx] = seq + long
		case 3:
			m[f.key][f.idx] = long[:35000] + seq + long[35000:]
		case 4:
			m[f.key][f.idx] = long + seq
		case 5: // only this key in the map
			m = creds.Creds{f.key: []string{f.base[:1] + seq + f.base[1:]}}
		case 6: // three values, byte in the last one
			m[f.key] = []string{"v0", "v1", "v2" + seq}
		}
		desc = fmt.Sprintf("shape %d field=%s#%d seq=%q", shape, f.key, f.idx, seq)
	}
	c17ResetRecs([]byte(c17DefaultAnswer))
	cfgAll := map[string]string{}
	for k, v := range pp.cfg {
		cfgAll[k] = v
	}
	for k, v := range chainCfg {
		cfgAll[k] = v
	}
	cx := c17Env(map[string]string{})
	hctx := creds.NewCredentialHelperContext(c17GitEnv(cfgAll), cx.OSEnv())
	u, _ := url.Parse(c17DirectURL)
	w := hctx.GetCredentialHelper(nil, u)
	o.call(w.CredentialHelper, op, m, pp.protect)
	c17Finish(o, &r, "direct", "pp="+pp.name)
	r.Sample = map[string]interface{}{"scenario": "direct", "case": desc, "op": op, "protectProtocol": pp.name, "outcome": r.Outcome}
	return r
}

// ------------------------------------------------------------------------------------------------
// scenario "url": the input map is built by GetCredentialHelper from a URL

func c17Pct(b byte) string { return fmt.Sprintf("%%%02X", b) }

type c17URLVariant struct {
	scheme string
	cfg    map[string]string
}

var c17URLVariants = []c17URLVariant{
	{"https", map[string]string{}},
	{"https", map[string]string{"credential.usehttppath": "true"}},
	{"https", map[string]string{"credential.usehttppath": "false"}},
	{"https", map[string]string{"credential.https://h.io.usehttppath": "true"}},
	{"cert", map[string]string{}},
}

func c17RunURL(x *vx.X) vx.Result {
	r := vx.Result{Counters: map[string]int64{}}
	o := &c17Obs{r: &r}
	pp := c17PPs[x.In(2)]
	cfg := map[string]string{}
	for k, v := range pp.cfg {
		cfg[k] = v
	}
	var rawurl, desc string
	var www, state []string
	switch sub := x.In(2); sub {
	case 0:
		vi := x.In(len(c17URLVariants))
		va := c17URLVariants[vi]
		for k, v := range va.cfg {
			cfg[k] = v
		}
		comp := x.In(5) // user, password, path, host, user+path
		// quick tier bound: raw (unencoded) bytes only under variant 1 (useHttpPath=true); all three positions only
		// for the user and path components (middle only for password, host, user+path).  thorough: full product.
		enc := 0 // percent-encoded, raw
		if c17Thorough() || vi == 1 {
			enc = x.In(2)
		}
		b := byte(x.In(256))
		pos := 1 // start, middle, end
		if c17Thorough() || comp == 0 || comp == 2 {
			pos = x.In(3)
		}
		tok := c17Pct(b)
		if enc == 1 {
			tok = string([]byte{b})
		}
		put := func(base string) string { return c17Place(base, tok, []int{0, len(base) / 2, len(base)}[pos]) }
		user, pass, path, host := "user", "", "org/repo.git", "h.io"
		switch comp {
		case 0:
			user = put(user)
		case 1:
			pass = ":" + put("pass")
		case 2:
			path = put(path)
		case 3:
			host = put(host)
		case 4:
			user, path = put(user), put(path)
		}
		rawurl = va.scheme + "://" + user + pass + "@" + host + "/" + path
		desc = fmt.Sprintf("url=%q cfg=%v", rawurl, cfg)
	case 1:
		// server-/helper-supplied lists set on the context, URL plain
		which := x.In(4) // wwwauth#0, wwwauth#1, state#0, state#1
		seq := c17Palette[x.In(len(c17Palette))]
		pos := x.In(3)
		skip := x.In(2)
		if skip == 1 {
			cfg["credential.skipwwwauth"] = "true"
		}
		www = []string{"Basic realm=\"r\"", "Bearer t"}
		state = []string{"s.one=1", "s.two=2"}
		tgt := &www
		if which >= 2 {
			tgt = &state
		}
		base := (*tgt)[which%2]
		(*tgt)[which%2] = c17Place(base, seq, []int{0, len(base) / 2, len(base)}[pos])
		rawurl = "https://user@h.io/org/repo.git"
		desc = fmt.Sprintf("wwwauth=%q state=%q cfg=%v", www, state, cfg)
	}
	c17ResetRecs([]byte(c17DefaultAnswer))
	u, err := url.Parse(rawurl)
	if err != nil {
		r.Outcome = "url/pp=" + pp.name + "/url-rejected-by-net-url"
		r.Counters["url_rejected_by_parser"]++
		return r
	}
	cx := c17Env(cfg)
	hctx := creds.NewCredentialHelperContext(cx.GitEnv(), cx.OSEnv())
	if www != nil {
		hctx.SetWWWAuthHeaders(www)
		hctx.SetStateFields(state)
	}
	w := hctx.GetCredentialHelper(nil, u)
	if c17HasSpecial(w.Input) {
		r.Counters["url_derived_map_has_special_byte"]++
	}
	if _, ok := w.Input["path"]; ok {
		r.Counters["url_derived_map_has_path"]++
	}
	o.call(w.CredentialHelper, "fill", w.Input, pp.protect)
	c17Finish(o, &r, "url", "pp="+pp.name)
	r.Sample = map[string]interface{}{"scenario": "url", "case": desc, "derived_input": c17Quote(w.Input), "outcome": r.Outcome}
	return r
}

// ------------------------------------------------------------------------------------------------
// scenario "flow": lfsapi.Client.DoWithAuth against a loopback server writing raw header bytes

type c17Server struct {
	srv *httptest.Server
	mu  sync.Mutex
	// per case
	hdrs       [][2]string // raw header name/value written on 401
	multistage bool
	first      *string
	authed     int
	reqs       int
}

var (
	c17SrvOnce sync.Once
	c17Srv     *c17Server
)

func c17GetServer() *c17Server {
	c17SrvOnce.Do(func() {
		s := &c17Server{}
		s.srv = httptest.NewServer(http.HandlerFunc(s.handle))
		c17Srv = s
	})
	return c17Srv
}

func (s *c17Server) handle(w http.ResponseWriter, req *http.Request) {
	io.Copy(io.Discard, req.Body)
	auth := req.Header.Get("Authorization")
	s.mu.Lock()
	s.reqs++
	if s.first == nil {
		a := auth
		s.first = &a
	}
	// a request is authenticated when it carries an Authorization other than the first request's
	// (Go adds "user:" basic auth by itself when the URL has userinfo)
	authenticated := auth != "" && auth != *s.first
	deny := !authenticated
	if authenticated {
		if s.multistage && s.authed == 0 {
			deny = true
		}
		s.authed++
	}
	hdrs := s.hdrs
	n := s.reqs
	s.mu.Unlock()
	if n > 12 {
		w.WriteHeader(500)
		return
	}
	if !deny {
		w.Header().Set("Content-Type", "application/vnd.git-lfs+json")
		w.Header().Set("Connection", "close")
		w.WriteHeader(200)
		w.Write([]byte("{}"))
		return
	}
	hj, ok := w.(http.Hijacker)
	if !ok {
		w.WriteHeader(500)
		return
	}
	conn, buf, err := hj.Hijack()
	if err != nil {
		return
	}
	defer conn.Close()
	buf.WriteString("HTTP/1.1 401 Unauthorized\r\nContent-Length: 0\r\nConnection: close\r\n")
	for _, h := range hdrs {
		buf.WriteString(h[0] + ": " + h[1] + "\r\n")
	}
	buf.WriteString("\r\n")
	buf.Flush()
}

type c17Recorder struct {
	o       *c17Obs
	hctx    *creds.CredentialHelperContext
	u       *url.URL
	protect bool
	seen    []creds.Creds
}

// inner returns the production helper chain (netrc, cache, `git credential`) for the credential URL,
// exactly as GetCredentialHelper builds it when Client.Credentials is nil.
func (h *c17Recorder) inner() creds.CredentialHelper {
	return h.hctx.GetCredentialHelper(nil, h.u).CredentialHelper
}
func (h *c17Recorder) Fill(in creds.Creds) (creds.Creds, error) {
	h.seen = append(h.seen, c17CopyCreds(in))
	return h.o.call(h.inner(), "fill", in, h.protect)
}
func (h *c17Recorder) Approve(in creds.Creds) error {
	h.seen = append(h.seen, c17CopyCreds(in))
	_, err := h.o.call(h.inner(), "approve", in, h.protect)
	return err
}
func (h *c17Recorder) Reject(in creds.Creds) error {
	h.seen = append(h.seen, c17CopyCreds(in))
	_, err := h.o.call(h.inner(), "reject", in, h.protect)
	return err
}

var c17FlowBytes = []byte{0x00, 0x01, 0x08, 0x09, 0x0a, 0x0b, 0x0c, 0x0d, 0x1b, 0x1f, 0x20, 0x22, 0x25, 0x2c, 0x3a, 0x3d, 0x40, 0x5c, 0x7f, 0x80, 0x85, 0xa0, 0xc2, 0xe2, 0xff, 'x'}

var c17FlowModes = []string{
	"hdr-www", "hdr-lfs", "hdr-www-second-of-two", "hdr-both",
	"lfsurl-user", "lfsurl-path", "remote-user", "remote-path",
	"answer-username", "answer-password", "answer-state-multistage", "answer-credential-multistage", "answer-host",
}

func c17RunFlow(x *vx.X) vx.Result {
	r := vx.Result{Counters: map[string]int64{}}
	o := &c17Obs{r: &r}
	pp := c17PPs[x.In(2)]
	mode := c17FlowModes[x.In(len(c17FlowModes))]
	// quick tier bound: all 256 byte values only for the four header modes at the middle position; every other
	// (mode, position) uses the 26-byte flow palette.  thorough: all 256 bytes x 3 positions for every mode.
	pos := x.In(3)
	var b byte
	if c17Thorough() || (strings.HasPrefix(mode, "hdr-") && pos == 1) {
		b = byte(x.In(256))
	} else {
		b = c17FlowBytes[x.In(len(c17FlowBytes))]
	}
	bs := string([]byte{b})
	o.caseKey = fmt.Sprintf("%s/%s/%02x/%d", pp.name, mode, b, pos)
	put := func(base, tok string) string { return c17Place(base, tok, []int{0, len(base) / 2, len(base)}[pos]) }

	s := c17GetServer()
	base := s.srv.URL // http://127.0.0.1:port
	hostport := strings.TrimPrefix(base, "http://")
	cfg := map[string]string{}
	for k, v := range pp.cfg {
		cfg[k] = v
	}
	hdrs := [][2]string{{"Www-Authenticate", "Basic realm=\"r\""}}
	answer := c17DefaultAnswer
	multistage := false
	remote := ""
	lfsurl := base + "/org/repo.git/info/lfs"
	switch mode {
	case "hdr-www":
		hdrs = [][2]string{{"Www-Authenticate", put("Basic realm=\"r\"", bs)}}
	case "hdr-lfs":
		hdrs = [][2]string{{"Lfs-Authenticate", put("Basic realm=\"r\"", bs)}}
	case "hdr-www-second-of-two":
		hdrs = [][2]string{{"Www-Authenticate", "Basic realm=\"r\""}, {"Www-Authenticate", put("Bearer realm=\"q\"", bs)}}
	case "hdr-both":
		hdrs = [][2]string{{"Lfs-Authenticate", put("Basic realm=\"l\"", bs)}, {"Www-Authenticate", put("Basic realm=\"w\"", bs)}}
	case "lfsurl-user":
		lfsurl = "http://" + put("user", c17Pct(b)) + "@" + hostport + "/org/repo.git/info/lfs"
	case "lfsurl-path":
		cfg["credential.usehttppath"] = "true"
		lfsurl = base + "/" + put("org/repo.git", c17Pct(b)) + "/info/lfs"
	case "remote-user":
		remote = "origin"
		lfsurl = ""
		cfg["remote.origin.url"] = "http://" + put("user", c17Pct(b)) + "@" + hostport + "/org/repo"
	case "remote-path":
		remote = "origin"
		lfsurl = ""
		cfg["credential.usehttppath"] = "true"
		cfg["remote.origin.url"] = base + "/" + put("org/repo", c17Pct(b))
	case "answer-username":
		answer = "username=" + put("stubuser", bs) + "\npassword=stubpass\n"
	case "answer-password":
		answer = "protocol=http\nhost=" + hostport + "\nusername=stubuser\npassword=" + put("stubpass", bs) + "\n"
	case "answer-state-multistage":
		multistage = true
		answer = "authtype=Bearer\ncredential=dG9r\ncontinue=1\nstate[]=" + put("h.st=1", bs) + "\nstate[]=h.two=2\n"
	case "answer-credential-multistage":
		multistage = true
		answer = "authtype=Bearer\ncredential=dG9r\ncontinue=1\nstate[]=h.st=1\nephemeral=" + put("1", bs) + "\n"
	case "answer-host":
		answer = "protocol=http\nhost=" + put(hostport, bs) + "\nusername=stubuser\npassword=stubpass\n"
	}
	if lfsurl != "" {
		cfg["lfs.url"] = lfsurl
	}
	c17ResetRecs([]byte(answer))
	s.mu.Lock()
	s.hdrs, s.multistage, s.first, s.authed, s.reqs = hdrs, multistage, nil, 0, 0
	s.mu.Unlock()

	type flowRes struct {
		status int
		err    error
		note   string
		seen   []creds.Creds
		tool   *vx.ToolError
	}
	done := make(chan flowRes, 1)
	go func() {
		var fr flowRes
		defer func() {
			if e := recover(); e != nil {
				if te, ok := e.(vx.ToolError); ok {
					fr.tool = &te
				}
				fr.note = fmt.Sprintf("panic: %v", e)
			}
			done <- fr
		}()
		c, err := NewClient(c17Env(cfg))
		if err != nil {
			fr.note = "newclient: " + err.Error()
			return
		}
		ep := c.Endpoints.Endpoint("upload", remote)
		credURL, perr := url.Parse(ep.Url)
		if perr != nil || !strings.HasPrefix(ep.Url, "http://") {
			fr.note = "endpoint-not-http"
			return
		}
		rec := &c17Recorder{o: o, hctx: c.credContext, u: credURL, protect: pp.protect}
		c.Credentials = rec
		req, err := c.NewRequest("POST", ep, "objects/batch", map[string]string{"operation": "upload"})
		if err != nil {
			fr.note = "newrequest-error"
			return
		}
		res, err := c.DoWithAuth(remote, c.Endpoints.AccessFor(ep.Url), req)
		if res != nil {
			fr.status = res.StatusCode
			res.Body.Close()
		}
		fr.err = err
		fr.seen = rec.seen
		c.Close()
	}()
	var fr flowRes
	select {
	case fr = <-done:
	case <-time.After(60 * time.Second):
		r.Inconcl = "flow timed out (tool guard)"
		r.Outcome = "flow/timeout"
		return r
	}
	if fr.tool != nil {
		panic(*fr.tool)
	}
	// coverage: did the byte chosen by this case reach a credential map?
	reached := false
	for _, m := range fr.seen {
		for _, vs := range m {
			for _, v := range vs {
				if strings.Contains(v, bs) && (b < 0x20 || b >= 0x7f) {
					reached = true
				}
			}
		}
	}
	if reached {
		r.Counters["flow_special_byte_reached_credential_map_"+strings.SplitN(mode, "-", 2)[0]]++
	}
	if strings.HasPrefix(mode, "hdr-") {
		// which raw header bytes does Go's HTTP client let through into wwwauth[]?
		cl := "other"
		switch {
		case b == '\n':
			cl = "LF"
		case b == '\r':
			cl = "CR"
		case b == 0:
			cl = "NUL"
		case b == '\t':
			cl = "TAB"
		case b < 0x20:
			cl = "ctl"
		case b == 0x7f:
			cl = "DEL"
		case b >= 0x80:
			cl = "hi"
		}
		if cl != "other" {
			r.Counters[fmt.Sprintf("flow_raw_header_byte_%s_in_wwwauth_%v", cl, reached)]++
		}
	}
	extra := fmt.Sprintf("pp=%s/%s/status=%d", pp.name, mode, fr.status)
	if fr.note != "" {
		extra += "/" + strings.SplitN(fr.note, ":", 2)[0]
	}
	c17Finish(o, &r, "flow", extra)
	var seenq []string
	for _, m := range fr.seen {
		seenq = append(seenq, c17Quote(m))
	}
	r.Sample = map[string]interface{}{"scenario": "flow", "mode": mode, "byte": fmt.Sprintf("0x%02x", b), "pos": pos, "protectProtocol": pp.name,
		"raw_401_headers": fmt.Sprintf("%q", hdrs), "config": fmt.Sprintf("%q", cfg), "helper_answer": strconv.Quote(answer),
		"maps_passed_to_helper_chain": seenq, "outcome": r.Outcome, "flow_error": fmt.Sprint(fr.err)}
	return r
}

// ------------------------------------------------------------------------------------------------
// scenario "sequence": two (thorough: also three) exchanges in ONE CredentialHelperContext, i.e. with the shared
// command helper, credential cache and context lists that one git-lfs process / one lfsapi.Client uses for all of
// its requests.  Every exchange is judged by the unchanged oracle under the configuration that applies to THAT
// exchange's URL.

var c17SeqHosts = []string{"a.example", "b.example", "c.example"} // A, B may carry URL-scoped settings; C never does

// world = (global, scoped-for-A, scoped-for-B) setting of credential.protectProtocol; 0 unset, 1 false, 2 true
type c17World [3]int

func (w c17World) name() string {
	n := []string{"-", "f", "t"}
	return "g" + n[w[0]] + "A" + n[w[1]] + "B" + n[w[2]]
}

func (w c17World) cfg() map[string]string {
	m := map[string]string{"credential.usehttppath": "true"}
	val := []string{"", "false", "true"}
	if w[0] != 0 {
		m["credential.protectprotocol"] = val[w[0]]
	}
	for i := 0; i < 2; i++ {
		if w[i+1] != 0 {
			m["credential.https://"+c17SeqHosts[i]+".protectprotocol"] = val[w[i+1]]
		}
	}
	return m
}

// protect: URL-scoped setting wins over the global one; default enabled.
func (w c17World) protect(host int) bool {
	if host < 2 && w[host+1] != 0 {
		return w[host+1] == 2
	}
	if w[0] != 0 {
		return w[0] == 2
	}
	return true
}

func c17AllWorlds() []c17World {
	var r []c17World
	for g := 0; g < 3; g++ {
		for a := 0; a < 3; a++ {
			for b := 0; b < 3; b++ {
				r = append(r, c17World{g, a, b})
			}
		}
	}
	return r
}

// the slice of worlds used where the full 27 are too many
var c17WorldSlice = []c17World{{0, 0, 0}, {0, 1, 0}, {0, 2, 0}, {1, 0, 0}, {1, 2, 0}, {0, 1, 2}, {0, 1, 1}, {2, 1, 0}, {1, 0, 2}}

type c17Exch struct {
	host  int
	op    string
	field int // index into c17SeqFields, -1: no byte inserted
	seq   string
	pos   int // 0 start, 1 middle, 2 end
}

var c17SeqFields = []string{"username", "password", "path", "wwwauth[]#1", "wwwauth[]#0"}

func (e c17Exch) String() string {
	h := string("ABC"[e.host])
	if e.field < 0 {
		return h + "." + e.op + ".clean"
	}
	return fmt.Sprintf("%s.%s.%s+%q@%d", h, e.op, c17SeqFields[e.field], e.seq, e.pos)
}

// choose a plain exchange: host x operation, optionally with a CR in the username
func c17ChoosePlain(x *vx.X, withCR bool) c17Exch {
	e := c17Exch{host: x.In(3), op: c17Ops[x.In(3)], field: -1}
	if withCR && x.In(2) == 1 {
		e.field, e.seq, e.pos = 0, "\r", 1
	}
	return e
}

// choose a probing exchange: host x operation x field x {CR, LF, NUL, clean byte} x position
func c17ChooseProbe(x *vx.X, full bool) c17Exch {
	e := c17Exch{host: x.In(3), op: c17Ops[x.In(3)]}
	four := []string{"\r", "\n", "\x00", "x"}
	if full {
		e.field = x.In(5)
		e.seq = four[x.In(4)]
		e.pos = x.In(3)
		return e
	}
	// reduced: 4 fields; CR at start/middle/end, LF / NUL / clean byte in the middle
	e.field = x.In(4)
	k := x.In(6)
	if k < 3 {
		e.seq, e.pos = "\r", k
	} else {
		e.seq, e.pos = four[k-2], 1
	}
	return e
}

func c17RunSeq(x *vx.X) vx.Result {
	r := vx.Result{Counters: map[string]int64{}}
	o := &c17Obs{r: &r}
	var w c17World
	var exs []c17Exch
	cacheOn := true
	if !c17Thorough() {
		// quick: 9 worlds x (3 hosts x 3 ops, clean) x reduced probe (3 hosts x 3 ops x 4 fields x 6 byte/position pairs)
		w = c17WorldSlice[x.In(len(c17WorldSlice))]
		exs = append(exs, c17ChoosePlain(x, false), c17ChooseProbe(x, false))
	} else {
		switch x.In(3) {
		case 0: // all 27 worlds x (host x op x {clean, CR}) x full probe
			all := c17AllWorlds()
			w = all[x.In(len(all))]
			exs = append(exs, c17ChoosePlain(x, true), c17ChooseProbe(x, true))
		case 1: // lfs.cachecredentials=false: 9 worlds x plain x full probe
			cacheOn = false
			w = c17WorldSlice[x.In(len(c17WorldSlice))]
			exs = append(exs, c17ChoosePlain(x, false), c17ChooseProbe(x, true))
		case 2: // three exchanges: 9 worlds x plain x plain x reduced probe
			w = c17WorldSlice[x.In(len(c17WorldSlice))]
			exs = append(exs, c17ChoosePlain(x, false), c17ChoosePlain(x, false), c17ChooseProbe(x, false))
		}
	}
	cfg := w.cfg()
	if !cacheOn {
		cfg["lfs.cachecredentials"] = "false"
	}
	c17ResetRecs([]byte(c17DefaultAnswer))
	cx := c17Env(cfg)
	hctx := creds.NewCredentialHelperContext(cx.GitEnv(), cx.OSEnv()) // ONE context for the whole sequence
	mayBeCached := map[string]bool{}
	var hist, descs []string
	// Order of the steps.  An exchange is two steps on the shared context: GET (GetCredentialHelper builds the helper chain and
	// the input map for a URL) and USE (fill / approve / reject through that chain).  git-lfs runs exchanges from several
	// goroutines (transfer workers) on ONE context, so the steps of two exchanges interleave; every order in which each GET
	// precedes its USE is enumerated for two exchanges (order 0 = one exchange after the other, as before).
	type prepared struct {
		e    c17Exch
		u    *url.URL
		wr   creds.CredentialHelperWrapper
		m    creds.Creds
		pass string
	}
	orders := [][]string{{"g0", "u0", "g1", "u1"}}
	if len(exs) == 2 {
		orders = append(orders, []string{"g0", "g1", "u0", "u1"}, []string{"g0", "g1", "u1", "u0"}, []string{"g1", "g0", "u0", "u1"}, []string{"g1", "g0", "u1", "u0"})
	} else if len(exs) == 3 {
		orders = [][]string{{"g0", "u0", "g1", "u1", "g2", "u2"}}
	}
	order := orders[x.In(len(orders))]
	orderName := strings.Join(order, "")
	prep := map[int]*prepared{}
	nUsed := 0
	for _, step := range order {
		k := int(step[1] - '0')
		e := exs[k]
		if step[0] == 'g' {
			user, pass, path := "user", "pw", "org/repo.git"
			www := []string{"Basic realm=\"r\"", "Bearer t"}
			at := func(base string) int { return []int{0, len(base) / 2, len(base)}[e.pos] }
			if e.field >= 0 {
				switch c17SeqFields[e.field] {
				case "username":
					user = c17Place(user, c17Pct(e.seq[0]), at(user))
				case "password":
					pass = c17Place(pass, e.seq, at(pass))
				case "path":
					path = c17Place(path, c17Pct(e.seq[0]), at(path))
				case "wwwauth[]#1":
					www[1] = c17Place(www[1], e.seq, at(www[1]))
				case "wwwauth[]#0":
					www[0] = c17Place(www[0], e.seq, at(www[0]))
				}
			}
			u, err := url.Parse("https://" + user + "@" + c17SeqHosts[e.host] + "/" + path)
			if err != nil {
				panic(vx.ToolError{Msg: "C17 sequence: generated URL does not parse: " + err.Error()})
			}
			hctx.SetWWWAuthHeaders(www) // as lfsapi does from the previous 401 before asking for credentials
			wr := hctx.GetCredentialHelper(nil, u)
			m := c17CopyCreds(wr.Input)
			if e.op != "fill" || (e.field >= 0 && c17SeqFields[e.field] == "password") {
				m["password"] = []string{pass}
			}
			prep[k] = &prepared{e: e, u: u, wr: wr, m: m, pass: pass}
			continue
		}
		pr := prep[k]
		u, wr, m := pr.u, pr.wr, pr.m
		protect := w.protect(e.host)
		ckey := strings.Join([]string{creds.FirstEntryForKey(m, "protocol"), creds.FirstEntryForKey(m, "host"), creds.FirstEntryForKey(m, "path")}, "//")
		o.cacheMayAnswer = cacheOn && e.op != "reject" && mayBeCached[ckey]
		o.fpSuffix = ""
		if nUsed > 0 {
			o.fpSuffix = fmt.Sprintf(":seq-ex%d-%s-after-%s", nUsed+1, c17HostProt(w, e.host), strings.Join(hist, ","))
		}
		if orderName != "g0u0g1u1" && len(exs) == 2 {
			// interleaved steps: the other exchange's GET lies between this exchange's GET and USE (or both GETs precede both USEs)
			other := exs[1-k]
			o.fpSuffix = fmt.Sprintf(":interleaved-%s-with-%s", c17HostProt(w, e.host), c17HostProt(w, other.host))
		}
		// root-cause condition of finding-1: the lookup string scheme://host/<decoded path> does not parse and a
		// URL-scoped setting for this host says something else than the global/default fallback
		_, lookupErr := url.Parse(fmt.Sprintf("%s://%s%s", u.Scheme, u.Host, u.Path))
		o.scopedIgnored = lookupErr != nil && e.host < 2 && w[e.host+1] != 0 && protect != (c17World{w[0], 0, 0}).protect(e.host)
		o.caseKey = fmt.Sprintf("%s/cache=%v/%s/%s|%s", w.name(), cacheOn, orderName, strings.Join(descs, "|"), e.String())
		o.call(wr.CredentialHelper, e.op, m, protect)
		switch e.op {
		case "approve":
			mayBeCached[ckey] = true // over-approximation: also when the approve was refused
		case "reject":
			delete(mayBeCached, ckey)
		}
		hist = append(hist, c17HostProt(w, e.host))
		descs = append(descs, e.String())
		nUsed++
	}
	c17Finish(o, &r, "sequence", fmt.Sprintf("len=%d", len(exs)))
	r.Sample = map[string]interface{}{"scenario": "sequence", "world(global,A,B)": w.name(), "config": fmt.Sprintf("%q", cfg), "exchanges": descs, "step_order": orderName, "outcome": r.Outcome}
	return r
}

// c17HostProt names where the exchange's protection setting comes from and what it is, e.g. "scoped.off", "default.on".
func c17HostProt(w c17World, host int) string {
	src := "default"
	if host < 2 && w[host+1] != 0 {
		src = "scoped"
	} else if w[0] != 0 {
		src = "global"
	}
	return src + map[bool]string{true: ".on", false: ".off"}[w.protect(host)]
}

// ------------------------------------------------------------------------------------------------
// worker processes

// Package creds is rewritten onto the controlled scheduler (prop.json "rewrite"): every use of its mutexes must happen inside
// a controlled execution.  The four single-threaded scenarios run under the scheduler's deterministic default schedule
// (c17Sequential: one logical thread, so there is never a scheduling choice); scenario concurrent explores schedules itself.
var c17Parts = []struct {
	name string
	run  vx.RunFunc
}{{"direct", c17Sequential(c17RunDirect)}, {"url", c17Sequential(c17RunURL)}, {"flow", c17Sequential(c17RunFlow)}, {"sequence", c17Sequential(c17RunSeq)},
	{"concurrent", c17RunConcurrent}, {"provenance", c17Sequential(c17RunProvenance)}}

// c17Sequential executes one case as the only logical thread of a controlled execution.
func c17Sequential(run vx.RunFunc) vx.RunFunc {
	return func(x *vx.X) (r vx.Result) {
		var pv interface{}
		out := vsched.Run(func(n int, w []int) int { return 0 }, vsched.Options{DelayBounded: true}, func() {
			defer func() {
				if e := recover(); e != nil {
					pv = e
				}
			}()
			r = run(x)
		})
		if pv != nil && fmt.Sprintf("%T", pv) != "vsched.abortSentinel" {
			panic(pv) // ToolError or harness panic: handled by vx.SafeRun exactly as without the scheduler
		}
		if out.Deadlock || out.Horizon || out.Panic != "" || out.Threads != 1 {
			panic(vx.ToolError{Msg: fmt.Sprintf("C17: single-threaded case did not run to completion under the controlled scheduler: deadlock=%v horizon=%v threads=%d panic=%s blocked=%v",
				out.Deadlock, out.Horizon, out.Threads, out.Panic, out.Blocked)})
		}
		return r
	}
}

type c17Req struct {
	Part   string     `json:"part"`
	Prefix []vx.Point `json:"prefix"`
}

func c17WorkerMain() {
	out := os.NewFile(3, "results")
	in := bufio.NewReaderSize(os.Stdin, 1<<20)
	enc := json.NewEncoder(out)
	for {
		line, err := in.ReadBytes('\n')
		if len(line) > 0 {
			var rq c17Req
			var res vx.Result
			if e := json.Unmarshal(line, &rq); e != nil {
				res = vx.Result{ToolErr: "worker: bad request: " + e.Error()}
			} else {
				var run vx.RunFunc
				for _, p := range c17Parts {
					if p.name == rq.Part {
						run = p.run
					}
				}
				if run == nil {
					res = vx.Result{Points: rq.Prefix, ToolErr: "worker: unknown part " + rq.Part}
				} else {
					res = vx.SafeRun(run, rq.Prefix)
				}
			}
			if e := enc.Encode(&res); e != nil {
				os.Exit(3)
			}
		}
		if err != nil {
			os.Exit(0)
		}
	}
}

type c17Worker struct {
	idx int
	cmd *exec.Cmd
	in  io.WriteCloser
	out *bufio.Reader
	rf  *os.File
}

type c17Pool struct {
	root string
	self string
	free chan *c17Worker
	stub string
	mu   sync.Mutex
	all  []*c17Worker
}

func c17NewPool(n int) (*c17Pool, error) {
	root := os.Getenv("VERIF_SCRATCH")
	if root == "" {
		d, err := os.MkdirTemp("", "C17-")
		if err != nil {
			return nil, err
		}
		root = d
	}
	root = filepath.Join(root, "c17")
	bin := filepath.Join(root, "bin")
	if err := os.MkdirAll(bin, 0755); err != nil {
		return nil, err
	}
	stubKind, err := c17InstallStub(bin)
	if err != nil {
		return nil, err
	}
	self := os.Getenv("VERIF_SELF")
	if self == "" {
		var err error
		if self, err = os.Executable(); err != nil {
			return nil, err
		}
	}
	p := &c17Pool{root: root, self: self, free: make(chan *c17Worker, n), stub: stubKind}
	for i := 0; i < n; i++ {
		w, err := p.spawn(i)
		if err != nil {
			return nil, err
		}
		p.free <- w
	}
	return p, nil
}

func (p *c17Pool) spawn(idx int) (*c17Worker, error) {
	rec := filepath.Join(p.root, fmt.Sprintf("w%d", idx), "rec")
	os.RemoveAll(rec)
	if err := os.MkdirAll(rec, 0755); err != nil {
		return nil, err
	}
	cmd := exec.Command(p.self, "-test.run", "^TestVerifC17$", "-test.timeout", "0", "-test.count", "1")
	var env []string
	for _, kv := range os.Environ() {
		if strings.HasPrefix(kv, "PATH=") || strings.HasPrefix(kv, "C17_") || strings.HasPrefix(kv, "GOMAXPROCS=") {
			continue
		}
		env = append(env, kv)
	}
	env = append(env, "PATH="+filepath.Join(p.root, "bin")+string(os.PathListSeparator)+os.Getenv("PATH"),
		"C17_WORKER="+strconv.Itoa(idx), "C17_REC="+rec, "GOMAXPROCS=2")
	cmd.Env = env
	cmd.Dir = filepath.Dir(rec)
	cmd.Stdout = os.Stderr
	cmd.Stderr = os.Stderr
	stdin, err := cmd.StdinPipe()
	if err != nil {
		return nil, err
	}
	rf, wf, err := os.Pipe()
	if err != nil {
		return nil, err
	}
	cmd.ExtraFiles = []*os.File{wf}
	if err := cmd.Start(); err != nil {
		return nil, err
	}
	wf.Close()
	w := &c17Worker{idx: idx, cmd: cmd, in: stdin, out: bufio.NewReaderSize(rf, 1<<20), rf: rf}
	p.mu.Lock()
	p.all = append(p.all, w)
	p.mu.Unlock()
	return w, nil
}

func (w *c17Worker) kill() {
	w.in.Close()
	w.cmd.Process.Kill()
	w.cmd.Wait()
	w.rf.Close()
}

func (p *c17Pool) close() {
	p.mu.Lock()
	defer p.mu.Unlock()
	for _, w := range p.all {
		w.in.Close()
	}
	for _, w := range p.all {
		w.cmd.Wait()
		w.rf.Close()
	}
}

// exec ships one prefix to a free worker and returns its result.  A worker that does not answer within the
// guard time is killed and replaced; the case is reported inconclusive (never a violation).
func (p *c17Pool) exec(part string, prefix []vx.Point) vx.Result {
	w := <-p.free
	line, _ := json.Marshal(c17Req{Part: part, Prefix: prefix})
	type ans struct {
		res vx.Result
		err error
	}
	ch := make(chan ans, 1)
	go func() {
		var a ans
		if _, a.err = w.in.Write(append(line, '\n')); a.err == nil {
			var b []byte
			if b, a.err = w.out.ReadBytes('\n'); a.err == nil {
				a.err = json.Unmarshal(b, &a.res)
			}
		}
		ch <- a
	}()
	fail := func(why string, inconcl bool) vx.Result {
		w.kill()
		nw, err := p.spawn(w.idx)
		if err != nil {
			return vx.Result{Points: prefix, ToolErr: "C17: cannot respawn worker: " + err.Error()}
		}
		p.free <- nw
		if inconcl {
			return vx.Result{Points: prefix, Inconcl: why}
		}
		return vx.Result{Points: prefix, ToolErr: why}
	}
	select {
	case a := <-ch:
		if a.err != nil {
			return fail("C17: worker failed: "+a.err.Error(), false)
		}
		if a.res.Inconcl != "" {
			// a timed-out case may have left a goroutine behind in the worker: replace the worker
			res := fail(a.res.Inconcl, true)
			if res.ToolErr == "" {
				return a.res
			}
			return res
		}
		p.free <- w
		return a.res
	case <-time.After(180 * time.Second):
		return fail("worker did not answer within the guard time", true)
	}
}

// ------------------------------------------------------------------------------------------------

func TestVerifC17(t *testing.T) {
	if os.Getenv("C17_WORKER") != "" {
		c17WorkerMain()
		return
	}
	c := vx.NewCheck("C17", "exploration")
	c.Rule = "one execution = one case = one choice vector. direct: credential maps over the 16 git-credential attribute slots (plus sub-case helper-chain composition: core.askpass with / without a general or URL-scoped credential.helper x op x protectProtocol configuration x slot x {LF, CR, NUL, x}) " +
		"(protocol, host, path, username, password, wwwauth[]#0/#1, state[]#0/#1, authtype, credential, password_expiry_utc, oauth_refresh_token, url, ephemeral, continue) " +
		"with one byte sequence inserted at EVERY index of one slot's value (and as the whole value): 20-sequence palette (LF, CR, NUL, CRLF, LFCR, NUL+LF, TAB, ESC, '=', SP, DEL, U+0085, U+2028, VT, FF, 0x01, 0x80, 0x85, 0xff, 'x') " +
		"x {approve, fill, reject} x 5 protectProtocol configurations (unset, false, true, URL-scoped false, global false + URL-scoped true), " +
		"all 256 single bytes x every index x every slot (quick: approve x {unset,false}; thorough: all ops x all 5 configurations), all ordered slot pairs x {LF,CR,NUL,'x'}^2, value shapes (empty, 1 byte, 70 kB with the byte first/middle/last, single-key map, 3 values). " +
		"url: maps built by GetCredentialHelper from URLs: 5 scheme/useHttpPath variants x component {user, password, path, host, user+path} x {percent-encoded, raw} x all 256 bytes x {start, middle, end} x {protection unset, false}; wwwauth[]/state[] lists set on the context x palette x position x skipwwwauth. " +
		"flow: Client.DoWithAuth against a loopback server: 13 modes (raw byte in WWW-/LFS-Authenticate header values, percent-encoded byte in lfs.url / remote URL userinfo and path, byte in the helper's own answer that is fed back into approve / state[] of the next fill) x all 256 bytes x 3 positions x {unset,false}. " +
		"sequence (every order of the GET and USE steps of two exchanges on one context in which each GET precedes its USE): 2 (thorough: also 3) exchanges in ONE CredentialHelperContext (shared command helper, cache, context lists): world = (global, URL-scoped for host A, URL-scoped for host B) credential.protectProtocol in {unset,false,true}^3 " +
		"(quick: 9-world slice; thorough: all 27) x earlier exchange(s) {host A,B,C(never configured)} x {approve,fill,reject} (thorough: x {clean, CR in username}) x last exchange host x operation x field {username, password, path, wwwauth[] entry} x {CR,LF,NUL,clean byte} x {start,middle,end} " +
		"(quick and 3-exchange: 4 fields, CR at 3 positions, the others in the middle; thorough adds lfs.cachecredentials=false on the 9-world slice); each exchange judged under the configuration applying to ITS url. " +
		"concurrent: 2 (thorough: also 3) logical threads on ONE CredentialHelperContext under the controlled scheduler (package creds rewritten at check time so that every Lock and every Unlock of its mutexes is a scheduling point), each thread = GetCredentialHelper(url) followed by one of {approve, fill, reject} on the helper chain it got; " +
		"world {nothing configured, global protectProtocol=false, protectProtocol=false scoped to repository r0 on host A} x URL pair {same URL, same host other repository, other host; with a scoped setting the asymmetric pairs in both thread orders} (11 world/pair combinations) x operation per thread (9) x value pair; " +
		"stratum A: value pairs (clean, CR in username), (CR, clean), (CR, CR), every schedule with <= 2 (thorough 3) deviations from the deterministic default schedule (delay bounding: any switch away from the running / lowest-numbered enabled thread costs 1); " +
		"stratum B: every other pair over {clean, CR / LF / NUL in username, CR in path, CR in password} in which at least one thread carries clean or CR-in-username (17 pairs, (clean, clean) among them), plus {clean, CR in username}^2 with a context wwwauth[] list {clean, CR in its 2nd entry}; <= 1 (thorough 2) deviations; " +
		"stratum C (thorough): three threads = the pair ({approve, fill}^2, values (clean, clean), (CR, clean), (clean, CR)) plus a third thread (fill, CR in username) on thread 0's URL or on a never-configured host, <= 2 deviations; every thread's call is judged by the same per-call oracle under the configuration applying to ITS url. " +
		"provenance: the configuration is read by the REAL loader (config.NewIn on a fresh throw-away repository, hermetic HOME / XDG_CONFIG_HOME / GIT_CONFIG_GLOBAL / GIT_CONFIG_NOSYSTEM; the recording stand-in forwards every non-credential git command to the real git): key form {credential.protectProtocol, credential.https://lfs.example.com.protectProtocol} x SOURCE {Git local config, global config, GIT_CONFIG_COUNT environment, file included from the local config, .lfsconfig in the work tree, .lfsconfig only in the index, .lfsconfig only in HEAD} x value {false, true} " +
		"x for .lfsconfig the line position {alone, after lfs.<url>.access, after remote.origin.lfsurl, after lfs.extension.foo.priority, before lfs.<url>.access} x second source with the OPPOSITE value {none, each other Git source, .lfsconfig in the work tree after an access key (only when the first source is a Git source)} x its key form {plain, URL-scoped} x operation {approve, fill, reject}; inside each case 10 helper calls (fresh helper context each, same loaded configuration): {CR, LF, NUL} in the middle (thorough: start, middle, end) of the slot {username, path (both percent-encoded in the URL given to GetCredentialHelper, credential.useHttpPath=true in the local config), host (set on the derived map)} plus a plain byte; " +
		"reference for 'protection enabled' = what the real git answers in that repository and environment to `git config --type=bool --get-urlmatch credential.protectProtocol https://lfs.example.com/org/repo.git` (unset => enabled); .lfsconfig has no say. " +
		"distinct_nontrivial = distinct (operation, protection, supplied map) tuples whose values contain at least one control / non-ASCII byte and for which a helper call was made and judged (flow: distinct (protection, mode, byte, position, call number) with such a map, because those maps contain an ephemeral port; sequence (every order of the GET and USE steps of two exchanges on one context in which each GET precedes its USE): distinct (world, cache, exchange sequence, call number) with such a map; concurrent: distinct (world, context list, per-thread url/operation/value, thread) with such a map, whatever the schedule); plain-ASCII cases only count as evaluations"
	c.Assumptions = []string{
		"the `git` found first on PATH is a recording stub; what `git credential` itself does with its input is outside the property",
		"'refused' is read as: the call returns an error and the helper process received no input",
		"'receives exactly the supplied pairs' is read as multiset equality of LF-terminated key=value lines; git-lfs's own two capability[] announcement lines are tolerated, order is not compared",
		"protection enabled/disabled is decided by credential.protectProtocol (and its URL-scoped form, for a plain URL) as supplied in the git configuration; default enabled",
		"scenarios direct/url use a fresh helper context per case; scenario sequence shares one context across 2-3 exchanges; longer sequences are not explored",
		"sequence: when the context's credential cache may hold an entry for the exchange's protocol//host//path (an earlier approve, no later reject), git-lfs may answer from the cache without running `git credential`: then delivery is not demanded and a missing error is not a violation, but a value that must be refused must still never reach the helper",
		"concurrent scenario: the scheduler controls the Lock/Unlock operations of package creds (rewritten at check time); plain memory accesses between two such operations are atomic for it. A stub invocation is attributed to the thread whose marker (the fixed head of its username) it carries, else to every thread during whose call it started. When another thread approves the same protocol//host//path the credential cache may answer a call: delivery is then not demanded",
		"provenance scenario: whether protection is enabled for a URL is what Git itself reports for the repository (`git config --type=bool --get-urlmatch credential.protectProtocol <url>` run by the harness with the real git under the case's environment), default enabled; a repository's .lfsconfig (work tree, index or HEAD) is not Git's configuration and credential.* is not among the keys git-lfs documents for it (git-lfs-config(5): only lfs.url, lfs.pushurl, remote.<name>.lfsurl, lfs.<url>.access, lfs.fetchinclude/-exclude, ... are read from it), so it has no influence on the reference; the OS environment handed to the helper context is empty (no askpass program), the Git environment is the loader's",
		"flow scenario: Client.Credentials is a pass-through recorder that forwards to the production helper chain obtained from the client's own credential context",
	}
	c.Bounds["palette_sequences"] = len(c17Palette)
	c.Bounds["single_bytes"] = 256
	c.Bounds["attribute_slots"] = len(c17Fields)
	c.Bounds["protect_configs"] = len(c17PPs)
	c.Bounds["flow_modes"] = len(c17FlowModes)
	c.Bounds["all_bytes_full_product"] = c.Thorough()
	c.Bounds["provenance_sources"] = len(c17ProvSources)
	c.Bounds["provenance_lfsconfig_line_positions"] = len(c17ProvPositions)
	c.Bounds["provenance_second_sources"] = len(c17ProvSeconds) - 1
	c.Bounds["provenance_byte_positions_per_slot"] = map[bool]int{false: 1, true: 3}[c.Thorough()]
	{
		budget, cost := c17CBound()
		c.Bounds["concurrent_threads"] = map[bool]int{false: 2, true: 3}[c.Thorough()]
		c.Bounds["concurrent_schedule_deviations_stratum_A"] = budget / cost[0]
		c.Bounds["concurrent_schedule_deviations_stratum_B"] = budget / cost[1]
		if c.Thorough() {
			c.Bounds["concurrent_schedule_deviations_stratum_C_3_threads"] = budget / cost[2]
		}
	}

	n := runtime.NumCPU()
	var replay *vx.ReplayFile
	if c.Replay != "" {
		n = 1
		rf, err := c.LoadReplay()
		if err != nil {
			fmt.Println("TOOL-ERROR cannot load replay:", err)
			os.Exit(2)
		}
		replay = rf
		if rf.Tier != "" && rf.Tier != c.Tier {
			// the choice domains of the quick and thorough tiers differ: replay under the recorded tier
			os.Setenv("VERIF_TIER", rf.Tier)
			c.Tier = rf.Tier
		}
	}
	pool, err := c17NewPool(n)
	if err != nil {
		fmt.Println("TOOL-ERROR property=C17 cannot start workers:", err)
		os.Exit(2)
	}
	execFor := func(part string) func([]vx.Point) vx.Result {
		return func(p []vx.Point) vx.Result { return pool.exec(part, p) }
	}
	if replay != nil {
		rf := replay
		ex := execFor(rf.Scenario)
		r := ex(rf.Prefix)
		st := vx.NewStats()
		st.Absorb(rf.Prefix, &r, 0)
		if b, e := json.MarshalIndent(r.Sample, "", " "); e == nil {
			fmt.Printf("REPLAY scenario=%s outcome=%s\n%s\n", rf.Scenario, r.Outcome, b)
		}
		code := c.Finish([]vx.Part{{Scenario: rf.Scenario, Stats: st, Exec: ex}}, nil)
		pool.close()
		os.Exit(code)
	}
	deadline := c.DeadlineAfter(185*time.Second, 22*time.Minute)
	// scenario concurrent runs first, within its own slice of the budget (it is about a quarter of the quick tier's work): on a
	// loaded machine the common deadline then cuts the tail of the last scenario instead of leaving a whole scenario unexplored
	concDeadline := c.DeadlineAfter(80*time.Second, 10*time.Minute)
	if concDeadline.After(deadline) {
		concDeadline = deadline
	}
	var parts []vx.Part
	counters := map[string]int64{}
	only := os.Getenv("VERIF_ONLY")
	order := []int{4, 5, 0, 1, 2, 3}
	for _, pi := range order {
		p := c17Parts[pi]
		if only != "" && only != p.name {
			continue
		}
		ex := execFor(p.name)
		e := &vx.Explorer{Name: "C17/" + p.name, BoundEnv: 0, BoundSch: 0, BoundSum: -1, Workers: n, Exec: ex, Deadline: deadline}
		if p.name == "concurrent" {
			e.BoundSch, _ = c17CBound() // scheduling deviations: the only costed choices of this check
			e.Deadline = concDeadline
		}
		st := e.Explore()
		parts = append(parts, vx.Part{Scenario: p.name, Stats: st, Exec: ex})
		for k, v := range st.Counters {
			counters[k] += v
		}
	}
	outcomes := map[string]interface{}{}
	for _, pt := range parts {
		h := map[string]int64{}
		for k, v := range pt.Stats.Outcomes {
			// drop the per-case HTTP status / mode detail of the flow scenario: keep "<scenario>/<config>/<calls>"
			f := strings.Split(k, "/")
			h[f[0]+"/"+f[1]+"/"+f[len(f)-1]] += v
		}
		outcomes[pt.Scenario] = h
	}
	clauses := map[string]interface{}{}
	for _, k := range vx.SortedKeys(counters) {
		if strings.HasPrefix(k, "clause_") {
			clauses[k] = counters[k]
		}
	}
	code := c.Finish(parts, map[string]interface{}{"oracle_clause_evaluations": clauses, "outcome_classes_by_scenario": outcomes, "recording_stub": pool.stub, "worker_processes": n})
	pool.close()
	os.Exit(code)
}

var _ = bytes.MinRead
