package lfsapi

// C17, scenario "concurrent": K logical threads (transfer workers of one git-lfs process) run one credential exchange each
// on ONE creds.CredentialHelperContext, under the controlled scheduler lib/vsched.  Package creds is rewritten at check time
// (tools/vrewrite; prop.json "rewrite") so that every Lock and every Unlock of its mutexes -- the credential cache, the
// netrc helper, the helper chain's skip list, and any mutex a change adds to the context -- is a scheduling point
// (vsched.Options{AllPoints: true}).  An exchange is  GetCredentialHelper(url_i)  followed by  Fill / Approve / Reject  with a
// map whose values carry CR / LF / NUL / nothing.  Every schedule with at most P deviations from the deterministic default
// schedule (delay bounding: run the current thread on, else the enabled thread with the lowest id) is executed.
//
// The recording `git` stub is a real subprocess; its exec blocks the running logical thread for real, and no other logical
// thread runs meanwhile, so the schedule is the only nondeterminism (the stub's answer is a function of its input).
//
// Oracle: the unchanged per-call oracle (c17Obs.judge), once per thread.  Stub invocations are attributed to the thread whose
// marker ("usr<i>-", the invariant head of that thread's username value) they carry; an invocation that carries no or several
// markers is attributed to every thread during whose call it was started (so it is judged, never dropped).

import (
	"fmt"
	"net/url"
	"os"
	"path/filepath"
	"strings"

	"github.com/git-lfs/git-lfs/v3/creds"
	"github.com/git-lfs/git-lfs/v3/verifx/vsched"
	"github.com/git-lfs/git-lfs/v3/verifx/vx"
)

// worlds: where credential.protectProtocol is set.  The scoped setting is for repository r0 on host A only
// (Git's URL matching: scheme and host equal, configured path a prefix of whole path segments).
type c17CWorld struct {
	name string
	cfg  map[string]string
}

var c17CWorlds = []c17CWorld{
	{"default", map[string]string{}},
	{"global-off", map[string]string{"credential.protectprotocol": "false"}},
	{"scoped-off-r0A", map[string]string{"credential.https://a.example/org/r0.git.protectprotocol": "false"}},
}

// a credential URL class: host x repository
type c17CURL struct {
	name string
	host string
	repo string
}

var (
	c17Cr0A = c17CURL{"r0A", "a.example", "r0"}
	c17Cr1A = c17CURL{"r1A", "a.example", "r1"}
	c17Cr0B = c17CURL{"r0B", "b.example", "r0"}
)

// URL pairs {same URL, same host other path, other host}; the asymmetric ones in both thread orders (the default schedule
// starts thread 0 first, and the deviation "thread 1 first" costs one unit of the bound)
var c17CPairs = [][]c17CURL{{c17Cr0A, c17Cr0A}, {c17Cr0A, c17Cr1A}, {c17Cr1A, c17Cr0A}, {c17Cr0A, c17Cr0B}, {c17Cr0B, c17Cr0A}}

// protection that applies to a URL class in a world, and where it comes from -- written down from Git's rule, independent of git-lfs
func c17CProtect(w c17CWorld, u c17CURL) (bool, string) {
	if v, ok := w.cfg["credential.https://a.example/org/r0.git.protectprotocol"]; ok && u == c17Cr0A {
		return v != "false", "scoped"
	}
	if v, ok := w.cfg["credential.protectprotocol"]; ok {
		return v != "false", "global"
	}
	return true, "default"
}

func c17CProtName(w c17CWorld, u c17CURL) string {
	p, src := c17CProtect(w, u)
	return src + map[bool]string{true: ".on", false: ".off"}[p]
}

// what one thread's map carries
type c17CVal struct {
	field string // "", username, path, password
	seq   string
}

func (v c17CVal) String() string {
	if v.field == "" {
		return "clean"
	}
	return fmt.Sprintf("%s+%q", v.field, v.seq)
}

var c17CVals = []c17CVal{
	{"", ""}, {"username", "\r"}, // strata A and C use the first two
	{"username", "\n"}, {"username", "\x00"}, {"path", "\r"}, {"password", "\r"},
}

// context-level wwwauth[] list (set once, before the threads start, as lfsapi does from a 401): none, clean, CR in the 2nd entry
var c17CWWW = [][]string{nil, {"Basic realm=\"r\"", "Bearer t"}, {"Basic realm=\"r\"", "Bear\rer t"}}

type c17CThread struct {
	u   c17CURL
	op  string
	val c17CVal
	// results
	in             creds.Creds
	out            creds.Creds
	err            error
	panicked       bool
	before, after  int
	started, ended bool
}

func c17CountRecs() int {
	n := 0
	for {
		if _, err := os.Stat(filepath.Join(c17RecDir(), fmt.Sprintf("r%d.argv", n))); err != nil {
			return n
		}
		n++
	}
}

// c17CBound returns (budget given to the explorer, cost of one scheduling deviation per stratum): the explorer bounds the
// total cost, so stratum s admits budget/cost[s] deviations.
//
//	quick   : A (2 threads, a CR in the username of one or both threads)           P <= 2
//	          B (2 threads, wider value alphabet, context wwwauth[] list)          P <= 1
//	thorough: A P <= 3, B P <= 2, C (3 threads) P <= 2
func c17CBound() (budget int, cost [3]int) {
	if c17Thorough() {
		return 6, [3]int{2, 3, 3}
	}
	return 2, [3]int{1, 2, 2}
}

// world x URL pair.  In a world without a URL-scoped setting the two asymmetric pairs are mirror images of each other under
// exchanging the threads' operations and values (both fully enumerated), up to which thread the default schedule starts first --
// and that is one deviation; they are enumerated once there.
type c17CCombo struct {
	w    c17CWorld
	pair []c17CURL
}

func c17CCombos() []c17CCombo {
	var r []c17CCombo
	for _, w := range c17CWorlds {
		scoped := false
		for k := range w.cfg {
			if strings.Contains(k, "://") {
				scoped = true
			}
		}
		for pi, p := range c17CPairs {
			if !scoped && (pi == 2 || pi == 4) {
				continue
			}
			r = append(r, c17CCombo{w, p})
		}
	}
	return r
}

// value pairs (indices into c17CVals) and context list (index into c17CWWW) per stratum.
//
//	A: (clean, CR-user), (CR-user, clean), (CR-user, CR-user)
//	B: every other pair of the 6-value alphabet in which at least one thread carries clean or CR-user (17 pairs),
//	   without a context list; plus {clean, CR-user}^2 with the context wwwauth[] list clean / carrying a CR
type c17CVP struct {
	v   [2]int
	www int
}

func c17CValuePairs(stratum int) []c17CVP {
	inA := func(a, b int) bool { return a < 2 && b < 2 && a+b > 0 }
	var r []c17CVP
	nv := len(c17CVals)
	for a := 0; a < nv; a++ {
		for b := 0; b < nv; b++ {
			switch {
			case stratum == 0 && inA(a, b):
				r = append(r, c17CVP{[2]int{a, b}, 0})
			case stratum == 1 && !inA(a, b) && (a < 2 || b < 2):
				r = append(r, c17CVP{[2]int{a, b}, 0})
			}
		}
	}
	if stratum == 1 {
		for wi := 1; wi < len(c17CWWW); wi++ {
			for a := 0; a < 2; a++ {
				for b := 0; b < 2; b++ {
					r = append(r, c17CVP{[2]int{a, b}, wi})
				}
			}
		}
	}
	return r
}

func c17RunConcurrent(x *vx.X) vx.Result {
	r := vx.Result{Counters: map[string]int64{}}
	_, costs := c17CBound()
	strata := 2
	if c17Thorough() {
		strata = 3
	}
	stratum := x.In(strata)
	combos := c17CCombos()
	cb := combos[x.In(len(combos))]
	w, pair := cb.w, cb.pair
	var ths []*c17CThread
	www := c17CWWW[0]
	switch stratum {
	case 0, 1:
		vps := c17CValuePairs(stratum)
		vp := vps[x.In(len(vps))]
		www = c17CWWW[vp.www]
		for i := 0; i < 2; i++ {
			ths = append(ths, &c17CThread{u: pair[i], op: c17Ops[x.In(3)], val: c17CVals[vp.v[i]]})
		}
	case 2:
		// three threads: the pair plus a third thread on the first thread's URL or on a host of its own that is never configured;
		// threads 0 and 1: {approve, fill}^2 x values {(clean, clean), (CR, clean), (clean, CR)} (CR in the username);
		// thread 2: fill with a CR in the username
		third := []c17CURL{pair[0], {"r0C", "c.example", "r0"}}[x.In(2)]
		vp := [][2]int{{0, 0}, {1, 0}, {0, 1}}[x.In(3)]
		for i := 0; i < 2; i++ {
			ths = append(ths, &c17CThread{u: pair[i], op: c17Ops[x.In(2)], val: c17CVals[vp[i]]})
		}
		ths = append(ths, &c17CThread{u: third, op: "fill", val: c17CVals[1]})
	}
	cost := costs[stratum]

	cfg := map[string]string{"credential.usehttppath": "true"}
	for k, v := range w.cfg {
		cfg[k] = v
	}
	c17ResetRecs([]byte(c17DefaultAnswer))

	// the URL and the additional pairs of every thread
	urls := make([]*url.URL, len(ths))
	pass := make([]string, len(ths))
	var names []string
	for i, t := range ths {
		user, pw, leaf := "name", fmt.Sprintf("pw%d", i), "info"
		mid := func(base, tok string) string { return c17Place(base, tok, len(base)/2) }
		switch t.val.field {
		case "username":
			user = mid(user, c17Pct(t.val.seq[0]))
		case "path":
			leaf = mid(leaf, c17Pct(t.val.seq[0]))
		case "password":
			pw = mid(pw, t.val.seq)
		}
		raw := fmt.Sprintf("https://usr%d-%s@%s/org/%s.git/%s", i, user, t.u.host, t.u.repo, leaf)
		u, err := url.Parse(raw)
		if err != nil {
			panic(vx.ToolError{Msg: "C17 concurrent: generated URL does not parse: " + err.Error()})
		}
		urls[i], pass[i] = u, pw
		names = append(names, fmt.Sprintf("%s.%s.%s", t.u.name, t.op, t.val))
	}
	caseKey := fmt.Sprintf("%s/www=%q/%s", w.name, www, strings.Join(names, "|"))

	var schedErr interface{}
	chooser := func(n int, wt []int) (c int) {
		defer func() {
			if e := recover(); e != nil {
				if schedErr == nil {
					schedErr = e
				}
				c = 0
			}
		}()
		sw := make([]int, len(wt))
		for i := range wt {
			sw[i] = wt[i] * cost
		}
		return x.ChooseW(vx.Sched, n, sw)
	}
	var bodyPanic interface{}
	out := vsched.Run(chooser, vsched.Options{AllPoints: true, DelayBounded: true}, func() {
		cx := c17Env(cfg)
		hctx := creds.NewCredentialHelperContext(cx.GitEnv(), cx.OSEnv()) // ONE context for all threads
		if www != nil {
			hctx.SetWWWAuthHeaders(www)
		}
		for i := range ths {
			i, t := i, ths[i]
			vsched.GoNamed(fmt.Sprintf("worker%d", i), func() {
				defer func() {
					if e := recover(); e != nil {
						if fmt.Sprintf("%T", e) == "vsched.abortSentinel" {
							panic(e)
						}
						if bodyPanic == nil {
							bodyPanic = e
						}
					}
				}()
				t.started = true
				wr := hctx.GetCredentialHelper(nil, urls[i])
				m := c17CopyCreds(wr.Input)
				if t.op != "fill" || t.val.field == "password" {
					m["password"] = []string{pass[i]}
				}
				t.in = c17CopyCreds(m)
				t.before = c17CountRecs()
				t.out, t.err, t.panicked = c17Perform(wr.CredentialHelper, t.op, m)
				t.after = c17CountRecs()
				t.ended = true
			})
		}
	})
	if schedErr != nil {
		panic(schedErr) // divergence while replaying a prefix: tool error (vx.SafeRun)
	}
	if bodyPanic != nil {
		panic(bodyPanic)
	}
	r.Transitions = int64(out.Steps)
	r.Counters["concurrent_scheduling_points_with_a_choice"] += int64(out.Points)
	r.Counters["concurrent_scheduler_steps"] += int64(out.Steps)
	sname := string("ABC"[stratum])
	r.Counters["concurrent_executions_stratum_"+sname]++
	if out.Deadlock || out.Horizon || out.Panic != "" {
		// not a statement of C17 (termination of the credential code is not part of it): reported, never judged
		r.Inconcl = fmt.Sprintf("concurrent: execution did not complete under the scheduler (deadlock=%v horizon=%v panic=%q blocked=%v)", out.Deadlock, out.Horizon, out.Panic, out.Blocked)
		r.Outcome = "concurrent/" + sname + "/incomplete"
		return r
	}
	for i, t := range ths {
		if !t.ended {
			panic(vx.ToolError{Msg: fmt.Sprintf("C17 concurrent: thread %d did not finish although the execution completed", i)})
		}
	}

	// attribute the stub invocations to the threads
	all := c17ReadRecs(0)
	owned := make([][]c17Rec, len(ths))
	for ri, rc := range all {
		var marked []int
		for i := range ths {
			if strings.Contains(string(rc.Stdin), fmt.Sprintf("usr%d-", i)) {
				marked = append(marked, i)
			}
		}
		if len(marked) == 1 {
			owned[marked[0]] = append(owned[marked[0]], rc)
			continue
		}
		if len(rc.Stdin) > 0 {
			r.Counters["concurrent_record_without_unique_marker"]++
		}
		n := 0
		for i, t := range ths {
			if ri >= t.before && ri < t.after {
				owned[i] = append(owned[i], rc)
				n++
			}
		}
		if n == 0 {
			panic(vx.ToolError{Msg: fmt.Sprintf("C17 concurrent: stub invocation %d lies in no thread's call window", ri)})
		}
	}

	o := &c17Obs{r: &r}
	var sched []string
	for i, t := range ths {
		protect, _ := c17CProtect(w, t.u)
		ckey := strings.Join([]string{creds.FirstEntryForKey(t.in, "protocol"), creds.FirstEntryForKey(t.in, "host"), creds.FirstEntryForKey(t.in, "path")}, "//")
		// the context's credential cache may answer this call (or end an approve) when another thread approves the same
		// protocol//host//path at some time: delivery is then not demanded (over-approximation independent of the schedule)
		o.cacheMayAnswer = false
		var others []string
		for j, t2 := range ths {
			if j == i {
				continue
			}
			others = append(others, c17CProtName(w, t2.u))
			k2 := strings.Join([]string{creds.FirstEntryForKey(t2.in, "protocol"), creds.FirstEntryForKey(t2.in, "host"), creds.FirstEntryForKey(t2.in, "path")}, "//")
			if t2.op == "approve" && k2 == ckey && t.op != "reject" {
				o.cacheMayAnswer = true
			}
		}
		o.fpSuffix = fmt.Sprintf(":concurrent-%s-with-%s", c17CProtName(w, t.u), strings.Join(others, ","))
		o.caseKey = fmt.Sprintf("%s#t%d", caseKey, i)
		o.ncall = 0
		if t.panicked {
			r.Counters["panic_in_helper_call"]++
		}
		o.judge(t.op, t.in, protect, owned[i], t.out, t.err)
	}
	sched = out.Trace
	c17Finish(o, &r, "concurrent", sname+"/"+w.name)
	r.Sample = map[string]interface{}{"scenario": "concurrent", "stratum": sname, "world": w.name, "config": fmt.Sprintf("%q", cfg), "context_wwwauth": fmt.Sprintf("%q", www),
		"threads(url.op.value)": names, "schedule(threads chosen at points with a choice)": strings.Join(sched, " "), "scheduler_steps": out.Steps, "outcome": r.Outcome}
	return r
}
