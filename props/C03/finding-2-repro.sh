#!/bin/sh
# C03 finding 2 — stand-alone reproduction against the real git-lfs binary and the real git.
# usage: finding-2-repro.sh [/path/to/git-lfs]
# The "LFS server" is git-lfs's own standalone file transfer (file:// remote => objects live in origin.git/lfs/objects).
set -e
BIN=${1:-$(command -v git-lfs)}
W=$(mktemp -d /tmp/C03-finding2-XXXXXX)
cd "$W"
mkdir bin home
ln -s "$BIN" bin/git-lfs
export HOME="$W/home" PATH="$W/bin:$PATH" GIT_CONFIG_NOSYSTEM=1
export GIT_AUTHOR_NAME=V GIT_AUTHOR_EMAIL=v@example.com GIT_COMMITTER_NAME=V GIT_COMMITTER_EMAIL=v@example.com
git config --global init.defaultBranch main
git config --global protocol.file.allow always
git lfs install >/dev/null
git init -q --bare origin.git
git init -q local
cd local
git remote add origin "file://$W/origin.git"
git lfs track '*.bin' >/dev/null
printf 'version one\n' > a.bin
git add .gitattributes a.bin
git commit -qm c0
printf 'version two\n' > a.bin
git add a.bin
git commit -qm c1
git push -q origin main
echo "1. pushed c0,c1; server stores $(find ../origin.git/lfs/objects -type f | wc -l) object(s)"

# another client force-pushes main back to c0 ...
git -C ../origin.git update-ref refs/heads/main "$(git rev-parse main~1)"
# ... and the server garbage-collects the LFS object only c1 referred to
V2=$(git cat-file blob main:a.bin | sed -n 's/^oid sha256://p')
find ../origin.git/lfs/objects -type f -name "$V2" -exec rm -f {} +
echo "2. remote main reset to c0 by another client, server collected garbage: $(find ../origin.git/lfs/objects -type f | wc -l) object(s) left;" \
     "local clone still has refs/remotes/origin/main = $(git rev-parse --short refs/remotes/origin/main) (= c1)"

set +e
GIT_TRACE=1 git push origin main > ../push.log 2>&1
rc=$?
grep -E "pre-push: |run_command: git rev-list" ../push.log | sed 's/^/   /'
echo "3. 'git push origin main' exited $rc"
echo "   remote refs/heads/main = $(git -C ../origin.git rev-parse --short refs/heads/main) (c1 = $(git rev-parse --short main))"
echo "   pointer in c1:  oid sha256:$V2"
echo "   that object on the server: $(find ../origin.git/lfs/objects -type f -name "$V2" | wc -l)"
cd /
rm -rf "$W"
