package c03

// C03 — worlds, snapshots and the canonical world state.
//
// A world is a real directory tree  <root>/r/{local, origin.git, other.git}  plus the object sets of the two fake LFS
// servers (one per remote).  Snapshots are kept in memory (every file of <root>/r with mode and bytes) and restored
// into the fixed root of a worker before every transition; everything that is compared or used as a key is read back
// from the real files after the real binaries ran.

import (
	"bytes"
	"crypto/sha256"
	"encoding/hex"
	"fmt"
	"io/fs"
	"os"
	"path/filepath"
	"sort"
	"strings"
	"sync"

	"github.com/git-lfs/git-lfs/v3/verifx/fakelfs"
	"github.com/git-lfs/git-lfs/v3/verifx/gitx"
	"github.com/git-lfs/git-lfs/v3/verifx/vx"
)

const rootPH = "@@ROOT@@"

var remoteNames = []string{"origin", "other"}

// ---------------------------------------------------------------------------------------------------------
// snapshots

type ent struct {
	Kind byte // 'f' file, 'l' symlink, 'd' dir
	Mode uint32
	Data string
	Link string
}

type sent struct {
	P string
	E *ent
}

// snap is a directory tree in memory: entries sorted by path.  Entries and paths are interned process-wide, so the
// thousands of snapshots of a frontier share the bytes of every file they have in common.
type snap []sent

var (
	entIntern  sync.Map // ent -> *ent
	pathIntern sync.Map // string -> string
)

func internEnt(e ent) *ent {
	if v, ok := entIntern.Load(e); ok {
		return v.(*ent)
	}
	p := &e
	v, _ := entIntern.LoadOrStore(e, p)
	return v.(*ent)
}

func internPath(s string) string {
	if v, ok := pathIntern.Load(s); ok {
		return v.(string)
	}
	v, _ := pathIntern.LoadOrStore(s, s)
	return v.(string)
}

func (s snap) get(path string) (*ent, bool) {
	i := sort.Search(len(s), func(i int) bool { return s[i].P >= path })
	if i < len(s) && s[i].P == path {
		return s[i].E, true
	}
	return nil, false
}

func capture(root string) snap {
	var s snap
	filepath.WalkDir(root, func(p string, d fs.DirEntry, err error) error {
		if err != nil {
			return nil
		}
		rel, _ := filepath.Rel(root, p)
		if rel == "." {
			return nil
		}
		info, e := d.Info()
		if e != nil {
			return nil
		}
		m := uint32(info.Mode().Perm())
		var en ent
		switch {
		case info.Mode()&os.ModeSymlink != 0:
			l, _ := os.Readlink(p)
			en = ent{Kind: 'l', Mode: 0777, Link: strings.ReplaceAll(l, root, rootPH)}
		case info.IsDir():
			en = ent{Kind: 'd', Mode: m}
		case info.Mode().IsRegular():
			b, e := os.ReadFile(p)
			if e != nil {
				b = []byte("<<unreadable: " + e.Error() + ">>")
			}
			if bytes.Contains(b, []byte(root)) {
				b = bytes.ReplaceAll(b, []byte(root), []byte(rootPH))
			}
			en = ent{Kind: 'f', Mode: m, Data: string(b)}
		default:
			return nil
		}
		s = append(s, sent{internPath(rel), internEnt(en)})
		return nil
	})
	sort.Slice(s, func(i, j int) bool { return s[i].P < s[j].P })
	return s
}

func restore(s snap, root string) {
	if err := os.RemoveAll(root); err != nil {
		exec_chmod(root)
		os.RemoveAll(root)
	}
	if err := os.MkdirAll(root, 0755); err != nil {
		panic(vx.ToolError{Msg: "restore: " + err.Error()})
	}
	type dm struct {
		p string
		m uint32
	}
	var dirs []dm
	for _, se := range s {
		e := se.E
		p := filepath.Join(root, se.P)
		var err error
		switch e.Kind {
		case 'd':
			err = os.MkdirAll(p, 0755)
			if e.Mode != 0755 {
				dirs = append(dirs, dm{p, e.Mode})
			}
		case 'l':
			os.MkdirAll(filepath.Dir(p), 0755)
			err = os.Symlink(strings.ReplaceAll(e.Link, rootPH, root), p)
		case 'f':
			data := e.Data
			if strings.Contains(data, rootPH) {
				data = strings.ReplaceAll(data, rootPH, root)
			}
			err = os.WriteFile(p, []byte(data), os.FileMode(e.Mode)|0200)
			if err != nil {
				os.MkdirAll(filepath.Dir(p), 0755)
				err = os.WriteFile(p, []byte(data), os.FileMode(e.Mode)|0200)
			}
			if err == nil && os.FileMode(e.Mode)|0200 != os.FileMode(e.Mode) {
				err = os.Chmod(p, os.FileMode(e.Mode))
			}
		}
		if err != nil {
			panic(vx.ToolError{Msg: "restore: " + err.Error()})
		}
	}
	for i := len(dirs) - 1; i >= 0; i-- {
		os.Chmod(dirs[i].p, os.FileMode(dirs[i].m))
	}
}

// exec_chmod makes a tree removable (git objects are 0444 in 0755 dirs: RemoveAll copes; this is only a guard
// against directories a tool left read-only).
func exec_chmod(root string) {
	filepath.WalkDir(root, func(p string, d fs.DirEntry, err error) error {
		if err == nil && d.IsDir() {
			if info, e := d.Info(); e == nil && info.Mode().Perm()&0700 != 0700 {
				os.Chmod(p, 0755)
			}
		}
		return nil
	})
}

// ---------------------------------------------------------------------------------------------------------
// contents and blob forms

func sha256hex(b []byte) string {
	h := sha256.Sum256(b)
	return hex.EncodeToString(h[:])
}

// LFS object contents (labels).  O1 is only ever created by the "other client".
var objLabels = []string{"A1", "A2", "B1", "E1", "O1"}

var objContent = map[string][]byte{
	"A1": gitx.Content("bin", 1500, 1),
	"A2": gitx.Content("bin", 40, 2),
	"B1": gitx.Content("bin", 2000, 3),
	"E1": gitx.Content("bin", 300, 4),
	"O1": gitx.Content("bin", 77, 5),
}

var (
	objOid   = map[string]string{} // label -> oid
	oidLabel = map[string]string{} // oid -> label
)

func labelOf(oid string) string {
	if l, ok := oidLabel[oid]; ok {
		return l
	}
	return "?" + oid[:8]
}

const attrText = "*.bin filter=lfs diff=lfs merge=lfs -text\n"

// extPointer builds a spec-conforming pointer of exactly `total` bytes for data by adding extension lines
// (docs/spec.md + docs/extensions.md: "ext-{order}-{name} {hash-method}:{hash}" lines sorted between version and oid).
func extPointer(data []byte, total int) string {
	oid := sha256hex(data)
	head := "version https://git-lfs.github.com/spec/v1\n"
	tail := fmt.Sprintf("oid sha256:%s\nsize %d\n", oid, len(data))
	rest := total - len(head) - len(tail)
	var lines []string
	const n = 9
	// every line: "ext-N-" + name + " sha256:" + 64 hex + "\n"  = 6 + len(name) + 8 + 64 + 1
	fixed := 6 + 8 + 64 + 1
	names := rest - n*fixed
	if names < n {
		panic("extPointer: total too small")
	}
	for i := 0; i < n; i++ {
		l := names / n
		if i < names%n {
			l++
		}
		name := strings.Repeat(string(rune('a'+i)), l)
		lines = append(lines, fmt.Sprintf("ext-%d-%s sha256:%s\n", i, name, sha256hex([]byte(name))))
	}
	p := head + strings.Join(lines, "") + tail
	if len(p) != total {
		panic(fmt.Sprintf("extPointer: built %d bytes, wanted %d", len(p), total))
	}
	return p
}

// blob forms: name -> bytes stored in git.  "p:<L>" canonical pointer to object L, "x:E1" the 1023-byte pointer
// with extension lines, "r:<L>" the raw content committed outside LFS, "t:<n>" plain text, "attr" .gitattributes.
var blobForms = map[string][]byte{}

// formObj: blob form -> label of the LFS object it references ("" if none)
var formObj = map[string]string{}

func initContents() {
	for _, l := range objLabels {
		o := sha256hex(objContent[l])
		objOid[l] = o
		oidLabel[o] = l
		blobForms["p:"+l] = []byte(gitx.PointerText(objContent[l]))
		formObj["p:"+l] = l
	}
	blobForms["x:E1"] = []byte(extPointer(objContent["E1"], 1023))
	formObj["x:E1"] = "E1"
	blobForms["r:A1"] = objContent["A1"]
	blobForms["r:A2"] = objContent["A2"]
	blobForms["t:1"] = []byte("plain text file, version 1\n")
	blobForms["t:2"] = []byte("plain text file, version 2\n")
	blobForms["attr"] = []byte(attrText)
}

// ---------------------------------------------------------------------------------------------------------
// spec pointer decoder used by the oracle (strict: exactly the one valid encoding of docs/spec.md)

type ptrRef struct {
	Path string
	Oid  string
	Size int64
}

func isKeyChar(c byte) bool {
	return (c >= 'a' && c <= 'z') || (c >= '0' && c <= '9') || c == '.' || c == '-'
}

func parsePointer(b []byte) (oid string, size int64, ok bool) {
	if len(b) == 0 || len(b) >= 1024 || b[len(b)-1] != '\n' {
		return "", 0, false
	}
	lines := strings.Split(string(b[:len(b)-1]), "\n")
	if len(lines) < 3 || lines[0] != "version https://git-lfs.github.com/spec/v1" {
		return "", 0, false
	}
	prev := ""
	seenOid, seenSize := false, false
	for _, ln := range lines[1:] {
		sp := strings.IndexByte(ln, ' ')
		if sp <= 0 || sp == len(ln)-1 {
			return "", 0, false
		}
		k, v := ln[:sp], ln[sp+1:]
		for i := 0; i < len(k); i++ {
			if !isKeyChar(k[i]) {
				return "", 0, false
			}
		}
		if k <= prev || strings.ContainsAny(v, "\r") {
			return "", 0, false
		}
		prev = k
		switch {
		case k == "oid":
			if !strings.HasPrefix(v, "sha256:") || len(v) != 7+64 {
				return "", 0, false
			}
			for _, c := range v[7:] {
				if !((c >= '0' && c <= '9') || (c >= 'a' && c <= 'f')) {
					return "", 0, false
				}
			}
			oid, seenOid = v[7:], true
		case k == "size":
			if len(v) == 0 || len(v) > 18 || (len(v) > 1 && v[0] == '0') {
				return "", 0, false
			}
			var n int64
			for _, c := range v {
				if c < '0' || c > '9' {
					return "", 0, false
				}
				n = n*10 + int64(c-'0')
			}
			size, seenSize = n, true
		case strings.HasPrefix(k, "ext-"):
			if len(k) < 7 || k[4] < '0' || k[4] > '9' || k[5] != '-' || !strings.HasPrefix(v, "sha256:") || len(v) != 7+64 {
				return "", 0, false
			}
		default:
			return "", 0, false // unknown keys: not produced by any client here; not demanded
		}
	}
	if !seenOid || !seenSize || size == 0 {
		return "", 0, false
	}
	return oid, size, true
}

// ---------------------------------------------------------------------------------------------------------
// world state parsed from a snapshot

type objInfo struct {
	Valid bool
	Size  int
}

type wstate struct {
	Head     string               // current local branch (short name)
	LRefs    map[string]string    // local refs (full name -> sha): heads, tags, remotes
	RRefs    [2]map[string]string // refs of the two bare remotes
	Store    map[string]objInfo   // local LFS store: oid -> validity
	RStore   [2]map[string]objInfo // lfs/objects of the bare remotes (file:// standalone transfer target)
	RDirs    [2][]string           // oids at whose object path in the bare remote's lfs/objects a DIRECTORY sits (not an object: absent for the oracle)
	WT       map[string]string    // work-tree files (top level) -> sha256 of content
	AllowInc bool
	Srv      [2]map[string]string // server object sets: oid -> bytes
	Key      uint64
}

func parseRefs(s snap, gitdir string) map[string]string {
	refs := map[string]string{}
	if e, ok := s.get(gitdir + "/packed-refs"); ok && e.Kind == 'f' {
		for _, ln := range strings.Split(e.Data, "\n") {
			if ln == "" || ln[0] == '#' || ln[0] == '^' {
				continue
			}
			if sp := strings.IndexByte(ln, ' '); sp == 40 {
				refs[ln[sp+1:]] = ln[:sp]
			}
		}
	}
	pre := gitdir + "/refs/"
	for _, se := range s {
		k, e := se.P, se.E
		if e.Kind == 'f' && strings.HasPrefix(k, pre) {
			v := strings.TrimSpace(e.Data)
			if len(v) == 40 {
				refs["refs/"+k[len(pre):]] = v
			}
		}
	}
	return refs
}

func parseStore(s snap, lfsdir string) map[string]objInfo {
	m := map[string]objInfo{}
	pre := lfsdir + "/objects/"
	for _, se := range s {
		k, e := se.P, se.E
		if e.Kind != 'f' || !strings.HasPrefix(k, pre) {
			continue
		}
		rel := k[len(pre):]
		parts := strings.Split(rel, "/")
		if len(parts) != 3 || len(parts[2]) != 64 || parts[0] != parts[2][:2] || parts[1] != parts[2][2:4] {
			continue // logs, incomplete, tmp: not objects
		}
		m[parts[2]] = objInfo{Valid: sha256hex([]byte(e.Data)) == parts[2], Size: len(e.Data)}
	}
	return m
}

// parseStoreDirs: oids under whose name a directory (instead of an object file) sits in the store.
func parseStoreDirs(s snap, lfsdir string) []string {
	var r []string
	pre := lfsdir + "/objects/"
	for _, se := range s {
		k, e := se.P, se.E
		if e.Kind != 'd' || !strings.HasPrefix(k, pre) {
			continue
		}
		parts := strings.Split(k[len(pre):], "/")
		if len(parts) == 3 && len(parts[2]) == 64 && parts[0] == parts[2][:2] && parts[1] == parts[2][2:4] {
			r = append(r, parts[2])
		}
	}
	sort.Strings(r)
	return r
}

func digest(s snap, srv [2]map[string]string) *wstate {
	st := &wstate{LRefs: parseRefs(s, "local/.git"), Store: parseStore(s, "local/.git/lfs"), WT: map[string]string{}, Srv: srv}
	st.RRefs[0] = parseRefs(s, "origin.git")
	st.RRefs[1] = parseRefs(s, "other.git")
	st.RStore[0] = parseStore(s, "origin.git/lfs")
	st.RStore[1] = parseStore(s, "other.git/lfs")
	st.RDirs[0] = parseStoreDirs(s, "origin.git/lfs")
	st.RDirs[1] = parseStoreDirs(s, "other.git/lfs")
	if e, ok := s.get("local/.git/HEAD"); ok {
		st.Head = strings.TrimPrefix(strings.TrimSpace(e.Data), "ref: refs/heads/")
	}
	for _, se := range s {
		k, e := se.P, se.E
		if e.Kind == 'f' && strings.HasPrefix(k, "local/") && !strings.HasPrefix(k, "local/.git/") && strings.Count(k, "/") == 1 {
			st.WT[k[len("local/"):]] = sha256hex([]byte(e.Data))
		}
	}
	if e, ok := s.get("local/.git/config"); ok {
		for _, ln := range strings.Split(e.Data, "\n") {
			f := strings.Fields(ln)
			if len(f) == 3 && strings.EqualFold(f[0], "allowincompletepush") && f[1] == "=" {
				st.AllowInc = f[2] == "true"
			}
		}
	}
	var parts []string
	parts = append(parts, "HEAD="+st.Head, fmt.Sprintf("allowinc=%v", st.AllowInc))
	for k, v := range st.LRefs {
		parts = append(parts, "L|"+k+"|"+v)
	}
	for i := range st.RRefs {
		for k, v := range st.RRefs[i] {
			parts = append(parts, fmt.Sprintf("R%d|%s|%s", i, k, v))
		}
		for k, v := range st.RStore[i] {
			parts = append(parts, fmt.Sprintf("RS%d|%s|%v|%d", i, k, v.Valid, v.Size))
		}
		for _, k := range st.RDirs[i] {
			parts = append(parts, fmt.Sprintf("RD%d|%s", i, k))
		}
		for k, v := range st.Srv[i] {
			parts = append(parts, fmt.Sprintf("S%d|%s|%s", i, k, sha256hex([]byte(v))))
		}
	}
	for k, v := range st.Store {
		parts = append(parts, fmt.Sprintf("O|%s|%v|%d", k, v.Valid, v.Size))
	}
	for k, v := range st.WT {
		parts = append(parts, "W|"+k+"|"+v)
	}
	sort.Strings(parts)
	st.Key = vx.Hash64(parts...)
	return st
}

func (st *wstate) hasValid(oid string) bool { return st.Store[oid].Valid }

// serverHas: is oid stored for remote ri with the right bytes (http: fake server; file: bare repo's lfs/objects)
func (st *wstate) serverHas(fileMode bool, ri int, oid string) (present, right bool) {
	if fileMode {
		o, ok := st.RStore[ri][oid]
		return ok, ok && o.Valid
	}
	b, ok := st.Srv[ri][oid]
	return ok, ok && sha256hex([]byte(b)) == oid
}

func (st *wstate) serverLabels(fileMode bool, ri int) []string {
	var r []string
	if fileMode {
		for o, i := range st.RStore[ri] {
			l := labelOf(o)
			if !i.Valid {
				l += fmt.Sprintf("(bad, %d bytes)", i.Size)
			}
			r = append(r, l)
		}
		for _, o := range st.RDirs[ri] {
			r = append(r, labelOf(o)+"(a directory)")
		}
	} else {
		for o, b := range st.Srv[ri] {
			l := labelOf(o)
			if sha256hex([]byte(b)) != o {
				l += "(bad)"
			}
			r = append(r, l)
		}
	}
	sort.Strings(r)
	return r
}

// ---------------------------------------------------------------------------------------------------------
// environment: worker worlds, servers, caches

type worker struct {
	*gitx.World
	R     string // <root>/r
	srv   [2]*fakelfs.Server
	fault *faultCtl
	seqVerify bool // fault-sequence probe in which the server demands a verify callback
}

type envT struct {
	scratch  string
	binDir   string
	pool     chan *worker
	seqPool  chan *worker // worker worlds of the fault-sequence scenario
	thorough bool
	fileMode bool // remotes are file:// URLs, objects go through the standalone file transfer

	blobSha  map[string]string // form -> git blob sha1
	shaForm  map[string]string // git blob sha1 -> form
	base     snap              // world with an empty local repository and two empty bare remotes

	seq       *seqScenario       // fault sequences over the request stream of designated pushes (c03_seq_verif_test.go)
	initSc    map[bool]*scenario // pseudo-scenario holding the transitions that build the initial states
	initStats map[bool]*vx.Stats
	initSeen  map[string]bool
	initMemo  map[string]initState // executed prefixes of the operation sequences that build initial states

	treeCache sync.Map // commit-ish sha -> map[path]blobsha
	blobCache sync.Map // blob sha -> []byte (small blobs only)
	ancCache  sync.Map // "a b" -> bool
	parCache  sync.Map // commit sha -> []string parents
	cloCache  sync.Map // commit-ish sha -> set of LFS oids referenced by any commit reachable from it
}

func (w *worker) local() string   { return filepath.Join(w.R, "local") }
func (w *worker) bare(i int) string { return filepath.Join(w.R, remoteNames[i]+".git") }

func must(r gitx.Res, what string) string {
	if !r.OK() {
		panic(vx.ToolError{Msg: fmt.Sprintf("%s failed: %s", what, r)})
	}
	return r.Out
}

func (w *worker) git(dir string, args ...string) string {
	return must(w.Git(dir, args...), "git "+strings.Join(args, " "))
}

func (w *worker) gitIn(dir string, stdin string, args ...string) string {
	return must(w.RunIn(dir, []byte(stdin), nil, "git", args...), "git "+strings.Join(args, " "))
}

// treeOf returns path -> blob sha of a commit (memoised by sha: content addressed).
func (e *envT) treeOf(w *worker, repo, sha string) map[string]string {
	if v, ok := e.treeCache.Load(sha); ok {
		return v.(map[string]string)
	}
	out := w.git(repo, "ls-tree", "-r", "-z", sha)
	m := map[string]string{}
	for _, it := range strings.Split(out, "\x00") {
		if it == "" {
			continue
		}
		tab := strings.IndexByte(it, '\t')
		f := strings.Fields(it[:tab])
		if len(f) == 3 && f[1] == "blob" {
			m[it[tab+1:]] = f[2]
		}
	}
	e.treeCache.Store(sha, m)
	return m
}

func (e *envT) parentsOf(w *worker, repo, sha string) []string {
	if v, ok := e.parCache.Load(sha); ok {
		return v.([]string)
	}
	out := strings.Fields(w.git(repo, "rev-list", "--parents", "-n", "1", sha))
	var p []string
	if len(out) > 1 {
		p = out[1:]
	}
	e.parCache.Store(sha, p)
	return p
}

func (e *envT) blobBytes(w *worker, repo, sha string) []byte {
	if v, ok := e.blobCache.Load(sha); ok {
		return v.([]byte)
	}
	b := []byte(w.git(repo, "cat-file", "blob", sha))
	e.blobCache.Store(sha, b)
	return b
}

// pointersOf: every (path, oid, size) whose blob in commit sha is a spec pointer — plain plumbing: ls-tree + cat-file.
func (e *envT) pointersOf(w *worker, repo, sha string) []ptrRef {
	var r []ptrRef
	t := e.treeOf(w, repo, sha)
	paths := make([]string, 0, len(t))
	for p := range t {
		paths = append(paths, p)
	}
	sort.Strings(paths)
	for _, p := range paths {
		b := e.blobBytes(w, repo, t[p])
		if oid, size, ok := parsePointer(b); ok {
			r = append(r, ptrRef{p, oid, size})
		}
	}
	return r
}

// closureOids: every LFS oid referenced by a spec pointer in any commit reachable from sha (memoised: content addressed).
func (e *envT) closureOids(w *worker, repo, sha string) map[string]bool {
	if v, ok := e.cloCache.Load(sha); ok {
		return v.(map[string]bool)
	}
	m := map[string]bool{}
	for _, c := range w.revList(repo, "", []string{sha}, nil) {
		for _, p := range e.pointersOf(w, repo, c) {
			m[p.Oid] = true
		}
	}
	e.cloCache.Store(sha, m)
	return m
}

func (e *envT) isAncestor(w *worker, repo, a, b string) bool {
	k := a + " " + b
	if v, ok := e.ancCache.Load(k); ok {
		return v.(bool)
	}
	r := w.Git(repo, "merge-base", "--is-ancestor", a, b)
	if r.TimedOut || (r.Code != 0 && r.Code != 1) {
		panic(vx.ToolError{Msg: "merge-base --is-ancestor: " + r.String()})
	}
	e.ancCache.Store(k, r.Code == 0)
	return r.Code == 0
}

// revList runs rev-list for include --not exclude in repo (optionally seeing a second object database).
func (w *worker) revList(repo string, altObjects string, include, exclude []string) []string {
	if len(include) == 0 {
		return nil
	}
	in := strings.Join(include, "\n") + "\n"
	for _, x := range exclude {
		in += "^" + x + "\n"
	}
	var env []string
	if altObjects != "" {
		env = []string{"GIT_ALTERNATE_OBJECT_DIRECTORIES=" + altObjects}
	}
	r := w.RunIn(repo, []byte(in), env, "git", "rev-list", "--ignore-missing", "--stdin")
	out := must(r, "git rev-list")
	return strings.Fields(out)
}

func sortedKeys(m map[string]string) []string {
	ks := make([]string, 0, len(m))
	for k := range m {
		ks = append(ks, k)
	}
	sort.Strings(ks)
	return ks
}

func vals(m map[string]string) []string {
	seen := map[string]bool{}
	var r []string
	for _, k := range sortedKeys(m) {
		if !seen[m[k]] {
			seen[m[k]] = true
			r = append(r, m[k])
		}
	}
	return r
}
