#!/bin/sh
# C03 finding 1 — stand-alone reproduction against the real git-lfs binary and the real git.
# usage: finding-1-repro.sh [/path/to/git-lfs]
# The "LFS server" is git-lfs's own standalone file transfer (file:// remote => objects live in origin.git/lfs/objects),
# so nothing but git and git-lfs is involved.
set -e
BIN=${1:-$(command -v git-lfs)}
W=$(mktemp -d /tmp/C03-finding1-XXXXXX)
cd "$W"
mkdir bin home
ln -s "$BIN" bin/git-lfs
export HOME="$W/home" PATH="$W/bin:$PATH" GIT_CONFIG_NOSYSTEM=1
export GIT_AUTHOR_NAME=V GIT_AUTHOR_EMAIL=v@example.com GIT_COMMITTER_NAME=V GIT_COMMITTER_EMAIL=v@example.com
git config --global init.defaultBranch main
git config --global protocol.file.allow always
git lfs install >/dev/null
git init -q --bare origin.git
git init -q local
cd local
git remote add origin "file://$W/origin.git"
git lfs track '*.bin' >/dev/null
printf 'large file content\n' > a.bin
git add .gitattributes a.bin
git commit -qm c0
git push -q origin main
echo "1. first push done; server stores $(find ../origin.git/lfs/objects -type f | wc -l) object(s)"

# another client deletes the branch on the remote ...
git -C ../origin.git update-ref -d refs/heads/main
# ... and the server garbage-collects the LFS objects no ref refers to any more
find ../origin.git/lfs/objects -type f -exec rm -f {} +
echo "2. branch deleted remotely, server collected garbage: $(find ../origin.git/lfs/objects -type f | wc -l) object(s) left;" \
     "local clone still has refs/remotes/origin/main = $(git rev-parse --short refs/remotes/origin/main)"

set +e
GIT_TRACE=1 git push origin main > ../push.log 2>&1
rc=$?
grep -E "run_command: git rev-list|new branch" ../push.log | sed 's/^/   /'
echo "3. 'git push origin main' exited $rc"
echo "   remote refs/heads/main = $(git -C ../origin.git rev-parse --short refs/heads/main)"
echo "   pointer in that commit:  $(git cat-file blob main:a.bin | grep oid)"
echo "   objects on the server:   $(find ../origin.git/lfs/objects -type f | wc -l)"
cd /
rm -rf "$W"
