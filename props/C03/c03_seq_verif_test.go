package c03

// C03 — fault SEQUENCES over the request stream of one push (scenario "faultseq").
//
// The single-fault probes of the BFS scenarios script one fault per push (deviation bound 1, terminal).  Here the
// scripted-server dimension is widened: on a small set of designated pushes (one new object; two new objects; pre-push
// hook and `git lfs push`; with and without a verify callback) EVERY answer of the LFS server to a Batch API request, a
// storage PUT or a verify callback is a choice point of the execution (alternative 0 = the nominal answer, any other
// alternative = a faulty answer, cost 1).  seqExplore enumerates, by stateless depth-first search over the real
// binaries, every sequence of answers with at most F faulty answers placed anywhere among the first K requests of the
// push.  The request stream itself depends on the earlier answers (a failed PUT sends the object back through a new
// batch request, a reset batch request is re-sent by the HTTP layer, ...): the children of an execution are derived
// from the stream it produced, exactly as vx.Explorer derives them from the choice points met.  lfs.transfer.maxretries
// is small (a dimension of the designated pushes) so that the retry budget of an object is used up within the bound.
// The oracle is the unchanged P1/P2 oracle of the property.
//
// Determinism.  Transfers are sequential (lfs.concurrenttransfers=1) and the client's own time-outs are switched off
// (lfs.activitytimeout=0), so the n-th request of a push is well defined.  With ONE object the stream is a function of
// the answers; an execution whose stream differs from the one its parent produced is a tool error (exit 2), never a
// violation.  With TWO objects that are both waiting for a retry the client re-batches them together or one after the
// other depending on how long the machine stalls it between computing their two waiting times (tq.batch.Concat compares
// them with the wall clock): that grouping is the client's own nondeterminism and cannot be owned from outside.  Such
// executions are still complete, valid executions (the server gave the scripted answer to the n-th request, whatever
// that request was; the oracle does not look at the stream); they are counted as "stream_regrouped_by_client_timing",
// and the enumeration is exhaustive over the streams observed.

import (
	"encoding/json"
	"fmt"
	"net"
	"net/http"
	"os"
	"path/filepath"
	"sort"
	"strings"
	"sync"
	"time"

	"github.com/git-lfs/git-lfs/v3/verifx/fakelfs"
	"github.com/git-lfs/git-lfs/v3/verifx/vx"
)

// answers per request kind; index 0 is the nominal answer
var seqAlts = map[string][]string{
	"batch":  {"ok", "429-retry-after-1", "429", "500", "503", "reset"},
	"put":    {"ok", "500", "503", "429", "429-retry-after-1", "cut"},
	"verify": {"nominal", "500", "500-upload-discarded"}, // nominal: 200 if the server holds the object with that size, else 404
}

// seqN: every request is one choice point with the same number of alternatives (the largest alphabet); an alternative
// that the kind of the request does not have is the nominal answer (only ever taken when a stream was re-grouped).
const seqN = 6

var seqDumpMu sync.Mutex

type seqCtl struct {
	mu      sync.Mutex
	x       *vx.X
	k       int      // answers of the first k requests are choice points; later requests get the nominal answer
	seen    int      // requests answered
	kinds   []string // kind of every request, in order of arrival
	log     []string // the request stream with the answers given
	faults  []string // the faulty answers given, in order ("batch-429", "put-500", ...)
	script  []string // "#position request->answer" of the faulty answers (identifies the case)
	toolErr string
}

func newSeqCtl(x *vx.X, k int) *seqCtl { return &seqCtl{x: x, k: k} }

func (w *worker) installSeq(sq *seqCtl) {
	w.fault.mu.Lock()
	w.fault.seq = sq
	w.fault.mu.Unlock()
}

// class: the fault class of the execution for fingerprints = the LAST faulty answer ("" when every answer was nominal).
func (q *seqCtl) class() string {
	q.mu.Lock()
	defer q.mu.Unlock()
	if len(q.faults) == 0 {
		return ""
	}
	return "seq-ending-in-" + q.faults[len(q.faults)-1]
}

// pad takes the choice points of the requests that were not made, so that every execution has exactly 1+k points.
func (q *seqCtl) pad() {
	q.mu.Lock()
	defer q.mu.Unlock()
	for i := q.seen; i < q.k && q.toolErr == ""; i++ {
		q.choose("(no request)")
	}
}

func (q *seqCtl) choose(what string) (c int) {
	defer func() {
		if e := recover(); e != nil {
			q.toolErr = fmt.Sprintf("faultseq: %v (request #%d %s; stream so far %v)", e, q.seen+1, what, q.log)
			c = 0
		}
	}()
	return q.x.EnvC(seqN)
}

func dropConn(w http.ResponseWriter) {
	hj, ok := w.(http.Hijacker)
	if !ok {
		panic(vx.ToolError{Msg: "faultseq: response writer cannot be hijacked"})
	}
	c, _, err := hj.Hijack()
	if err != nil {
		return
	}
	if t, ok := c.(*net.TCPConn); ok {
		t.SetLinger(0) // RST: "connection reset by peer"
	}
	c.Close()
}

// serve answers one request of a fault-sequence execution.  Requests arrive one at a time (see the file comment); the
// lock makes the order in which choice points are taken well defined in any case.
func (q *seqCtl) serve(s *fakelfs.Server, w http.ResponseWriter, r *http.Request, rec *fakelfs.Recorded) bool {
	short, what := "", ""
	switch rec.Kind {
	case "batch":
		short = "batch"
		var req fakelfs.BatchRequest
		json.Unmarshal(rec.Body, &req)
		var ls []string
		for _, o := range req.Objects {
			ls = append(ls, labelOf(o.Oid))
		}
		what = "batch(" + strings.Join(ls, ",") + ")"
	case "storage-put":
		short = "put"
		what = "put(" + labelOf(rec.Path[strings.LastIndex(rec.Path, "/")+1:]) + ")"
	case "verify":
		short = "verify"
		var o fakelfs.BatchObject
		json.Unmarshal(rec.Body, &o)
		what = "verify(" + labelOf(o.Oid) + ")"
	default:
		return false
	}
	q.mu.Lock()
	defer q.mu.Unlock()
	alts := seqAlts[short]
	c := 0
	if q.toolErr == "" && q.seen < q.k {
		if c = q.choose(what); c >= len(alts) {
			c = 0
		}
	}
	q.seen++
	q.kinds = append(q.kinds, short)
	a := alts[c]
	q.log = append(q.log, what+"->"+a)
	if c != 0 {
		q.faults = append(q.faults, short+"-"+a)
		q.script = append(q.script, fmt.Sprintf("#%d %s->%s", q.seen, what, a))
	}
	switch a {
	case "ok", "nominal":
		if short == "put" {
			storePut(s, rec)
			w.WriteHeader(200)
			return true
		}
		return false // nominal batch / verify handling of the fake
	case "429":
		apiErr(w, 429, "rate limit exceeded")
	case "429-retry-after-1":
		w.Header().Set("Retry-After", "1")
		apiErr(w, 429, "rate limit exceeded")
	case "500":
		apiErr(w, 500, "internal server error")
	case "503":
		apiErr(w, 503, "service unavailable")
	case "500-upload-discarded":
		var o fakelfs.BatchObject
		json.Unmarshal(rec.Body, &o)
		s.Lock()
		delete(s.Objects, o.Oid) // the server discards an upload it could not verify
		s.Unlock()
		apiErr(w, 500, "verification failed")
	case "reset", "cut":
		dropConn(w)
	default:
		panic(vx.ToolError{Msg: "faultseq: unknown answer " + a})
	}
	return true
}

// ---------------------------------------------------------------------------------------------------------

type seqCase struct {
	Name       string
	Init       int // index into base.Inits
	Op         opDef
	MaxRetries int
	Verify     bool
	F          int  // at most F faulty answers in this push
	Strict     bool // the request stream is a function of the answers (one object)
}

type seqScenario struct {
	Name  string
	Base  *scenario // carries the initial worlds
	Cases []seqCase
	F     int // largest per-push bound on the number of faulty answers (every designated push carries its own)
	K     int // faulty answers are placed among the first K requests of the push
}

var (
	seqInitOne = [2]string{"main=c0 pushed (A1,E1 on the server); local main=c0+{a.bin->A2}: ONE new object", "git push origin <cur>; commit a.bin=A2"}
	seqInitTwo = initUnpushed // main=c0{a.bin->A1, e.bin->E1}, nothing pushed: TWO new objects
	// worlds in which incomplete pushes are allowed and one object of the pushed range is nowhere while another is present
	seqInitInc = [2]string{"c0 pushed; local main=c0+{a.bin->A2}+{b.bin->B1}; A2 deleted from the local store (nowhere); lfs.allowincompletepush=true: one object NOWHERE, one new present object",
		"git push origin <cur>; commit a.bin=A2; commit b.bin=B1; rm-object A2; toggle lfs.allowincompletepush"}
	seqInitIncRefs = [2]string{initDiverged[0] + "; A2 deleted from the local store (nowhere); lfs.allowincompletepush=true: the object of main NOWHERE, the object of f present",
		initDiverged[1] + "; rm-object A2; toggle lfs.allowincompletepush"}
)

// seqOp derives the designated push from a push operation of the alphabet: small retry budget, sequential transfers,
// client time-outs off.
func seqOp(base opDef, maxRetries int) opDef {
	o := base
	shown := append([]string{fmt.Sprintf("lfs.transfer.maxretries=%d", maxRetries), "lfs.concurrenttransfers=1"}, base.Cfg...)
	o.Cfg = append(append([]string(nil), shown...), "lfs.activitytimeout=0", "lfs.dialtimeout=120")
	o.Faultable = false
	var c []string
	for _, kv := range shown {
		c = append(c, "-c "+kv)
	}
	o.Name = strings.Replace(base.Name, "git ", "git "+strings.Join(c, " ")+" ", 1)
	return o
}

func withCfg(base opDef, kv ...string) opDef {
	o := base
	o.Cfg = append(append([]string(nil), base.Cfg...), kv...)
	return o
}

func (e *envT) mkSeqScenario(base snap) *seqScenario {
	sc := &seqScenario{Name: "faultseq", Base: &scenario{Name: "faultseq"}}
	e.mkInits(sc.Base, base, [][2]string{seqInitOne, seqInitTwo, seqInitInc, seqInitIncRefs})
	ops := remoteOps(0, true, false)
	gitpush, lfspush := pick(ops, "git push origin <cur>")[0], pick(ops, "git lfs push origin <cur>")[0]
	gitpush2, lfspush2 := pick(ops, "git push origin main f")[0], pick(ops, "git lfs push origin main f")[0]
	add := func(what string, init int, op opDef, mr int, verify bool, f int) {
		v := ""
		if verify {
			v = ", server demands a verify callback"
		}
		op = seqOp(op, mr)
		sc.Cases = append(sc.Cases, seqCase{Name: fmt.Sprintf("%s: `%s`%s, <= %d faulty answers", what, op.Name, v, f), Init: init, Op: op,
			MaxRetries: mr, Verify: verify, F: f, Strict: init == 0})
		if f > sc.F {
			sc.F = f
		}
	}
	if !e.thorough {
		sc.K = 8
		add("one new object", 0, gitpush, 1, false, 2)
		add("one new object", 0, gitpush, 2, false, 2)
		add("one new object", 0, gitpush, 1, true, 2)
		add("two new objects", 1, gitpush, 1, false, 2)
		add("one new object", 0, lfspush, 1, false, 2)
		// (appended: the indices of the designated pushes above are part of recorded replay files)
		add("one object nowhere + one new present object, incomplete pushes allowed", 2, gitpush, 1, false, 2)
		add("one object nowhere + one new present object, incomplete pushes allowed", 2, lfspush, 1, false, 2)
	} else {
		sc.K = 12
		add("one new object", 0, gitpush, 1, false, 3)
		add("one new object", 0, gitpush, 1, true, 3)
		add("one new object", 0, gitpush, 2, false, 3)
		add("one new object", 0, gitpush, 2, true, 2)
		add("one new object", 0, lfspush, 1, false, 3)
		add("one new object", 0, lfspush, 2, false, 2)
		add("two new objects", 1, gitpush, 1, false, 3)
		add("two new objects", 1, gitpush, 1, true, 2)
		add("two new objects", 1, gitpush, 2, false, 2)
		add("two new objects, one per batch", 1, withCfg(gitpush, "lfs.transfer.batchsize=1"), 1, false, 2)
		add("one object nowhere + one new present object, incomplete pushes allowed", 2, gitpush, 1, false, 3)
		add("one object nowhere + one new present object, incomplete pushes allowed", 2, gitpush, 2, false, 2)
		add("one object nowhere + one new present object, incomplete pushes allowed", 2, gitpush, 1, true, 2)
		add("one object nowhere + one new present object, incomplete pushes allowed", 2, lfspush, 1, false, 2)
		add("two refs in one push, the object of the first nowhere, the object of the second present, incomplete pushes allowed", 3, gitpush2, 1, false, 2)
		add("two refs in one push, the object of the first nowhere, the object of the second present, incomplete pushes allowed", 3, lfspush2, 1, false, 2)
	}
	return sc
}

func (sc *seqScenario) bounds() map[string]interface{} {
	var cases, inits []string
	for _, c := range sc.Cases {
		cases = append(cases, c.Name+" from {"+sc.Base.Inits[c.Init].Desc+"}")
	}
	for _, i := range sc.Base.Inits {
		inits = append(inits, i.Desc)
	}
	return map[string]interface{}{"designated_pushes": cases, "initial_states": inits,
		"max_faulty_answers_per_push": sc.F, "faulty_answers_placed_among_the_first_n_requests_of_a_push": sc.K,
		"answers_to_a_batch_request": seqAlts["batch"], "answers_to_a_storage_PUT": seqAlts["put"], "answers_to_a_verify_callback": seqAlts["verify"]}
}

// seqOnce executes one push under the answer script given by the choice vector and returns the kinds of the requests
// the push made (the stream), from which the explorer derives the children.
func (e *envT) seqOnce(sc *seqScenario, prefix []vx.Point) (vx.Result, []string) {
	var kinds []string
	r := vx.SafeRun(func(x *vx.X) vx.Result {
		res, k := e.seqBody(sc, x)
		kinds = k
		return res
	}, prefix)
	// the answers after the last faulty one are all nominal: the choice vector that identifies the case ends there
	n := len(r.Points)
	for n > 1 && n > len(prefix) && r.Points[n-1].C == 0 {
		n--
	}
	r.Points = r.Points[:n]
	return r, kinds
}

func (e *envT) seqBody(sc *seqScenario, x *vx.X) (vx.Result, []string) {
	ci := x.In(len(sc.Cases))
	cs := sc.Cases[ci]
	in := sc.Base.Inits[cs.Init]
	w := <-e.seqPool
	defer func() { e.seqPool <- w }()
	q := newSeqCtl(x, sc.K)
	where := fmt.Sprintf("[%s] %s from {%s}", sc.Name, cs.Name, in.Desc)
	w.seqVerify = cs.Verify
	so := e.stepX(w, in.St, in.Snap, cs.Op, "", q, where)
	w.seqVerify = false
	w.fault.set("")
	q.pad()
	q.mu.Lock()
	log, faults, script, kinds, toolErr := q.log, q.faults, q.script, q.kinds, q.toolErr
	q.mu.Unlock()
	if !so.enabled {
		return vx.Result{ToolErr: "faultseq: designated push `" + cs.Op.Name + "` is not applicable in its initial state"}, nil
	}
	if dir := os.Getenv("VERIF_C03_DUMP"); dir != "" {
		seqDumpMu.Lock()
		os.MkdirAll(dir, 0755)
		if f, err := os.OpenFile(filepath.Join(dir, "faultseq.log"), os.O_APPEND|os.O_CREATE|os.O_WRONLY, 0644); err == nil {
			fmt.Fprintf(f, "%v\texit=%d\t%s\t%s\n", x.Choices(), so.res.Code, strings.Join(log, ", "), toolErr)
			f.Close()
		}
		seqDumpMu.Unlock()
	}
	r := vx.Result{Evals: so.evals, Transitions: 1, States: []uint64{in.St.Key}, Violations: so.viols, Inconcl: so.inconcl,
		Counters: so.counters, ToolErr: toolErr}
	if r.Evals == 0 {
		r.Evals = 1
	}
	if so.inconcl != "" {
		return r, nil
	}
	r.States = append(r.States, so.post.Key)
	for i := range r.Violations { // the full script belongs to the report
		r.Violations[i].Msg += fmt.Sprintf("\n  answers of the server: %s", strings.Join(log, ", "))
	}
	sf := append([]string(nil), faults...)
	sort.Strings(sf)
	r.Outcome = fmt.Sprintf("%s faults=[%s]", so.outcome, strings.Join(sf, " "))
	r.NonTrivial = []string{fmt.Sprintf("%d|%s", ci, strings.Join(script, "; "))}
	r.Counters[fmt.Sprintf("faultseq.pushes_with_%d_faulty_answers", len(faults))]++
	r.Counters["faultseq.requests_answered"] += int64(len(log))
	r.Counters[fmt.Sprintf("faultseq.executions_of_designated_push_%d", ci+1)]++
	if so.res.Code == 0 {
		r.Counters["faultseq.push_exit0"]++
		if len(faults) > 0 {
			r.Counters["faultseq.push_exit0_despite_faulty_answers(client_retried)"]++
		}
	} else {
		r.Counters["faultseq.push_failed"]++
	}
	for _, f := range faults {
		r.Counters["faultseq.answer."+f]++
	}
	if len(log) > sc.K {
		r.Counters["faultseq.pushes_with_more_requests_than_the_position_bound"]++
	}
	s := map[string]interface{}{"scenario": sc.Name, "designated_push": cs.Name, "initial_state": in.Desc, "answers_of_the_server": log,
		"faulty_answers": script, "exit_of_push": so.res.Code, "outcome": so.outcome, "state_after": e.describe(so.post)}
	for k, v := range so.sample {
		s[k] = v
	}
	r.Sample = s
	return r, kinds
}

func (e *envT) seqExec(sc *seqScenario) func(pr []vx.Point) vx.Result {
	return func(pr []vx.Point) vx.Result {
		e.fileMode = false
		r, _ := e.seqOnce(sc, pr)
		return r
	}
}

// seqExplore: stateless DFS over answer scripts.  A work item is a choice vector [designated push, answer to request
// #1, ..., answer to request #p] whose last answer is faulty (or just the designated push); all later requests get the
// nominal answer.  Its children place one more faulty answer at a later position p' < min(K, length of the stream the
// execution produced), for every faulty alternative of the kind of request #p', while the number of faulty answers
// stays within the bound of the designated push.
func (e *envT) seqExplore(sc *seqScenario, deadline time.Time) *vx.Stats {
	st := vx.NewStats()
	type item struct {
		prefix []vx.Point
		nf     int
		expect []string // kinds of the requests up to the last scripted position, as produced by the parent
	}
	var mu sync.Mutex
	cond := sync.NewCond(&mu)
	var stack []item
	for ci := len(sc.Cases) - 1; ci >= 0; ci-- {
		stack = append(stack, item{prefix: []vx.Point{{K: vx.Input, N: len(sc.Cases), C: ci}}})
	}
	active := 0
	stop := false
	var retried int64
	var wg sync.WaitGroup
	for wi := 0; wi < cap(e.seqPool); wi++ {
		wg.Add(1)
		go func() {
			defer wg.Done()
			for {
				mu.Lock()
				for len(stack) == 0 && active > 0 && !stop {
					cond.Wait()
				}
				if stop || (len(stack) == 0 && active == 0) {
					mu.Unlock()
					cond.Broadcast()
					return
				}
				it := stack[len(stack)-1]
				stack = stack[:len(stack)-1]
				if time.Now().After(deadline) {
					stop = true
					st.Exhaustive = false
					st.CapHit = "deadline"
					mu.Unlock()
					cond.Broadcast()
					return
				}
				active++
				mu.Unlock()

				cs := sc.Cases[it.prefix[0].C]
				r, kinds := e.seqOnce(sc, it.prefix)
				for attempt := 1; attempt < 3 && r.Inconcl != "" && r.ToolErr == ""; attempt++ {
					// the push hit the tool timeout (overloaded machine): execute the same script again
					mu.Lock()
					retried++
					mu.Unlock()
					r, kinds = e.seqOnce(sc, it.prefix)
				}
				regrouped := false
				for i, k := range it.expect {
					if i >= len(kinds) || kinds[i] != k {
						regrouped = true
					}
				}
				if regrouped && r.ToolErr == "" && r.Inconcl == "" {
					if cs.Strict {
						r.ToolErr = fmt.Sprintf("faultseq: the request stream of %q under choices %v is %v, its parent execution produced %v up to the last scripted answer", cs.Name, pointChoices(it.prefix), kinds, it.expect)
					} else {
						if r.Counters == nil {
							r.Counters = map[string]int64{}
						}
						r.Counters["faultseq.stream_regrouped_by_client_timing"]++
					}
				}
				st.Absorb(it.prefix, &r, it.nf)
				var kids []item
				if r.ToolErr == "" && r.Inconcl == "" && it.nf < cs.F {
					n := len(kinds)
					if n > sc.K {
						n = sc.K
					}
					for p := len(it.prefix) - 1; p < n; p++ { // request #p+1 is point p+1 of the choice vector
						for alt := 1; alt < len(seqAlts[kinds[p]]); alt++ {
							np := make([]vx.Point, p+2)
							copy(np, it.prefix)
							for i := len(it.prefix); i < p+1; i++ {
								np[i] = vx.Point{K: vx.Env, N: seqN, C: 0}
							}
							np[p+1] = vx.Point{K: vx.Env, N: seqN, C: alt}
							kids = append(kids, item{prefix: np, nf: it.nf + 1, expect: append([]string(nil), kinds[:p+1]...)})
						}
					}
				}
				mu.Lock()
				if r.ToolErr != "" || r.Inconcl != "" {
					st.Exhaustive = false
				}
				for i := len(kids) - 1; i >= 0; i-- {
					stack = append(stack, kids[i])
				}
				active--
				mu.Unlock()
				cond.Broadcast()
			}
		}()
	}
	wg.Wait()
	if retried > 0 {
		st.Absorb(nil, &vx.Result{Counters: map[string]int64{"tool_timeouts_retried": retried}}, 0)
		st.Executions-- // the line above only carries the counter
		st.Evals--
		st.DevHist[0]--
	}
	return st
}
