package c03

// C03 — A successful push leaves every referenced object on the server.
//
// Explicit-state model checking of the REAL git-lfs binary driven by the REAL git: breadth-first search over world
// states {local repository graph + refs + HEAD, refs of the bare remote(s), remote-tracking refs, LFS server object
// set(s), local LFS store, work-tree files, lfs.allowincompletepush} under the operation alphabet of
// c03_ops_verif_test.go.  A successor is produced by restoring the parent's snapshot into a worker's directory and
// running one operation; states are deduplicated by a canonical key; the oracle is evaluated after every
// `git push` / `git lfs push` transition (and, on designated pushes, under every scripted server fault).

import (
	"fmt"
	"os"
	"path/filepath"
	"runtime"
	"sort"
	"strings"
	"sync"
	"syscall"
	"testing"
	"time"

	"github.com/git-lfs/git-lfs/v3/verifx/gitx"
	"github.com/git-lfs/git-lfs/v3/verifx/vx"
)

// ---------------------------------------------------------------------------------------------------------
// one transition + oracle

type stepOut struct {
	enabled  bool
	res      gitx.Res
	post     *wstate
	snap     snap
	viols    []vx.Violation
	outcome  string
	counters map[string]int64
	evals    int64
	nontriv  bool
	inconcl  string
	puts     int
	batches  int
	sample   map[string]interface{}
	fault    string
	opDur    time.Duration   // wall time of the operation itself
	rng      map[string]bool // oids of the objects of the pushed range (P2 model) and of the newly reachable commits (P1)
}

func (so *stepOut) viol(fp, msg string, detail interface{}) {
	for _, v := range so.viols {
		if v.Fingerprint == fp {
			return
		}
	}
	so.viols = append(so.viols, vx.Violation{Fingerprint: fp, Msg: msg, Detail: detail})
}

func clip(s string, n int) string {
	if len(s) > n {
		return s[:n] + "…"
	}
	return s
}

func mapsEqual(a, b map[string]string) bool {
	if len(a) != len(b) {
		return false
	}
	for k, v := range a {
		if b[k] != v {
			return false
		}
	}
	return true
}

func bucket(n int) string {
	if n >= 3 {
		return "3+"
	}
	return fmt.Sprint(n)
}

type need struct {
	Oid    string
	Size   int64
	Path   string
	Commit string
}

// neededBy collects the pointers of the given commits (first occurrence per oid).
func (e *envT) neededBy(w *worker, repo string, commits []string) []need {
	seen := map[string]bool{}
	var r []need
	for _, c := range commits {
		for _, p := range e.pointersOf(w, repo, c) {
			if !seen[p.Oid] {
				seen[p.Oid] = true
				r = append(r, need{p.Oid, p.Size, p.Path, c})
			}
		}
	}
	return r
}

func trackingShas(st *wstate, remote string) []string {
	m := map[string]string{}
	for k, v := range st.LRefs {
		if strings.HasPrefix(k, "refs/remotes/"+remote+"/") {
			m[k] = v
		}
	}
	return vals(m)
}

// strictlyAbsent: not (validly) in the local store, no work-tree file carries its bytes, not on the server of remote ri.
func strictlyAbsent(fileMode bool, st *wstate, ri int, oid string) bool {
	if st.hasValid(oid) {
		return false
	}
	for _, sha := range st.WT {
		if sha == oid {
			return false
		}
	}
	present, _ := st.serverHas(fileMode, ri, oid)
	return !present
}

func labelsOf(ns []need) []string {
	var r []string
	for _, n := range ns {
		r = append(r, labelOf(n.Oid))
	}
	sort.Strings(r)
	return r
}

func short(m map[string]string) map[string]string {
	r := map[string]string{}
	for k, v := range m {
		r[k] = v[:7]
	}
	return r
}

func (e *envT) describe(st *wstate) map[string]interface{} {
	var store []string
	for o, i := range st.Store {
		l := labelOf(o)
		if !i.Valid {
			l += "(truncated)"
		}
		store = append(store, l)
	}
	sort.Strings(store)
	wt := map[string]string{}
	for p, s := range st.WT {
		wt[p] = labelOf(s)
	}
	d := map[string]interface{}{"HEAD": st.Head, "local_refs": short(st.LRefs), "origin_refs": short(st.RRefs[0]), "local_store": store,
		"origin_server": st.serverLabels(e.fileMode, 0), "allowincompletepush": st.AllowInc}
	if len(st.RRefs[1]) > 0 || len(st.Srv[1]) > 0 {
		d["other_refs"] = short(st.RRefs[1])
		d["other_server"] = st.serverLabels(e.fileMode, 1)
	}
	if len(wt) > 0 {
		d["work_tree"] = wt
	}
	return d
}

// step restores preSnap into w, runs o (under server fault `fault`, "" = none) and evaluates the oracle.
func (e *envT) step(w *worker, pre *wstate, preSnap snap, o opDef, fault string, where string) (so stepOut) {
	return e.stepX(w, pre, preSnap, o, fault, nil, where)
}

// stepX is step with an optional fault-sequence controller sq: every answer of the server to a batch / storage PUT /
// verify request is then a choice point of the running execution (see c03_seq_verif_test.go); the fault class handed
// to the oracle is derived from the faulty answers actually given.
func (e *envT) stepX(w *worker, pre *wstate, preSnap snap, o opDef, fault string, sq *seqCtl, where string) (so stepOut) {
	so = stepOut{counters: map[string]int64{}, fault: fault}
	var res gitx.Res
	var enabled bool
	// a command that hits the tool timeout (an overloaded machine stalls processes for minutes) is re-executed from
	// the same pre-state: a transition is a deterministic function of (state, operation, fault)
	attempts := 3
	if sq != nil {
		attempts = 1 // the choice points taken so far belong to this execution: no silent re-execution
	}
	for attempt := 0; attempt < attempts; attempt++ {
		restore(preSnap, w.R)
		w.loadServers(pre, fault)
		if sq != nil {
			w.installSeq(sq)
		}
		t0 := time.Now()
		res, enabled = e.apply(w, pre, o)
		so.opDur = time.Since(t0)
		if !res.TimedOut {
			break
		}
		so.counters["tool_timeouts_retried"]++
	}
	so.enabled, so.res = enabled, res
	if !enabled {
		return so
	}
	if res.TimedOut {
		so.inconcl = "timeout: " + o.Name
		so.post, so.snap = pre, preSnap
		return so
	}
	so.snap = capture(w.R)
	if sq != nil {
		w.fault.set("") // no further answers are scripted
		fault = sq.class()
		so.fault = fault
	}
	srv, puts, batches := w.readServers()
	so.post = digest(so.snap, srv)
	so.puts, so.batches = puts, batches
	if strings.Contains(res.Err, "panic:") || strings.Contains(res.Err, "goroutine 1 [") {
		so.counters["gitlfs_panics"]++
	}
	if !o.Push {
		so.outcome = o.Kind
		return so
	}
	e.oracle(w, pre, o, fault, where, &so)
	return so
}

func (e *envT) oracle(w *worker, pre *wstate, o opDef, fault, where string, so *stepOut) {
	post, res := so.post, so.res
	ri := o.Remote
	rname := remoteNames[ri]
	loc, bare := w.local(), w.bare(ri)
	out := res.Out + res.Err
	class := "plain"
	if fault != "" {
		class = "fault-" + fault
	}
	// faultClass: a fault restricted to one object ("<fault>@<label>") and the fault sequences are also run from worlds in
	// which an object of the pushed range is nowhere and/or incomplete pushes are allowed.  The class of such a case names
	// the ROLE of the faulted object in the pre-state instead of its label, and the two world dimensions:
	//   fault-<fault>@{present-object | object-nowhere | object-outside-the-range}[+other-object-nowhere][+allowincomplete]
	//   fault-seq-ending-in-<answer>[+object-nowhere][+allowincomplete]
	// (the untargeted single-fault probes and the fault sequences from complete worlds keep their class unchanged)
	faultClass := func(rng ...[]need) string {
		base, tgt := splitFault(fault)
		seq := strings.HasPrefix(fault, "seq-")
		if fault == "" || (tgt == "" && !seq) {
			return class
		}
		inRange, nowhereOther := false, false
		for _, ns := range rng {
			for _, n := range ns {
				if n.Oid == tgt {
					inRange = true
				} else if strictlyAbsent(e.fileMode, pre, ri, n.Oid) {
					nowhereOther = true
				}
			}
		}
		cl := "fault-" + base
		switch {
		case seq:
		case !inRange:
			cl += "@object-outside-the-range"
		case strictlyAbsent(e.fileMode, pre, ri, tgt):
			cl += "@object-nowhere"
		default:
			cl += "@present-object"
		}
		if nowhereOther && seq {
			cl += "+object-nowhere"
		} else if nowhereOther {
			cl += "+other-object-nowhere"
		}
		if pre.AllowInc {
			cl += "+allowincomplete"
		}
		return cl
	}
	opk := o.Kind + "-" + o.PushKind
	so.counters["push_transitions"]++
	if res.Code == 0 {
		so.counters["push_exit0"]++
	} else {
		so.counters["push_failed"]++
	}
	if so.batches > 0 {
		so.counters["pushes_where_gitlfs_called_the_batch_api"]++
	}
	detail := func(extra map[string]interface{}) map[string]interface{} {
		d := map[string]interface{}{"where": where, "op": o.Name, "fault": fault, "exit": res.Code, "output": clip(out, 1500), "pre": e.describe(pre), "post": e.describe(post)}
		for k, v := range extra {
			d[k] = v
		}
		return d
	}
	faultTxt := ""
	if fault != "" {
		faultTxt = " [server fault: " + fault + "]"
	}
	exempt := func(oid string) bool { // incomplete pushes explicitly allowed and the object was nowhere to be had
		if !pre.AllowInc || pre.hasValid(oid) {
			return false
		}
		// "on the server" = stored there with the right bytes: a file:// remote in whose store a wrong file already sits
		// under the object's name (scenario filestore) does not have the object
		_, right := pre.serverHas(e.fileMode, ri, oid)
		return !right
	}
	checkOnServer := func(needs []need, what string, staleClass func(n need) string) {
		for _, n := range needs {
			so.evals++
			present, right := post.serverHas(e.fileMode, ri, n.Oid)
			if exempt(n.Oid) {
				so.counters["P1.exempt_allowincompletepush"]++
				continue
			}
			so.counters["P1.objects_checked"]++
			cl := opk + ":" + class
			if (!present || !right) && staleClass != nil && fault == "" {
				if sc := staleClass(n); sc != "" {
					cl = sc // one defect class whatever the form of the push
				}
			}
			if !present {
				so.viol(fmt.Sprintf("C03:object-not-on-server:%s", cl),
					fmt.Sprintf("%s: `%s`%s exited %d; %s, but object %s (%s, referenced by %s in commit %.7s) is not on the LFS server of %s",
						where, o.Name, faultTxt, res.Code, what, labelOf(n.Oid), n.Oid[:12], n.Path, n.Commit, rname),
					detail(map[string]interface{}{"oid": n.Oid, "path": n.Path, "commit": n.Commit}))
			} else if !right {
				so.viol(fmt.Sprintf("C03:wrong-bytes-on-server:%s", cl),
					fmt.Sprintf("%s: `%s`%s exited %d; %s, but the LFS server of %s stores bytes under %s (%s) that do not hash to it",
						where, o.Name, faultTxt, res.Code, what, rname, labelOf(n.Oid), n.Oid[:12]),
					detail(map[string]interface{}{"oid": n.Oid, "path": n.Path, "commit": n.Commit}))
			}
		}
	}

	preRefs, postRefs := pre.RRefs[ri], post.RRefs[ri]
	changed := !mapsEqual(preRefs, postRefs)
	// staleClass: is the object referenced by a commit that the local clone believes to be on the remote (reachable from a
	// remote-tracking ref of this remote)?  Then git-lfs filtered it out on the strength of that (possibly stale) ref:
	// was the branch deleted on the remote in the meantime, or does it still exist there (moved)?
	pfx := "refs/remotes/" + rname + "/"
	staleClass := func(oid string) string {
		cl := ""
		for _, k := range sortedKeys(pre.LRefs) {
			if !strings.HasPrefix(k, pfx) || !e.closureOids(w, loc, pre.LRefs[k])[oid] {
				continue
			}
			if _, still := preRefs["refs/heads/"+k[len(pfx):]]; still {
				return "stale-tracking-ref-of-branch-moved-on-remote"
			}
			cl = "stale-tracking-ref-of-branch-deleted-on-remote"
		}
		if cl != "" {
			// finding 1 needs that no cached branch of this remote survives; anything else is a different defect
			for _, k := range sortedKeys(pre.LRefs) {
				if strings.HasPrefix(k, pfx) {
					if _, still := preRefs["refs/heads/"+k[len(pfx):]]; still {
						return cl + ":although-another-cached-branch-remains"
					}
				}
			}
		}
		return cl
	}
	var needs, want []need
	trigger := false

	if o.Kind == "gitpush" {
		// P1: every pointer of every commit that became reachable on the remote through this push is on the server
		var newCommits []string
		if changed {
			newCommits = w.revList(bare, "", vals(postRefs), vals(preRefs))
		}
		needs = e.neededBy(w, bare, newCommits)
		if len(newCommits) > 0 {
			so.counters["P1.pushes_with_new_commits_on_remote"]++
		}

		// P2: an object needed by the pushed range that is nowhere => the push fails and no ref is updated
		var attempted []string
		for _, lr := range sortedKeys(pre.LRefs) {
			sha := pre.LRefs[lr]
			isHead, isTag := strings.HasPrefix(lr, "refs/heads/"), strings.HasPrefix(lr, "refs/tags/")
			sel := false
			switch o.PushKind {
			case "cur", "force":
				sel = lr == "refs/heads/"+pre.Head
			case "all":
				sel = isHead
			case "tags":
				sel = isTag
			case "refs":
				sel = lr == resolveRef(pre, o.Refs[0]) || lr == resolveRef(pre, o.Refs[1])
			}
			if !sel {
				continue
			}
			old, exists := preRefs[lr]
			switch {
			case exists && old == sha: // up to date
			case exists && isTag: // git rejects moving a tag
			case exists && o.PushKind != "force" && !(w.hasObject(loc, old) && e.isAncestor(w, loc, old, sha)): // non-fast-forward: rejected before the hook
			default:
				attempted = append(attempted, sha)
			}
		}
		if len(attempted) > 0 {
			cs := w.revList(loc, filepath.Join(bare, "objects"), attempted, vals(preRefs))
			want = e.neededBy(w, loc, cs)
		}
		class = faultClass(want, needs)
		checkOnServer(needs, fmt.Sprintf("%d commit(s) became reachable on %s", len(newCommits), rname), func(n need) string { return staleClass(n.Oid) })
	} else {
		// git lfs push: documented selection (git-lfs-push(1)): <ref> minus what the local clone knows the remote to have;
		// --all: everything reachable from all local branches and tags; --object-id: the named objects.
		switch o.PushKind {
		case "lfs-cur", "lfs-refs":
			inc := []string{pre.LRefs["refs/heads/"+pre.Head]}
			if o.PushKind == "lfs-refs" {
				inc = []string{pre.LRefs[resolveRef(pre, o.Refs[0])], pre.LRefs[resolveRef(pre, o.Refs[1])]}
			}
			cs := w.revList(loc, "", inc, trackingShas(pre, rname))
			for _, n := range e.neededBy(w, loc, cs) {
				known := false // "filters out objects that are already referenced by the local clone of the remote"
				for _, t := range trackingShas(pre, rname) {
					known = known || e.closureOids(w, loc, t)[n.Oid]
				}
				if !known {
					want = append(want, n)
				}
			}
		case "lfs-all":
			m := map[string]string{}
			for k, v := range pre.LRefs {
				if strings.HasPrefix(k, "refs/heads/") || strings.HasPrefix(k, "refs/tags/") {
					m[k] = v
				}
			}
			want = e.neededBy(w, loc, w.revList(loc, "", vals(m), nil))
		case "lfs-oid":
			want = []need{{Oid: objOid[o.Label], Size: int64(len(objContent[o.Label])), Path: "(--object-id)", Commit: "-------"}}
		}
		class = faultClass(want)
		if changed {
			so.viol("C03:lfs-push-changed-remote-refs", fmt.Sprintf("%s: `%s` changed the refs of %s", where, o.Name, rname), detail(nil))
		}
		if res.Code == 0 {
			needs = want
			checkOnServer(want, "it selects this object by its documented rule", nil)
		}
	}
	var absent []need
	for _, n := range want {
		if strictlyAbsent(e.fileMode, pre, ri, n.Oid) {
			absent = append(absent, n)
		}
	}
	if len(absent) > 0 {
		trigger = true
		if pre.AllowInc {
			so.counters["P2.not_demanded_allowincompletepush"]++
		} else {
			so.evals++
			so.counters["P2.missing_object_push_must_fail"]++
			n := absent[0]
			for _, a := range absent { // prefer an object whose absence is not explained by a stale tracking ref
				if o.Kind != "gitpush" || staleClass(a.Oid) == "" {
					n = a
					break
				}
			}
			if sc := ""; o.Kind == "gitpush" && fault == "" {
				sc = staleClass(n.Oid)
				if sc != "" && (res.Code == 0 || changed) {
					// same defect as the P1 report of this very transition (the object was filtered out because of the stale
					// ref, so git-lfs never noticed that it is nowhere): one defect class, one fingerprint
					so.counters["P2.violation_subsumed_by_stale_tracking_ref_class"]++
					so.viol("C03:object-not-on-server:"+sc,
						fmt.Sprintf("%s: `%s` exited %d (refs of %s changed: %v) although object %s (%s, %s) needed by the pushed range is absent locally and on the server; it is referenced by a commit reachable from a stale remote-tracking ref",
							where, o.Name, res.Code, rname, changed, labelOf(n.Oid), n.Oid[:12], n.Path), detail(map[string]interface{}{"oid": n.Oid}))
					goto p2done
				}
			}
			if res.Code == 0 {
				so.viol(fmt.Sprintf("C03:missing-object-push-succeeded:%s:%s", opk, class),
					fmt.Sprintf("%s: `%s`%s exited 0 although object %s (%s, %s) needed by the pushed range is absent locally and on the server of %s and lfs.allowincompletepush is not set",
						where, o.Name, faultTxt, labelOf(n.Oid), n.Oid[:12], n.Path, rname), detail(map[string]interface{}{"oid": n.Oid}))
			}
			if changed {
				so.viol(fmt.Sprintf("C03:missing-object-refs-updated:%s:%s", opk, class),
					fmt.Sprintf("%s: `%s`%s updated refs of %s although object %s (%s, %s) needed by the pushed range is absent locally and on the server and lfs.allowincompletepush is not set",
						where, o.Name, faultTxt, rname, labelOf(n.Oid), n.Oid[:12], n.Path), detail(map[string]interface{}{"oid": n.Oid}))
			}
		}
	}
p2done:
	if fault != "" {
		so.counters["fault_probe."+fault]++
		if class != "fault-"+fault {
			so.counters["fault_class."+strings.TrimPrefix(class, "fault-")]++
		}
	}

	ex := "0"
	if res.Code != 0 {
		ex = "fail"
	}
	flags := ""
	if changed {
		flags += " refs-changed"
	}
	if trigger {
		flags += " object-nowhere"
	}
	if pre.AllowInc {
		flags += " allowincomplete"
	}
	if strings.Contains(out, "(missing)") {
		flags += " reported-missing"
	}
	if strings.Contains(out, "(corrupt)") {
		flags += " reported-corrupt"
	}
	if strings.Contains(out, "non-fast-forward") || strings.Contains(out, "[rejected]") {
		flags += " git-rejected"
	}
	if fault != "" {
		flags += " fault=" + fault
	}
	so.outcome = fmt.Sprintf("%s exit=%s needed=%s uploaded=%s%s", opk, ex, bucket(len(needs)), bucket(so.puts), flags)
	so.nontriv = len(needs) > 0 || len(want) > 0 || so.puts > 0
	so.rng = map[string]bool{}
	for _, ns := range [][]need{needs, want} {
		for _, n := range ns {
			so.rng[n.Oid] = true
		}
	}
	so.sample = map[string]interface{}{"needed_objects": labelsOf(needs), "range_objects": labelsOf(want), "uploaded": so.puts, "batch_requests": so.batches}
}

func (w *worker) hasObject(repo, sha string) bool {
	r := w.Git(repo, "cat-file", "-e", sha)
	return r.Code == 0 && !r.TimedOut
}

// ---------------------------------------------------------------------------------------------------------
// scenarios

type initState struct {
	Desc string
	Snap snap
	St   *wstate
}

type scenario struct {
	Name       string
	FileMode   bool
	Inits      []initState
	Ops        []opDef
	Depth      int // sequences of up to Depth operations; at the last position only push operations are run
	FaultDepth int // fault probes on faultable pushes at positions < FaultDepth
	Faults     []string
	Weight     int // share of the time budget (only matters when the machine is too loaded to finish)
	// ProbeAll: the fault probes are run on every faultable push, also when the fault-free run uploaded nothing (a push
	// that git-lfs aborts because of a missing object makes no PUT, but a fault can still change what it does)
	ProbeAll bool
}

func (p *scenario) points(init int, path []int, fault int) []vx.Point {
	pts := []vx.Point{{K: vx.Input, N: len(p.Inits), C: init}}
	for i, o := range path {
		pts = append(pts, vx.Point{K: vx.Input, N: len(p.Ops) + 1, C: o + 1})
		if p.Ops[o].Faultable {
			f := 0
			if i == len(path)-1 {
				f = fault
			}
			pts = append(pts, vx.Point{K: vx.Env, N: len(p.Faults) + 1, C: f})
		}
	}
	return pts
}

func (p *scenario) where(init int, path []int) string {
	var names []string
	for _, o := range path {
		names = append(names, p.Ops[o].Name)
	}
	return fmt.Sprintf("[%s] from {%s} after [%s]", p.Name, p.Inits[init].Desc, strings.Join(names, "; "))
}

func (e *envT) toResult(p *scenario, init int, path []int, faultIdx int, pre *wstate, so *stepOut) vx.Result {
	o := p.Ops[path[len(path)-1]]
	r := vx.Result{Points: p.points(init, path, faultIdx), Outcome: so.outcome, Evals: so.evals, Transitions: 1,
		States: []uint64{pre.Key, so.post.Key}, Violations: so.viols, Inconcl: so.inconcl, Counters: so.counters}
	if r.Evals == 0 {
		r.Evals = 1
	}
	if so.nontriv {
		r.NonTrivial = []string{fmt.Sprintf("%016x|%s|%s", pre.Key, o.Name, so.fault)}
	}
	if o.Push {
		var names []string
		for _, i := range path {
			names = append(names, p.Ops[i].Name)
		}
		s := map[string]interface{}{"scenario": p.Name, "initial_state": p.Inits[init].Desc, "operations": names, "exit_of_last": so.res.Code,
			"outcome": so.outcome, "state_after": e.describe(so.post)}
		if so.fault != "" {
			s["server_fault_during_last"] = so.fault
		}
		for k, v := range so.sample {
			s[k] = v
		}
		r.Sample = s
	}
	return r
}

// ---------------------------------------------------------------------------------------------------------
// BFS

type node struct {
	snap snap
	st   *wstate
	init int
	path []int
}

type bfsInfo struct {
	Scenario             string           `json:"scenario"`
	Transport            string           `json:"transport"`
	Initial              int              `json:"initial_states"`
	Ops                  int              `json:"operations"`
	States               int              `json:"states"`
	Transitions          int64            `json:"bfs_edges"`
	PushTransitions      int64            `json:"push_transitions_evaluated"`
	FaultProbes          int64            `json:"fault_probes"`
	Levels               int              `json:"levels_expanded"`
	MaxDepth             int              `json:"depth_bound"`
	Closure              bool             `json:"closure_reached"`
	StatesPerLevel       []int            `json:"new_states_per_level"`
	WallS                float64          `json:"wall_s"`
	ViolatingTransitions map[string]int64 `json:"violating_transitions_by_fingerprint,omitempty"`
	Inconclusive         []string         `json:"inconclusive_transitions,omitempty"`
	Slowest              []string         `json:"slowest_operations,omitempty"`
	slow                 []slowT
}

type slowT struct {
	d time.Duration
	s string
}

func pointChoices(p []vx.Point) []int {
	r := make([]int, len(p))
	for i, x := range p {
		r[i] = x.C
	}
	return r
}

type taskRes struct {
	ok     bool
	main   stepOut
	probes []stepOut // index-aligned with scenario.Faults (only when run)
}

func (e *envT) bfs(p *scenario, deadline time.Time) (*vx.Stats, bfsInfo) {
	t0 := time.Now()
	e.fileMode = p.FileMode
	st := vx.NewStats()
	info := bfsInfo{Scenario: p.Name, Initial: len(p.Inits), Ops: len(p.Ops), MaxDepth: p.Depth, Transport: "http (fake LFS server per remote)"}
	if p.FileMode {
		info.Transport = "file:// remote, standalone file transfer"
	}
	seen := map[uint64]bool{}
	dumping := os.Getenv("VERIF_C03_DUMP") != ""
	discovered := map[uint64]string{}
	fpCount := map[string]int{}
	violTotal := map[string]int64{}
	var frontier []node
	for i, is := range p.Inits {
		if !seen[is.St.Key] {
			seen[is.St.Key] = true
			frontier = append(frontier, node{snap: is.Snap, st: is.St, init: i})
		}
	}
	info.StatesPerLevel = append(info.StatesPerLevel, len(frontier))
	type task struct{ ni, oi int }
	workers := cap(e.pool)
	for depth := 0; len(frontier) > 0 && depth < p.Depth; depth++ {
		if time.Now().After(deadline) {
			st.Exhaustive = false
			st.CapHit = fmt.Sprintf("deadline before level %d (%d frontier states unexpanded)", depth+1, len(frontier))
			break
		}
		last := depth == p.Depth-1
		results := make([][]taskRes, len(frontier))
		for i := range results {
			results[i] = make([]taskRes, len(p.Ops))
		}
		ch := make(chan task, 256)
		var wg sync.WaitGroup
		var skipped int64
		var skMu sync.Mutex
		for wi := 0; wi < workers; wi++ {
			wg.Add(1)
			go func() {
				defer wg.Done()
				w := <-e.pool
				defer func() { e.pool <- w }()
				for t := range ch {
					if time.Now().After(deadline) {
						skMu.Lock()
						skipped++
						skMu.Unlock()
						continue
					}
					n := frontier[t.ni]
					o := p.Ops[t.oi]
					path := append(append([]int(nil), n.path...), t.oi)
					func() {
						defer func() {
							if r := recover(); r != nil {
								res := vx.Result{Points: p.points(n.init, path, 0), ToolErr: fmt.Sprintf("harness panic in %s then `%s`: %v", p.where(n.init, n.path), o.Name, r)}
								st.Absorb(nil, &res, 0)
								results[t.ni][t.oi] = taskRes{}
							}
						}()
						where := p.where(n.init, n.path)
						tr := taskRes{ok: true}
						tr.main = e.step(w, n.st, n.snap, o, "", where)
						if tr.main.enabled && o.Faultable && depth < p.FaultDepth && (tr.main.puts > 0 || p.ProbeAll) && tr.main.inconcl == "" {
							for _, f := range p.Faults {
								if _, tgt := splitFault(f); tgt != "" && !tr.main.rng[tgt] {
									// a fault restricted to an object that is neither in the pushed range nor referenced by the
									// commits the fault-free run made reachable: the server never answers a request about it
									tr.main.counters["fault_probes_not_run.object_outside_the_range_of_the_push"]++
									tr.probes = append(tr.probes, stepOut{})
									continue
								}
								pr := e.step(w, n.st, n.snap, o, f, where)
								pr.snap = nil
								tr.probes = append(tr.probes, pr)
							}
						}
						if last {
							tr.main.snap = nil
						}
						results[t.ni][t.oi] = tr
					}()
				}
			}()
		}
		for ni := range frontier {
			for oi := range p.Ops {
				if last && !p.Ops[oi].Push {
					results[ni][oi] = taskRes{ok: true}
					continue
				}
				ch <- task{ni, oi}
			}
		}
		close(ch)
		wg.Wait()
		var next []node
		incomplete := skipped > 0
		absorb := func(r *vx.Result) {
			kept := r.Violations[:0:0]
			for _, v := range r.Violations {
				if fpCount[v.Fingerprint] < 3 {
					fpCount[v.Fingerprint]++
					kept = append(kept, v)
				}
				violTotal[v.Fingerprint]++
			}
			r.Violations = kept
			st.Absorb(nil, r, 0)
		}
		for ni := range frontier {
			n := frontier[ni]
			for oi := range p.Ops {
				d := results[ni][oi]
				if !d.ok {
					incomplete = true
					continue
				}
				if !d.main.enabled {
					continue
				}
				path := append(append([]int(nil), n.path...), oi)
				r := e.toResult(p, n.init, path, 0, n.st, &d.main)
				absorb(&r)
				info.Transitions++
				if len(info.slow) < 3 || d.main.opDur > info.slow[len(info.slow)-1].d {
					info.slow = append(info.slow, slowT{d.main.opDur, fmt.Sprintf("%.1fs exit=%d %s then `%s`", d.main.opDur.Seconds(), d.main.res.Code, p.where(n.init, n.path), p.Ops[oi].Name)})
					sort.Slice(info.slow, func(i, j int) bool { return info.slow[i].d > info.slow[j].d })
					if len(info.slow) > 3 {
						info.slow = info.slow[:3]
					}
				}
				if p.Ops[oi].Push {
					info.PushTransitions++
				}
				for fi := range d.probes {
					pr := &d.probes[fi]
					if pr.inconcl == "" && pr.post == nil {
						continue
					}
					rr := e.toResult(p, n.init, path, fi+1, n.st, pr)
					absorb(&rr)
					info.Transitions++
					info.PushTransitions++
					info.FaultProbes++
				}
				if d.main.inconcl != "" {
					if info.Inconclusive = append(info.Inconclusive, p.where(n.init, n.path)+" then `"+p.Ops[oi].Name+"`: "+d.main.inconcl); len(info.Inconclusive) <= 5 {
						fmt.Printf("INCONCLUSIVE %s\n   choices=%v\n", info.Inconclusive[len(info.Inconclusive)-1], pointChoices(p.points(n.init, path, 0)))
					}
					st.Exhaustive = false
					if st.CapHit == "" {
						st.CapHit = "a tool timeout left a transition inconclusive (its successor was not expanded)"
					}
					continue
				}
				if !seen[d.main.post.Key] {
					seen[d.main.post.Key] = true
					if dumping {
						discovered[d.main.post.Key] = fmt.Sprintf("exit=%d %s then `%s` => %v", d.main.res.Code, p.where(n.init, n.path), p.Ops[oi].Name, e.describe(d.main.post))
					}
					if !last {
						next = append(next, node{snap: d.main.snap, st: d.main.post, init: n.init, path: path})
					}
				}
			}
			frontier[ni].snap = nil
		}
		info.Levels = depth + 1
		info.StatesPerLevel = append(info.StatesPerLevel, len(seen))
		frontier = next
		if incomplete {
			st.Exhaustive = false
			if st.CapHit == "" {
				st.CapHit = fmt.Sprintf("deadline or tool error inside level %d", depth+1)
			}
			break
		}
	}
	// new-states-per-level from the cumulative counts
	for i := len(info.StatesPerLevel) - 1; i > 0; i-- {
		info.StatesPerLevel[i] -= info.StatesPerLevel[i-1]
	}
	for _, x := range info.slow {
		info.Slowest = append(info.Slowest, x.s)
	}
	if dir := os.Getenv("VERIF_C03_DUMP"); dir != "" {
		var lines []string
		for k, v := range discovered {
			lines = append(lines, fmt.Sprintf("%016x\t%s", k, v))
		}
		sort.Strings(lines)
		os.MkdirAll(dir, 0755)
		os.WriteFile(filepath.Join(dir, p.Name+".states"), []byte(strings.Join(lines, "\n")+"\n"), 0644)
	}
	info.States = len(seen)
	info.ViolatingTransitions = violTotal
	info.Closure = len(frontier) == 0 && st.Exhaustive && info.Levels < p.Depth
	info.WallS = time.Since(t0).Seconds()
	return st, info
}

// replayRun re-executes exactly one case (initial state, operation sequence, optional fault on the last push).
func (e *envT) replayRun(p *scenario) vx.RunFunc {
	return func(x *vx.X) vx.Result {
		e.fileMode = p.FileMode
		i := x.In(len(p.Inits))
		w := <-e.pool
		defer func() { e.pool <- w }()
		cur, st := p.Inits[i].Snap, p.Inits[i].St
		agg := vx.Result{Counters: map[string]int64{}, States: []uint64{st.Key}}
		var path []int
		for {
			c := x.In(len(p.Ops) + 1)
			if c == 0 {
				break
			}
			o := p.Ops[c-1]
			f := 0
			if o.Faultable {
				f = x.EnvC(len(p.Faults) + 1)
			}
			fault := ""
			if f > 0 {
				fault = p.Faults[f-1]
			}
			so := e.step(w, st, cur, o, fault, p.where(i, path))
			path = append(path, c-1)
			if !so.enabled {
				agg.ToolErr = fmt.Sprintf("replay: operation `%s` is not applicable in %s", o.Name, p.where(i, path[:len(path)-1]))
				break
			}
			r := e.toResult(p, i, path, f, st, &so)
			agg.Outcome = r.Outcome
			agg.Evals += r.Evals
			agg.Transitions += r.Transitions
			agg.States = append(agg.States, so.post.Key)
			agg.NonTrivial = append(agg.NonTrivial, r.NonTrivial...)
			if r.Sample != nil {
				agg.Sample = r.Sample
			}
			agg.Violations = append(agg.Violations, so.viols...)
			for k, v := range so.counters {
				agg.Counters[k] += v
			}
			if so.inconcl != "" {
				agg.Inconcl = so.inconcl
				break
			}
			if fault != "" {
				break // a fault probe is terminal
			}
			cur, st = so.snap, so.post
		}
		return agg
	}
}

// ---------------------------------------------------------------------------------------------------------
// environment construction

const globalCfg = "[filter \"lfs\"]\n\tclean = git-lfs clean -- %f\n\tsmudge = git-lfs smudge -- %f\n\tprocess = git-lfs filter-process\n\trequired = true\n" +
	"[user]\n\tname = V\n\temail = v@example.com\n[init]\n\tdefaultBranch = main\n[protocol \"file\"]\n\tallow = always\n[advice]\n\tdetachedHead = false\n\tpushUpdateRejected = false\n" +
	"[gc]\n\tauto = 0\n[core]\n\tlogAllRefUpdates = false\n[receive]\n\tautogc = false\n" +
	"[lfs]\n\tlocksverify = false\n[lfs \"transfer\"]\n\tmaxretries = 2\n\tmaxretrydelay = 1\n"

func newEnv(c *vx.Check) *envT {
	scratch := os.Getenv("VERIF_SCRATCH")
	if scratch == "" {
		scratch = os.TempDir()
	}
	if r, err := filepath.EvalSymlinks(scratch); err == nil {
		scratch = r
	}
	bin := os.Getenv("VERIF_GITLFS")
	if bin == "" {
		panic(vx.ToolError{Msg: "VERIF_GITLFS not set (prop.json needs gitlfs)"})
	}
	e := &envT{scratch: filepath.Join(scratch, "c03"), thorough: c.Thorough(), blobSha: map[string]string{}, shaForm: map[string]string{},
		initSc: map[bool]*scenario{}, initStats: map[bool]*vx.Stats{}, initSeen: map[string]bool{}, initMemo: map[string]initState{}}
	e.binDir = filepath.Join(e.scratch, "bin")
	for _, d := range []string{e.binDir, filepath.Join(e.scratch, "tmp"), filepath.Join(e.scratch, "tmpl")} {
		if err := os.MkdirAll(d, 0755); err != nil {
			panic(vx.ToolError{Msg: err.Error()})
		}
	}
	if err := os.Symlink(bin, filepath.Join(e.binDir, "git-lfs")); err != nil {
		panic(vx.ToolError{Msg: err.Error()})
	}
	initContents()
	n := runtime.NumCPU()
	if n > 16 {
		n = 16
	}
	if n < 2 {
		n = 2
	}
	if s := os.Getenv("VERIF_WORKERS"); s != "" {
		fmt.Sscan(s, &n)
	}
	e.pool = make(chan *worker, n)
	for i := 0; i < n; i++ {
		e.pool <- e.newWorker(fmt.Sprintf("w%02d", i))
	}
	// the fault-sequence executions spend most of their time waiting (Retry-After, back-off of the client): they get their
	// own, larger set of worker worlds (HTTP transport only)
	e.seqPool = make(chan *worker, 2*n)
	for i := 0; i < 2*n; i++ {
		e.seqPool <- e.newWorker(fmt.Sprintf("s%02d", i))
	}
	return e
}

func (e *envT) newWorker(name string) *worker {
	root := filepath.Join(e.scratch, name)
	home := filepath.Join(root, "home")
	os.MkdirAll(home, 0755)
	if err := os.WriteFile(filepath.Join(home, ".gitconfig"), []byte(globalCfg), 0644); err != nil {
		panic(vx.ToolError{Msg: err.Error()})
	}
	fc := &faultCtl{putSeen: map[string]int{}}
	w := &worker{World: &gitx.World{Root: root, Home: home, BinDir: e.binDir}, R: filepath.Join(root, "r"), fault: fc}
	w.srv[0], w.srv[1] = newServer(fc), newServer(fc)
	// the LFS endpoints are worker specific (ports): passed through the environment, never stored in a snapshot
	w.Extra = []string{"TMPDIR=" + filepath.Join(e.scratch, "tmp"), "GIT_CEILING_DIRECTORIES=" + root,
		"GIT_CONFIG_COUNT=2",
		"GIT_CONFIG_KEY_0=remote.origin.lfsurl", "GIT_CONFIG_VALUE_0=" + w.srv[0].URL + "/origin",
		"GIT_CONFIG_KEY_1=remote.other.lfsurl", "GIT_CONFIG_VALUE_1=" + w.srv[1].URL + "/other"}
	return w
}

// fileEnv returns the environment entries for the file:// transport (no LFS URL configured at all).
func (w *worker) setTransport(fileMode bool) {
	var ex []string
	for _, kv := range w.Extra {
		if strings.HasPrefix(kv, "GIT_CONFIG_") {
			continue
		}
		ex = append(ex, kv)
	}
	if !fileMode {
		ex = append(ex, "GIT_CONFIG_COUNT=2",
			"GIT_CONFIG_KEY_0=remote.origin.lfsurl", "GIT_CONFIG_VALUE_0="+w.srv[0].URL+"/origin",
			"GIT_CONFIG_KEY_1=remote.other.lfsurl", "GIT_CONFIG_VALUE_1="+w.srv[1].URL+"/other")
	}
	w.Extra = ex
}

func (e *envT) eachWorker(f func(w *worker)) {
	var ws []*worker
	for i := 0; i < cap(e.pool); i++ {
		ws = append(ws, <-e.pool)
	}
	for _, w := range ws {
		f(w)
		e.pool <- w
	}
}

// buildBase creates the empty world with the real tools and learns the git blob ids of all blob forms.
func (e *envT) buildBase(fileMode bool) snap {
	w := <-e.pool
	defer func() { e.pool <- w }()
	os.RemoveAll(w.R)
	tmpl := filepath.Join(e.scratch, "tmpl")
	loc := w.local()
	os.MkdirAll(loc, 0755)
	w.git(loc, "init", "-q", "--template="+tmpl, "-b", "main")
	for i := range remoteNames {
		os.MkdirAll(w.bare(i), 0755)
		w.git(w.bare(i), "init", "-q", "--bare", "--template="+tmpl, "-b", "main")
		url := w.bare(i)
		if fileMode {
			url = "file://" + url
		}
		w.git(loc, "remote", "add", remoteNames[i], url)
	}
	// hooks: installed by the binary under test
	must(w.Git(loc, "lfs", "update"), "git lfs update")
	if b, err := os.ReadFile(filepath.Join(loc, ".git", "hooks", "pre-push")); err != nil || !strings.Contains(string(b), "git lfs pre-push") {
		panic(vx.ToolError{Msg: "selfcheck: `git lfs update` did not install a pre-push hook that runs `git lfs pre-push`"})
	}
	if len(e.blobSha) == 0 {
		for f, b := range blobForms {
			sha := strings.TrimSpace(w.gitIn(loc, string(b), "hash-object", "--stdin"))
			e.blobSha[f] = sha
			e.shaForm[sha] = f
		}
	}
	return capture(w.R)
}

// selfCheck: the harness's pointer texts are what the real clean filter writes; the 1023-byte pointer is a pointer
// for git-lfs; ref parsing from snapshots agrees with git.
func (e *envT) selfCheck(base snap) string {
	w := <-e.pool
	defer func() { e.pool <- w }()
	restore(base, w.R)
	loc := w.local()
	for _, l := range []string{"A1", "A2"} {
		r := w.RunIn(loc, objContent[l], nil, "git", "lfs", "clean", "--", "x.bin")
		if !r.OK() || r.Out != string(blobForms["p:"+l]) {
			return fmt.Sprintf("selfcheck: `git lfs clean` of %s gives %q, harness pointer is %q", l, r.Out, blobForms["p:"+l])
		}
	}
	if o, s, ok := parsePointer(blobForms["x:E1"]); !ok || o != objOid["E1"] || s != int64(len(objContent["E1"])) || len(blobForms["x:E1"]) != 1023 {
		return "selfcheck: the harness's 1023-byte extension pointer does not satisfy its own spec decoder"
	}
	pf := filepath.Join(e.scratch, "tmp", "extptr")
	os.WriteFile(pf, blobForms["x:E1"], 0644)
	r := w.Git(loc, "lfs", "pointer", "--check", "--file", pf)
	if !r.OK() {
		return "selfcheck: `git lfs pointer --check` rejects the 1023-byte extension pointer: " + r.String()
	}
	for _, bad := range [][]byte{blobForms["r:A2"], blobForms["t:1"], append(append([]byte{}, blobForms["p:A1"]...), '\n')} {
		if _, _, ok := parsePointer(bad); ok {
			return "selfcheck: spec decoder accepts a non-pointer"
		}
	}
	return ""
}

func (e *envT) checkRefs(w *worker, st *wstate) string {
	cmp := func(repo string, got map[string]string) string {
		out := w.git(repo, "for-each-ref", "--format=%(refname) %(objectname)")
		want := map[string]string{}
		for _, ln := range strings.Split(strings.TrimSpace(out), "\n") {
			if f := strings.Fields(ln); len(f) == 2 {
				want[f[0]] = f[1]
			}
		}
		if !mapsEqual(got, want) {
			return fmt.Sprintf("selfcheck: refs parsed from the snapshot of %s (%v) differ from git for-each-ref (%v)", repo, got, want)
		}
		return ""
	}
	if m := cmp(w.local(), st.LRefs); m != "" {
		return m
	}
	for i := range remoteNames {
		if m := cmp(w.bare(i), st.RRefs[i]); m != "" {
			return m
		}
	}
	return ""
}

// mkInits builds the initial states by running operation sequences (named) from the base world.  The steps are
// ordinary transitions: they are evaluated by the oracle and recorded under the pseudo-scenario "inits".
func (e *envT) mkInits(p *scenario, base snap, defs [][2]string) {
	e.fileMode = p.FileMode
	w := <-e.pool
	defer func() { e.pool <- w }()
	all := append(append(append(localOps(true, true), remoteOps(0, true, true)...), remoteOps(1, true, true)...), extraInitOps()...)
	byName := map[string]int{}
	for i, o := range all {
		byName[o.Name] = i
	}
	// root commit c0 on main
	restore(base, w.R)
	tree := map[string]string{".gitattributes": "attr", "a.bin": "p:A1", "c.txt": "t:1", "e.bin": "x:E1"}
	c0 := e.makeCommit(w, w.local(), tree, nil)
	w.ensureLocalObjects(tree)
	w.git(w.local(), "update-ref", "refs/heads/main", c0)
	s0 := capture(w.R)
	empty := [2]map[string]string{{}, {}}
	st0 := digest(s0, empty)
	isc := e.initSc[p.FileMode]
	if isc == nil {
		name := "inits"
		if p.FileMode {
			name = "inits-file"
		}
		isc = &scenario{Name: name, FileMode: p.FileMode, Ops: all, Inits: []initState{{Desc: initUnpushed[0], Snap: s0, St: st0}}}
		e.initSc[p.FileMode] = isc
		e.initStats[p.FileMode] = vx.NewStats()
	}
	for _, d := range defs {
		cur, st := s0, st0
		var path []int
		if d[1] != "" {
			memoKey := fmt.Sprintf("%v", p.FileMode)
			for _, name := range strings.Split(d[1], "; ") {
				oi, ok := byName[name]
				if !ok {
					panic(vx.ToolError{Msg: "mkInits: unknown operation " + name})
				}
				// a prefix that was already executed (and evaluated) for another initial state is not executed again: a
				// transition is a deterministic function of (state, operation)
				memoKey += "; " + name
				if m, ok := e.initMemo[memoKey]; ok {
					path = append(path, oi)
					cur, st = m.Snap, m.St
					continue
				}
				so := e.step(w, st, cur, all[oi], "", isc.where(0, path))
				path = append(path, oi)
				if so.enabled && so.res.OK() {
					e.initMemo[memoKey] = initState{Snap: so.snap, St: so.post}
				}
				if !so.enabled || !so.res.OK() {
					panic(vx.ToolError{Msg: fmt.Sprintf("mkInits: `%s` failed while building initial state %s: enabled=%v %s", name, d[0], so.enabled, so.res)})
				}
				if key := fmt.Sprintf("%016x|%d", st.Key, oi); !e.initSeen[key] {
					e.initSeen[key] = true
					r := e.toResult(isc, 0, path, 0, st, &so)
					e.initStats[p.FileMode].Absorb(nil, &r, 0)
				}
				cur, st = so.snap, so.post
			}
		}
		p.Inits = append(p.Inits, initState{Desc: d[0], Snap: cur, St: st})
	}
	restore(p.Inits[len(p.Inits)-1].Snap, w.R)
	if m := e.checkRefs(w, p.Inits[len(p.Inits)-1].St); m != "" {
		panic(vx.ToolError{Msg: m})
	}
}

var (
	initUnpushed = [2]string{"main=c0{a.bin->A1, e.bin->E1 (1023-byte pointer), c.txt}, nothing pushed", ""}
	initSynced   = [2]string{"main=c0 pushed to origin (objects A1,E1 on its server)", "git push origin <cur>"}
	initDiverged = [2]string{"c0 pushed; local main=c0+{a.bin->A2}, local f=c0+{b.bin->B1}, HEAD=main",
		"git push origin <cur>; branch f; commit a.bin=A2; checkout f; commit b.bin=B1; checkout main"}
	initThree = [2]string{"c0 pushed; local main=c0+{a.bin->A2}, f=c0+{b.bin->B1}, orphan o={a.bin->A2}, HEAD=main",
		"git push origin <cur>; branch f; commit a.bin=A2; checkout f; commit b.bin=B1; orphan branch o; checkout main"}
	initTwoBranches = [2]string{"main=c0+{a.bin->A2} and f=c0+{b.bin->B1} both pushed to origin, HEAD=main",
		"branch f; commit a.bin=A2; checkout f; commit b.bin=B1; checkout main; git push origin --all"}
)

// mkIncomplete: scenario "incomplete" = the single-fault probes crossed with the two world dimensions that decide what
// `lfs.allowincompletepush` may excuse.  Initial worlds = {history shape} x {lfs.allowincompletepush false, true} x
// {no object of the range missing, one of the two new objects deleted from the local store (thorough: or truncated)};
// the two new objects A2 and B1 are absent on the server.  Depth 1: every push form of the alphabet (one ref, two refs in
// one invocation, --all; pre-push hook and `git lfs push`) is run from every world, fault-free and under every fault of
// the list restricted to ONE object (`<fault>@A2`, `<fault>@B1`): the fault hits the object that is nowhere, or the other,
// present, object, or (one-ref pushes of the two-branch world) an object outside the pushed range.
func (e *envT) mkIncomplete(base snap) *scenario {
	bases := []string{"put-500", "batch-objerr", "verify-fail"}
	pushes := []string{"git push origin <cur>", "git lfs push origin <cur>", "git push origin main f", "git lfs push origin main f"}
	worlds := [][2]string{
		{"c0 pushed; local main=c0+{a.bin->A2}+{b.bin->B1} (two commits, one ref)", "git push origin <cur>; commit a.bin=A2; commit b.bin=B1"},
		initDiverged,
	}
	missing := [][2]string{{"", ""}, {"A2 deleted from the local store", "rm-object A2"}, {"B1 deleted from the local store", "rm-object B1"}}
	if e.thorough {
		bases = []string{"put-500", "put-500-once", "put-422", "batch-objerr", "verify-fail"}
		pushes = append(pushes, "git push origin --all", "git lfs push origin f main", "git lfs push origin --all", "git -c lfs.transfer.batchsize=1 push origin --all", "git push -f origin <cur>")
		worlds = append(worlds, [2]string{"nothing pushed; local main=c0+{a.bin->A2}+{b.bin->B1} (new branch, four new objects)", "commit a.bin=A2; commit b.bin=B1"})
		missing = append(missing, [2]string{"A2 truncated in the local store", "truncate-object A2"}, [2]string{"B1 truncated in the local store", "truncate-object B1"})
	}
	sc := &scenario{Name: "incomplete", Depth: 1, FaultDepth: 1, ProbeAll: true, Faults: targetedFaults(bases, []string{"A2", "B1"}), Weight: 1}
	sc.Ops = pick(append(localOps(true, true), remoteOps(0, true, true)...), pushes...)
	for i := range sc.Ops {
		sc.Ops[i].Faultable = true
	}
	var defs [][2]string
	for _, w := range worlds {
		for _, allow := range []bool{false, true} {
			for _, m := range missing {
				desc, seq := w[0], w[1]
				if m[1] != "" {
					desc, seq = desc+"; "+m[0], seq+"; "+m[1]
				}
				if allow {
					desc, seq = desc+"; lfs.allowincompletepush=true", seq+"; toggle lfs.allowincompletepush"
				}
				defs = append(defs, [2]string{desc, seq})
			}
		}
	}
	e.mkInits(sc, base, defs)
	return sc
}

// extraInitOps: operations that only build initial states (not part of any explored alphabet).
func extraInitOps() []opDef {
	r := []opDef{
		{Name: "truncate-object A2", Kind: "truncobj", Label: "A2"},
		{Name: "truncate-object B1", Kind: "truncobj", Label: "B1"},
	}
	for _, l := range []string{"A1", "E1", "A2", "B1"} {
		for _, f := range remoteStoreForms {
			r = append(r, opDef{Name: "remote-store " + l + " " + f, Kind: "rstore", Label: l, Form: f})
		}
	}
	return r
}

// remoteStoreForms: what may already sit under an object's name in the LFS store of a file:// remote before a push.
var remoteStoreForms = []string{"correct", "truncated", "empty", "longer", "directory"}

// mkFileStore: scenario "filestore" = the file:// transport (standalone file transfer) crossed with the PRE-STATE of the
// remote's LFS store for one object of the pushed range.  Initial worlds = {history shape} x {the remote's store holds
// nothing under the names of the new objects; under the name of ONE new object (each of them in turn) it already holds
// the correct file / a truncated file / an empty file / a longer file / a directory} x {the local store is complete; that
// very object is deleted from the local store} x {lfs.allowincompletepush false, true}.  Depth 1: every push form is run
// from every world.  Oracle unchanged.  Same-size-but-wrong-bytes files are not enumerated (see the assumptions).
func (e *envT) mkFileStore(base snap) *scenario {
	pushes := []string{"git push origin <cur>", "git lfs push origin <cur>", "git push origin main f", "git lfs push origin main f", "git push origin --all", "git lfs push origin --all"}
	type world struct {
		desc, seq string
		objs      []string
	}
	worlds := []world{
		{"c0 pushed; local main=c0+{a.bin->A2}+{b.bin->B1} (two commits, one ref)", "git push origin <cur>; commit a.bin=A2; commit b.bin=B1", []string{"A2", "B1"}},
		{initDiverged[0], initDiverged[1], []string{"A2", "B1"}},
	}
	if e.thorough {
		pushes = append(pushes, "git -c lfs.transfer.batchsize=1 push origin --all", "git push -f origin <cur>")
		worlds = append(worlds, world{"nothing pushed; local main=c0+{a.bin->A2} (new branch, three new objects)", "commit a.bin=A2", []string{"A1", "E1", "A2"}})
	}
	sc := &scenario{Name: "filestore", FileMode: true, Depth: 1, FaultDepth: 0, Weight: 1}
	sc.Ops = pick(append(localOps(true, true), remoteOps(0, true, true)...), pushes...)
	var defs [][2]string
	for _, w := range worlds {
		type pre struct{ desc, seq string }
		pres := []pre{{"", ""}}
		for _, l := range w.objs {
			for _, f := range remoteStoreForms {
				d := fmt.Sprintf("the remote's LFS store already holds %s under the name of %s", map[string]string{"correct": "the correct file", "truncated": "a truncated file",
					"empty": "an empty file", "longer": "a longer file", "directory": "a directory"}[f], l)
				pres = append(pres, pre{d, "remote-store " + l + " " + f})
				pres = append(pres, pre{d + "; " + l + " deleted from the local store", "remote-store " + l + " " + f + "; rm-object " + l})
			}
		}
		for _, allow := range []bool{false, true} {
			for _, p := range pres {
				desc, seq := w.desc, w.seq
				if p.seq != "" {
					desc, seq = desc+"; "+p.desc, seq+"; "+p.seq
				}
				if allow {
					desc, seq = desc+"; lfs.allowincompletepush=true", seq+"; toggle lfs.allowincompletepush"
				}
				defs = append(defs, [2]string{desc, seq})
			}
		}
	}
	e.mkInits(sc, base, defs)
	return sc
}

func (e *envT) scenarios() []*scenario {
	var ps []*scenario
	baseHTTP := e.buildBase(false)
	if msg := e.selfCheck(baseHTTP); msg != "" {
		fmt.Printf("TOOL-ERROR property=C03 %s\n", msg)
		os.Exit(2)
	}
	quickFaults := []string{"put-500", "put-422", "verify-fail", "batch-objerr", "expire-first", "expire-first-neg", "expire-first-at", "expire-always"}
	faults := quickFaults
	if e.thorough {
		faults = faultNames
	}

	// main: the quick alphabet of 35 operations on one remote, from the synced and the unpushed world
	main := &scenario{Name: "main", Depth: 3, FaultDepth: 2, Faults: faults, Weight: 5}
	main.Ops = append(localOps(true, false), remoteOps(0, true, false)...)
	if e.thorough {
		main.Depth, main.FaultDepth = 4, 2
	}
	e.mkInits(main, baseHTTP, [][2]string{initSynced, initUnpushed})

	// graphs: starts from branching histories so that merges / multi-ref pushes are within the depth bound
	graphs := &scenario{Name: "graphs", Depth: 3, FaultDepth: 1, Faults: faults, Weight: 4}
	graphs.Ops = append(localOps(true, e.thorough), remoteOps(0, true, e.thorough)...)
	gi := [][2]string{initDiverged, initTwoBranches}
	if e.thorough {
		gi = append(gi, initThree)
	}
	if !e.thorough {
		graphs.Depth = 2 // quick: merge / multi-ref push directly from the branching worlds; depth 3 in the thorough tier
	}
	e.mkInits(graphs, baseHTTP, gi)

	// faultseq: sequences of faulty server answers over the request stream of designated pushes (vx explorer, not BFS)
	e.seq = e.mkSeqScenario(baseHTTP)

	if e.thorough {
		// wide: the full thorough alphabet (octopus, batch sizes 1/2, fetch --prune, another client pushing, ...) to depth 3
		wide := &scenario{Name: "wide", Depth: 3, FaultDepth: 2, Faults: faults, Weight: 2}
		wide.Ops = append(localOps(true, true), remoteOps(0, true, true)...)
		e.mkInits(wide, baseHTTP, [][2]string{initSynced, initUnpushed})
		ps = append(ps, wide)
	}

	ps = append(ps, e.mkIncomplete(baseHTTP))

	two := &scenario{Name: "tworemotes", Depth: 3, FaultDepth: 0, Faults: faults}
	two.Ops = append(append(localOps(false, false), remoteOps(0, false, false)...), remoteOps(1, false, false)...)
	if e.thorough {
		two.Depth = 4
	}
	e.mkInits(two, baseHTTP, [][2]string{initSynced})
	ps = append(ps, two)

	// servergc: NOT the design's base assumption (a server that never deletes): here the server may drop objects that no
	// ref of the remote refers to.  Kept apart so that its findings are attributable to that extra freedom.
	gc := &scenario{Name: "servergc", Depth: 3, FaultDepth: 0, Faults: faults}
	gc.Ops = append(append(localOps(false, false), remoteOps(0, false, false)...), gcOp(0))
	if e.thorough {
		gc.Depth = 4
	}
	e.mkInits(gc, baseHTTP, [][2]string{initSynced, initTwoBranches})
	ps = append(ps, gc)

	if os.Getenv("VERIF_C03_NOFILE") == "" {
		e.eachWorker(func(w *worker) { w.setTransport(true) })
		baseFile := e.buildBase(true)
		file := &scenario{Name: "file", FileMode: true, Depth: 3, FaultDepth: 0}
		file.Ops = append(append(localOps(false, false), pick(localOps(true, false), "truncate-object A1", "toggle lfs.allowincompletepush",
			"rm-object A1, work tree has the same content", "merge f")...), remoteOps(0, true, false)...)
		if e.thorough {
			file.Depth = 4
		}
		e.mkInits(file, baseFile, [][2]string{initSynced, initUnpushed})
		fstore := e.mkFileStore(baseFile)
		e.eachWorker(func(w *worker) { w.setTransport(false) })
		ps = append(ps, file, fstore)
	}
	ps = append(ps, main, graphs) // the two largest scenarios run late: a deadline cuts them, not the others
	if e.thorough {
		// deep: a depth-5 slice over a 13-operation alphabet (every sequence of 5 ending in a push)
		deep := &scenario{Name: "deep", Depth: 5, FaultDepth: 0, Faults: faults}
		deep.Ops = append(localOps(false, false), remoteOps(0, false, false)...)
		e.mkInits(deep, baseHTTP, [][2]string{initSynced})
		ps = append(ps, deep)
	}
	return ps
}

// ---------------------------------------------------------------------------------------------------------

func TestVerifC03(t *testing.T) {
	c := vx.NewCheck("C03", "model_checking")
	gitx.CmdTimeout = 120 * time.Second
	e := newEnv(c)
	parts := e.scenarios()

	c.Rule = "explicit-state BFS over operation sequences on real repositories and the real git-lfs binary: from each initial world every operation of the scenario's alphabet " +
		"(plumbing-built commits: add/modify/delete/rename/duplicate-content/move out of LFS, branch, checkout, 2-parent and octopus merge, lightweight and annotated tag, orphan branch; " +
		"delete / truncate a local LFS object with three work-tree variants; toggle lfs.allowincompletepush; `git push` {<cur>, -f, --all, --tags, :<cur>, batchsize 1/2} through the installed pre-push hook; " +
		"`git lfs push` {<cur>, --all, --object-id}; two refs named in one invocation (`git lfs push <remote> A B` for all ordered pairs, `git push <remote> A B` for all unordered pairs of the branch/tag names); git fetch [--prune]; another client deleting / resetting / advancing a remote branch; a second remote with its own LFS server; server garbage collection) " +
		"is applied to every new state up to the depth bound; at the last position of a sequence only push operations are run (only they are evaluated). " +
		"States are deduplicated by a canonical key: HEAD + every ref of the local repository (incl. remote-tracking) and of each bare remote with its object id " +
		"(commit ids are content signatures here: fixed identities/dates/messages make them a function of graph shape and blob contents) + local LFS store + server object sets + work-tree files + lfs.allowincompletepush. " +
		"On designated pushes that upload something, the same transition is re-run under each scripted server fault (deviation bound 1: one faulty push, terminal). " +
		"Scenario incomplete (depth 1) crosses the single-fault probes with the world dimensions that decide what lfs.allowincompletepush may excuse: initial worlds = {two new objects A2, B1 in two commits of one ref; on two diverged branches; thorough: on a branch the remote does not have} x " +
		"{lfs.allowincompletepush false, true} x {nothing missing, A2 / B1 deleted from the local store (thorough: or truncated)}; every push form (pre-push hook and `git lfs push`; the current branch, two refs in one invocation, thorough: --all, -f, batchsize 1) is run from every world fault-free and under every fault " +
		"restricted to ONE object (`<fault>@A2`, `<fault>@B1`: only the storage PUT / verify callback / batch-response entry of that object is faulty), so that the fault hits the object that is nowhere or the other, present, object; " +
		"a fault restricted to an object outside the range of the push is not run (the server never answers a request about it). " +
		"Scenario filestore (depth 1, file:// remote with the standalone file transfer) crosses the push forms with the PRE-STATE of the remote's LFS store: initial worlds = {two new objects A2, B1 in two commits of one ref; on two diverged branches; thorough: a branch the remote does not have} x " +
		"{nothing under the names of the new objects; under the name of ONE new object (each in turn) the store already holds the correct file / a truncated file / an empty file / a longer file / a directory} x {local store complete; that object deleted from the local store} x {lfs.allowincompletepush false, true}; " +
		"every push form (pre-push hook and `git lfs push`; the current branch, two refs in one invocation, --all; thorough: batchsize 1, -f) is run from every world. " +
		"A case = (state, push operation, fault); it is non-trivial when the pushed range references at least one LFS object or something was uploaded; distinct = distinct (canonical state key, operation, fault). " +
		"Scenario faultseq (not BFS): on a few designated pushes (one new object / two new objects, pre-push hook and `git lfs push`, with and without a verify callback, lfs.transfer.maxretries 1 or 2) every answer of the LFS server " +
		"to a batch request, a storage PUT or a verify callback is a choice point (nominal answer, or one of: batch 429 with Retry-After 1 / 429 / 500 / 503 / connection reset; PUT 500 / 503 / 429 / 429 with Retry-After 1 / connection cut after the body; " +
		"verify 500 with the upload kept / discarded); stateless DFS enumerates every answer script with at most F faulty answers placed among the first K requests of the push (the stream depends on the earlier answers: children are derived from the stream an execution produced); " +
		"a case there = (designated push, answer script), every one distinct and non-trivial; same oracle. " +
		"The designated pushes include pushes from worlds in which lfs.allowincompletepush=true and one object of the pushed range is nowhere while another one is present and new (one ref; thorough: also two refs in one invocation)."
	c.Assumptions = []string{
		"P1 (git push): for every commit in `rev-list <remote refs after> --not <remote refs before>` (computed in the bare remote), every blob that is a spec pointer (strict decoder written from docs/spec.md, incl. extension lines; read with ls-tree/cat-file) names an object stored on that remote's LFS server whose bytes hash to the oid. Demanded whenever refs of the remote changed (a ref that was updated is a push that succeeded for that ref), whatever the exit code of git.",
		"P1 exemption: with lfs.allowincompletepush=true, an object that before the push was neither validly in the local store nor (with the right bytes) on the server is not demanded. The exemption is per object: every other object of the newly reachable commits is demanded, whatever else went wrong in the same push (scenario incomplete and the fault sequences cross a server fault on a present object with another object being nowhere).",
		"P2 (git push): model of what git hands to the hook = selected local refs that are not up to date, not a tag that exists remotely with another value and (unless -f) fast-forward. If an object referenced by `rev-list <those> --not <remote refs before>` is not validly in .git/lfs/objects, no top-level work-tree file has its bytes (git-lfs re-cleans the work-tree file: that counts as locally present) and the server lacks it, and lfs.allowincompletepush is not true, then git must exit non-zero and no ref of the remote may change.",
		"git lfs push does not move refs, so 'commits that became reachable through that push' is read through its documented selection (git-lfs-push(1)): `<remote> <ref>...`: objects of commits reachable from the named ref(s) and not from the local clone's remote-tracking refs of that remote; `--all`: objects of every commit reachable from any local branch or tag; `--object-id`: the named objects. Exit 0 => all of them on the server with the right bytes (same exemption); one of them nowhere => exit != 0.",
		"The fake LFS servers never delete objects on their own (scenario 'servergc' adds an explicit garbage-collection operation that removes objects no ref of the remote refers to) and store PUT bodies without hashing them, so 'the right bytes' is checked by the oracle, not enforced by the server. A truncated (wrong-size) local object counts as absent locally. For a file:// remote 'the server' is the bare repository's lfs/objects: a file there whose bytes do not hash to its name is not the object (P1 demands the right bytes after a successful push whatever sat there before; for the lfs.allowincompletepush exemption such a file counts as 'not on the server'; for P2 it conservatively counts as present, so P2 demands nothing), a directory under the object's name is no object at all. Not enumerated: a file of the RIGHT size with wrong bytes already in the remote's store (git-lfs compares sizes only, as it does for local objects; like the same-size corruption of a local object this is storage corruption that no size-based protocol step can see, and the http batch API likewise reports such an object as present).",
		"Another client is modelled as a correct client acting directly on the bare remote: it only moves branches to commits whose objects are on the server, or uploads its object before pushing.",
		"Commits are built with git plumbing (hash-object, mktree, commit-tree, update-ref) and the LFS objects are placed into .git/lfs/objects as the clean filter would; at start the harness checks that its pointer texts equal the output of the real `git lfs clean`, that `git lfs pointer --check` accepts the 1023-byte pointer and that `git lfs update` installed the pre-push hook. The work tree contains only files written by the rm-object variants.",
		"Remotes are local paths (git's own transport is not the subject); the LFS leg is real HTTP to loopback servers, or the standalone file transfer for file:// remotes (scenario 'file').",
		"Scenario faultseq: the fake server answers the n-th request of the push as scripted, whatever that request is; transfers are sequential (lfs.concurrenttransfers=1) and the client's activity time-out is off, so with one object the request stream is a function of the answers (a deviation is a tool error). With two objects that both wait for a retry, git-lfs re-batches them together or one after the other depending on wall-clock timing (tq.batch.Concat): those executions are valid executions, counted as stream_regrouped_by_client_timing, and the enumeration is exhaustive over the streams observed. Not enumerated: request time-outs as a fault (would make the harness depend on timing).",
		"Timeouts (120 s per command) are tool guards => inconclusive, never violations. lfs.transfer.maxretries=2, maxretrydelay=1 and lfs.locksverify=false are set to keep fault probes short and to leave locking to C16.",
	}
	c.Bounds["tier"] = c.Tier
	for _, p := range parts {
		var ops, inits []string
		for _, o := range p.Ops {
			ops = append(ops, o.Name)
		}
		for _, i := range p.Inits {
			inits = append(inits, i.Desc)
		}
		c.Bounds["scenario_"+p.Name] = map[string]interface{}{"initial_states": inits, "operations": ops, "depth": p.Depth,
			"fault_probes_at_positions_below": p.FaultDepth, "faults": p.Faults, "file_transport": p.FileMode}
	}

	c.Bounds["scenario_"+e.seq.Name] = e.seq.bounds()

	if c.Replay != "" {
		rf, err := c.LoadReplay()
		if err != nil {
			fmt.Printf("TOOL-ERROR property=C03 cannot load replay: %v\n", err)
			os.Exit(2)
		}
		if rf.Scenario == e.seq.Name {
			if rf.Tier != c.Tier {
				fmt.Printf("TOOL-ERROR property=C03 replay file was recorded with --tier %s; re-run with that tier\n", rf.Tier)
				os.Exit(2)
			}
			exec := e.seqExec(e.seq)
			r := exec(rf.Prefix)
			st := vx.NewStats()
			st.Absorb(rf.Prefix, &r, 0)
			fmt.Printf("replayed [%s]: %v\n", e.seq.Name, r.Sample)
			os.Exit(c.Finish([]vx.Part{{Scenario: e.seq.Name, Stats: st, Exec: exec}}, nil))
		}
		for _, p := range append([]*scenario{e.initSc[false], e.initSc[true]}, parts...) {
			if p != nil && p.Name == rf.Scenario {
				if rf.Tier != c.Tier {
					fmt.Printf("TOOL-ERROR property=C03 replay file was recorded with --tier %s; re-run with that tier\n", rf.Tier)
					os.Exit(2)
				}
				exec := e.execFor(p)
				r := exec(rf.Prefix)
				st := vx.NewStats()
				st.Absorb(rf.Prefix, &r, 0)
				fmt.Printf("replayed [%s]: %v\n", p.Name, r.Sample)
				os.Exit(c.Finish([]vx.Part{{Scenario: p.Name, Stats: st, Exec: exec}}, nil))
			}
		}
		fmt.Printf("TOOL-ERROR property=C03 unknown scenario %q in replay file\n", rf.Scenario)
		os.Exit(2)
	}

	deadline := c.DeadlineAfter(8*time.Minute, 28*time.Minute)
	only := os.Getenv("VERIF_ONLY")
	var vparts []vx.Part
	var infos []bfsInfo
	for _, fm := range []bool{false, true} {
		if isc := e.initSc[fm]; isc != nil {
			vparts = append(vparts, vx.Part{Scenario: isc.Name, Stats: e.initStats[fm], Exec: e.execFor(isc)})
		}
	}
	var run []*scenario
	wsum := 0
	for _, p := range parts {
		if only != "" && !strings.HasPrefix(p.Name, only) {
			continue
		}
		if p.Weight == 0 {
			p.Weight = 1
		}
		wsum += p.Weight
		run = append(run, p)
	}
	globalDeadline := deadline
	var seqInfo map[string]interface{}
	if only == "" || strings.HasPrefix(e.seq.Name, only) {
		// the fault-sequence exploration runs first, on all workers, with at most a third of the time budget
		t0 := time.Now()
		e.fileMode = false
		st := e.seqExplore(e.seq, t0.Add(time.Until(globalDeadline)/3))
		dh := map[string]int64{}
		for k, v := range st.DevHist {
			dh[fmt.Sprint(k)] = v
		}
		seqInfo = map[string]interface{}{"scenario": e.seq.Name, "designated_pushes": len(e.seq.Cases), "executions": st.Executions,
			"executions_by_number_of_faulty_answers": dh, "distinct_fault_scripts": len(st.NonTrivial), "distinct_outcomes": len(st.Outcomes),
			"exhaustive": st.Exhaustive, "wall_s": time.Since(t0).Seconds()}
		fmt.Printf("scenario %-11s pushes=%d faults<=%d among first %d requests: executions=%d by #faults=%v distinct outcomes=%d exhaustive=%v wall=%.1fs\n", e.seq.Name,
			len(e.seq.Cases), e.seq.F, e.seq.K, st.Executions, dh, len(st.Outcomes), st.Exhaustive, time.Since(t0).Seconds())
		vparts = append(vparts, vx.Part{Scenario: e.seq.Name, Stats: st, Exec: e.seqExec(e.seq)})
	}
	for _, p := range run {
		p := p
		// every scenario gets its share of what is left, so that an overloaded machine cuts all of them at some
		// level instead of skipping the later ones; unused time is passed on
		left := time.Until(globalDeadline)
		if left < 0 {
			left = 0
		}
		share := left * time.Duration(p.Weight) / time.Duration(wsum)
		if share = share * 3 / 2; share > left { // a little more than the fair share: later scenarios usually finish early
			share = left
		}
		deadline = time.Now().Add(share)
		wsum -= p.Weight
		if p.FileMode {
			e.eachWorker(func(w *worker) { w.setTransport(true) })
		}
		st, info := e.bfs(p, deadline)
		if p.FileMode {
			e.eachWorker(func(w *worker) { w.setTransport(false) })
		}
		infos = append(infos, info)
		fmt.Printf("scenario %-11s inits=%d ops=%d depth=%d states=%d edges=%d pushes=%d probes=%d levels=%d exhaustive=%v wall=%.1fs\n", p.Name, info.Initial, info.Ops, p.Depth,
			info.States, info.Transitions, info.PushTransitions, info.FaultProbes, info.Levels, st.Exhaustive, info.WallS)
		vparts = append(vparts, vx.Part{Scenario: p.Name, Stats: st, Exec: e.execFor(p)})
	}
	var ru syscall.Rusage
	syscall.Getrusage(syscall.RUSAGE_CHILDREN, &ru)
	cpu := float64(ru.Utime.Sec+ru.Stime.Sec) + float64(ru.Utime.Usec+ru.Stime.Usec)/1e6
	var rs syscall.Rusage
	syscall.Getrusage(syscall.RUSAGE_SELF, &rs)
	fmt.Printf("cpu of child processes (git, git-lfs): %.1fs; harness itself: %.1fs\n", cpu, float64(rs.Utime.Sec+rs.Stime.Sec))
	extra := map[string]interface{}{"bfs": infos, "max_depth": maxDepth(infos), "child_process_cpu_s": cpu}
	if seqInfo != nil {
		extra["fault_sequences"] = seqInfo
	}
	os.Exit(c.Finish(vparts, extra))
}

// execFor: stateless re-execution of one case of scenario p (used to confirm violations and for --replay).
func (e *envT) execFor(p *scenario) func(pr []vx.Point) vx.Result {
	run := e.replayRun(p)
	return func(pr []vx.Point) vx.Result {
		if p.FileMode {
			e.eachWorker(func(w *worker) { w.setTransport(true) })
			defer e.eachWorker(func(w *worker) { w.setTransport(false) })
		}
		return vx.SafeRun(run, pr)
	}
}

func pick(ops []opDef, names ...string) []opDef {
	var r []opDef
	for _, n := range names {
		found := false
		for _, o := range ops {
			if o.Name == n {
				r = append(r, o)
				found = true
			}
		}
		if !found {
			panic(vx.ToolError{Msg: "pick: no operation named " + n})
		}
	}
	return r
}

func maxDepth(infos []bfsInfo) int {
	m := 0
	for _, i := range infos {
		if i.Levels > m {
			m = i.Levels
		}
	}
	return m
}
