package c03

// C03 — the operation alphabet.  Graph-building operations use git plumbing (hash-object, mktree, commit-tree,
// update-ref, symbolic-ref, tag) with fixed identities and dates, so commit ids are a deterministic function of the
// graph shape and blob contents and double as canonical content signatures.  Everything that involves git-lfs (the
// subject of the property) is the real porcelain: `git push` (which runs the installed pre-push hook, which runs the
// git-lfs binary under test), `git lfs push`, `git fetch`.

import (
	"encoding/json"
	"fmt"
	"net/http"
	"os"
	"path/filepath"
	"sort"
	"strings"
	"sync"

	"github.com/git-lfs/git-lfs/v3/verifx/fakelfs"
	"github.com/git-lfs/git-lfs/v3/verifx/gitx"
	"github.com/git-lfs/git-lfs/v3/verifx/vx"
)

type opDef struct {
	Name      string
	Kind      string // commit | branch | checkout | merge | octopus | tag | atag | orphan | rmobj | truncobj | rstore | toggle | gitpush | lfspush | fetch | other-del | other-reset | other-advance | srv-gc
	Push      bool   // git push / git lfs push: evaluated by the oracle
	Faultable bool   // server-fault probes are run on this operation
	Remote    int
	Path      string
	Form      string // blob form for commit edits; "-" delete; ">d.bin" rename
	Branch    string
	Label     string
	WT        string // rmobj: "", "same", "diff"
	PushKind  string // cur | force | all | tags | delete | lfs-cur | lfs-all | lfs-oid
	Batch     int
	Prune     bool
	Refs      []string // PushKind refs / lfs-refs: short names of the refs named in ONE invocation
	Cfg       []string // push operations: extra `-c key=value` settings of this one invocation (fault-sequence probes)
}

// resolveRef: short name -> full local ref name (branches first, then tags), "" if it does not exist.
func resolveRef(st *wstate, name string) string {
	for _, pfx := range []string{"refs/heads/", "refs/tags/"} {
		if _, ok := st.LRefs[pfx+name]; ok {
			return pfx + name
		}
	}
	return ""
}

var wtPaths = []string{"a.bin", "b.bin", "d.bin"}

// ---------------------------------------------------------------------------------------------------------
// server control

var faultNames = []string{"put-500", "put-500-once", "put-422", "put-403", "verify-fail", "verify-ok", "batch-objerr", "batch-500",
	"expire-first", "expire-first-neg", "expire-first-at", "expire-always"}

type faultCtl struct {
	mu        sync.Mutex
	name      string // fault without its target
	target    string // oid the fault is restricted to ("" = every object)
	putSeen   map[string]int
	batchSeen int
	seq       *seqCtl // fault-SEQUENCE probe: every answer is a choice point of the running execution (c03_seq_verif_test.go)
}

// splitFault: a fault name "<fault>@<label>" restricts the fault to the requests that concern the object with that
// label (the storage PUT of that object, its verify callback, its entry in a batch response); a plain name applies to
// every object.
func splitFault(name string) (base, targetOid string) {
	if i := strings.IndexByte(name, '@'); i >= 0 {
		oid, ok := objOid[name[i+1:]]
		if !ok {
			panic(vx.ToolError{Msg: "unknown object label in fault name " + name})
		}
		return name[:i], oid
	}
	return name, ""
}

// targetedFaults: every fault of bases restricted to every object of labels.
func targetedFaults(bases, labels []string) []string {
	var r []string
	for _, b := range bases {
		for _, l := range labels {
			r = append(r, b+"@"+l)
		}
	}
	return r
}

func (f *faultCtl) set(name string) {
	f.mu.Lock()
	f.name, f.target = splitFault(name)
	f.seq = nil
	f.putSeen = map[string]int{}
	f.batchSeen = 0
	f.mu.Unlock()
}

func apiErr(w http.ResponseWriter, status int, msg string) {
	b, _ := json.Marshal(map[string]string{"message": msg})
	w.Header().Set("Content-Type", fakelfs.MediaType)
	w.WriteHeader(status)
	w.Write(b)
}

// newServer: a storage backend that stores what it is sent under the name it is sent to (like an object store behind
// pre-signed URLs: no content hashing), so that "the right bytes" is checked by the oracle and not enforced by the fake.
func newServer(fc *faultCtl) *fakelfs.Server {
	s := fakelfs.New()
	s.NoLocks = true
	s.Hook = func(s *fakelfs.Server, w http.ResponseWriter, r *http.Request, rec *fakelfs.Recorded) bool {
		fc.mu.Lock()
		f := fc.name
		tgt := fc.target
		sq := fc.seq
		fc.mu.Unlock()
		if sq != nil {
			return sq.serve(s, w, r, rec)
		}
		switch rec.Kind {
		case "batch":
			if f == "batch-500" {
				apiErr(w, 500, "internal server error")
				return true
			}
		case "storage-put":
			oid := rec.Path[strings.LastIndex(rec.Path, "/")+1:]
			fc.mu.Lock()
			n := fc.putSeen[oid]
			fc.putSeen[oid]++
			fc.mu.Unlock()
			switch {
			case tgt != "" && oid != tgt: // the fault concerns another object
			case f == "put-500", f == "put-500-once" && n == 0:
				apiErr(w, 500, "storage failure")
				return true
			case f == "put-422":
				apiErr(w, 422, "unprocessable")
				return true
			case f == "put-403":
				apiErr(w, 403, "forbidden")
				return true
			}
			storePut(s, rec)
			w.WriteHeader(200)
			return true
		case "verify":
			if f == "verify-fail" {
				var o fakelfs.BatchObject
				json.Unmarshal(rec.Body, &o)
				if tgt != "" && o.Oid != tgt {
					return false
				}
				s.Lock()
				delete(s.Objects, o.Oid) // the server discards an upload it could not verify
				s.Unlock()
				apiErr(w, 500, "verification failed")
				return true
			}
		}
		return false
	}
	s.BatchHook = func(s *fakelfs.Server, req *fakelfs.BatchRequest, resp *fakelfs.BatchResponse) (int, []byte) {
		fc.mu.Lock()
		f := fc.name
		tgt := fc.target
		nb := fc.batchSeen
		if req.Operation == "upload" {
			fc.batchSeen++
		}
		fc.mu.Unlock()
		// short-lived upload actions: of the first batch response only (the client must ask again and then upload), or of
		// every response (the push cannot succeed)
		if strings.HasPrefix(f, "expire-") && req.Operation == "upload" && (nb == 0 || f == "expire-always") {
			for _, o := range resp.Objects {
				if a := o.Actions["upload"]; a != nil && (tgt == "" || o.Oid == tgt) {
					switch f {
					case "expire-first-neg":
						a.ExpiresIn = -1
					case "expire-first-at":
						a.ExpiresAt = "2001-01-01T00:00:00Z"
					default:
						a.ExpiresIn = 1
					}
				}
			}
		}
		if f == "batch-objerr" && req.Operation == "upload" {
			for _, o := range resp.Objects {
				if o.Actions != nil && (tgt == "" || o.Oid == tgt) {
					o.Actions = nil
					o.Error = &fakelfs.ObjError{Code: 422, Message: "object rejected"}
					break
				}
			}
		}
		return 0, nil
	}
	return s
}

// storePut stores the body of a storage PUT under the name it was sent to (no hashing: see newServer).
func storePut(s *fakelfs.Server, rec *fakelfs.Recorded) {
	oid := rec.Path[strings.LastIndex(rec.Path, "/")+1:]
	s.Lock()
	s.Objects[oid] = append([]byte(nil), rec.Body...)
	s.PutCount[oid]++
	s.Unlock()
}

func (w *worker) loadServers(st *wstate, fault string) {
	w.fault.set(fault)
	for i, s := range w.srv {
		s.Lock()
		s.Objects = map[string][]byte{}
		for o, b := range st.Srv[i] {
			s.Objects[o] = []byte(b)
		}
		s.PutCount = map[string]int{}
		s.Verified = map[string]bool{}
		s.Requests = nil
		s.WithVerify = strings.HasPrefix(fault, "verify-fail") || strings.HasPrefix(fault, "verify-ok") || w.seqVerify
		s.Unlock()
	}
}

func (w *worker) readServers() (srv [2]map[string]string, puts, batches int) {
	for i, s := range w.srv {
		s.Lock()
		m := map[string]string{}
		for o, b := range s.Objects {
			m[o] = string(b)
		}
		for _, n := range s.PutCount {
			puts += n
		}
		for _, r := range s.Requests {
			if r.Kind == "batch" {
				batches++
			}
		}
		s.Unlock()
		srv[i] = m
	}
	return
}

// ---------------------------------------------------------------------------------------------------------
// graph construction by plumbing

func (e *envT) formsOf(w *worker, repo, sha string) map[string]string {
	t := e.treeOf(w, repo, sha)
	m := make(map[string]string, len(t))
	for p, b := range t {
		f, ok := e.shaForm[b]
		if !ok {
			f = "?" + b
		}
		m[p] = f
	}
	return m
}

func (e *envT) makeCommit(w *worker, repo string, tree map[string]string, parents []string) string {
	paths := make([]string, 0, len(tree))
	for p := range tree {
		paths = append(paths, p)
	}
	sort.Strings(paths)
	var in strings.Builder
	for _, p := range paths {
		f := tree[p]
		sha, ok := e.blobSha[f]
		if !ok {
			panic(vx.ToolError{Msg: "makeCommit: unknown blob form " + f})
		}
		// make sure the blob exists in this object database (cheap when it does)
		if _, err := os.Stat(filepath.Join(w.gitDirOf(repo), "objects", sha[:2], sha[2:])); err != nil {
			got := strings.TrimSpace(w.gitIn(repo, string(blobForms[f]), "hash-object", "-w", "--stdin"))
			if got != sha {
				panic(vx.ToolError{Msg: "hash-object: blob id differs for form " + f})
			}
		}
		fmt.Fprintf(&in, "100644 blob %s\t%s\n", sha, p)
	}
	t := strings.TrimSpace(w.gitIn(repo, in.String(), "mktree"))
	args := []string{"commit-tree", t, "-m", "c"}
	for _, p := range parents {
		args = append(args, "-p", p)
	}
	return strings.TrimSpace(w.git(repo, args...))
}

func (w *worker) gitDirOf(repo string) string {
	if strings.HasSuffix(repo, ".git") {
		return repo
	}
	return filepath.Join(repo, ".git")
}

// ensureLocalObjects: what `git add` through the clean filter would have left in .git/lfs/objects
func (w *worker) ensureLocalObjects(tree map[string]string) {
	for _, f := range tree {
		if l := formObj[f]; l != "" {
			p := gitx.ObjectPath(filepath.Join(w.local(), ".git", "lfs"), objOid[l])
			if b, err := os.ReadFile(p); err != nil || sha256hex(b) != objOid[l] {
				os.MkdirAll(filepath.Dir(p), 0755)
				os.Remove(p)
				if err := os.WriteFile(p, objContent[l], 0444); err != nil {
					panic(vx.ToolError{Msg: err.Error()})
				}
			}
		}
	}
}

func ok0() gitx.Res { return gitx.Res{} }

// apply runs op in the restored world of w whose parsed state is st.  enabled=false: the operation does not apply
// in this state (nothing was executed).
func (e *envT) apply(w *worker, st *wstate, o opDef) (res gitx.Res, enabled bool) {
	loc := w.local()
	cur := st.Head
	head := st.LRefs["refs/heads/"+cur]
	rname := remoteNames[o.Remote]
	switch o.Kind {
	case "commit":
		tree := e.formsOf(w, loc, head)
		old, had := tree[o.Path]
		switch {
		case o.Form == "-":
			if !had {
				return res, false
			}
			delete(tree, o.Path)
		case strings.HasPrefix(o.Form, ">"):
			dst := o.Form[1:]
			if _, exists := tree[dst]; !had || exists {
				return res, false
			}
			delete(tree, o.Path)
			tree[dst] = old
		case o.Form == "t:toggle":
			if old == "t:1" {
				tree[o.Path] = "t:2"
			} else {
				tree[o.Path] = "t:1"
			}
		default:
			if had && old == o.Form {
				return res, false
			}
			tree[o.Path] = o.Form
		}
		c := e.makeCommit(w, loc, tree, []string{head})
		w.ensureLocalObjects(tree)
		w.git(loc, "update-ref", "refs/heads/"+cur, c)
		return ok0(), true
	case "branch":
		if _, ex := st.LRefs["refs/heads/"+o.Branch]; ex {
			return res, false
		}
		w.git(loc, "update-ref", "refs/heads/"+o.Branch, head)
		return ok0(), true
	case "checkout":
		if _, ex := st.LRefs["refs/heads/"+o.Branch]; !ex || o.Branch == cur {
			return res, false
		}
		w.git(loc, "symbolic-ref", "HEAD", "refs/heads/"+o.Branch)
		return ok0(), true
	case "merge":
		other, ex := st.LRefs["refs/heads/"+o.Branch]
		if !ex || o.Branch == cur || e.isAncestor(w, loc, other, head) {
			return res, false
		}
		tree := e.formsOf(w, loc, other)
		for p, f := range e.formsOf(w, loc, head) { // ours wins
			tree[p] = f
		}
		c := e.makeCommit(w, loc, tree, []string{head, other})
		w.git(loc, "update-ref", "refs/heads/"+cur, c)
		return ok0(), true
	case "octopus":
		var others []string
		tree := map[string]string{}
		for _, b := range []string{"main", "f", "o"} {
			if sha, ex := st.LRefs["refs/heads/"+b]; ex && b != cur && !e.isAncestor(w, loc, sha, head) {
				others = append(others, sha)
				for p, f := range e.formsOf(w, loc, sha) {
					tree[p] = f
				}
			}
		}
		if len(others) < 2 {
			return res, false
		}
		for p, f := range e.formsOf(w, loc, head) {
			tree[p] = f
		}
		c := e.makeCommit(w, loc, tree, append([]string{head}, others...))
		w.git(loc, "update-ref", "refs/heads/"+cur, c)
		return ok0(), true
	case "tag":
		if _, ex := st.LRefs["refs/tags/"+o.Branch]; ex {
			return res, false
		}
		w.git(loc, "update-ref", "refs/tags/"+o.Branch, head)
		return ok0(), true
	case "atag":
		if _, ex := st.LRefs["refs/tags/"+o.Branch]; ex {
			return res, false
		}
		w.git(loc, "tag", "-a", "-m", "annotated", o.Branch, head)
		return ok0(), true
	case "orphan":
		if _, ex := st.LRefs["refs/heads/"+o.Branch]; ex {
			return res, false
		}
		tree := map[string]string{".gitattributes": "attr", "a.bin": "p:A2", "c.txt": "t:2"}
		c := e.makeCommit(w, loc, tree, nil)
		w.ensureLocalObjects(tree)
		w.git(loc, "update-ref", "refs/heads/"+o.Branch, c)
		w.git(loc, "symbolic-ref", "HEAD", "refs/heads/"+o.Branch)
		return ok0(), true
	case "rmobj":
		oid := objOid[o.Label]
		if _, ex := st.Store[oid]; !ex {
			return res, false
		}
		p := gitx.ObjectPath(filepath.Join(loc, ".git", "lfs"), oid)
		if err := os.Remove(p); err != nil {
			panic(vx.ToolError{Msg: err.Error()})
		}
		if o.WT != "" {
			data := objContent[o.Label]
			if o.WT == "diff" {
				data = objContent["A2"]
				if o.Label == "A2" {
					data = objContent["A1"]
				}
			}
			for _, wp := range wtPaths {
				gitx.WriteFile(loc, wp, data, 0644)
			}
		}
		return ok0(), true
	case "truncobj":
		oid := objOid[o.Label]
		if !st.Store[oid].Valid {
			return res, false
		}
		p := gitx.ObjectPath(filepath.Join(loc, ".git", "lfs"), oid)
		os.Chmod(p, 0644)
		if err := os.WriteFile(p, objContent[o.Label][:len(objContent[o.Label])/2], 0644); err != nil {
			panic(vx.ToolError{Msg: err.Error()})
		}
		return ok0(), true
	case "rstore":
		// the LFS store of the file:// remote already holds something under the object's name (left there by another
		// tool / an interrupted write / a truncation through a hard link): o.Form names what
		if !e.fileMode {
			return res, false
		}
		oid := objOid[o.Label]
		if _, ex := st.RStore[o.Remote][oid]; ex {
			return res, false
		}
		for _, d := range st.RDirs[o.Remote] {
			if d == oid {
				return res, false
			}
		}
		p := gitx.ObjectPath(filepath.Join(w.bare(o.Remote), "lfs"), oid)
		if err := os.MkdirAll(filepath.Dir(p), 0755); err != nil {
			panic(vx.ToolError{Msg: err.Error()})
		}
		data := objContent[o.Label]
		var err error
		switch o.Form {
		case "correct":
			err = os.WriteFile(p, data, 0444)
		case "truncated":
			err = os.WriteFile(p, data[:len(data)/2], 0444)
		case "empty":
			err = os.WriteFile(p, nil, 0444)
		case "longer":
			err = os.WriteFile(p, append(append([]byte{}, data...), "trailing bytes"...), 0444)
		case "directory":
			err = os.Mkdir(p, 0755)
		default:
			panic(vx.ToolError{Msg: "rstore: unknown form " + o.Form})
		}
		if err != nil {
			panic(vx.ToolError{Msg: err.Error()})
		}
		return ok0(), true
	case "toggle":
		v := "true"
		if st.AllowInc {
			v = "false"
		}
		w.git(loc, "config", "lfs.allowincompletepush", v)
		return ok0(), true
	case "gitpush", "lfspush":
		var args []string
		for _, kv := range o.Cfg {
			args = append(args, "-c", kv)
		}
		if o.Batch > 0 {
			args = append(args, "-c", fmt.Sprintf("lfs.transfer.batchsize=%d", o.Batch))
		}
		switch o.PushKind {
		case "cur":
			args = append(args, "push", rname, cur)
		case "force":
			args = append(args, "push", "-f", rname, cur)
		case "all":
			args = append(args, "push", rname, "--all")
		case "tags":
			n := 0
			for k := range st.LRefs {
				if strings.HasPrefix(k, "refs/tags/") {
					n++
				}
			}
			if n == 0 {
				return res, false
			}
			args = append(args, "push", rname, "--tags")
		case "delete":
			if _, ex := st.RRefs[o.Remote]["refs/heads/"+cur]; !ex {
				return res, false
			}
			args = append(args, "push", rname, ":"+cur)
		case "refs", "lfs-refs":
			if o.Refs[0] == o.Refs[1] || resolveRef(st, o.Refs[0]) == "" || resolveRef(st, o.Refs[1]) == "" {
				return res, false
			}
			if o.PushKind == "refs" {
				args = append(args, "push", rname, o.Refs[0], o.Refs[1])
			} else {
				args = append(args, "lfs", "push", rname, o.Refs[0], o.Refs[1])
			}
		case "lfs-cur":
			args = append(args, "lfs", "push", rname, cur)
		case "lfs-all":
			args = append(args, "lfs", "push", rname, "--all")
		case "lfs-oid":
			if !st.hasValid(objOid[o.Label]) {
				return res, false
			}
			args = append(args, "lfs", "push", rname, "--object-id", objOid[o.Label])
		default:
			panic(vx.ToolError{Msg: "unknown push kind " + o.PushKind})
		}
		return w.Git(loc, args...), true
	case "fetch":
		if len(st.RRefs[o.Remote]) == 0 {
			hasTracking := false
			for k := range st.LRefs {
				if strings.HasPrefix(k, "refs/remotes/"+rname+"/") {
					hasTracking = true
				}
			}
			if !hasTracking || !o.Prune {
				return res, false
			}
		}
		args := []string{"-c", "lfs.fetchexclude=*", "fetch", "-q"}
		if o.Prune {
			args = append(args, "--prune")
		}
		return w.Git(loc, append(args, rname)...), true
	case "other-del":
		if _, ex := st.RRefs[o.Remote]["refs/heads/"+o.Branch]; !ex {
			return res, false
		}
		w.git(w.bare(o.Remote), "update-ref", "-d", "refs/heads/"+o.Branch)
		return ok0(), true
	case "other-reset":
		sha, ex := st.RRefs[o.Remote]["refs/heads/"+o.Branch]
		if !ex {
			return res, false
		}
		ps := e.parentsOf(w, w.bare(o.Remote), sha)
		if len(ps) == 0 {
			return res, false
		}
		w.git(w.bare(o.Remote), "update-ref", "refs/heads/"+o.Branch, ps[0])
		return ok0(), true
	case "other-advance":
		sha, ex := st.RRefs[o.Remote]["refs/heads/"+o.Branch]
		if !ex {
			return res, false
		}
		tree := e.formsOf(w, w.bare(o.Remote), sha)
		if tree["o.bin"] == "p:O1" {
			return res, false
		}
		tree["o.bin"] = "p:O1"
		c := e.makeCommit(w, w.bare(o.Remote), tree, []string{sha})
		w.git(w.bare(o.Remote), "update-ref", "refs/heads/"+o.Branch, c)
		// the other client is a correct client: its object is on the server
		if e.fileMode {
			p := gitx.ObjectPath(filepath.Join(w.bare(o.Remote), "lfs"), objOid["O1"])
			os.MkdirAll(filepath.Dir(p), 0755)
			os.WriteFile(p, objContent["O1"], 0444)
		} else {
			w.srv[o.Remote].Put(objContent["O1"])
		}
		return ok0(), true
	case "srv-gc":
		// the server deletes every object no commit reachable from a ref of the repository refers to
		bare := w.bare(o.Remote)
		keep := map[string]bool{}
		for _, c := range w.revList(bare, "", vals(st.RRefs[o.Remote]), nil) {
			for _, p := range e.pointersOf(w, bare, c) {
				keep[p.Oid] = true
			}
		}
		n := 0
		if e.fileMode {
			for oid := range st.RStore[o.Remote] {
				if !keep[oid] {
					os.Remove(gitx.ObjectPath(filepath.Join(bare, "lfs"), oid))
					n++
				}
			}
		} else {
			s := w.srv[o.Remote]
			s.Lock()
			for oid := range s.Objects {
				if !keep[oid] {
					delete(s.Objects, oid)
					n++
				}
			}
			s.Unlock()
		}
		if n == 0 {
			return res, false
		}
		return ok0(), true
	}
	panic(vx.ToolError{Msg: "unknown op kind " + o.Kind})
}

// ---------------------------------------------------------------------------------------------------------
// alphabets

func localOps(full, thorough bool) []opDef {
	ops := []opDef{
		{Name: "commit a.bin=A2", Kind: "commit", Path: "a.bin", Form: "p:A2"},
		{Name: "commit b.bin=B1", Kind: "commit", Path: "b.bin", Form: "p:B1"},
		{Name: "commit c.txt", Kind: "commit", Path: "c.txt", Form: "t:toggle"},
		{Name: "branch f", Kind: "branch", Branch: "f"},
		{Name: "checkout main", Kind: "checkout", Branch: "main"},
		{Name: "checkout f", Kind: "checkout", Branch: "f"},
		{Name: "rm-object A1", Kind: "rmobj", Label: "A1"},
	}
	if full {
		ops = append(ops, []opDef{
			{Name: "commit a.bin=A1", Kind: "commit", Path: "a.bin", Form: "p:A1"},
			{Name: "commit b.bin=A1 (duplicate content)", Kind: "commit", Path: "b.bin", Form: "p:A1"},
			{Name: "commit rm a.bin", Kind: "commit", Path: "a.bin", Form: "-"},
			{Name: "commit mv a.bin d.bin", Kind: "commit", Path: "a.bin", Form: ">d.bin"},
			{Name: "commit a.bin raw (out of LFS)", Kind: "commit", Path: "a.bin", Form: "r:A1"},
			{Name: "merge f", Kind: "merge", Branch: "f"},
			{Name: "merge main", Kind: "merge", Branch: "main"},
			{Name: "tag t1", Kind: "tag", Branch: "t1"},
			{Name: "tag -a t2", Kind: "atag", Branch: "t2"},
			{Name: "orphan branch o", Kind: "orphan", Branch: "o"},
			{Name: "rm-object A2", Kind: "rmobj", Label: "A2"},
			{Name: "rm-object A1, work tree has the same content", Kind: "rmobj", Label: "A1", WT: "same"},
			{Name: "rm-object A1, work tree has other content", Kind: "rmobj", Label: "A1", WT: "diff"},
			{Name: "truncate-object A1", Kind: "truncobj", Label: "A1"},
			{Name: "toggle lfs.allowincompletepush", Kind: "toggle"},
		}...)
	}
	if full && thorough {
		ops = append(ops, []opDef{
			{Name: "commit a.bin=raw small (out of LFS)", Kind: "commit", Path: "a.bin", Form: "r:A2"},
			{Name: "checkout o", Kind: "checkout", Branch: "o"},
			{Name: "merge o", Kind: "merge", Branch: "o"},
			{Name: "octopus merge", Kind: "octopus"},
			{Name: "rm-object B1", Kind: "rmobj", Label: "B1"},
			{Name: "rm-object E1", Kind: "rmobj", Label: "E1"},
		}...)
	}
	return ops
}

func remoteOps(ri int, full, thorough bool) []opDef {
	r := remoteNames[ri]
	ops := []opDef{
		{Name: "git push " + r + " <cur>", Kind: "gitpush", Push: true, Remote: ri, PushKind: "cur", Faultable: ri == 0},
		{Name: "git push " + r + " --all", Kind: "gitpush", Push: true, Remote: ri, PushKind: "all"},
		{Name: "git lfs push " + r + " <cur>", Kind: "lfspush", Push: true, Remote: ri, PushKind: "lfs-cur"},
		{Name: "other client deletes " + r + "/main", Kind: "other-del", Remote: ri, Branch: "main"},
		{Name: "other client resets " + r + "/main to its parent", Kind: "other-reset", Remote: ri, Branch: "main"},
		{Name: "git fetch " + r, Kind: "fetch", Remote: ri},
	}
	if full {
		ops = append(ops, []opDef{
			{Name: "git push -f " + r + " <cur>", Kind: "gitpush", Push: true, Remote: ri, PushKind: "force"},
			{Name: "git push " + r + " --tags", Kind: "gitpush", Push: true, Remote: ri, PushKind: "tags"},
			{Name: "git push " + r + " :<cur>", Kind: "gitpush", Push: true, Remote: ri, PushKind: "delete"},
			{Name: "git -c lfs.transfer.batchsize=1 push " + r + " --all", Kind: "gitpush", Push: true, Remote: ri, PushKind: "all", Batch: 1},
			{Name: "git lfs push " + r + " --all", Kind: "lfspush", Push: true, Remote: ri, PushKind: "lfs-all"},
			{Name: "git lfs push " + r + " --object-id A1", Kind: "lfspush", Push: true, Remote: ri, PushKind: "lfs-oid", Label: "A1"},
			{Name: "other client deletes " + r + "/f", Kind: "other-del", Remote: ri, Branch: "f"},
		}...)
	}
	switch {
	case full && thorough:
		ops = append(ops, pairOps(ri, []string{"main", "f", "o", "t1", "t2"})...)
	case full:
		ops = append(ops, pairOps(ri, []string{"main", "f", "o", "t1"})...)
	default:
		ops = append(ops, pairOps(ri, []string{"main", "f"})...)
	}
	if full && thorough {
		ops = append(ops, []opDef{
			{Name: "git -c lfs.transfer.batchsize=2 push " + r + " --all", Kind: "gitpush", Push: true, Remote: ri, PushKind: "all", Batch: 2},
			{Name: "git -c lfs.transfer.batchsize=1 lfs push " + r + " --all", Kind: "lfspush", Push: true, Remote: ri, PushKind: "lfs-all", Batch: 1},
			{Name: "git fetch --prune " + r, Kind: "fetch", Remote: ri, Prune: true},
			{Name: "other client pushes a new commit to " + r + "/main", Kind: "other-advance", Remote: ri, Branch: "main"},
		}...)
	}
	return ops
}

// pairOps: two refs named in ONE invocation: `git lfs push <remote> A B` for every ordered pair, `git push <remote> A B`
// (one pre-push hook run with two updates) for every unordered pair of the given names.
func pairOps(ri int, names []string) []opDef {
	r := remoteNames[ri]
	var ops []opDef
	for i, a := range names {
		for j, b := range names {
			if i == j {
				continue
			}
			ops = append(ops, opDef{Name: "git lfs push " + r + " " + a + " " + b, Kind: "lfspush", Push: true, Remote: ri, PushKind: "lfs-refs", Refs: []string{a, b}})
			if i < j {
				ops = append(ops, opDef{Name: "git push " + r + " " + a + " " + b, Kind: "gitpush", Push: true, Remote: ri, PushKind: "refs", Refs: []string{a, b}})
			}
		}
	}
	return ops
}

func gcOp(ri int) opDef {
	return opDef{Name: "server of " + remoteNames[ri] + " garbage-collects unreferenced objects", Kind: "srv-gc", Remote: ri}
}
