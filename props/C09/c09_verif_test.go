package c09

// C09 — killing git-lfs at any instant never leaves a bad object in local storage.
// Fault enumeration: for every git-lfs process of every scenario and every hooked storage-mutating os
// operation n of that process, a fresh copy of the base world is run with "SIGKILL before operation n"
// (std-os overlay hook, tools/gen_osx.py), then the store is inspected and the command is re-run.

import (
	"bufio"
	"fmt"
	"os"
	"path/filepath"
	"sort"
	"strconv"
	"strings"
	"sync"
	"testing"
	"time"

	"github.com/git-lfs/git-lfs/v3/verifx/fakelfs"
	"github.com/git-lfs/git-lfs/v3/verifx/gitx"
	"github.com/git-lfs/git-lfs/v3/verifx/vx"
)

const objSize = 3*32*1024 + 1

type point struct {
	proc string
	n    int
	op   string
}

type finalState struct {
	exit    int
	objects []string // valid oids
	invalid []string // rel paths of files under objects/ that are not valid
	bad     []string
	outside []string // entries directly under .git/lfs other than the allowed dirs
}

func (f finalState) key() string {
	return fmt.Sprintf("exit=%d objects=%v invalid=%v bad=%v outside=%v", f.exit, short(f.objects), f.invalid, short(f.bad), f.outside)
}

func short(l []string) []string {
	var r []string
	for _, s := range l {
		if len(s) > 8 {
			s = s[:8]
		}
		r = append(r, s)
	}
	return r
}

type scenario struct {
	name  string
	build func(w *gitx.World, srv *fakelfs.Server) // builds <root>/repo
	cmd   func(w *gitx.World, env []string) gitx.Res
	// prep (optional) runs on every fresh copy of the base world before the command: for state that must not be shared
	// between copies (a directory on another file system)
	prep func(w *gitx.World)
	// filled lazily
	once   sync.Once
	base   string
	srv    *fakelfs.Server
	points []point
	ref    finalState
	refLog []string
	err    string
	reproducible bool
}

var (
	scratch string
	osxBin  string
)

func worldAt(root string) *gitx.World {
	return &gitx.World{Root: root, Home: filepath.Join(root, "home"), BinDir: filepath.Join(root, "bin")}
}

func repoOf(w *gitx.World) string { return filepath.Join(w.Root, "repo") }
func lfsOf(w *gitx.World) string  { return filepath.Join(w.Root, "repo", ".git", "lfs") }

func inspect(w *gitx.World, exit int) finalState {
	fs := finalState{exit: exit}
	for _, f := range gitx.ScanStore(lfsOf(w)) {
		if f.Valid {
			fs.objects = append(fs.objects, f.Name)
		} else {
			fs.invalid = append(fs.invalid, f.Rel)
		}
	}
	ents, _ := os.ReadDir(filepath.Join(lfsOf(w), "bad"))
	for _, e := range ents {
		fs.bad = append(fs.bad, e.Name())
	}
	sort.Strings(fs.bad)
	top, _ := os.ReadDir(lfsOf(w))
	for _, e := range top {
		switch e.Name() {
		case "objects", "tmp", "incomplete", "bad", "cache", "logs":
		default:
			fs.outside = append(fs.outside, e.Name())
		}
	}
	return fs
}

func mkContent(label uint32) []byte { return gitx.Content("bin", objSize, label) }

func commitPointers(w *gitx.World, repo string, files map[string][]byte, msg string) {
	for name, data := range files {
		gitx.WriteFile(repo, name, []byte(gitx.PointerText(data)), 0644)
	}
	w.MustGit(repo, "add", "-A")
	w.MustGit(repo, "commit", "-qm", msg)
}

func baseRepo(w *gitx.World, srv *fakelfs.Server) string {
	repo := w.Init("repo", false)
	url := "http://127.0.0.1:1/none"
	if srv != nil {
		url = srv.URL + "/r"
	}
	w.MustGit(repo, "config", "lfs.url", url)
	w.MustGit(repo, "config", "lfs.concurrenttransfers", "1")
	w.MustGit(repo, "config", "lfs.transfer.maxretries", "1")
	gitx.WriteFile(repo, ".gitattributes", []byte("*.bin filter=lfs diff=lfs merge=lfs -text\n"), 0644)
	w.MustGit(repo, "add", ".gitattributes")
	w.MustGit(repo, "commit", "-qm", "attrs")
	return repo
}

func scenarios(thorough bool) []*scenario {
	A, B, C := mkContent(1), mkContent(2), mkContent(3)
	s := []*scenario{
		{name: "git-add-2-files", build: func(w *gitx.World, srv *fakelfs.Server) {
			repo := baseRepo(w, nil)
			gitx.WriteFile(repo, "a.bin", A, 0644)
			gitx.WriteFile(repo, "b.bin", B, 0644)
		}, cmd: func(w *gitx.World, env []string) gitx.Res {
			return w.GitE(repoOf(w), env, "add", "a.bin", "b.bin")
		}},
		{name: "git-add-tmp-on-other-fs", build: func(w *gitx.World, srv *fakelfs.Server) {
			// lfs/tmp lives on another file system than lfs/objects (a symlinked or separately mounted temporary area): the
			// final rename of the cleaned object fails with EXDEV; whatever git-lfs does then (today: give up), a kill must
			// not leave a partial file at the object's final place
			repo := baseRepo(w, nil)
			gitx.WriteFile(repo, "a.bin", A, 0644)
			gitx.WriteFile(repo, "b.bin", B, 0644)
		}, prep: tmpOnOtherFS, cmd: func(w *gitx.World, env []string) gitx.Res {
			return w.GitE(repoOf(w), env, "add", "a.bin", "b.bin")
		}},
		{name: "smudge-with-download", build: func(w *gitx.World, srv *fakelfs.Server) {
			repo := baseRepo(w, srv)
			srv.Put(A)
			gitx.WriteFile(w.Root, "pointer.txt", []byte(gitx.PointerText(A)), 0644)
			_ = repo
		}, cmd: func(w *gitx.World, env []string) gitx.Res {
			p, _ := os.ReadFile(filepath.Join(w.Root, "pointer.txt"))
			r := w.RunIn(repoOf(w), p, env, filepath.Join(w.BinDir, "git-lfs"), "smudge", "a.bin")
			if r.Code == 0 && gitx.Oid([]byte(r.Out)) != gitx.Oid(A) {
				r.Code = 97 // wrong content on stdout
			}
			r.Out = ""
			return r
		}},
		{name: "fetch-2-objects", build: func(w *gitx.World, srv *fakelfs.Server) {
			repo := baseRepo(w, srv)
			srv.Put(A)
			srv.Put(B)
			commitPointers(w, repo, map[string][]byte{"a.bin": A, "b.bin": B}, "ptrs")
		}, cmd: func(w *gitx.World, env []string) gitx.Res {
			return w.RunIn(repoOf(w), nil, env, filepath.Join(w.BinDir, "git-lfs"), "fetch")
		}},
		{name: "pull", build: func(w *gitx.World, srv *fakelfs.Server) {
			repo := baseRepo(w, srv)
			srv.Put(A)
			srv.Put(B)
			commitPointers(w, repo, map[string][]byte{"a.bin": A, "b.bin": B}, "ptrs")
		}, cmd: func(w *gitx.World, env []string) gitx.Res {
			// the working tree is not part of this property (a kill during the write of a working-tree file leaves a
			// partial file, which `git lfs pull` must then leave alone by C04): only exit code and local storage count
			return w.RunIn(repoOf(w), nil, env, filepath.Join(w.BinDir, "git-lfs"), "pull")
		}},
		{name: "migrate-import", build: func(w *gitx.World, srv *fakelfs.Server) {
			repo := w.Init("repo", false)
			for i, d := range [][]byte{A, B, C} {
				gitx.WriteFile(repo, "a.dat", d, 0644)
				gitx.WriteFile(repo, "note.txt", []byte(fmt.Sprint("n", i)), 0644)
				w.MustGit(repo, "add", "-A")
				w.MustGit(repo, "commit", "-qm", fmt.Sprint("c", i))
			}
		}, cmd: func(w *gitx.World, env []string) gitx.Res {
			return w.RunIn(repoOf(w), nil, env, filepath.Join(w.BinDir, "git-lfs"), "migrate", "import", "--everything", "--include=*.dat", "--yes")
		}},
		{name: "fsck-repair", build: func(w *gitx.World, srv *fakelfs.Server) {
			repo := baseRepo(w, nil)
			gitx.WriteFile(repo, "a.bin", A, 0644)
			gitx.WriteFile(repo, "b.bin", B, 0644)
			gitx.WriteFile(repo, "c.bin", C, 0644)
			gitx.WriteFile(repo, "d.bin", mkContent(4), 0644)
			w.MustGit(repo, "add", "-A")
			w.MustGit(repo, "commit", "-qm", "objs")
			// corrupt three of the four objects in place (a kill between two repairs must not stop the re-run)
			for _, d := range [][]byte{B, C, mkContent(4)} {
				p := gitx.ObjectPath(filepath.Join(repo, ".git", "lfs"), gitx.Oid(d))
				os.Chmod(p, 0644)
				bad := append([]byte{}, d...)
				bad[100] ^= 0xff
				os.WriteFile(p, bad, 0644)
			}
		}, cmd: func(w *gitx.World, env []string) gitx.Res {
			return w.RunIn(repoOf(w), nil, env, filepath.Join(w.BinDir, "git-lfs"), "fsck")
		}},
		{name: "smudge-from-reference-store", build: func(w *gitx.World, srv *fakelfs.Server) {
			// the object lives in the LFS store of an alternate (reference) repository on ANOTHER filesystem, so the
			// hard link fails and git-lfs falls back to copying it into the local store
			repo := baseRepo(w, nil)
			ref := refStoreDir()
			gitx.PutObject(filepath.Join(ref, "lfs"), A)
			os.MkdirAll(filepath.Join(ref, "objects"), 0755)
			os.MkdirAll(filepath.Join(repo, ".git", "objects", "info"), 0755)
			os.WriteFile(filepath.Join(repo, ".git", "objects", "info", "alternates"), []byte(filepath.Join(ref, "objects")+"\n"), 0644)
			gitx.WriteFile(w.Root, "pointer.txt", []byte(gitx.PointerText(A)), 0644)
		}, cmd: func(w *gitx.World, env []string) gitx.Res {
			p, _ := os.ReadFile(filepath.Join(w.Root, "pointer.txt"))
			r := w.RunIn(repoOf(w), p, env, filepath.Join(w.BinDir, "git-lfs"), "smudge", "a.bin")
			if r.Code == 0 && gitx.Oid([]byte(r.Out)) != gitx.Oid(A) {
				r.Code = 97
			}
			r.Out = ""
			return r
		}},
		{name: "fetch-file-remote", build: func(w *gitx.World, srv *fakelfs.Server) {
			// a file:// remote: git-lfs starts ITSELF as the transfer agent (`git-lfs standalone-file`), a second instrumented
			// process whose every storage operation is a crash point of its own
			repo := baseRepo(w, nil)
			commitPointers(w, repo, map[string][]byte{"a.bin": A, "b.bin": B}, "ptrs")
			w.MustGit(repo, "config", "--unset", "lfs.url")
			remote := w.Init("remote.git", true)
			gitx.PutObject(filepath.Join(remote, "lfs"), A)
			gitx.PutObject(filepath.Join(remote, "lfs"), B)
		}, prep: func(w *gitx.World) {
			w.MustGit(repoOf(w), "config", "remote.origin.url", "file://"+filepath.Join(w.Root, "remote.git"))
			w.MustGit(repoOf(w), "config", "remote.origin.fetch", "+refs/heads/*:refs/remotes/origin/*")
		}, cmd: func(w *gitx.World, env []string) gitx.Res {
			return w.RunIn(repoOf(w), nil, env, filepath.Join(w.BinDir, "git-lfs"), "fetch", "origin")
		}},
		customAgentScenario("fetch-custom-agent-same-fs", false, A, B, false),
		customAgentScenario("fetch-custom-agent-cross-fs", true, A, B, false),
		customAgentScenario("fetch-custom-agent-corrupt-delivery", false, A, B, true),
		{name: "prune", build: func(w *gitx.World, srv *fakelfs.Server) {
			repo := baseRepo(w, nil)
			for i, d := range [][]byte{A, B, C} {
				gitx.WriteFile(repo, "a.bin", d, 0644)
				w.MustGit(repo, "add", "-A")
				w.MustGit(repo, "commit", "-qm", fmt.Sprint("v", i))
			}
			w.MustGit(repo, "config", "remote.origin.url", "http://127.0.0.1:1/none.git")
			w.MustGit(repo, "config", "remote.origin.fetch", "+refs/heads/*:refs/remotes/origin/*")
			w.MustGit(repo, "update-ref", "refs/remotes/origin/main", "HEAD")
		}, cmd: func(w *gitx.World, env []string) gitx.Res {
			return w.RunIn(repoOf(w), nil, env, filepath.Join(w.BinDir, "git-lfs"), "prune")
		}},
	}
	if thorough {
		s = append(s,
			&scenario{name: "checkout-after-fetch", build: func(w *gitx.World, srv *fakelfs.Server) {
				repo := baseRepo(w, nil)
				commitPointers(w, repo, map[string][]byte{"a.bin": A, "b.bin": B}, "ptrs")
				gitx.PutObject(filepath.Join(repo, ".git", "lfs"), A)
				gitx.PutObject(filepath.Join(repo, ".git", "lfs"), B)
			}, cmd: func(w *gitx.World, env []string) gitx.Res {
				return w.RunIn(repoOf(w), nil, env, filepath.Join(w.BinDir, "git-lfs"), "checkout")
			}},
			&scenario{name: "git-checkout-smudge-download", build: func(w *gitx.World, srv *fakelfs.Server) {
				repo := baseRepo(w, srv)
				srv.Put(A)
				srv.Put(B)
				w.MustGit(repo, "checkout", "-q", "-b", "other")
				commitPointers(w, repo, map[string][]byte{"a.bin": A, "b.bin": B}, "ptrs")
				w.MustGit(repo, "checkout", "-q", "main")
			}, cmd: func(w *gitx.World, env []string) gitx.Res {
				r := w.GitE(repoOf(w), env, "checkout", "-q", "-f", "other")
				return r
			}},
			&scenario{name: "fetch-relocated-storage", build: func(w *gitx.World, srv *fakelfs.Server) {
				repo := baseRepo(w, srv)
				srv.Put(A)
				srv.Put(B)
				commitPointers(w, repo, map[string][]byte{"a.bin": A, "b.bin": B}, "ptrs")
				w.MustGit(repo, "config", "lfs.storage", "lfs") // relative to .git: same place, explicit
			}, cmd: func(w *gitx.World, env []string) gitx.Res {
				return w.RunIn(repoOf(w), nil, env, filepath.Join(w.BinDir, "git-lfs"), "fetch")
			}},
		)
	}
	return s
}

// customAgentScenario: `git lfs fetch` of two objects through a standalone custom transfer agent (props/C09/c09_agent.py)
// that stages each download either inside the world (same file system: git-lfs renames it into place) or on tmpfs
// (/dev/shm: the rename fails with EXDEV; at HEAD the transfer is then reported as failed and nothing is stored).
// customAgentScenario: git lfs fetch through a standalone custom transfer agent.  With corruptB the agent hands over,
// for the second object, a file of the right size and wrong content: the uninterrupted run reports an error and stores
// only the first object, and no crash point may leave the wrong bytes under the object's name.
func customAgentScenario(name string, crossFS bool, A, B []byte, corruptB bool) *scenario {
	src := "agent-src"
	if corruptB {
		src = "agent-src-corrupt"
	}
	return &scenario{name: name, build: func(w *gitx.World, srv *fakelfs.Server) {
		repo := baseRepo(w, nil)
		commitPointers(w, repo, map[string][]byte{"a.bin": A, "b.bin": B}, "ptrs")
		srcDir := filepath.Join(refStoreDir(), src)
		os.MkdirAll(srcDir, 0755)
		for i, d := range [][]byte{A, B} {
			content := d
			if corruptB && i == 1 {
				content = append([]byte(nil), d...)
				for j := range content {
					content[j] ^= 0x5a
				}
			}
			os.WriteFile(filepath.Join(srcDir, gitx.Oid(d)), content, 0644)
		}
		w.MustGit(repo, "config", "lfs.standalonetransferagent", "c09agent")
		w.MustGit(repo, "config", "lfs.customtransfer.c09agent.path", "python3")
		w.MustGit(repo, "config", "lfs.customtransfer.c09agent.args", filepath.Join(os.Getenv("VERIF_DIR"), "props", "C09", "c09_agent.py"))
		w.MustGit(repo, "config", "lfs.customtransfer.c09agent.concurrent", "false")
	}, cmd: func(w *gitx.World, env []string) gitx.Res {
		stage := filepath.Join(w.Root, "agent-stage")
		if crossFS {
			stage = filepath.Join(refStoreDir(), "agent-stage-"+filepath.Base(filepath.Dir(w.Root)))
			defer os.RemoveAll(stage)
		}
		e := append([]string{"C09_AGENT_SRC=" + filepath.Join(refStoreDir(), src), "C09_AGENT_STAGE=" + stage}, env...)
		return w.RunIn(repoOf(w), nil, e, filepath.Join(w.BinDir, "git-lfs"), "fetch")
	}}
}

var (
	refOnce sync.Once
	refDir  string
)

// refStoreDir returns a directory on a filesystem other than the scratch area (tmpfs /dev/shm), removed at exit.
func refStoreDir() string {
	refOnce.Do(func() {
		d, err := os.MkdirTemp("/dev/shm", "verif-c09-ref")
		if err != nil {
			d, _ = os.MkdirTemp(scratch, "ref") // same filesystem: the link succeeds and the scenario degenerates (counted)
		}
		refDir = d
	})
	return refDir
}

func newCopy(sc *scenario) *gitx.World {
	dir, err := os.MkdirTemp(scratch, "run")
	if err != nil {
		panic(err)
	}
	root := filepath.Join(dir, "w")
	gitx.CopyTree(sc.base, root)
	w := worldAt(root)
	if sc.prep != nil {
		sc.prep(w)
	}
	return w
}

// directories outside a copy's own tree (another file system) that belong to it
var (
	extMu   sync.Mutex
	extDirs = map[string][]string{}
)

func closeCopy(w *gitx.World) {
	wd := filepath.Dir(w.Root)
	w.Close()
	os.RemoveAll(wd)
	extMu.Lock()
	ds := extDirs[w.Root]
	delete(extDirs, w.Root)
	extMu.Unlock()
	for _, d := range ds {
		os.RemoveAll(d)
	}
}

// tmpOnOtherFS replaces <repo>/.git/lfs/tmp of this copy by a symbolic link to a private directory on another file system
// (tmpfs), so that the rename of a finished temporary file into lfs/objects crosses file systems (EXDEV).
func tmpOnOtherFS(w *gitx.World) {
	ext, err := os.MkdirTemp("/dev/shm", "verif-c09-tmp")
	if err != nil {
		return // no second file system available: the scenario degenerates to the plain one
	}
	extMu.Lock()
	extDirs[w.Root] = append(extDirs[w.Root], ext)
	extMu.Unlock()
	tmp := filepath.Join(lfsOf(w), "tmp")
	os.RemoveAll(tmp)
	os.MkdirAll(filepath.Dir(tmp), 0755)
	if err := os.Symlink(ext, tmp); err != nil {
		panic(err)
	}
}

func osxEnv(mode, dir, root, target string, n int) []string {
	return []string{"VERIF_OSX_MODE=" + mode, "VERIF_OSX_DIR=" + dir, "VERIF_OSX_FILTER=" + root, "VERIF_OSX_TARGET=" + target, "VERIF_OSX_N=" + strconv.Itoa(n)}
}

// prepare builds the base world, runs it once in log mode and records the crash points and the reference final state.
func (sc *scenario) prepare() {
	sc.once.Do(func() {
		defer func() {
			if e := recover(); e != nil {
				sc.err = fmt.Sprint(e)
			}
		}()
		sc.srv = fakelfs.New()
		dir, _ := os.MkdirTemp(scratch, "base-"+sc.name)
		sc.base = filepath.Join(dir, "w")
		w := worldAt(sc.base)
		os.MkdirAll(w.Home, 0755)
		os.MkdirAll(w.BinDir, 0755)
		tmpl, _ := gitx.NewWorld(scratch)
		gitx.CopyTree(filepath.Join(tmpl.Home, ".gitconfig"), filepath.Join(w.Home, ".gitconfig"))
		tmpl.Close()
		if err := os.Symlink(osxBin, filepath.Join(w.BinDir, "git-lfs")); err != nil {
			panic(err)
		}
		sc.build(w, sc.srv)
		// reference run in log mode (twice: the number of operations must be reproducible)
		var logs [2][]string
		for i := 0; i < 2; i++ {
			c := newCopy(sc)
			ld := filepath.Join(filepath.Dir(c.Root), "osx")
			os.MkdirAll(ld, 0755)
			r := sc.cmd(c, osxEnv("log", ld, filepath.Dir(c.Root), "", 0))
			if r.TimedOut {
				panic("reference run timed out: " + r.String())
			}
			f, _ := os.Open(filepath.Join(ld, "log"))
			scn := bufio.NewScanner(f)
			scn.Buffer(make([]byte, 1<<20), 1<<20)
			cnt := map[string]int{}
			var pts []point
			for scn.Scan() {
				parts := strings.SplitN(scn.Text(), " ", 5)
				if len(parts) < 5 {
					continue
				}
				cnt[parts[1]]++
				pts = append(pts, point{proc: parts[1], n: cnt[parts[1]], op: parts[3]})
				logs[i] = append(logs[i], parts[1]+" "+parts[3])
			}
			f.Close()
			if i == 0 {
				sc.points = pts
				sc.ref = inspect(c, r.Code)
				sc.refLog = logs[0]
				if len(sc.ref.invalid) > 0 && sc.name != "fsck-repair" {
					panic("reference run left invalid objects: " + sc.ref.key() + "\n" + r.String())
				}
			}
			closeCopy(c)
		}
		sort.SliceStable(sc.points, func(i, j int) bool {
			if sc.points[i].proc != sc.points[j].proc {
				return sc.points[i].proc < sc.points[j].proc
			}
			return sc.points[i].n < sc.points[j].n
		})
		// Git's own index refresh may or may not start a clean filter (racy timestamps), so the operation count of a
		// scenario can differ between runs: the points of the first reference run are used, and a point whose index
		// is beyond what a given run performs simply does not kill (counted as not_killed).
		sc.reproducible = len(logs[0]) == len(logs[1])
	})
}

func contains(l []string, x string) bool {
	for _, y := range l {
		if x == y {
			return true
		}
	}
	return false
}

func subset(a, b []string) bool {
	m := map[string]bool{}
	for _, x := range b {
		m[x] = true
	}
	for _, x := range a {
		if !m[x] {
			return false
		}
	}
	return true
}

func TestVerifC09(t *testing.T) {
	c := vx.NewCheck("C09", "fault_enumeration")
	scratch = os.Getenv("VERIF_SCRATCH")
	osxBin = os.Getenv("VERIF_GITLFS_OSX")
	gitx.CmdTimeout = 120 * time.Second
	scs := scenarios(true)
	nq := 12
	if !c.Thorough() {
		scs = scs[:nq]
	}
	c.Rule = "for every scenario, one instrumented reference run logs every storage-mutating os operation (open-for-write, each write burst, rename, remove, mkdir, chmod, link, truncate ... below the world root) of every git-lfs process; " +
		"then for every process p and every n in 1..K_p a fresh copy of the base world is run with SIGKILL of p immediately before its n-th operation, the store is inspected, and the same command is re-run to completion. " +
		"distinct_nontrivial = distinct (scenario, process, n) crash points at which the process was really killed; a point whose index is beyond the process's operation count in that run is counted as not-killed"
	c.Assumptions = []string{"crash = SIGKILL of one git-lfs process (not power loss; kills of child git processes are out of scope)",
		"lfs.concurrenttransfers=1 so that the operation sequence of a scenario is reproducible",
		"the hook sits in the Go standard library's os package (overlay), so it sees every file operation git-lfs performs through os.*, including ones added by a code change"}
	run := func(x *vx.X) vx.Result {
		sc := scs[x.In(len(scs))]
		sc.prepare()
		if sc.err != "" {
			return vx.Result{ToolErr: "scenario " + sc.name + ": " + sc.err}
		}
		pt := sc.points[x.In(len(sc.points))]
		w := newCopy(sc)
		defer closeCopy(w)
		ld := filepath.Join(filepath.Dir(w.Root), "osx")
		os.MkdirAll(ld, 0755)
		r1 := sc.cmd(w, osxEnv("crash", ld, filepath.Dir(w.Root), pt.proc, pt.n))
		killedAt, _ := os.ReadFile(filepath.Join(ld, "killed"))
		killed := len(killedAt) > 0
		res := vx.Result{Sample: map[string]interface{}{"scenario": sc.name, "process": pt.proc, "kill_before_op": pt.n, "op": strings.TrimSpace(string(killedAt)), "exit_after_kill": r1.Code}}
		if r1.TimedOut {
			res.Inconcl = "command timed out after kill"
			return res
		}
		viol := func(class, msg string) {
			res.Violations = append(res.Violations, vx.Violation{Fingerprint: fmt.Sprintf("C09:%s:%s:%s", class, sc.name, pt.op),
				Msg: fmt.Sprintf("%s\nscenario %s, process %s killed before its operation #%d (%s)", msg, sc.name, pt.proc, pt.n, strings.TrimSpace(string(killedAt))),
				Detail: map[string]interface{}{"scenario": sc.name, "proc": pt.proc, "n": pt.n}})
		}
		after := inspect(w, r1.Code)
		baseInvalid := []string{}
		if sc.name == "fsck-repair" {
			baseInvalid = sc.refInvalidBase()
		}
		if !subset(after.invalid, baseInvalid) {
			viol("bad-object-after-kill", fmt.Sprintf("after the kill local object storage holds files that do not hash to their name (or are misplaced): %v", after.invalid))
		}
		if len(after.outside) > 0 {
			viol("leftover-outside-temp-areas", fmt.Sprintf("after the kill .git/lfs contains entries outside objects/tmp/incomplete/bad/cache/logs: %v", after.outside))
		}
		// re-run without any fault
		r2 := sc.cmd(w, nil)
		if r2.TimedOut {
			res.Inconcl = "re-run timed out"
			return res
		}
		final := inspect(w, r2.Code)
		if final.exit != sc.ref.exit {
			viol("rerun-exit-differs", fmt.Sprintf("re-running the command exits %d, the uninterrupted run exits %d\n%s", final.exit, sc.ref.exit, r2.String()))
		}
		// "same state": every object of the uninterrupted run is there, every base object the uninterrupted run removed is
		// gone, nothing invalid.  Extra hash-valid objects that did not exist in the base world are tolerated and counted:
		// they come from Git cleaning a working-tree file that the kill left partially written.
		baseObjs := gitx.StoreOids(filepath.Join(sc.base, "repo", ".git", "lfs"))
		var finalBase, refBase, extra []string
		for _, o := range final.objects {
			if baseObjs[o] {
				finalBase = append(finalBase, o)
			} else if !contains(sc.ref.objects, o) {
				extra = append(extra, o)
			}
		}
		for _, o := range sc.ref.objects {
			if baseObjs[o] {
				refBase = append(refBase, o)
			}
		}
		if len(extra) > 0 {
			if res.Counters == nil {
				res.Counters = map[string]int64{}
			}
			res.Counters["reruns_with_extra_valid_objects"]++
		}
		if !subset(sc.ref.objects, final.objects) || fmt.Sprint(finalBase) != fmt.Sprint(refBase) || !subset(final.invalid, baseInvalid) {
			viol("rerun-store-differs", fmt.Sprintf("after the re-run local storage differs from an uninterrupted run: got %s, want %s", final.key(), sc.ref.key()))
		}
		if fmt.Sprint(final.bad) != fmt.Sprint(sc.ref.bad) {
			viol("rerun-bad-differs", fmt.Sprintf("after the re-run lfs/bad differs from an uninterrupted run: got %v, want %v", short(final.bad), short(sc.ref.bad)))
		}
		res.Outcome = fmt.Sprintf("%s killed=%v exit1=%d store-after-kill=%d objs", sc.name, killed, r1.Code, len(after.objects))
		if res.Counters == nil {
			res.Counters = map[string]int64{}
		}
		if killed {
			res.NonTrivial = []string{fmt.Sprintf("%s/%s/%d", sc.name, pt.proc, pt.n)}
			res.Counters["killed"]++
			res.Counters["op:"+pt.op]++
		} else {
			res.Counters["not_killed"]++
		}
		return res
	}
	exec := func(p []vx.Point) vx.Result { return vx.SafeRun(run, p) }
	if c.Replay != "" {
		rf, err := c.LoadReplay()
		if err != nil {
			fmt.Println("TOOL-ERROR cannot load replay:", err)
			os.Exit(2)
		}
		scs = scenarios(true)
		r := exec(rf.Prefix)
		st := vx.NewStats()
		st.Absorb(rf.Prefix, &r, 0)
		fmt.Printf("replayed: %v violations=%d\n", r.Sample, len(r.Violations))
		os.Exit(c.Finish([]vx.Part{{Scenario: "crash", Stats: st, Exec: exec}}, nil))
	}
	e := &vx.Explorer{BoundEnv: 0, BoundSch: 0, BoundSum: -1, Run: run, Workers: 16, Deadline: c.DeadlineAfter(8*time.Minute, 40*time.Minute)}
	st := e.Explore()
	perScenario := map[string]interface{}{}
	for _, sc := range scs {
		procs := map[string]int{}
		for _, p := range sc.points {
			procs[p.proc]++
		}
		perScenario[sc.name] = map[string]interface{}{"crash_points": len(sc.points), "per_process": procs, "reference_final": sc.ref.key(), "operation_count_reproducible": sc.reproducible}
	}
	code := c.Finish([]vx.Part{{Scenario: "crash", Stats: st, Exec: exec}}, map[string]interface{}{"scenarios_detail": perScenario})
	for _, sc := range scs {
		if sc.srv != nil {
			sc.srv.Close()
		}
	}
	if refDir != "" {
		os.RemoveAll(refDir)
	}
	os.Exit(code)
}

// refInvalidBase: invalid files present in the base world before any command ran (fsck scenario's corrupt object).
func (sc *scenario) refInvalidBase() []string {
	var r []string
	for _, f := range gitx.ScanStore(filepath.Join(sc.base, "repo", ".git", "lfs")) {
		if !f.Valid {
			r = append(r, f.Rel)
		}
	}
	return r
}
