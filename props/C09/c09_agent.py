#!/usr/bin/env python3
"""Minimal git-lfs custom transfer agent for the C09 crash scenarios (download only).
Objects are taken from $C09_AGENT_SRC/<oid> and staged under $C09_AGENT_STAGE before being handed to git-lfs."""
import json, os, shutil, sys

src = os.environ["C09_AGENT_SRC"]
stage = os.environ["C09_AGENT_STAGE"]
os.makedirs(stage, exist_ok=True)
for line in sys.stdin:
    line = line.strip()
    if not line:
        continue
    ev = json.loads(line)
    kind = ev.get("event")
    if kind == "init":
        print("{}", flush=True)
    elif kind == "download":
        oid = ev["oid"]
        p = os.path.join(src, oid)
        if not os.path.exists(p):
            print(json.dumps({"event": "complete", "oid": oid, "error": {"code": 404, "message": "no such object"}}), flush=True)
            continue
        dst = os.path.join(stage, "%s-%d" % (oid, os.getpid()))
        shutil.copyfile(p, dst)
        print(json.dumps({"event": "progress", "oid": oid, "bytesSoFar": ev["size"], "bytesSinceLast": ev["size"]}), flush=True)
        print(json.dumps({"event": "complete", "oid": oid, "path": dst}), flush=True)
    elif kind == "terminate":
        break
