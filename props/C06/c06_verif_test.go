package c06

// Driver for C06 (and C15, which re-uses this file through "shared_harness"): explores all schedules up to a
// preemption bound x all environment scripts up to a deviation bound on the real transfer queue.

import (
	"bufio"
	"encoding/json"
	"fmt"
	"os"
	"os/exec"
	"path/filepath"
	"strconv"
	"strings"
	"testing"
	"time"

	"github.com/git-lfs/git-lfs/v3/tq"
	"github.com/git-lfs/git-lfs/v3/verifx/vx"
)

type chooser struct{ x *vx.X }

func (c chooser) In(n int) int             { return c.x.In(n) }
func (c chooser) Env(n int) int            { return c.x.EnvC(n) }
func (c chooser) Sched(n int, w []int) int { return c.x.ChooseW(vx.Sched, n, w) }

type space struct {
	name    string
	uploads []bool
	adds    [][]string
	batch   []int
	workers []int
	retries []int
	delays  []int
	watch   []int
	dry     []bool
	pol     []bool // default scheduler policy: false = oldest enabled thread first, true = newest first
	noEnv   string
	expiry  bool
	force   bool
	p, d    int // bounds
	sum     int
	all     bool
}

func spaces(prop string, thorough bool) []space {
	two := [][]string{{"A"}, {"A", "A"}, {"A", "B"}}
	three := [][]string{{"A", "B", "A"}, {"A", "A", "B"}, {"A", "B", "C"}, {"A", "A", "A"}}
	if prop == "C06" {
		s := []space{
			{name: "q-P0-D2", uploads: []bool{false, true}, adds: append(append([][]string{}, two...), three[0]), batch: []int{1, 2}, workers: []int{1, 2}, retries: []int{1}, delays: []int{0}, watch: []int{1}, dry: []bool{false}, noEnv: "duration,expiry", p: 0, d: 2, sum: -1},
			{name: "q-allpoints-P1-D0", uploads: []bool{false}, adds: [][]string{{"A", "A"}, {"A", "B", "A"}, {"A", "B"}}, batch: []int{1, 2}, workers: []int{1, 2}, retries: []int{1}, delays: []int{0}, watch: []int{1}, dry: []bool{false, true}, noEnv: "duration,expiry", p: 1, d: 0, sum: -1, all: true},
			{name: "q-allpoints-P1-D1", uploads: []bool{false, true}, adds: [][]string{{"A", "A"}, {"A", "B", "A"}}, batch: []int{1, 2}, workers: []int{1, 2}, retries: []int{1}, delays: []int{0}, watch: []int{1}, dry: []bool{false}, noEnv: "duration,expiry", p: 1, d: 1, sum: -1, all: true},
			{name: "q-allpoints-P2-D0", uploads: []bool{false}, adds: [][]string{{"A", "A"}, {"A", "B", "A"}}, batch: []int{1, 2}, workers: []int{1, 2}, retries: []int{1}, delays: []int{0}, watch: []int{1}, dry: []bool{false}, noEnv: "duration,expiry", p: 2, d: 0, sum: -1, all: true},
			{name: "q-P1-D1", uploads: []bool{false, true}, adds: append(append([][]string{}, two...), three[0], three[2]), batch: []int{1, 2}, workers: []int{1, 2}, retries: []int{1}, delays: []int{0}, watch: []int{1}, dry: []bool{false}, noEnv: "duration,expiry", p: 1, d: 1, sum: -1},
			{name: "q-P2-D0", uploads: []bool{false}, adds: append(append([][]string{}, two...), three[0]), batch: []int{1, 2}, workers: []int{1, 2}, retries: []int{1}, delays: []int{0}, watch: []int{1, 2}, dry: []bool{false, true}, noEnv: "duration,expiry", p: 2, d: 0, sum: -1},
			// objects with DIFFERENT retry counts in one batch: three objects with batch size 2, so that the third one meets a re-queued
			// one in the second batch; two faulty answers (e.g. a transfer fails retriably, then the batch call for the mixed batch fails)
			{name: "q-mixedcounts-P0-D2", uploads: []bool{false, true}, adds: [][]string{{"A", "B", "C"}}, batch: []int{2}, workers: []int{1, 2}, retries: []int{1, 2}, delays: []int{0, -1}, watch: []int{1}, dry: []bool{false}, noEnv: "duration,expiry,localfile,begin,adaptername", p: 0, d: 2, sum: -1},
		}
		if thorough {
			s = append(s,
				space{name: "t-P2-D1-small", uploads: []bool{false}, adds: [][]string{{"A", "A"}, {"A", "B"}}, batch: []int{1, 2}, workers: []int{2}, retries: []int{1}, delays: []int{0}, watch: []int{1}, dry: []bool{false}, noEnv: "duration,expiry,localfile,begin", p: 2, d: 1, sum: -1},
				space{name: "t-P2-D1", uploads: []bool{false, true}, adds: append(append([][]string{}, two...), three...), batch: []int{1, 2, 3}, workers: []int{1, 2, 3}, retries: []int{1, 2}, delays: []int{0}, watch: []int{1, 2}, dry: []bool{false}, noEnv: "duration,expiry", p: 2, d: 1, sum: -1},
				space{name: "t-P1-D2", uploads: []bool{false, true}, adds: append(append([][]string{}, two...), three...), batch: []int{1, 2, 3}, workers: []int{1, 2}, retries: []int{1, 2}, delays: []int{0}, watch: []int{1}, dry: []bool{false}, noEnv: "duration,expiry", p: 1, d: 2, sum: -1},
				space{name: "t-P3-D0", uploads: []bool{false}, adds: two, batch: []int{1, 2}, workers: []int{1, 2}, retries: []int{1}, delays: []int{0}, watch: []int{1}, dry: []bool{false}, noEnv: "duration,expiry", p: 3, d: 0, sum: -1},
				space{name: "t-allpoints-P1-D1", uploads: []bool{false}, adds: two, batch: []int{1, 2}, workers: []int{2}, retries: []int{1}, delays: []int{0}, watch: []int{1}, dry: []bool{false}, noEnv: "duration,expiry", p: 1, d: 1, sum: -1, all: true},
			)
		}
		return s
	}
	// C15
	s := []space{
		{name: "budget-end-P0", uploads: []bool{false, true}, adds: [][]string{{"A"}, {"A", "B"}}, batch: []int{1, 2}, workers: []int{1, 2, 8}, retries: []int{1, 2, 3, 8}, delays: []int{0, 1, 10, -1}, watch: []int{1}, dry: []bool{false}, noEnv: "localfile,begin,adapter", force: true, p: 0, d: 1, sum: -1},
		{name: "retry-P1-D1", uploads: []bool{false, true}, adds: [][]string{{"A"}, {"A", "B"}, {"A", "A"}}, batch: []int{1, 2}, workers: []int{1, 2, 3}, retries: []int{1, 2, 3}, delays: []int{0, 1}, watch: []int{1}, dry: []bool{false}, noEnv: "localfile,begin,adaptername", expiry: true, p: 1, d: 1, sum: -1},
		{name: "retry-P0-D2", uploads: []bool{false}, adds: [][]string{{"A"}, {"A", "B"}}, batch: []int{1, 2}, workers: []int{1, 2}, retries: []int{2}, delays: []int{0, 1}, watch: []int{1}, dry: []bool{false}, noEnv: "localfile,begin,adaptername", expiry: true, p: 0, d: 2, sum: -1},
	}
	if thorough {
		s = append(s,
			space{name: "retry-P1-D2", uploads: []bool{false}, adds: [][]string{{"A"}, {"A", "B"}}, batch: []int{1, 2}, workers: []int{1, 2}, retries: []int{2}, delays: []int{0, 1}, watch: []int{1}, dry: []bool{false}, noEnv: "localfile,begin,adaptername", expiry: true, p: 1, d: 2, sum: -1},
			space{name: "retry-P2-D2", uploads: []bool{false, true}, adds: [][]string{{"A"}, {"A", "B"}, {"A", "A"}, {"A", "B", "C"}}, batch: []int{1, 2, 3}, workers: []int{1, 2, 3}, retries: []int{1, 2, 3}, delays: []int{0, 1}, watch: []int{1}, dry: []bool{false}, noEnv: "localfile,begin", expiry: true, p: 2, d: 2, sum: -1},
			space{name: "retry-P1-D3", uploads: []bool{false}, adds: [][]string{{"A"}, {"A", "B"}}, batch: []int{1, 2}, workers: []int{1, 2}, retries: []int{2, 3}, delays: []int{0, 1}, watch: []int{1}, dry: []bool{false}, noEnv: "localfile,begin", expiry: true, p: 1, d: 3, sum: -1},
		)
	}
	return s
}

var scratch string

func runFor(prop string, sp space) vx.RunFunc {
	return func(x *vx.X) vx.Result {
		cfg := tq.VerifCfg{Scratch: scratch, NoEnv: sp.noEnv, ExpiryForms: sp.expiry, ForceFail: sp.force, AllPoints: sp.all}
		cfg.Upload = sp.uploads[x.In(len(sp.uploads))]
		cfg.Adds = sp.adds[x.In(len(sp.adds))]
		cfg.BatchSize = sp.batch[x.In(len(sp.batch))]
		cfg.Workers = sp.workers[x.In(len(sp.workers))]
		cfg.MaxRetries = sp.retries[x.In(len(sp.retries))]
		cfg.MaxDelay = sp.delays[x.In(len(sp.delays))]
		cfg.Watchers = sp.watch[x.In(len(sp.watch))]
		cfg.DryRun = sp.dry[x.In(len(sp.dry))]
		pol := sp.pol
		if len(pol) == 0 {
			pol = []bool{false, true}
		}
		cfg.NewestFirst = pol[x.In(len(pol))]
		obs := tq.VerifRunQueue(cfg, chooser{x})
		cfgs := fmt.Sprintf("up=%v adds=%s batch=%d workers=%d retries=%d delay=%d watchers=%d dry=%v newestfirst=%v", cfg.Upload, strings.Join(cfg.Adds, ""), cfg.BatchSize, cfg.Workers, cfg.MaxRetries, cfg.MaxDelay, cfg.Watchers, cfg.DryRun, cfg.NewestFirst)
		r := vx.Result{Transitions: int64(obs.Steps)}
		// outcome class: what happened to each object + error classes
		var oc []string
		for oid, n := range obs.Succeeded {
			oc = append(oc, fmt.Sprintf("ok:%s=%d", oid[:1], n))
		}
		for oid := range obs.NoAction {
			oc = append(oc, "noact:"+oid[:1])
		}
		oc = append(oc, fmt.Sprintf("errs=%d", len(obs.Errors)))
		if obs.Deadlock {
			oc = append(oc, "DEADLOCK")
		}
		if obs.Panic != "" {
			oc = append(oc, "PANIC")
		}
		sortStrings(oc)
		r.Outcome = strings.Join(oc, ",")
		r.NonTrivial = []string{cfgs + " | env: " + obs.Script}
		r.States = []uint64{vx.Hash64(cfgs, obs.Script, strconv.Itoa(obs.Steps), r.Outcome)}
		r.Counters = map[string]int64{"sched_points": int64(obs.Points), "attempts_logged": int64(len(obs.Attempts))}
		if len(x.Points)%7 == 0 {
			r.Sample = map[string]interface{}{"config": cfgs, "env_script": obs.Script, "choices": x.Choices(), "outcome": r.Outcome, "virtual_time": obs.Now.String(), "errors": obs.Errors}
		}
		for _, v := range obs.Violations {
			parts := strings.SplitN(v, "|", 2)
			if !strings.HasPrefix(parts[0], prop) {
				continue
			}
			r.Violations = append(r.Violations, vx.Violation{Fingerprint: parts[0], Msg: parts[1] + "\nconfig: " + cfgs + "\nenv script: " + obs.Script,
				Detail: map[string]interface{}{"config": cfgs, "env": obs.EnvTrace, "attempts": obs.Attempts, "errors": obs.Errors, "blocked": obs.Blocked, "delivered": obs.Delivered}})
		}
		return r
	}
}

func sortStrings(s []string) {
	for i := 1; i < len(s); i++ {
		for j := i; j > 0 && s[j] < s[j-1]; j-- {
			s[j], s[j-1] = s[j-1], s[j]
		}
	}
}

func verifMain(prop string) {
	scratch = filepath.Join(os.Getenv("VERIF_SCRATCH"), "tqfiles")
	tq.VerifPrepareScratch(scratch, os.Getenv("VX_WORKER") == "")
	c := vx.NewCheck(prop, "model_checking")
	sps := spaces(prop, true)
	byName := map[string]space{}
	for _, s := range sps {
		byName[s.name] = s
	}
	if os.Getenv("VX_WORKER") != "" {
		vx.ServeWorker(func(arg string) vx.RunFunc { return runFor(prop, byName[arg]) })
		return
	}
	nw := 16
	pool := vx.NewProcPool(nw, []string{os.Getenv("VERIF_SELF"), "-test.run", "^TestVerif" + prop + "$"}, os.Environ())
	defer pool.Close()
	c.Rule = "one execution = the real tq.TransferQueue + adapterBase (channel/sync/time operations rewritten onto the controlled scheduler) driven by a producer (Add* then Wait), watcher consumers, a scripted batch client and a scripted transfer implementation; " +
		"enumerated: every queue configuration of the space x every schedule with <= P preemptions (a preemption = running another thread, or letting virtual time pass, while the current thread is enabled; switches at blocking points and choices between ready select cases are free) x every environment script with <= D deviations from the nominal answer " +
		"(batch call: 429+Retry-After / retriable / fatal / 4xx; per object: no action / per-object error / omitted / listed twice (two actions, two error entries, error then action, action then error) / expired action / extra unknown oid; upload source file absent(+Missing) / wrong size; adapter: retriable / retry-later / fatal / 422 / slow; adapter start failure). " +
		"distinct_nontrivial = distinct (configuration, environment script) pairs explored; states = distinct (configuration, script, schedule length, outcome) classes; transitions = scheduling decisions executed"
	c.Assumptions = []string{
		"the batch client and the transfer implementation are scripted fakes behind the real BatchClient / transferImplementation interfaces; error values are built with the same constructors lfshttp uses (NewRetriableLaterError, NewRetriableError, NewFatalError, Wrap)",
		"only synchronisation operations are scheduling points (plain memory accesses between them are not interleaved; a separate -race pass is the tool for those)",
		"tq/meter.go is not rewritten; the queue runs with a nil *Meter (all Meter methods are nil-safe)",
		"virtual clock: time advances only when every thread is blocked or as an explicit (costed) scheduling alternative",
	}
	var parts []vx.Part
	deadlineQ, deadlineT := 7*time.Minute, 40*time.Minute
	only := os.Getenv("VERIF_ONLY")
	if c.Replay != "" {
		rf, err := c.LoadReplay()
		if err != nil {
			fmt.Println("TOOL-ERROR cannot load replay:", err)
			os.Exit(2)
		}
		exec := func(p []vx.Point) vx.Result { return pool.ExecArg(p, rf.Scenario) }
		r := exec(rf.Prefix)
		st := vx.NewStats()
		st.Absorb(rf.Prefix, &r, 0)
		fmt.Printf("replayed scenario=%s outcome=%s violations=%d\n", rf.Scenario, r.Outcome, len(r.Violations))
		for _, v := range r.Violations {
			fmt.Printf("  %s: %s\n", v.Fingerprint, v.Msg)
		}
		pool.Close()
		os.Exit(c.Finish([]vx.Part{{Scenario: rf.Scenario, Stats: st, Exec: exec}}, nil))
	}
	bounds := []map[string]interface{}{}
	var todo []space
	for _, sp := range spaces(prop, c.Thorough()) {
		if only == "" || only == sp.name {
			todo = append(todo, sp)
		}
	}
	total := c.DeadlineAfter(deadlineQ, deadlineT)
	for i, sp := range todo {
		sp := sp
		exec := func(p []vx.Point) vx.Result { return pool.ExecArg(p, sp.name) }
		// every scenario gets an equal share of the time that is left, so that a slow machine cuts each
		// scenario a little instead of dropping the last ones entirely (a cut is reported as exhaustive:false)
		slice := time.Until(total) / time.Duration(len(todo)-i)
		if slice < 20*time.Second {
			slice = 20 * time.Second
		}
		e := &vx.Explorer{Name: sp.name, BoundEnv: sp.d, BoundSch: sp.p, BoundSum: sp.sum, Exec: exec, Workers: nw, Deadline: time.Now().Add(slice)}
		t0 := time.Now()
		st := e.Explore()
		fmt.Printf("  scenario %-22s P<=%d D<=%d executions=%d outcomes=%d scripts=%d exhaustive=%v %.1fs\n", sp.name, sp.p, sp.d, st.Executions, len(st.Outcomes), len(st.NonTrivial), st.Exhaustive, time.Since(t0).Seconds())
		parts = append(parts, vx.Part{Scenario: sp.name, Stats: st, Exec: exec})
		bounds = append(bounds, map[string]interface{}{"scenario": sp.name, "preemption_bound": sp.p, "deviation_bound": sp.d, "all_sync_ops_are_points": sp.all,
			"adds": sp.adds, "batch_sizes": sp.batch, "workers": sp.workers, "max_retries": sp.retries, "watchers": sp.watch, "upload": sp.uploads})
	}
	if prop == "C06" && os.Getenv("VERIF_RACE_BIN") != "" && (only == "" || only == "race-pass") {
		t0 := time.Now()
		part := racePass(c)
		fmt.Printf("  scenario %-22s free-running -race pass: runs=%d distinct races=%d %.1fs\n", "race-pass", part.Stats.Executions, len(part.Stats.Violations), time.Since(t0).Seconds())
		parts = append(parts, part)
		bounds = append(bounds, map[string]interface{}{"scenario": "race-pass", "what": "same harness bodies, package tq NOT rewritten, built with -race, free-running goroutines; every configuration x nominal + every single environment deviation, 2 runs each; complements the schedule exploration for unsynchronised plain memory accesses (not exhaustive over schedules: the Go scheduler decides)"})
	}
	c.Bounds["scenarios"] = bounds
	code := c.Finish(parts, nil)
	pool.Close()
	os.Exit(code)
}

func TestVerifC06(t *testing.T) { verifMain("C06") }

// racePass runs the separately built free-running -race binary and turns its report into a vx.Part.
// A data race between two functions of git-lfs is reported under the fingerprint C06:data-race:<f1>+<f2>.
func racePass(c *vx.Check) vx.Part {
	type rec struct {
		ID         string   `json:"id"`
		Config     string   `json:"config"`
		Script     string   `json:"script"`
		Races      []string `json:"races"`
		RaceText   []string `json:"race_text"`
		Harness    int      `json:"harness_races"`
		Violations []string `json:"violations"`
		Outcome    string   `json:"outcome"`
		Err        string   `json:"err"`
	}
	runBin := func(onlyID string, reps int) []rec {
		outp := filepath.Join(os.Getenv("VERIF_SCRATCH"), fmt.Sprintf("race-out-%s-%d.jsonl", onlyID, time.Now().UnixNano()))
		var all []rec
		for r := 0; r < reps; r++ {
			cmd := exec.Command(os.Getenv("VERIF_RACE_BIN"), "-test.run", "^TestC06Race$")
			cmd.Env = append(os.Environ(), "VERIF_RACE_OUT="+outp, "VERIF_RACE_ONLY="+onlyID)
			cmd.Dir = os.Getenv("VERIF_SCRATCH")
			cmd.CombinedOutput()
			f, err := os.Open(outp)
			if err != nil {
				continue
			}
			sc := bufio.NewScanner(f)
			sc.Buffer(make([]byte, 1<<20), 1<<24)
			for sc.Scan() {
				var x rec
				if json.Unmarshal(sc.Bytes(), &x) == nil {
					all = append(all, x)
				}
			}
			f.Close()
			os.Remove(outp)
			if onlyID == "" {
				break
			}
		}
		return all
	}
	toResult := func(x rec) vx.Result {
		r := vx.Result{Outcome: "race-pass:" + x.Outcome, NonTrivial: []string{x.Config + " | " + x.Script}, Counters: map[string]int64{"race_pass.harness_only_races": int64(x.Harness)}}
		if x.Err != "" {
			r.Inconcl = "race child failed: " + x.Err
		}
		seen := map[string]bool{}
		for i, fp := range x.Races {
			if seen[fp] {
				continue
			}
			seen[fp] = true
			txt := ""
			if i < len(x.RaceText) {
				txt = x.RaceText[i]
			}
			r.Violations = append(r.Violations, vx.Violation{Fingerprint: fp, Msg: "the race detector reports a data race in git-lfs code (free-running -race pass)\nconfig: " + x.Config + " script: " + x.Script + "\n" + txt, Detail: map[string]interface{}{"job": x.ID}})
		}
		for _, v := range x.Violations {
			parts := strings.SplitN(v, "|", 2)
			if strings.HasPrefix(parts[0], "C06:") && !strings.Contains(parts[0], "blocked") {
				r.Violations = append(r.Violations, vx.Violation{Fingerprint: parts[0] + ":free-running", Msg: parts[1] + "\nconfig: " + x.Config + " script: " + x.Script, Detail: map[string]interface{}{"job": x.ID}})
			}
		}
		r.Sample = map[string]interface{}{"race_pass_job": x.ID, "config": x.Config, "script": x.Script, "races": x.Races, "outcome": x.Outcome}
		return r
	}
	st := vx.NewStats()
	ids := map[string]int{}
	var order []string
	for _, x := range runBin("", 1) {
		if _, ok := ids[x.ID]; !ok {
			ids[x.ID] = len(order)
			order = append(order, x.ID)
		}
		r := toResult(x)
		pt := []vx.Point{{K: vx.Input, N: 1 << 20, C: ids[x.ID]}}
		r.Points = pt
		st.Absorb(pt, &r, 0)
	}
	st.Exhaustive = true
	// confirmation: race detection is probabilistic, so a replay repeats the job up to 12 times
	exec := func(p []vx.Point) vx.Result {
		if len(p) != 1 || p[0].C >= len(order) {
			return vx.Result{Points: p, ToolErr: "bad race-pass replay prefix"}
		}
		agg := vx.Result{Points: p}
		seen := map[string]bool{}
		for _, x := range runBin(order[p[0].C], 6) {
			r := toResult(x)
			for _, v := range r.Violations {
				if !seen[v.Fingerprint] {
					seen[v.Fingerprint] = true
					agg.Violations = append(agg.Violations, v)
				}
			}
		}
		return agg
	}
	return vx.Part{Scenario: "race-pass", Stats: st, Exec: exec}
}
