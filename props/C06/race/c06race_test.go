package c06race

// Free-running -race pass for C06: the same harness bodies (props/C06/tq_harness.go) built WITHOUT the
// scheduler rewrite and WITH the race detector.  The cooperative scheduler's hand-offs are happens-before
// edges that would blind the detector, hence this separate pass.  It complements the schedule exploration:
// unsynchronised plain memory accesses are not scheduling points there.
//
// parent mode (default): enumerate configurations x single-deviation scripts, run each in a child process with
// GORACE=log_path=..., parse the reports, write one JSON line per run to $VERIF_RACE_OUT.
// child mode (VX_RACE_CHILD=<json>): run one script once.

import (
	"encoding/json"
	"fmt"
	"os"
	"os/exec"
	"path/filepath"
	"regexp"
	"sort"
	"strings"
	"sync"
	"testing"

	"github.com/git-lfs/git-lfs/v3/tq"
)

type job struct {
	Cfg    tq.VerifCfg    `json:"cfg"`
	Script map[string]int `json:"script"`
	ID     string         `json:"id"`
}

type result struct {
	ID         string   `json:"id"`
	Config     string   `json:"config"`
	Script     string   `json:"script"`
	Races      []string `json:"races"`
	RaceText   []string `json:"race_text,omitempty"`
	Harness    int      `json:"harness_races"`
	Violations []string `json:"violations"`
	Outcome    string   `json:"outcome"`
	Err        string   `json:"err,omitempty"`
}

type nullChooser struct{}

func (nullChooser) In(n int) int             { return 0 }
func (nullChooser) Env(n int) int            { return 0 }
func (nullChooser) Sched(n int, w []int) int { return 0 }

func child(spec string) {
	var j job
	if err := json.Unmarshal([]byte(spec), &j); err != nil {
		fmt.Println("bad child spec:", err)
		os.Exit(3)
	}
	j.Cfg.Free = true
	j.Cfg.FreeScript = j.Script
	obs := tq.VerifRunQueue(j.Cfg, nullChooser{})
	out := map[string]interface{}{"violations": obs.Violations, "errors": len(obs.Errors), "returned": obs.Returned, "script": obs.Script}
	b, _ := json.Marshal(out)
	fmt.Println("CHILD-RESULT " + string(b))
}

var frameRE = regexp.MustCompile(`^\s+(github\.com/git-lfs/git-lfs/v3/[^\s(]+(?:\([^)]*\))?[^\s(]*)\(`)

// parseRaces extracts one fingerprint per DATA RACE block: the sorted pair of the first git-lfs (non harness)
// function of each of the two accesses.
func parseRaces(text string) (fps []string, blocks []string, harness int) {
	for _, blk := range strings.Split(text, "WARNING: DATA RACE")[1:] {
		if i := strings.Index(blk, "=================="); i >= 0 {
			blk = blk[:i]
		}
		var funcs []string
		lines := strings.Split(blk, "\n")
		inAccess := false
		found := false
		for i, l := range lines {
			if strings.Contains(l, " by goroutine ") || strings.Contains(l, " by main goroutine") {
				if strings.HasPrefix(strings.TrimSpace(l), "Goroutine") {
					inAccess = false
					continue
				}
				inAccess = true
				found = false
				continue
			}
			if strings.HasPrefix(strings.TrimSpace(l), "Goroutine ") {
				inAccess = false
			}
			if inAccess && !found {
				if m := frameRE.FindStringSubmatch(l); m != nil {
					file := ""
					if i+1 < len(lines) {
						file = lines[i+1]
					}
					if strings.Contains(file, "zz_tq_harness") || strings.Contains(file, "c14_extracted") || strings.Contains(m[1], "/verifx/") {
						continue
					}
					fn := strings.TrimPrefix(m[1], "github.com/git-lfs/git-lfs/v3/")
					fn = regexp.MustCompile(`\.func\d+(\.\d+)*$`).ReplaceAllString(fn, ".func")
					funcs = append(funcs, fn)
					found = true
				}
			}
		}
		if len(funcs) == 0 {
			harness++
			continue
		}
		sort.Strings(funcs)
		// dedup identical names
		if len(funcs) == 2 && funcs[0] == funcs[1] {
			funcs = funcs[:1]
		}
		fps = append(fps, "C06:data-race:"+strings.Join(funcs, "+"))
		if len(blk) > 2500 {
			blk = blk[:2500]
		}
		blocks = append(blocks, blk)
	}
	return
}

func jobs(thorough bool) []job {
	var js []job
	addsL := [][]string{{"A", "A"}, {"A", "B", "A"}}
	ups := []bool{false, true}
	batches := []int{1, 2}
	workersL := []int{2}
	if thorough {
		addsL = append(addsL, []string{"A", "B"}, []string{"A", "B", "C"}, []string{"A", "A", "A"})
		workersL = []int{2, 3}
	}
	type dev struct {
		class string
		n     int
	}
	devs := []dev{{"batchcall", 8}, {"object", 7}, {"adapter", 7}, {"begin", 1}, {"localfile", 3}}
	id := 0
	for _, up := range ups {
		for _, adds := range addsL {
			for _, b := range batches {
				for _, w := range workersL {
					cfg := tq.VerifCfg{Upload: up, Adds: adds, BatchSize: b, Workers: w, MaxRetries: 1, Watchers: 2, Scratch: filepath.Join(os.Getenv("VERIF_SCRATCH"), "tqfiles"), NoEnv: "duration,expiry"}
					scripts := []map[string]int{{}}
					for _, d := range devs {
						if d.class == "localfile" && !up {
							continue
						}
						for k := 0; k < 2; k++ {
							for v := 1; v <= d.n; v++ {
								scripts = append(scripts, map[string]int{fmt.Sprintf("%s#%d", d.class, k): v})
							}
						}
					}
					for _, s := range scripts {
						id++
						js = append(js, job{Cfg: cfg, Script: s, ID: fmt.Sprintf("r%04d", id)})
					}
				}
			}
		}
	}
	return js
}

func runJob(j job, dir string) result {
	spec, _ := json.Marshal(j)
	logp := filepath.Join(dir, "race-"+j.ID)
	cmd := exec.Command(os.Args[0], "-test.run", "^TestC06Race$")
	cmd.Env = append(os.Environ(), "VX_RACE_CHILD="+string(spec), "GORACE=log_path="+logp+" halt_on_error=0 exitcode=0 history_size=3")
	out, err := cmd.CombinedOutput()
	res := result{ID: j.ID, Config: fmt.Sprintf("up=%v adds=%s batch=%d workers=%d", j.Cfg.Upload, strings.Join(j.Cfg.Adds, ""), j.Cfg.BatchSize, j.Cfg.Workers)}
	var ks []string
	for k, v := range j.Script {
		ks = append(ks, fmt.Sprintf("%s=%d", k, v))
	}
	res.Script = strings.Join(ks, " ")
	for _, l := range strings.Split(string(out), "\n") {
		if strings.HasPrefix(l, "CHILD-RESULT ") {
			var cr struct {
				Violations []string `json:"violations"`
				Errors     int      `json:"errors"`
				Returned   bool     `json:"returned"`
			}
			json.Unmarshal([]byte(l[13:]), &cr)
			res.Violations = cr.Violations
			res.Outcome = fmt.Sprintf("returned=%v errors=%d", cr.Returned, cr.Errors)
		}
	}
	if res.Outcome == "" {
		res.Err = fmt.Sprintf("child produced no result: %v: %s", err, tail(string(out), 600))
	}
	logs, _ := filepath.Glob(logp + ".*")
	if strings.Contains(res.Outcome, "returned=false") {
		// the free-running execution hit the 20 s tool guard: the abandoned goroutines keep running while the harness
		// reads its observations, so any race report of this run is an artefact; the run is inconclusive
		for _, lf := range logs {
			os.Remove(lf)
		}
		res.Err = "free-running execution did not finish within the tool guard"
		return res
	}
	for _, lf := range logs {
		b, _ := os.ReadFile(lf)
		fps, blocks, h := parseRaces(string(b))
		res.Races = append(res.Races, fps...)
		res.RaceText = append(res.RaceText, blocks...)
		res.Harness += h
		os.Remove(lf)
	}
	return res
}

func tail(s string, n int) string {
	if len(s) > n {
		return s[len(s)-n:]
	}
	return s
}

func TestC06Race(t *testing.T) {
	if spec := os.Getenv("VX_RACE_CHILD"); spec != "" {
		child(spec)
		return
	}
	tq.VerifPrepareScratch(filepath.Join(os.Getenv("VERIF_SCRATCH"), "tqfiles"), true)
	dir := filepath.Join(os.Getenv("VERIF_SCRATCH"), "racelogs")
	os.MkdirAll(dir, 0755)
	outp := os.Getenv("VERIF_RACE_OUT")
	f, err := os.Create(outp)
	if err != nil {
		t.Fatal(err)
	}
	defer f.Close()
	js := jobs(os.Getenv("VERIF_TIER") == "thorough")
	if only := os.Getenv("VERIF_RACE_ONLY"); only != "" {
		var sel []job
		for _, j := range js {
			if j.ID == only {
				sel = append(sel, j)
			}
		}
		js = sel
	}
	reps := 1
	if os.Getenv("VERIF_TIER") == "thorough" {
		reps = 3
	}
	var mu sync.Mutex
	var wg sync.WaitGroup
	ch := make(chan job)
	for w := 0; w < 12; w++ {
		wg.Add(1)
		go func() {
			defer wg.Done()
			for j := range ch {
				for r := 0; r < reps; r++ {
					res := runJob(j, dir)
					b, _ := json.Marshal(res)
					mu.Lock()
					f.Write(append(b, '\n'))
					mu.Unlock()
				}
			}
		}()
	}
	for _, j := range js {
		ch <- j
	}
	close(ch)
	wg.Wait()
	fmt.Printf("race pass: %d scripts x %d runs\n", len(js), reps)
}
