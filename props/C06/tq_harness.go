package tq

// Harness for C06 / C15: drives the REAL TransferQueue + adapterBase (rewritten onto the controlled
// scheduler by tools/vrewrite) with a scripted batch client and a scripted transfer implementation.
// This file is written in plain Go (chan / go / sync / time) and is rewritten together with the package.

import (
	"fmt"
	"os"
	"path/filepath"
	"sort"
	"strings"
	"sync"
	"time"

	"github.com/git-lfs/git-lfs/v3/errors"
	"github.com/git-lfs/git-lfs/v3/lfsapi"
	"github.com/git-lfs/git-lfs/v3/lfshttp"
	"github.com/git-lfs/git-lfs/v3/verifx/vsched"
)

// VerifChooser supplies every nondeterministic decision of one execution.
type VerifChooser interface {
	In(n int) int             // input dimension (fully enumerated)
	Env(n int) int            // environment answer; != 0 is a deviation
	Sched(n int, w []int) int // scheduling decision
}

// VerifCfg is one queue configuration (chosen by the driver through In()).
type VerifCfg struct {
	Upload         bool
	Adds           []string // sequence of object names added by the producer, e.g. A B A
	BatchSize      int
	Workers        int
	MaxRetries     int
	MaxDelay       int // seconds; 0 = not configured (default), -1 = configured as 0 (no delays between retries)
	Watchers       int
	DryRun         bool
	Scratch        string // directory with upload source files
	AllPoints      bool
	NewestFirst    bool   // default scheduler: newest enabled thread first (else oldest first)
	ContextBounded bool   // CHESS-style: only preemptions cost; switches at blocking points are free (much larger space)
	ExpiryForms    bool   // C15: let the env pick expiry forms
	NoEnv          string // comma list of env classes pinned to their default (to focus budgets)
	ForceFail      bool   // C15: every adapter attempt fails retriably (reach the end of the retry budget)
	// Free: run WITHOUT the controlled scheduler (plain goroutines; used by the -race pass on the unrewritten package).
	// Environment answers then come from FreeScript ("class#k" -> answer for the k-th choice of that class).
	Free       bool
	FreeScript map[string]int
}

// VerifAttempt is one logged attempt (batch inclusion or adapter invocation).
type VerifAttempt struct {
	Kind    string // "batch" | "adapter"
	Oid     string
	Start   time.Duration
	End     time.Duration
	Outcome string
	Call    int
}

// VerifObs is everything observed in one execution.
type VerifObs struct {
	Panic      string
	Deadlock   bool
	Blocked    []string
	Horizon    bool
	Steps      int
	Points     int
	Now        time.Duration
	Errors     []string
	Delivered  []map[string]int    // per watcher: oid -> count
	Succeeded  map[string]int      // adapter successes per oid
	NoAction   map[string]bool     // server declared no transfer needed (last word)
	BatchErr   map[string][]string // marker of failed batch call -> oids in that call
	Attempts   []VerifAttempt
	EnvTrace   []string
	Violations []string // "fingerprint|message"
	Returned   bool     // producer finished Add...Wait
	States     []string
	Script     string
}

func verifOid(name string) string {
	c := strings.ToLower(name)[0]
	return strings.Repeat(string(c), 64)
}

type verifEnv struct {
	ch            VerifChooser
	cfg           VerifCfg
	obs           *VerifObs
	pinned        map[string]bool
	ncall         int
	open          map[string]int // adapter invocations currently open per oid
	stickyBatch   int
	stickyAdapter int
	mu            vsched.FreeMutex // guards harness state in free-running mode only
	freeCount     map[string]int
	gen           int
	expiry        map[string]time.Time // action href -> instant at which the server said it expires (zero: never)
	lastAct       map[string]string
}

func (e *verifEnv) env(class string, n int) int {
	if e.pinned[class] {
		return 0
	}
	var c int
	if e.cfg.Free {
		if e.freeCount == nil {
			e.freeCount = map[string]int{}
		}
		k := e.freeCount[class]
		e.freeCount[class]++
		c = e.cfg.FreeScript[fmt.Sprintf("%s#%d", class, k)]
		if c >= n {
			c = 0
		}
	} else {
		c = e.ch.Env(n)
	}
	if c != 0 {
		e.obs.EnvTrace = append(e.obs.EnvTrace, fmt.Sprintf("%s=%d", class, c))
	}
	return c
}

// ---- scripted batch client -----------------------------------------------------------------------

type verifBatchClient struct {
	e          *verifEnv
	maxRetries int
}

func (c *verifBatchClient) MaxRetries() int     { return c.maxRetries }
func (c *verifBatchClient) SetMaxRetries(n int) { c.maxRetries = n }

func (c *verifBatchClient) Batch(remote string, bReq *batchRequest) (*BatchResponse, error) {
	e := c.e
	e.mu.Lock()
	defer e.mu.Unlock()
	e.ncall++
	call := e.ncall
	now := vsched.Elapsed()
	var oids []string
	for _, o := range bReq.Objects {
		oids = append(oids, o.Oid)
	}
	logAll := func(outcome string) {
		for _, o := range oids {
			e.obs.Attempts = append(e.obs.Attempts, VerifAttempt{Kind: "batch", Oid: o, Start: now, End: now, Outcome: outcome, Call: call})
		}
	}
	marker := fmt.Sprintf("batch-fail-#%d", call)
	base := errors.New(marker)
	bc := e.stickyBatch
	if bc == 0 {
		bc = e.env("batchcall", 9)
		if bc >= 5 { // 5..8: the same failure from now on, for every later batch call (persistent outage)
			bc -= 4
			e.stickyBatch = bc
		}
	}
	switch bc {
	case 1:
		logAll("retry-later")
		e.obs.BatchErr[marker] = oids
		return nil, errors.Wrap(errors.NewRetriableLaterError(base, "2"), "batch response")
	case 2:
		logAll("retriable")
		e.obs.BatchErr[marker] = oids
		return nil, errors.Wrap(errors.NewRetriableError(base), "batch response")
	case 3:
		logAll("fatal")
		e.obs.BatchErr[marker] = oids
		return nil, errors.Wrap(errors.NewFatalError(base), "batch response")
	case 4:
		logAll("plain4xx")
		e.obs.BatchErr[marker] = oids
		return nil, errors.Wrap(base, "batch response")
	}
	logAll("ok")
	res := &BatchResponse{TransferAdapterName: "basic"}
	switch e.env("adaptername", 3) {
	case 1: // the server switches to another registered transfer adapter for this batch
		res.TransferAdapterName = "alt"
	case 2: // ... or names one that does not exist (the queue falls back to the default adapter)
		res.TransferAdapterName = "nonexistent"
	}
	requestedAt := time.Now()
	rel := "download"
	if e.cfg.Upload {
		rel = "upload"
	}
	mk := func(o *Transfer, form int) *Transfer {
		e.gen++
		a := &Action{Href: fmt.Sprintf("http://127.0.0.1:1/storage/%s?gen=%d", o.Oid, e.gen), createdAt: requestedAt}
		defer func() {
			var exp time.Time
			if a.ExpiresIn != 0 {
				exp = requestedAt.Add(time.Duration(a.ExpiresIn) * time.Second)
			} else {
				exp = a.ExpiresAt
			}
			e.expiry[a.Href] = exp
		}()
		switch form {
		case 1: // already expired (relative)
			a.ExpiresIn = -1
		case 2: // expires within the 5 s safety margin
			a.ExpiresIn = 3
		case 3: // absolute, in the past
			a.ExpiresAt = requestedAt.Add(-time.Minute)
		case 4: // comfortably in the future
			a.ExpiresIn = 3600
		case 5: // expires in 8 s: valid now, may expire while queued
			a.ExpiresIn = 8
		}
		return &Transfer{Oid: o.Oid, Size: o.Size, Authenticated: true, Actions: ActionSet{rel: a}, Missing: o.Missing}
	}
	for _, o := range bReq.Objects {
		nforms := 11
		switch e.env("object", nforms) {
		case 0:
			form := 0
			if e.cfg.ExpiryForms {
				form = []int{0, 4, 5}[e.env("expiry", 3)]
			}
			res.Objects = append(res.Objects, mk(o, form))
			e.lastAct[o.Oid] = "action"
		case 1: // server needs no transfer
			res.Objects = append(res.Objects, &Transfer{Oid: o.Oid, Size: o.Size, Missing: o.Missing})
			e.lastAct[o.Oid] = "noaction"
		case 2: // per-object error
			res.Objects = append(res.Objects, &Transfer{Oid: o.Oid, Size: o.Size, Error: &ObjectError{Code: 404, Message: "object-error-for-" + o.Oid[:4]}, Missing: o.Missing})
			e.lastAct[o.Oid] = "error"
		case 3: // omitted from the response
			e.lastAct[o.Oid] = "omitted"
		case 4: // listed twice
			res.Objects = append(res.Objects, mk(o, 0), mk(o, 0))
			e.lastAct[o.Oid] = "twice"
		case 5: // action that is already expired / expires within margin
			form := 1 + e.env("expiredform", 3)
			res.Objects = append(res.Objects, mk(o, form))
			e.lastAct[o.Oid] = "expired"
			e.obs.Attempts = append(e.obs.Attempts, VerifAttempt{Kind: "expired-offer", Oid: o.Oid, Start: now, End: now, Outcome: "expired-offer", Call: call})
		case 6: // plus an object nobody asked about
			res.Objects = append(res.Objects, mk(o, 0), mk(&Transfer{Oid: strings.Repeat("9", 64), Size: 7}, 0))
			e.lastAct[o.Oid] = "action"
		case 7: // plus an ERROR entry for an object nobody asked about
			res.Objects = append(res.Objects, mk(o, 0), &Transfer{Oid: strings.Repeat("8", 64), Size: 7, Error: &ObjectError{Code: 404, Message: "no such object"}})
			e.lastAct[o.Oid] = "action"
		case 8: // listed twice, both entries per-object errors
			mkErr := func() *Transfer {
				return &Transfer{Oid: o.Oid, Size: o.Size, Error: &ObjectError{Code: 404, Message: "object-error-for-" + o.Oid[:4]}, Missing: o.Missing}
			}
			res.Objects = append(res.Objects, mkErr(), mkErr())
			e.lastAct[o.Oid] = "error-twice"
		case 9: // listed twice: an error entry, then an entry with an action
			res.Objects = append(res.Objects, &Transfer{Oid: o.Oid, Size: o.Size, Error: &ObjectError{Code: 404, Message: "object-error-for-" + o.Oid[:4]}, Missing: o.Missing}, mk(o, 0))
			e.lastAct[o.Oid] = "error+action"
		case 10: // listed twice: an entry with an action, then an error entry
			res.Objects = append(res.Objects, mk(o, 0), &Transfer{Oid: o.Oid, Size: o.Size, Error: &ObjectError{Code: 404, Message: "object-error-for-" + o.Oid[:4]}, Missing: o.Missing})
			e.lastAct[o.Oid] = "action+error"
		}
	}
	return res, nil
}

// ---- scripted transfer implementation under the real adapterBase ----------------------------------

type verifImpl struct{ e *verifEnv }

func (t *verifImpl) WorkerStarting(workerNum int) (interface{}, error) {
	t.e.mu.Lock()
	defer t.e.mu.Unlock()
	if workerNum <= 1 && t.e.env("begin", 2) == 1 {
		return nil, errors.New("adapter-begin-failed")
	}
	return nil, nil
}
func (t *verifImpl) WorkerEnding(workerNum int, ctx interface{}) {}

func (t *verifImpl) DoTransfer(ctx interface{}, tr *Transfer, cb ProgressCallback, authOkFunc func()) error {
	e := t.e
	e.mu.Lock()
	defer e.mu.Unlock()
	start := vsched.Elapsed()
	e.open[tr.Oid]++
	if e.open[tr.Oid] > 1 {
		e.obs.Violations = append(e.obs.Violations, "C15:overlap|two transfers of object "+tr.Oid[:4]+" in progress at the same time")
	}
	// expired action handed to the adapter?
	rel := "download"
	if e.cfg.Upload {
		rel = "upload"
	}
	// Every real adapter (basic, tus, ssh, custom) begins DoTransfer with t.Rel(<direction>), which refuses an
	// action that has expired or expires within 5 s with a retriable ActionExpiredErr: the object then goes back
	// into a batch request.  The scripted adapter does the same, through the real Rel/ActionSet.Get/time_tools.
	if _, rerr := tr.Rel(rel); rerr != nil {
		e.open[tr.Oid]--
		e.obs.BatchErr[rerr.Error()] = append(e.obs.BatchErr[rerr.Error()], tr.Oid)
		e.obs.Attempts = append(e.obs.Attempts, VerifAttempt{Kind: "adapter", Oid: tr.Oid, Start: start, End: vsched.Elapsed(), Outcome: "expired-at-adapter"})
		return rerr
	}
	if a := tr.Actions[rel]; a != nil {
		// what the SERVER advertised for this href, not what the (copied) action struct still says
		exp, known := e.expiry[a.Href]
		if !known {
			e.obs.Violations = append(e.obs.Violations, "C15:action-not-offered|the adapter was handed an action href the server never offered: "+a.Href)
		}
		if !exp.IsZero() && !exp.After(vsched.Now()) {
			e.obs.Violations = append(e.obs.Violations, fmt.Sprintf("C15:expired-used|action of %s expired at +%v but the adapter was handed it at +%v and its own expiry check (Transfer.Rel) let it through", tr.Oid[:4], exp.Sub(vsched.Epoch), start))
		}
	}
	dur := time.Duration(0)
	switch e.env("duration", 3) {
	case 1:
		dur = 6 * time.Second
	case 2: // longer than the shortest validity the server hands out (8 s): whatever waits behind this transfer expires
		dur = 10 * time.Second
	}
	if dur > 0 {
		time.Sleep(dur)
	}
	var err error
	outcome := "success"
	c := 0
	if e.cfg.ForceFail {
		c = 1
	} else if e.stickyAdapter != 0 {
		c = e.stickyAdapter
	} else {
		c = e.env("adapter", 8)
		if c >= 5 { // 5..7: retriable / retry-later / fatal from now on for every later attempt
			c -= 4
			e.stickyAdapter = c
		}
	}
	switch c {
	case 1:
		outcome = "retriable"
		err = errors.NewRetriableError(errors.New("adapter-retriable-" + tr.Oid[:4]))
	case 2:
		outcome = "retry-later"
		err = errors.NewRetriableLaterError(errors.New("adapter-retry-later-"+tr.Oid[:4]), "2")
	case 3:
		outcome = "fatal"
		err = errors.New("adapter-fatal-" + tr.Oid[:4])
	case 4:
		outcome = "422"
		err = errors.NewUnprocessableEntityError(errors.New("adapter-422-" + tr.Oid[:4]))
	default:
		if authOkFunc != nil {
			authOkFunc()
		}
		e.obs.Succeeded[tr.Oid]++
	}
	e.open[tr.Oid]--
	e.obs.Attempts = append(e.obs.Attempts, VerifAttempt{Kind: "adapter", Oid: tr.Oid, Start: start, End: vsched.Elapsed(), Outcome: outcome})
	return err
}

var verifCli *lfsapi.Client

// verifClient builds the (inert) API client once per process: constructing it spawns git twice.
func verifClient() *lfsapi.Client {
	if verifCli == nil {
		cli, err := lfsapi.NewClient(lfshttp.NewContext(nil, map[string]string{}, map[string]string{}))
		if err != nil {
			panic("harness: " + err.Error())
		}
		verifCli = cli
	}
	return verifCli
}

// VerifPrepareScratch creates the upload source files once per process.
func VerifPrepareScratch(dir string, create bool) {
	if create { // only the coordinator writes; workers must never truncate files other workers are stat-ing
		os.MkdirAll(dir, 0755)
		os.WriteFile(filepath.Join(dir, "present"), []byte("0123456789"), 0644)
		os.WriteFile(filepath.Join(dir, "wrongsize"), []byte("0123"), 0644)
	}
	verifClient()
}

// VerifRunQueue performs one controlled execution and returns what was observed.
func VerifRunQueue(cfg VerifCfg, ch VerifChooser) *VerifObs {
	obs := &VerifObs{Succeeded: map[string]int{}, NoAction: map[string]bool{}, BatchErr: map[string][]string{}}
	e := &verifEnv{ch: ch, cfg: cfg, obs: obs, pinned: map[string]bool{}, open: map[string]int{}, lastAct: map[string]string{}, expiry: map[string]time.Time{}}
	for _, p := range strings.Split(cfg.NoEnv, ",") {
		if p != "" {
			e.pinned[p] = true
		}
	}
	if !cfg.ExpiryForms {
		e.pinned["expiry"] = true
	}
	if e.pinned["localfile"] { // caller-side input faults are one family
		e.pinned["adderr"] = true
	}
	dir := Download
	if cfg.Upload {
		dir = Upload
	}
	var q *TransferQueue
	added := map[string]int{}
	var order []string
	body := func() {
		cli := verifClient()
		m := &concreteManifest{
			maxRetries:           cfg.MaxRetries,
			maxRetryDelay:        cfg.MaxDelay,
			concurrentTransfers:  cfg.Workers,
			downloadAdapterFuncs: make(map[string]NewAdapterFunc),
			uploadAdapterFuncs:   make(map[string]NewAdapterFunc),
			apiClient:            cli,
			batchClientAdapter:   &verifBatchClient{e: e},
		}
		switch {
		case cfg.MaxDelay == -1:
			m.maxRetryDelay = 0 // lfs.transfer.maxretrydelay=0: no delays between retries (C15 part config-binding ties the key to this number)
		case m.maxRetryDelay < 1:
			m.maxRetryDelay = defaultMaxRetryDelay
		}
		m.RegisterNewAdapterFunc("basic", dir, func(name string, d Direction) Adapter {
			return newAdapterBase(nil, name, d, &verifImpl{e: e})
		})
		m.RegisterNewAdapterFunc("alt", dir, func(name string, d Direction) Adapter {
			return newAdapterBase(nil, name, d, &verifImpl{e: e})
		})
		q = NewTransferQueue(dir, m, "origin", WithBatchSize(cfg.BatchSize), DryRun(cfg.DryRun))
		obs.Delivered = make([]map[string]int, cfg.Watchers)
		watchDone := make(chan struct{}, cfg.Watchers)
		for w := 0; w < cfg.Watchers; w++ {
			w := w
			obs.Delivered[w] = map[string]int{}
			c := q.Watch()
			go func() {
				for t := range c {
					obs.Delivered[w][t.Oid]++
				}
				watchDone <- struct{}{}
			}()
		}
		for _, name := range cfg.Adds {
			oid := verifOid(name)
			if added[oid] == 0 {
				order = append(order, oid)
			}
			added[oid]++
			path, missing := filepath.Join(cfg.Scratch, "present"), false
			if cfg.Upload && added[oid] == 1 {
				e.mu.Lock()
				lf := e.env("localfile", 4)
				e.mu.Unlock()
				switch lf {
				case 1:
					path, missing = filepath.Join(cfg.Scratch, "absent"), true
				case 2:
					path, missing = filepath.Join(cfg.Scratch, "absent"), false
				case 3:
					path = filepath.Join(cfg.Scratch, "wrongsize")
				}
			}
			// the caller may hand Add an error it met while preparing the object (commands/uploader.go does): the
			// queue must report it; the object never enters the queue
			var addErr error
			e.mu.Lock()
			if e.env("adderr", 2) == 1 {
				addErr = errors.New("add-error-for-" + oid[:4])
			}
			e.mu.Unlock()
			q.Add("file-"+name, path, oid, 10, missing, addErr)
		}
		q.Wait()
		for w := 0; w < cfg.Watchers; w++ {
			<-watchDone
		}
		obs.Returned = true
	}
	var out vsched.Outcome
	if cfg.Free {
		e.pinned["duration"] = true
		fin := make(chan string, 1)
		go func() {
			defer func() {
				if r := recover(); r != nil {
					fin <- fmt.Sprint(r)
					return
				}
				fin <- ""
			}()
			body()
		}()
		select {
		case p := <-fin:
			out.Panic = p
		case <-time.After(20 * time.Second):
			out.Deadlock = true
			out.Blocked = []string{"free-running execution did not finish within the 20 s tool guard"}
		}
	} else {
		out = vsched.Run(ch.Sched, vsched.Options{AllPoints: cfg.AllPoints, DelayBounded: !cfg.ContextBounded, NewestFirst: cfg.NewestFirst}, body)
	}
	obs.Panic, obs.Deadlock, obs.Blocked, obs.Horizon = out.Panic, out.Deadlock, out.Blocked, out.Horizon
	if strings.Contains(out.Panic, "divergence while replaying") || strings.Contains(out.Panic, "out-of-range choice") {
		panic(out.Panic) // explorer tool error raised inside a controlled thread: not an observation
	}
	if out.Panic != "" {
		obs.Panic = out.Panic + "\n" + verifTrimStack(out.PanicStack)
	}
	obs.Steps, obs.Points, obs.Now = out.Steps, out.Points, out.Now
	if q != nil {
		for _, err := range q.errors {
			obs.Errors = append(obs.Errors, err.Error())
		}
	}
	for oid, a := range e.lastAct {
		if a == "noaction" {
			obs.NoAction[oid] = true
		}
	}
	obs.Script = strings.Join(obs.EnvTrace, " ")
	verifOracleC06(cfg, obs, added, order)
	verifOracleC15(cfg, obs)
	return obs
}

func verifTrimStack(s string) string {
	lines := strings.Split(s, "\n")
	var keep []string
	for _, l := range lines {
		if strings.Contains(l, "/tq.") || strings.Contains(l, "tq__") || strings.Contains(l, "/tq/") {
			keep = append(keep, strings.TrimSpace(l))
		}
		if len(keep) >= 8 {
			break
		}
	}
	return strings.Join(keep, "\n")
}

func verifPanicClass(p string) string {
	first := p
	if i := strings.IndexByte(p, '\n'); i >= 0 {
		first = p[:i]
	}
	for _, k := range []string{"negative WaitGroup counter", "send on closed channel", "close of closed channel", "nil pointer", "index out of range", "unlock of unlocked"} {
		if strings.Contains(first, k) {
			return strings.ReplaceAll(k, " ", "-")
		}
	}
	if len(first) > 40 {
		first = first[:40]
	}
	return strings.ReplaceAll(first, " ", "-")
}

// verifCause summarises the environment deviations of the execution for fingerprints (classes only).
func verifCause(obs *VerifObs) string {
	set := map[string]bool{}
	for _, t := range obs.EnvTrace {
		set[t] = true
	}
	var ks []string
	for k := range set {
		ks = append(ks, k)
	}
	sort.Strings(ks)
	if len(ks) == 0 {
		return "nominal"
	}
	return strings.Join(ks, "+")
}

func verifOracleC06(cfg VerifCfg, obs *VerifObs, added map[string]int, order []string) {
	v := func(fp, msg string) { obs.Violations = append(obs.Violations, fp+"|"+msg) }
	cause := verifCause(obs)
	if obs.Panic != "" {
		v("C06:panic:"+verifPanicClass(obs.Panic)+":"+cause, "the transfer queue panicked: "+obs.Panic)
		return
	}
	if obs.Horizon {
		v("C06:livelock:"+cause, "step horizon hit: the queue never went quiescent")
		return
	}
	if obs.Deadlock || !obs.Returned {
		where := "wait"
		for _, b := range obs.Blocked {
			if strings.HasPrefix(b, "T0(") && strings.Contains(b, "send") {
				where = "add"
			}
		}
		v("C06:blocked-"+where+":"+cause, "Add/Wait never returned; blocked threads: "+strings.Join(obs.Blocked, "; "))
		return
	}
	abortErr := false
	for _, e := range obs.Errors {
		if strings.Contains(e, "Unable to find source for object") {
			abortErr = true
		}
	}
	for _, oid := range order {
		k := added[oid]
		short := oid[:4]
		succeeded := obs.Succeeded[oid] > 0 || cfg.DryRun
		full := true
		any := false
		for w, d := range obs.Delivered {
			n := d[oid]
			if n > 0 {
				any = true
			}
			if n != k {
				full = false
			}
			if n > k {
				v("C06:over-delivered:"+cause, fmt.Sprintf("object %s added %d times but delivered %d times to watcher %d", short, k, n, w))
			}
		}
		if any && !succeeded {
			v("C06:delivered-untransferred:"+cause, fmt.Sprintf("object %s was delivered to a watcher but the adapter never completed it", short))
		}
		if full && succeeded && cfg.Watchers > 0 {
			continue
		}
		if cfg.Watchers == 0 && succeeded {
			continue
		}
		if obs.NoAction[oid] {
			continue
		}
		covered := abortErr
		for _, e := range obs.Errors {
			if strings.Contains(e, oid) || strings.Contains(e, "file-"+strings.ToUpper(short[:1])) || strings.Contains(e, "-for-"+short) || strings.Contains(e, "-"+short) {
				covered = true
			}
			for marker, oids := range obs.BatchErr {
				if strings.Contains(e, marker) {
					for _, o := range oids {
						if o == oid {
							covered = true
						}
					}
				}
			}
			if strings.Contains(e, "adapter-begin-failed") {
				covered = true
			}
		}
		if covered {
			continue
		}
		v("C06:unaccounted:"+cause, fmt.Sprintf("object %s (added %d times) was neither delivered to every watcher %d times (deliveries %v, adapter successes %d), nor declared needless by the server, nor covered by any reported error %q",
			short, k, k, obs.Delivered, obs.Succeeded[oid], obs.Errors))
	}
	for _, d := range obs.Delivered {
		for oid := range d {
			if added[oid] == 0 {
				v("C06:delivered-unknown:"+cause, "an object nobody added was delivered: "+oid[:4])
			}
		}
	}
}

func verifOracleC15(cfg VerifCfg, obs *VerifObs) {
	v := func(fp, msg string) { obs.Violations = append(obs.Violations, fp+"|"+msg) }
	cause := verifCause(obs)
	maxDelay := time.Duration(cfg.MaxDelay) * time.Second
	switch {
	case cfg.MaxDelay == -1:
		maxDelay = 0
	case cfg.MaxDelay < 1:
		maxDelay = defaultMaxRetryDelay * time.Second
	}
	byOid := map[string][]VerifAttempt{}
	for _, a := range obs.Attempts {
		byOid[a.Oid] = append(byOid[a.Oid], a)
	}
	for oid, as := range byOid {
		short := oid[:4]
		nb, na := 0, 0
		terminal := false
		var prev *VerifAttempt
		for i := range as {
			a := as[i]
			if a.Kind == "expired-offer" {
				// the server's offer for this object had already expired (or expires within the 5 s margin): the object
				// must be asked about again in a later batch call, unless its retry budget is spent and an error names it
				again := false
				for _, b := range as[i+1:] {
					if b.Kind == "batch" && b.Call > a.Call {
						again = true
					}
				}
				covered := false
				for _, e := range obs.Errors {
					if strings.Contains(e, oid) || strings.Contains(e, short) || strings.Contains(e, "file-"+strings.ToUpper(short[:1])) || strings.Contains(e, "batch-fail-") || strings.Contains(e, "adapter-begin-failed") {
						covered = true
					}
				}
				if !again && !covered && obs.Panic == "" && !obs.Deadlock {
					v("C15:expired-not-rerequested:"+cause, fmt.Sprintf("the action offered for %s in batch call #%d had expired; it was neither requested again nor reported as an error", short, a.Call))
				}
				continue
			}
			if a.Kind == "batch" {
				nb++
			} else {
				na++
			}
			if terminal {
				v("C15:retry-after-terminal:"+cause, fmt.Sprintf("object %s was attempted again (%s at +%v) after a non-retriable outcome", short, a.Kind, a.Start))
				terminal = false
			}
			if a.Kind == "adapter" && (a.Outcome == "fatal" || a.Outcome == "422") {
				terminal = true
			}
			if a.Kind == "batch" && (a.Outcome == "fatal" || a.Outcome == "plain4xx") {
				terminal = true
			}
			if prev != nil {
				if prev.Outcome == "retry-later" {
					// the server asked for 2 s
					if a.Start+time.Millisecond < prev.End+2*time.Second {
						v("C15:retry-after-ignored:"+cause, fmt.Sprintf("object %s deferred by Retry-After 2s at +%v was attempted again at +%v", short, prev.End, a.Start))
					}
				}
			}
			prev = &as[i]
		}
		if nb > 1+cfg.MaxRetries {
			v("C15:batch-attempts-exceeded:"+cause, fmt.Sprintf("object %s was included in %d batch requests; budget is 1+%d", short, nb, cfg.MaxRetries))
		}
		if na > 1+cfg.MaxRetries {
			v("C15:adapter-attempts-exceeded:"+cause, fmt.Sprintf("object %s was handed to the adapter %d times; budget is 1+%d", short, na, cfg.MaxRetries))
		}
	}
	// waits between consecutive batch calls that are not demanded by Retry-After must not exceed maxRetryDelay
	var calls []VerifAttempt
	seen := map[int]bool{}
	for _, a := range obs.Attempts {
		if a.Kind == "batch" && !seen[a.Call] {
			seen[a.Call] = true
			calls = append(calls, a)
		}
	}
	lastEnd := time.Duration(0)
	anyRetryLater := false
	for _, a := range obs.Attempts {
		if a.Outcome == "retry-later" {
			anyRetryLater = true
		}
	}
	if !anyRetryLater {
		// idle gaps: time during which no adapter attempt was open and no batch call happened
		type ev struct {
			at    time.Duration
			start bool
		}
		var evs []ev
		for _, a := range obs.Attempts {
			evs = append(evs, ev{a.Start, true}, ev{a.End, false})
		}
		sort.SliceStable(evs, func(i, j int) bool { return evs[i].at < evs[j].at })
		open := 0
		for _, e := range evs {
			if open == 0 && e.at-lastEnd > maxDelay+time.Millisecond { // 1 ms slack: every clock reading advances virtual time by 1 ns
				v("C15:wait-exceeds-maxdelay:"+cause, fmt.Sprintf("the queue idled %v between attempts (from +%v to +%v); configured maximum retry delay is %v", e.at-lastEnd, lastEnd, e.at, maxDelay))
				break
			}
			if e.start {
				open++
			} else {
				open--
			}
			if open == 0 {
				lastEnd = e.at
			}
		}
	}
	_ = calls
}

// ---------------------------------------------------------------------------------------------------
// C14(b): schedules of the delay buffer.  infiniteTransferBuffer / readAvailable / pathnames are copied
// verbatim from commands/command_filter_process.go of the working tree at check time (see prop.json
// "extract") and run, rewritten like the rest of this package, with the real queue.  The main thread below
// mirrors filterCommand's handling of delayed smudges and of list_available_blobs.

// VerifDelayObs is what one delay-buffer execution observed.
type VerifDelayObs struct {
	Panic, Script string
	Deadlock      bool
	Horizon       bool
	Blocked       []string
	Rounds        [][]string // pathnames announced per list_available_blobs answer (before the final empty one)
	Leftovers     []string   // paths announced together with the final (queue finished) answer
	Succeeded     map[string]int
	Finished      bool
	Steps, Points int
	Violations    []string
	Errors        []string
}

func VerifRunDelay(cfg VerifCfg, ch VerifChooser) *VerifDelayObs {
	obs := &VerifObs{Succeeded: map[string]int{}, NoAction: map[string]bool{}, BatchErr: map[string][]string{}}
	e := &verifEnv{ch: ch, cfg: cfg, obs: obs, pinned: map[string]bool{}, open: map[string]int{}, lastAct: map[string]string{}, expiry: map[string]time.Time{}}
	for _, p := range strings.Split(cfg.NoEnv, ",") {
		if p != "" {
			e.pinned[p] = true
		}
	}
	e.pinned["expiry"] = true
	d := &VerifDelayObs{Succeeded: obs.Succeeded}
	var q *TransferQueue
	oidOf := map[string]string{}
	out := vsched.Run(ch.Sched, vsched.Options{AllPoints: cfg.AllPoints, DelayBounded: !cfg.ContextBounded, NewestFirst: cfg.NewestFirst}, func() {
		cli := verifClient()
		m := &concreteManifest{
			maxRetries:           cfg.MaxRetries,
			maxRetryDelay:        defaultMaxRetryDelay,
			concurrentTransfers:  cfg.Workers,
			downloadAdapterFuncs: make(map[string]NewAdapterFunc),
			uploadAdapterFuncs:   make(map[string]NewAdapterFunc),
			apiClient:            cli,
			batchClientAdapter:   &verifBatchClient{e: e},
		}
		m.RegisterNewAdapterFunc("basic", Download, func(name string, dd Direction) Adapter {
			return newAdapterBase(nil, name, dd, &verifImpl{e: e})
		})
		// as in filterCommand, case "smudge" with the delay capability
		closeOnce := new(sync.Once)
		available := make(chan *Transfer)
		q = NewTransferQueue(Download, m, "origin", WithBatchSize(cfg.BatchSize))
		verifStartDelayBuffer(q, available) // the statement(s) of filterCommand that start the buffer goroutine, copied at check time
		ptrs := map[string]bool{}
		for i, name := range cfg.Adds {
			// distinct paths; a lower-case letter re-uses the oid of the upper-case one (two files, same content)
			path := fmt.Sprintf("p%d-%s", i, name)
			oid := verifOid(name)
			oidOf[path] = oid
			q.Add(path, filepath.Join(cfg.Scratch, "present"), oid, 10, false, nil)
			ptrs[path] = true
		}
		// as in filterCommand, case "list_available_blobs", repeated by Git until the answer is empty
		for round := 0; round < 50; round++ {
			closeOnce.Do(func() {
				go q.Wait()
			})
			paths := pathnames(readAvailable(available, q.BatchSize()))
			if len(paths) == 0 {
				for p := range ptrs {
					d.Leftovers = append(d.Leftovers, p)
				}
				sort.Strings(d.Leftovers)
				d.Finished = true
				return
			}
			var names []string
			for _, p := range paths {
				n := strings.TrimPrefix(p, "pathname=")
				names = append(names, n)
				// Git now retrieves the blob with a smudge request: the path is forgotten
				delete(ptrs, n)
			}
			d.Rounds = append(d.Rounds, names)
		}
	})
	d.Panic, d.Deadlock, d.Horizon, d.Blocked, d.Steps, d.Points = out.Panic, out.Deadlock, out.Horizon, out.Blocked, out.Steps, out.Points
	if strings.Contains(out.Panic, "divergence while replaying") || strings.Contains(out.Panic, "out-of-range choice") {
		panic(out.Panic)
	}
	if out.Panic != "" {
		d.Panic = out.Panic + "\n" + verifTrimStack(out.PanicStack)
	}
	if q != nil {
		for _, err := range q.errors {
			d.Errors = append(d.Errors, err.Error())
		}
	}
	d.Script = strings.Join(obs.EnvTrace, " ")
	cause := verifCause(obs)
	v := func(fp, msg string) { d.Violations = append(d.Violations, fp+"|"+msg) }
	switch {
	case d.Panic != "":
		v("C14:delay-panic:"+verifPanicClass(d.Panic)+":"+cause, "the delay buffer / queue panicked: "+d.Panic)
	case d.Horizon:
		v("C14:delay-livelock:"+cause, "step horizon hit")
	case d.Deadlock || !d.Finished:
		v("C14:delay-never-completes:"+cause, "list_available_blobs never reached the empty answer; blocked: "+strings.Join(d.Blocked, "; "))
	default:
		seen := map[string]int{}
		for _, r := range d.Rounds {
			for _, n := range r {
				seen[n]++
			}
		}
		for i, name := range cfg.Adds {
			path := fmt.Sprintf("p%d-%s", i, name)
			ok := obs.Succeeded[oidOf[path]] > 0
			left := false
			for _, l := range d.Leftovers {
				if l == path {
					left = true
				}
			}
			total := seen[path]
			if left {
				total++
			}
			if total != 1 {
				v("C14:delay-announced-"+fmt.Sprint(total)+"-times:"+cause, fmt.Sprintf("delayed path %s was announced as available %d times (rounds %v, leftovers %v); must be exactly once", path, total, d.Rounds, d.Leftovers))
			}
			if seen[path] > 0 && !ok {
				v("C14:delay-announced-untransferred:"+cause, fmt.Sprintf("path %s was announced from the queue although its object was never transferred", path))
			}
		}
		for n := range seen {
			if _, known := oidOf[n]; !known {
				v("C14:delay-announced-unknown:"+cause, "a path that was never delayed was announced: "+n)
			}
		}
	}
	return d
}
