package c20

// C20 — install / update / uninstall never destroy user hooks or filter settings.
//
// Explicit-state model checking of the REAL git-lfs binary: multi-source BFS over operation sequences
// (install / update / uninstall with their flags, plus commands that install hooks implicitly) starting from an
// enumerated set of pre-existing hook files (content classes; file types and link states; permission states) x
// hooks-directory types x filter.lfs.* values x scopes x where such a value lives relative to the scope's file (include
// files, includeIf, the XDG global file, other scopes: c20_where_verif_test.go) x core.hooksPath x the directory of the
// work tree the command is invoked from (c20_cwd_verif_test.go); states are real
// directory trees, deduplicated by a canonical key (hook bytes+modes, config values per scope); the ownership
// oracle is evaluated on every transition, and on every install transition two composite probes are run
// (install;install and install;install;uninstall).
//
// The ownership model (what is "content git-lfs itself generated") is written down here independently from
// lfs/hook.go's matching code: the WHOLE file, with leading blanks/tabs of every line removed and surrounding
// whitespace trimmed, equals the current or a historical template of that hook.

import (
	"bytes"
	"context"
	"crypto/sha256"
	"encoding/hex"
	"fmt"
	"io/fs"
	"os"
	"os/exec"
	"path/filepath"
	"runtime"
	"sort"
	"strings"
	"sync"
	"syscall"
	"testing"
	"time"

	"github.com/git-lfs/git-lfs/v3/verifx/gitx"
	"github.com/git-lfs/git-lfs/v3/verifx/vx"
)

// ---------------------------------------------------------------------------------------------------------
// Ownership model

const rootPH = "@@ROOT@@"

var hookNames = []string{"pre-push", "post-checkout", "post-commit", "post-merge"}

const (
	tmplCur  = "#!/bin/sh\ncommand -v git-lfs >/dev/null 2>&1 || { printf >&2 \"\\n%s\\n\\n\" \"This repository is configured for Git LFS but 'git-lfs' was not found on your path. If you no longer wish to use Git LFS, remove this hook by deleting the '{{Command}}' file in the hooks directory (set by 'core.hookspath'; usually '.git/hooks').\"; exit 2; }\ngit lfs {{Command}} \"$@\""
	tmplOld1 = "#!/bin/sh\ncommand -v git-lfs >/dev/null 2>&1 || { echo >&2 \"\\nThis repository is configured for Git LFS but 'git-lfs' was not found on your path. If you no longer wish to use Git LFS, remove this hook by deleting the '{{Command}}' file in the hooks directory (set by 'core.hookspath'; usually '.git/hooks').\\n\"; exit 2; }\ngit lfs {{Command}} \"$@\""
	tmplOld2 = "#!/bin/sh\ncommand -v git-lfs >/dev/null 2>&1 || { echo >&2 \"\\nThis repository is configured for Git LFS but 'git-lfs' was not found on your path. If you no longer wish to use Git LFS, remove this hook by deleting '.git/hooks/{{Command}}'.\\n\"; exit 2; }\ngit lfs {{Command}} \"$@\""
	tmplOld3 = "#!/bin/sh\ncommand -v git-lfs >/dev/null 2>&1 || { echo >&2 \"\\nThis repository is configured for Git LFS but 'git-lfs' was not found on your path. If you no longer wish to use Git LFS, remove this hook by deleting .git/hooks/{{Command}}.\\n\"; exit 2; }\ngit lfs {{Command}} \"$@\""
)

var prePushOnlyOld = []string{
	"#!/bin/sh\ngit lfs push --stdin $*",
	"#!/bin/sh\ngit lfs push --stdin \"$@\"",
	"#!/bin/sh\ngit lfs pre-push \"$@\"",
	"#!/bin/sh\ncommand -v git-lfs >/dev/null 2>&1 || { echo >&2 \"\\nThis repository has been set up with Git LFS but Git LFS is not installed.\\n\"; exit 0; }\ngit lfs pre-push \"$@\"",
	"#!/bin/sh\ncommand -v git-lfs >/dev/null 2>&1 || { echo >&2 \"\\nThis repository has been set up with Git LFS but Git LFS is not installed.\\n\"; exit 2; }\ngit lfs pre-push \"$@\"",
}

func inst(t, hook string) string     { return strings.ReplaceAll(t, "{{Command}}", hook) }
func curTemplate(hook string) string { return inst(tmplCur, hook) }
func histTemplates(hook string) []string {
	r := []string{inst(tmplOld1, hook), inst(tmplOld2, hook), inst(tmplOld3, hook)}
	if hook == "pre-push" {
		r = append(r, prePushOnlyOld...)
	}
	return r
}

// normalForm: leading blanks/tabs of every line removed, then surrounding whitespace trimmed.
func normalForm(s string) string {
	lines := strings.Split(s, "\n")
	for i := range lines {
		lines[i] = strings.TrimLeft(lines[i], " \t")
	}
	return strings.TrimSpace(strings.Join(lines, "\n"))
}

func ownerOf(hook, nf string) string {
	if nf == "" {
		return "blank"
	}
	if nf == curTemplate(hook) {
		return "lfs-current"
	}
	for _, h := range histTemplates(hook) {
		if nf == h {
			return "lfs-historical"
		}
	}
	return ""
}

// classifyContent: blank | lfs-current | lfs-historical | ambiguous (only a CR-insensitive reading makes it a
// template: no demand either way) | user.  beyond = user content whose first 1024 bytes alone read as LFS/blank.
func classifyContent(hook, data string) (string, bool) {
	if c := ownerOf(hook, normalForm(data)); c != "" {
		return c, false
	}
	if c := ownerOf(hook, normalForm(strings.ReplaceAll(data, "\r", ""))); c != "" {
		return "ambiguous", false
	}
	if len(data) > 1024 && ownerOf(hook, normalForm(data[:1024])) != "" {
		return "user", true
	}
	return "user", false
}

var lfsKeys = []string{"clean", "smudge", "process", "required"}

// every value git-lfs has ever written for the key (current, --skip-smudge and historical forms)
var lfsValues = map[string][]string{
	"clean":    {"git-lfs clean -- %f", "git-lfs clean %f"},
	"smudge":   {"git-lfs smudge -- %f", "git-lfs smudge %f", "git-lfs smudge --skip %f", "git-lfs smudge --skip -- %f"},
	"process":  {"git-lfs filter-process", "git-lfs filter", "git-lfs filter --skip", "git-lfs filter-process --skip"},
	"required": {"true"},
}

func isCustom(key, v string) bool {
	for _, x := range lfsValues[key] {
		if x == v {
			return false
		}
	}
	return true
}

// ---------------------------------------------------------------------------------------------------------
// Snapshots of real directory trees

type ent struct {
	Kind byte // 'f' file, 'l' symlink, 'd' dir
	Mode uint32
	Data string // file bytes, root path replaced by rootPH
	Link string // symlink target, root path replaced by rootPH
}

type snap map[string]ent

func (s snap) clone() snap {
	r := make(snap, len(s)+16)
	for k, v := range s {
		r[k] = v
	}
	return r
}

func capture(root string) snap {
	s := snap{}
	filepath.WalkDir(root, func(p string, d fs.DirEntry, err error) error {
		if err != nil {
			return nil
		}
		rel, _ := filepath.Rel(root, p)
		if rel == "." {
			return nil
		}
		info, e := os.Lstat(p)
		if e != nil {
			return nil
		}
		m := uint32(info.Mode().Perm())
		switch {
		case info.Mode()&os.ModeSymlink != 0:
			l, _ := os.Readlink(p)
			s[rel] = ent{Kind: 'l', Mode: 0777, Link: strings.ReplaceAll(l, root, rootPH)}
		case info.IsDir():
			s[rel] = ent{Kind: 'd', Mode: m}
		case info.Mode().IsRegular():
			b, e := os.ReadFile(p)
			if e != nil {
				b = []byte("<<unreadable: " + e.Error() + ">>")
			}
			if bytes.Contains(b, []byte(root)) {
				b = bytes.ReplaceAll(b, []byte(root), []byte(rootPH))
			}
			s[rel] = ent{Kind: 'f', Mode: m, Data: string(b)}
		}
		return nil
	})
	return s
}

func restore(s snap, root string) {
	os.RemoveAll(root)
	if err := os.MkdirAll(root, 0755); err != nil {
		panic(vx.ToolError{Msg: "restore: " + err.Error()})
	}
	keys := make([]string, 0, len(s))
	for k := range s {
		keys = append(keys, k)
	}
	sort.Strings(keys)
	defer func() {
		// directory modes last, children before parents (a directory may be read-only or unsearchable)
		for i := len(keys) - 1; i >= 0; i-- {
			if e := s[keys[i]]; e.Kind == 'd' && e.Mode != 0755 {
				if err := os.Chmod(filepath.Join(root, keys[i]), os.FileMode(e.Mode)); err != nil {
					panic(vx.ToolError{Msg: "restore: " + err.Error()})
				}
			}
		}
	}()
	for _, k := range keys {
		e := s[k]
		p := filepath.Join(root, k)
		var err error
		switch e.Kind {
		case 'd':
			err = os.MkdirAll(p, 0755)
		case 'l':
			os.MkdirAll(filepath.Dir(p), 0755)
			err = os.Symlink(strings.ReplaceAll(e.Link, rootPH, root), p)
		case 'f':
			os.MkdirAll(filepath.Dir(p), 0755)
			data := e.Data
			if strings.Contains(data, rootPH) {
				data = strings.ReplaceAll(data, rootPH, root)
			}
			err = os.WriteFile(p, []byte(data), os.FileMode(e.Mode)|0200)
			if err == nil {
				err = os.Chmod(p, os.FileMode(e.Mode))
			}
		}
		if err != nil {
			panic(vx.ToolError{Msg: "restore: " + err.Error()})
		}
	}
}

// ---------------------------------------------------------------------------------------------------------
// Canonical state

var hookDirs = []string{"repo/.git/hooks", "repo/relhooks", "wt2/relhooks", "abshooks", realHooksDir}

// realHooksDir: where the hook entries live when the hooks directory itself is a symbolic link (scenario hooktypes)
const realHooksDir = "realhooks"

const scriptsDir = "userscripts"

// hook-named entries outside every hooks directory (see digest)
const (
	strayDir   = "<elsewhere>"
	strayClass = "hook-file-outside-hooks-directory"
)

var scopeFiles = [][2]string{
	{"system", "sys.gitconfig"},
	{"global", "home/.gitconfig"},
	{"file", "file.cfg"},
	{"local", "repo/.git/config"},
	{"wtmain", "repo/.git/config.worktree"},
	{"wt2", "repo/.git/worktrees/wt2/config.worktree"},
}

type hookEnt struct {
	Kind      byte
	Mode      uint32
	Sha       string
	Link      string
	Len       int
	Head      string
	Class     string
	Beyond    bool
	Protected bool
	Target    string // symlinks: root-relative path the link chain ends at ("" when it leaves the world or loops)
}

func (a hookEnt) same(b hookEnt) bool {
	return a.Kind == b.Kind && a.Mode == b.Mode && a.Sha == b.Sha && a.Link == b.Link
}

func (h hookEnt) String() string {
	switch h.Kind {
	case 'd':
		return fmt.Sprintf("dir mode=%o", h.Mode)
	case 'l':
		return fmt.Sprintf("symlink->%s [%s]", h.Link, h.Class)
	}
	return fmt.Sprintf("file mode=%o len=%d sha=%.10s [%s] %q", h.Mode, h.Len, h.Sha, h.Class, h.Head)
}

type state struct {
	Hooks     map[string]hookEnt
	DirLink   map[string]string              // hooks directory that is a symlink -> root-relative directory it resolves to
	Cfg       map[string]map[string][]string // scope -> key -> values in file order (the scope's own file only)
	Inc       map[string]incEnt              // configuration files that are (or may be) included from a scope's file: *.inc
	Eff       map[string]map[string][]effVal // scope -> filter.lfs key -> values git sees in that scope's view (include.* followed), in order
	IncOf     map[string]map[string]bool     // scope -> include files reached from the scope's file
	EffUnsure map[string]bool                // scope -> the view could not be modelled (directive outside the model): E1/C3 demand nothing there
	Key       uint64
}

func sha(s string) string {
	h := sha256.Sum256([]byte(s))
	return hex.EncodeToString(h[:])
}

func splitHookPath(rel string) (dir, rest string) {
	for _, d := range hookDirs {
		if strings.HasPrefix(rel, d+"/") {
			return d, rel[len(d)+1:]
		}
	}
	if strings.HasPrefix(rel, scriptsDir+"/") {
		return scriptsDir, rel[len(scriptsDir)+1:]
	}
	return "", ""
}

func isHookName(n string) bool {
	for _, h := range hookNames {
		if h == n {
			return true
		}
	}
	return false
}

// resolveLink follows the symlink chain that starts at rel inside the snapshot (model of the kernel's path
// resolution for the link shapes the harness creates: absolute targets inside the world, relative targets).
// status: file | dir | missing | outside | loop; final = root-relative path the chain ends at.
func resolveLink(s snap, rel string) (final string, e ent, status string) {
	cur := rel
	for hops := 0; hops < 10; hops++ {
		en, ok := s[cur]
		if !ok {
			return cur, ent{}, "missing"
		}
		switch en.Kind {
		case 'f':
			return cur, en, "file"
		case 'd':
			return cur, en, "dir"
		}
		switch {
		case strings.HasPrefix(en.Link, rootPH+"/"):
			cur = filepath.Clean(en.Link[len(rootPH)+1:])
		case strings.HasPrefix(en.Link, "/"):
			return "", ent{}, "outside"
		default:
			cur = filepath.Clean(filepath.Join(filepath.Dir(cur), en.Link))
		}
		if cur == ".." || strings.HasPrefix(cur, "../") {
			return "", ent{}, "outside"
		}
	}
	return "", ent{}, "loop"
}

type envT struct {
	scratch  string
	tmp      string
	binDir   string
	tool     *gitx.World
	base     snap
	cfgCache sync.Map
	pool     chan *gitx.World
	thorough bool
	xcheck   string   // scope whose modelled view is compared with the real git after every transition ("" = none)
	altSubs  []string // scenario cwd: the invoking directories; the uninstall of the roundtrip probe is run from each of them
	unpriv   bool     // the scenario being run executes git-lfs as unprivUID on worlds owned by unprivUID
	dropOK   bool     // the harness runs as root and can drop privileges for a child process
	dropWhy  string   // why not
}

// unprivUID: uid/gid ("nobody") git-lfs runs as in scenario 'perms', where permission bits must bite
const unprivUID = 65534

// runAs is gitx.World.RunIn with the child's credentials set to unprivUID.
func runAs(w *gitx.World, dir string, stdin []byte, name string, args ...string) gitx.Res {
	ctx, cancel := context.WithTimeout(context.Background(), gitx.CmdTimeout)
	defer cancel()
	cmd := exec.CommandContext(ctx, name, args...)
	cmd.Dir = dir
	cmd.Env = w.Env()
	var out, errb bytes.Buffer
	cmd.Stdout, cmd.Stderr = &out, &errb
	if stdin != nil {
		cmd.Stdin = bytes.NewReader(stdin)
	}
	cmd.SysProcAttr = &syscall.SysProcAttr{Setpgid: true, Credential: &syscall.Credential{Uid: unprivUID, Gid: unprivUID}}
	cmd.Cancel = func() error { return syscall.Kill(-cmd.Process.Pid, syscall.SIGKILL) }
	cmd.WaitDelay = 2 * time.Second
	err := cmd.Run()
	r := gitx.Res{Out: out.String(), Err: errb.String()}
	if ctx.Err() == context.DeadlineExceeded {
		r.TimedOut = true
		r.Code = -1
		return r
	}
	if err != nil {
		if ee, ok := err.(*exec.ExitError); ok {
			r.Code = ee.ExitCode()
		} else {
			r.Code = -2
			r.Err += "\n[exec error] " + err.Error()
		}
	}
	return r
}

func chownTree(root string) {
	filepath.WalkDir(root, func(p string, d fs.DirEntry, err error) error {
		if err == nil {
			if e := os.Lchown(p, unprivUID, unprivUID); e != nil {
				panic(vx.ToolError{Msg: "chown: " + e.Error()})
			}
		}
		return nil
	})
}

func (e *envT) restoreWorld(s snap, root string) {
	restore(s, root)
	if e.unpriv {
		chownTree(root)
	}
}

type cfgKV struct{ K, V string }

type cfgParsed struct {
	List []cfgKV             // entries in file order (include.path / includeif.*.path appear as ordinary entries)
	Map  map[string][]string // key -> values in file order
}

// parseCfgFull parses one configuration file WITHOUT following include.* (git config --no-includes --file).
func (e *envT) parseCfgFull(data string) *cfgParsed {
	if v, ok := e.cfgCache.Load(data); ok {
		return v.(*cfgParsed)
	}
	f, err := os.CreateTemp(e.tmp, "cfg")
	if err != nil {
		panic(vx.ToolError{Msg: err.Error()})
	}
	f.WriteString(data)
	f.Close()
	defer os.Remove(f.Name())
	res := e.tool.RunIn(e.tmp, nil, nil, "git", "config", "--no-includes", "--file", f.Name(), "--list", "-z")
	cp := &cfgParsed{Map: map[string][]string{}}
	if !res.OK() {
		// an unparsable file is itself an observation: keep it distinguishable
		cp.Map["<<unparsable>>"] = []string{sha(data)}
		cp.List = []cfgKV{{"<<unparsable>>", sha(data)}}
		e.cfgCache.Store(data, cp)
		return cp
	}
	for _, item := range strings.Split(res.Out, "\x00") {
		if item == "" {
			continue
		}
		k, v := item, ""
		if i := strings.IndexByte(item, '\n'); i >= 0 {
			k, v = item[:i], item[i+1:]
		}
		cp.Map[k] = append(cp.Map[k], v)
		cp.List = append(cp.List, cfgKV{k, v})
	}
	e.cfgCache.Store(data, cp)
	return cp
}

func (e *envT) parseCfg(data string) map[string][]string { return e.parseCfgFull(data).Map }

func (e *envT) digest(s snap) *state {
	st := &state{Hooks: map[string]hookEnt{}, Cfg: map[string]map[string][]string{}, DirLink: map[string]string{},
		Inc: map[string]incEnt{}, Eff: map[string]map[string][]effVal{}, IncOf: map[string]map[string]bool{}, EffUnsure: map[string]bool{}}
	for _, d := range hookDirs {
		// a hooks directory that is itself a symbolic link: the link is the user's, never to be replaced
		if en, ok := s[d]; ok && en.Kind == 'l' {
			he := hookEnt{Kind: 'l', Mode: en.Mode, Link: en.Link, Class: "hooksdir-symlink", Protected: true}
			if fin, _, status := resolveLink(s, d); status == "dir" {
				st.DirLink[d] = fin
				he.Target = fin
			}
			st.Hooks[d] = he
		} else if ok && en.Kind == 'd' && en.Mode != 0755 {
			st.Hooks[d] = hookEnt{Kind: 'd', Mode: en.Mode, Class: "hooksdir"} // part of the state; no demand attached
		}
	}
	for rel, en := range s {
		dir, rest := splitHookPath(rel)
		if dir == "" {
			if !isHookName(filepath.Base(rel)) {
				continue
			}
			// an entry named like one of the four hooks that lies in none of the hooks directories (e.g. in a directory
			// called like the relative core.hooksPath below a sub-directory of the work tree): part of the state; one
			// that pre-exists is the user's file, one that appears is a stray (S1, R1)
			dir, rest = strayDir, rel
		}
		he := hookEnt{Kind: en.Kind, Mode: en.Mode, Link: en.Link}
		if en.Kind == 'f' {
			he.Sha = sha(en.Data)
			he.Len = len(en.Data)
			he.Head = en.Data
			if len(he.Head) > 60 {
				he.Head = he.Head[:60]
			}
		}
		switch {
		case dir == strayDir:
			// user content unless it is a regular file with LFS-generated (or blank) content
			he.Class, he.Protected = strayClass, true
			if en.Kind == 'f' {
				if c, _ := classifyContent(filepath.Base(rel), en.Data); c != "user" {
					he.Class, he.Protected = strayClass+"-"+c, false
				}
			}
		case dir == scriptsDir:
			hook := strings.TrimSuffix(filepath.Base(rest), ".sh")
			switch en.Kind {
			case 'f':
				c, _ := classifyContent(hook, en.Data)
				he.Class = "script-" + c
				he.Protected = c == "user"
			case 'l':
				// an intermediate link of a chain: user-made, git-lfs has no business replacing it
				he.Class, he.Protected = "script-link", true
			default:
				he.Class, he.Protected = "script-dir", true
			}
		case strings.Contains(rest, "/") || !isHookName(rest):
			he.Class = "other"
			he.Protected = true
		case en.Kind == 'd':
			he.Class = "directory"
			he.Protected = true
		case en.Kind == 'l':
			// The hook's content is what reading the hook path yields.  A link that yields LFS-generated (or blank)
			// content is treated like such a file; a link to a user script, to a directory, a dangling link and a
			// link loop yield no LFS-generated content: the link itself (its target string) is the user's.
			fin, te, status := resolveLink(s, rel)
			he.Target = fin
			switch status {
			case "file":
				c, _ := classifyContent(rest, te.Data)
				he.Class = "symlink-" + c
				he.Protected = c == "user"
			case "dir":
				he.Class, he.Protected = "symlink-to-directory", true
			case "loop":
				he.Class, he.Protected = "symlink-loop", true
			default:
				he.Class, he.Protected = "symlink-dangling", true
			}
		default:
			he.Class, he.Beyond = classifyContent(rest, en.Data)
			he.Protected = he.Class == "user"
		}
		st.Hooks[rel] = he
	}
	for _, sf := range scopeFiles {
		m := map[string][]string{}
		if en, ok := s[sf[1]]; ok && en.Kind == 'f' {
			for k, v := range e.parseCfg(en.Data) {
				m[k] = v
			}
		}
		st.Cfg[sf[0]] = m
	}
	e.digestIncludes(s, st)
	// canonical key
	var parts []string
	hk := make([]string, 0, len(st.Hooks))
	for k := range st.Hooks {
		hk = append(hk, k)
	}
	sort.Strings(hk)
	for _, k := range hk {
		h := st.Hooks[k]
		parts = append(parts, fmt.Sprintf("H|%s|%c|%o|%s|%s", k, h.Kind, h.Mode, h.Sha, h.Link))
	}
	for _, sf := range scopeFiles {
		m := st.Cfg[sf[0]]
		ks := make([]string, 0, len(m))
		for k := range m {
			if k == "lfs.repositoryformatversion" {
				continue
			}
			ks = append(ks, k)
		}
		sort.Strings(ks)
		for _, k := range ks {
			parts = append(parts, "C|"+sf[0]+"|"+k+"|"+strings.Join(m[k], "\x01"))
		}
	}
	for _, p := range sortedIncKeys(st.Inc) {
		ie := st.Inc[p]
		parts = append(parts, fmt.Sprintf("I|%s|%c|%o|%s", p, ie.Kind, ie.Mode, ie.Sha))
	}
	st.Key = vx.Hash64(parts...)
	return st
}

func (st *state) lfsVals(scope, key string) []string {
	return st.Cfg[scope]["filter.lfs."+key]
}

func eqStrs(a, b []string) bool {
	if len(a) != len(b) {
		return false
	}
	for i := range a {
		if a[i] != b[i] {
			return false
		}
	}
	return true
}

func (st *state) describe() map[string]interface{} {
	h := map[string]string{}
	for k, v := range st.Hooks {
		h[k] = v.String()
	}
	c := map[string]interface{}{}
	for sc, m := range st.Cfg {
		for k, v := range m {
			if strings.HasPrefix(k, "filter.lfs.") || k == "core.hookspath" {
				c[sc+":"+k] = v
			}
		}
	}
	d := map[string]interface{}{"hooks": h, "config": c}
	if len(st.Inc) > 0 {
		inc := map[string]interface{}{}
		for p, ie := range st.Inc {
			inc[p] = ie.describe()
		}
		eff := map[string]interface{}{}
		for sc, m := range st.Eff {
			for k, vs := range m {
				var l []string
				for _, v := range vs {
					l = append(l, fmt.Sprintf("%q from %s", v.V, v.Origin))
				}
				eff[sc+":filter.lfs."+k] = l
			}
		}
		d["included_files"] = inc
		d["values_in_scope_view_with_includes"] = eff
	}
	return d
}

// ---------------------------------------------------------------------------------------------------------
// Operations

type opDef struct {
	Name       string
	Cwd        string // repo | wt2 | outside: the top of the work tree (or the directory outside) the command belongs to
	Sub        string // scenario cwd: sub-directory of Cwd the command is INVOKED from ("" = the top of the work tree)
	Args       []string
	Kind       string // install | uninstall | update | implicit | manual
	Force      bool
	SkipRepo   bool
	SkipSmudge bool
	Scope      string // "", global, local, worktree, file, system
	Stdin      string
}

func (o opDef) target() string {
	switch o.Scope {
	case "worktree":
		if o.Cwd == "wt2" {
			return "wt2"
		}
		return "wtmain"
	case "":
		return ""
	}
	return o.Scope
}

func (o opDef) hooksPhase() bool {
	switch o.Kind {
	case "install", "uninstall":
		return !o.SkipRepo && (o.Scope == "local" || o.Scope == "worktree" || o.Cwd != "outside")
	case "update", "implicit", "hooks-install", "hooks-uninstall":
		return true
	}
	return false
}

func (o opDef) hooksForce() bool {
	return o.Force && o.hooksPhase() && (o.Kind == "install" || o.Kind == "update")
}

func (o opDef) isInstall() bool { return o.Kind == "install" }

// mkOp builds install/uninstall operations.  flags: f=force s=skip-smudge r=skip-repo
func mkOp(kind, scope, cwd, flags string) opDef {
	o := opDef{Kind: kind, Scope: scope, Cwd: cwd, Args: []string{kind}}
	switch scope {
	case "local":
		o.Args = append(o.Args, "--local")
	case "worktree":
		o.Args = append(o.Args, "--worktree")
	case "system":
		o.Args = append(o.Args, "--system")
	case "file":
		o.Args = append(o.Args, "--file", rootPH+"/file.cfg")
	}
	if strings.Contains(flags, "f") {
		o.Force = true
		o.Args = append(o.Args, "--force")
	}
	if strings.Contains(flags, "s") {
		o.SkipSmudge = true
		o.Args = append(o.Args, "--skip-smudge")
	}
	if strings.Contains(flags, "r") {
		o.SkipRepo = true
		o.Args = append(o.Args, "--skip-repo")
	}
	o.Name = strings.ReplaceAll(strings.Join(o.Args, " "), rootPH+"/", "") + " @" + cwd
	return o
}

func matchingUninstall(o opDef) opDef {
	fl := ""
	if o.SkipRepo {
		fl = "r"
	}
	return subOp(mkOp("uninstall", o.Scope, o.Cwd, fl), o.Sub)
}

// subOp: the same operation invoked from the sub-directory sub of its work tree
func subOp(o opDef, sub string) opDef {
	o.Sub = sub
	if sub != "" {
		o.Name += "/" + sub
	}
	return o
}

var (
	opUpdate      = opDef{Name: "update @repo", Cwd: "repo", Args: []string{"update"}, Kind: "update"}
	opUpdateForce = opDef{Name: "update --force @repo", Cwd: "repo", Args: []string{"update", "--force"}, Kind: "update", Force: true}
	opUpdateMan   = opDef{Name: "update --manual @repo", Cwd: "repo", Args: []string{"update", "--manual"}, Kind: "manual"}
	opInstallMan  = opDef{Name: "install --manual @repo", Cwd: "repo", Args: []string{"install", "--manual"}, Kind: "manual-install", Scope: "global"}
	opTrack       = opDef{Name: "track @repo", Cwd: "repo", Args: []string{"track"}, Kind: "implicit"}
	opTrackWt2    = opDef{Name: "track @wt2", Cwd: "wt2", Args: []string{"track"}, Kind: "implicit"}
	opUntrack     = opDef{Name: "untrack x @repo", Cwd: "repo", Args: []string{"untrack", "x"}, Kind: "implicit"}
	opClean       = opDef{Name: "clean @repo", Cwd: "repo", Args: []string{"clean", "--", "f.bin"}, Kind: "implicit", Stdin: "payload\n"}
	opInstHooks   = opDef{Name: "install hooks @repo", Cwd: "repo", Args: []string{"install", "hooks"}, Kind: "hooks-install"}
	opUninstHooks = opDef{Name: "uninstall hooks @repo", Cwd: "repo", Args: []string{"uninstall", "hooks"}, Kind: "hooks-uninstall"}
)

// activeDir: the directory git-lfs is documented to use for hooks (core.hooksPath, else <gitdir>/hooks) = GIT's hooks
// directory: a relative core.hooksPath is taken relative to the TOP of the work tree wherever in the work tree the
// command is invoked (o.Sub plays no role; verified against `git rev-parse --git-path hooks` run at the top and in
// every invoking directory for every initial state of scenario cwd, and against where git 2.39 runs hooks from).
func activeDir(pre *state, o opDef) string {
	if !o.hooksPhase() || o.Cwd == "outside" {
		return ""
	}
	hp := ""
	for _, sc := range []string{"system", "global", "local"} {
		if v := pre.Cfg[sc]["core.hookspath"]; len(v) > 0 {
			hp = v[len(v)-1]
		}
	}
	wts := "wtmain"
	if o.Cwd == "wt2" {
		wts = "wt2"
	}
	if v := pre.Cfg[wts]["core.hookspath"]; len(v) > 0 {
		hp = v[len(v)-1]
	}
	dir := filepath.Clean(o.Cwd + "/" + hp)
	switch {
	case hp == "":
		dir = "repo/.git/hooks"
	case strings.HasPrefix(hp, rootPH+"/"):
		dir = hp[len(rootPH)+1:]
	case strings.HasPrefix(hp, "/"):
		return "<outside>"
	}
	if t, ok := pre.DirLink[dir]; ok {
		return t // the hooks directory is a symlink: the entries live in the directory it points to
	}
	return dir
}

func (e *envT) runOp(w *gitx.World, o opDef) gitx.Res {
	args := make([]string, len(o.Args))
	for i, a := range o.Args {
		args[i] = strings.ReplaceAll(a, rootPH, w.Root)
	}
	var stdin []byte
	if o.Stdin != "" {
		stdin = []byte(o.Stdin)
	}
	if e.unpriv {
		return runAs(w, filepath.Join(w.Root, o.Cwd, o.Sub), stdin, filepath.Join(w.BinDir, "git-lfs"), args...)
	}
	return w.RunIn(filepath.Join(w.Root, o.Cwd, o.Sub), stdin, nil, filepath.Join(w.BinDir, "git-lfs"), args...)
}

// ---------------------------------------------------------------------------------------------------------
// Oracle

type stepOut struct {
	post     *state
	snap     snap
	viols    []vx.Violation
	outcome  string
	counters map[string]int64
	evals    int64
	trans    int64
	inconcl  string
	changed  bool
	hadProt  bool
	exit     int
}

func (so *stepOut) viol(fp, msg string, detail interface{}) {
	for _, v := range so.viols {
		if v.Fingerprint == fp {
			return
		}
	}
	so.viols = append(so.viols, vx.Violation{Fingerprint: fp, Msg: msg, Detail: detail})
}

func sortedHookKeys(m map[string]hookEnt) []string {
	ks := make([]string, 0, len(m))
	for k := range m {
		ks = append(ks, k)
	}
	sort.Strings(ks)
	return ks
}

func opKind(o opDef) string {
	k := o.Kind
	if o.Force {
		k += "-force"
	}
	return k
}

// evaluate applies the per-transition clauses H1, H2, C1, C2, C3 to pre --o--> post.
func evaluate(pre, post *state, o opDef, res gitx.Res, so *stepOut, where string) {
	out := res.Out + res.Err
	detail := func(extra map[string]interface{}) map[string]interface{} {
		d := map[string]interface{}{"where": where, "op": o.Name, "exit": res.Code, "output": clip(out, 600), "pre": pre.describe(), "post": post.describe()}
		for k, v := range extra {
			d[k] = v
		}
		return d
	}
	active := activeDir(pre, o)

	// H1: a hook-directory entry that is not LFS-generated is byte-, mode- and type-identical afterwards, unless
	// --force was given and the entry is one of the four LFS hooks of the active hooks directory.
	allowed := map[string]bool{}
	if o.hooksForce() && active != "" {
		for _, n := range hookNames {
			p := active + "/" + n
			allowed[p] = true
			if he, ok := pre.Hooks[p]; ok && he.Kind == 'l' && he.Target != "" {
				allowed[he.Target] = true // --force writes through the link (chain): the file it ends at
			}
		}
	}
	for _, p := range sortedHookKeys(pre.Hooks) {
		he := pre.Hooks[p]
		if !he.Protected {
			continue
		}
		if he.Class != "other" && !strings.HasPrefix(he.Class, "script") {
			so.hadProt = true
		}
		if allowed[p] {
			so.counters["H1.force_exempt"]++
			continue
		}
		so.evals++
		so.counters["H1.protected_entries_checked"]++
		pe, ok := post.Hooks[p]
		if ok && he.same(pe) {
			continue
		}
		cls := he.Class
		fp := fmt.Sprintf("C20:hook-destroyed:%s:%s", cls, opKind(o))
		if he.Beyond {
			fp = "C20:hook-beyond-1024-treated-as-lfs"
		}
		after := "(removed)"
		if ok {
			after = pe.String()
		}
		so.viol(fp, fmt.Sprintf("%s: `git lfs %s` changed %s, which is not LFS-generated content\n before: %s\n after:  %s", where, o.Name, p, he.String(), after),
			detail(map[string]interface{}{"path": p}))
	}

	// S1: the hooks git-lfs manages are GIT's hooks: no entry named like one of the four hooks appears anywhere outside
	// the hooks directories (such a file is never run by Git and is out of reach of an uninstall that looks at Git's
	// hooks directory: a leftover in the user's work tree).
	so.evals++
	so.counters["S1.transitions_checked_for_hook_files_outside_the_hooks_directory"]++
	for _, p := range sortedHookKeys(post.Hooks) {
		q := post.Hooks[p]
		elsewhere := strings.HasPrefix(q.Class, strayClass)
		if d, rest := splitHookPath(p); !elsewhere && active != "" && active != "<outside>" && d != "" && d != scriptsDir && d != active && isHookName(rest) {
			elsewhere = true // one of the other hooks directories of the world: not the one Git uses for this work tree
		}
		if elsewhere {
			if _, was := pre.Hooks[p]; !was {
				so.viol("C20:hook-written-outside-git-hooks-directory:"+opKind(o), fmt.Sprintf("%s: `git lfs %s` created %s (%s), which is not in Git's hooks directory (%s)", where, o.Name, p, q.String(), active),
					detail(map[string]interface{}{"path": p, "git_hooks_directory": active}))
			}
		}
	}

	// H2: install/update without --force that meets a user hook reports the conflict.
	if (o.Kind == "install" || o.Kind == "update" || o.Kind == "hooks-install") && !o.Force && active != "" {
		var conflicts []string
		beyondOnly := true
		for _, n := range hookNames {
			if he, ok := pre.Hooks[active+"/"+n]; ok && (he.Class == "user" || he.Class == "symlink-user") {
				conflicts = append(conflicts, n)
				if !he.Beyond {
					beyondOnly = false
				}
			}
		}
		if len(conflicts) > 0 {
			so.evals++
			so.counters["H2.conflict_report_demanded"]++
			if res.Code == 0 && !strings.Contains(out, "Hook already exists") && beyondOnly {
				// same root cause as the destruction reported under C20:hook-beyond-1024-treated-as-lfs; counted, not reported twice
				so.counters["H2.unreported_because_only_first_1024_bytes_are_read"]++
			} else if res.Code == 0 && !strings.Contains(out, "Hook already exists") {
				fp := "C20:hook-conflict-unreported:" + opKind(o)
				so.viol(fp, fmt.Sprintf("%s: `git lfs %s` exited 0 without reporting the existing user hook(s) %v", where, o.Name, conflicts), detail(nil))
			}
		}
	}

	// C1/C2: filter.lfs.* values
	target := ""
	if o.Kind == "install" || o.Kind == "uninstall" || o.Kind == "manual-install" {
		target = o.target()
	}
	for _, sf := range scopeFiles {
		sc := sf[0]
		for _, k := range lfsKeys {
			pv, qv := pre.lfsVals(sc, k), post.lfsVals(sc, k)
			custom := false
			for _, v := range pv {
				if isCustom(k, v) {
					custom = true
				}
			}
			isTarget := sc == target
			if custom {
				so.hadProt = true
				if isTarget && (o.Force || o.Kind == "uninstall") {
					so.counters["C1.force_or_uninstall_exempt"]++
				} else {
					so.evals++
					so.counters["C1.custom_values_checked"]++
					if !eqStrs(pv, qv) {
						cls := "custom"
						fp := fmt.Sprintf("C20:config-replaced:%s:%s", opKind(o), map[bool]string{true: "target-scope", false: "other-scope"}[isTarget])
						// the key is multi-valued in the scope's view (several values in the file, or one in the file and a later
						// one in an included file) and the value git uses (the last) is an LFS one: finding-2.md
						if ev := pre.effVals(sc, k); len(ev) > 1 && !isCustom(k, ev[len(ev)-1].V) {
							cls = "multivalued-shadowed-custom"
							fp = "C20:config-replaced:multivalued-shadowed-custom"
						}
						so.viol(fp, fmt.Sprintf("%s: `git lfs %s` changed %s filter.lfs.%s (%s) from %q to %q without --force", where, o.Name, sc, k, cls, pv, qv),
							detail(map[string]interface{}{"scope": sc, "key": k}))
					}
					continue
				}
			}
			if !isTarget {
				so.evals++
				so.counters["C2.other_scope_keys_checked"]++
				if !eqStrs(pv, qv) {
					so.viol("C20:config-scope:"+opKind(o), fmt.Sprintf("%s: `git lfs %s` (target scope %q) changed filter.lfs.%s in scope %s from %q to %q", where, o.Name, target, k, sc, pv, qv),
						detail(map[string]interface{}{"scope": sc, "key": k}))
				}
			}
		}
	}

	// E1: a custom value that the scope obtains from an INCLUDED file and that is the one git uses in that scope's view
	// (git config --includes <scope>: last value wins) is still the value git uses afterwards.  (A custom value written
	// directly in the scope's file is C1's business.)  C4: the included files themselves are never edited.
	for _, sf := range scopeFiles {
		sc := sf[0]
		for _, k := range lfsKeys {
			ev := pre.effVals(sc, k)
			if len(ev) == 0 {
				continue
			}
			if pre.EffUnsure[sc] || post.EffUnsure[sc] {
				so.counters["E1.not_decided_view_outside_the_include_model"]++
				continue
			}
			last := ev[len(ev)-1]
			if last.Origin == sf[1] || last.V == "" || !isCustom(k, last.V) {
				continue
			}
			so.hadProt = true
			if sc == target && (o.Force || o.Kind == "uninstall") {
				so.counters["E1.force_or_uninstall_exempt"]++
				continue
			}
			so.evals++
			so.counters["E1.included_custom_value_in_use_checked"]++
			qv := post.effVals(sc, k)
			if len(qv) == 0 || qv[len(qv)-1].V != last.V {
				now := "(unset)"
				if len(qv) > 0 {
					now = fmt.Sprintf("%q (from %s)", qv[len(qv)-1].V, qv[len(qv)-1].Origin)
				}
				fp := "C20:config-replaced:" + opKind(o) + ":included-value"
				if last.Origin == xdgGlobal {
					// the value lives in the global scope's other file ($XDG_CONFIG_HOME/git/config): finding-4.md
					fp = "C20:config-replaced:" + opKind(o) + ":xdg-global-value"
				}
				if sc != target {
					fp += "-other-scope"
				}
				so.viol(fp, fmt.Sprintf("%s: `git lfs %s`: the value git uses for filter.lfs.%s in the %s view was %q (written in %s, not in the scope's own file) and is now %s, without --force",
					where, o.Name, k, sc, last.V, last.Origin, now), detail(map[string]interface{}{"scope": sc, "key": k}))
			}
		}
	}
	for _, p := range sortedIncKeys(pre.Inc) {
		ie := pre.Inc[p]
		if o.Force && target != "" && pre.IncOf[target][p] {
			so.counters["C4.force_exempt"]++
			continue
		}
		so.evals++
		so.counters["C4.included_files_checked"]++
		if q, ok := post.Inc[p]; !ok || q.Kind != ie.Kind || q.Mode != ie.Mode || q.Sha != ie.Sha {
			after := "(removed)"
			if ok {
				after = fmt.Sprint(q.describe())
			}
			so.viol("C20:config-included-file-changed:"+opKind(o), fmt.Sprintf("%s: `git lfs %s` changed the included configuration file %s\n before: %v\n after:  %s", where, o.Name, p, ie.describe(), after),
				detail(map[string]interface{}{"path": p}))
		}
	}

	// C3: install without --force that meets a custom value in use in its target scope (the last value of the key in
	// the scope's view, include.* followed) reports the conflict.
	if o.Kind == "install" && !o.Force && target != "" && !pre.EffUnsure[target] {
		var conflicts []string
		for _, k := range lfsKeys {
			ev := pre.effVals(target, k)
			if len(ev) > 0 && ev[len(ev)-1].V != "" && isCustom(k, ev[len(ev)-1].V) {
				if ev[len(ev)-1].Origin == xdgGlobal {
					// same root cause as the replacement reported under C20:config-replaced:install:xdg-global-value
					// (the look-up names ~/.gitconfig only); counted, not reported twice
					so.counters["C3.unreported_because_the_xdg_global_file_is_not_looked_at"]++
					continue
				}
				conflicts = append(conflicts, k)
			}
		}
		if len(conflicts) > 0 {
			so.evals++
			so.counters["C3.conflict_report_demanded"]++
			named := false
			for _, k := range conflicts {
				if strings.Contains(out, "filter.lfs."+k) {
					named = true
				}
			}
			if res.Code == 0 && !named {
				so.viol("C20:config-conflict-unreported:"+opKind(o), fmt.Sprintf("%s: `git lfs %s` exited 0 without reporting the differing value(s) of %v in scope %s", where, o.Name, conflicts, target), detail(nil))
			}
		}
	}
}

func clip(s string, n int) string {
	if len(s) > n {
		return s[:n] + "…"
	}
	return s
}

func diffStates(a, b *state) (hooks []string, cfg []string) {
	for _, p := range sortedHookKeys(a.Hooks) {
		if q, ok := b.Hooks[p]; !ok {
			hooks = append(hooks, "-"+p)
		} else if !a.Hooks[p].same(q) {
			hooks = append(hooks, "~"+p)
		}
	}
	for _, p := range sortedHookKeys(b.Hooks) {
		if _, ok := a.Hooks[p]; !ok {
			hooks = append(hooks, "+"+p)
		}
	}
	for _, sf := range scopeFiles {
		am, bm := a.Cfg[sf[0]], b.Cfg[sf[0]]
		seen := map[string]bool{}
		var ks []string
		for k := range am {
			ks = append(ks, k)
			seen[k] = true
		}
		for k := range bm {
			if !seen[k] {
				ks = append(ks, k)
			}
		}
		sort.Strings(ks)
		for _, k := range ks {
			if k == "lfs.repositoryformatversion" {
				continue
			}
			if !eqStrs(am[k], bm[k]) {
				cfg = append(cfg, sf[0]+":"+k)
			}
		}
	}
	for _, p := range sortedIncKeys(a.Inc) {
		if q, ok := b.Inc[p]; !ok || q.Sha != a.Inc[p].Sha || q.Mode != a.Inc[p].Mode || q.Kind != a.Inc[p].Kind {
			cfg = append(cfg, "included-file:"+p)
		}
	}
	for _, p := range sortedIncKeys(b.Inc) {
		if _, ok := a.Inc[p]; !ok {
			cfg = append(cfg, "included-file:"+p)
		}
	}
	return
}

// outcomeOf summarises what the operation did (vacuity indicator; deterministic function of the observation).
func outcomeOf(pre, post *state, o opDef, res gitx.Res) (string, bool) {
	hd, cd := diffStates(pre, post)
	hsum := map[string]int{}
	for _, h := range hd {
		_, rest := splitHookPath(h[1:])
		cls := ""
		if h[0] == '+' {
			cls = post.Hooks[h[1:]].Class
		} else {
			cls = pre.Hooks[h[1:]].Class
		}
		if !isHookName(rest) {
			rest = "x"
		}
		hsum[string(h[0])+cls]++
	}
	var hs []string
	for k, v := range hsum {
		hs = append(hs, fmt.Sprintf("%s*%d", k, v))
	}
	sort.Strings(hs)
	cs := map[string]bool{}
	for _, c := range cd {
		i := strings.IndexByte(c, ':')
		k := c[i+1:]
		if c[:i] == "included-file" {
			cs["included-file-changed"] = true
		} else if strings.HasPrefix(k, "filter.lfs.") {
			cs[c[:i]+":lfs"] = true
		} else {
			cs[c[:i]+":"+k] = true
		}
	}
	var cl []string
	for k := range cs {
		cl = append(cl, k)
	}
	sort.Strings(cl)
	msg := ""
	outp := res.Out + res.Err
	switch {
	case strings.Contains(outp, "Hook already exists"):
		msg = "hook-conflict"
	case strings.Contains(outp, "attribute should be"):
		msg = "config-conflict"
	case strings.Contains(outp, "was not removed"):
		msg = "left-config"
	case strings.Contains(outp, "is a directory"):
		msg = "isdir"
	case strings.Contains(outp, "permission denied"):
		msg = "eacces"
	case strings.Contains(outp, "too many levels of symbolic links"):
		msg = "eloop"
	case strings.Contains(outp, "no such file or directory"):
		msg = "enoent"
	case strings.Contains(outp, "file exists"), strings.Contains(outp, "not a directory"):
		msg = "notdir"
	}
	return fmt.Sprintf("%s exit=%d %s hooks[%s] cfg[%s]", o.Name, res.Code, msg, strings.Join(hs, ","), strings.Join(cl, ",")), len(hd)+len(cd) > 0
}

// step: restore preSnap, run o, evaluate; for install operations also run the composite probes.
func (e *envT) step(w *gitx.World, pre *state, preSnap snap, o opDef, where string) stepOut {
	so := stepOut{counters: map[string]int64{}}
	e.restoreWorld(preSnap, w.Root)
	res := e.runOp(w, o)
	so.exit = res.Code
	if res.TimedOut {
		so.inconcl = "timeout: " + o.Name
		so.post, so.snap = pre, preSnap
		return so
	}
	so.trans++
	so.snap = capture(w.Root)
	so.post = e.digest(so.snap)
	xc := func(st *state) {
		if e.xcheck != "" {
			so.counters["X.include_model_vs_git_config."+e.reconcile(w, st, e.xcheck)]++
		}
	}
	xc(so.post)
	evaluate(pre, so.post, o, res, &so, where+" step `"+o.Name+"`")
	so.outcome, so.changed = outcomeOf(pre, so.post, o, res)
	if strings.Contains(res.Err, "panic:") || strings.Contains(res.Err, "goroutine ") {
		so.counters["gitlfs_panics"]++
	}

	if !o.isInstall() {
		return so
	}
	// I1: install twice == install once
	res2 := e.runOp(w, o)
	if res2.TimedOut {
		so.inconcl = "timeout: probe " + o.Name
		return so
	}
	so.trans++
	snap2 := capture(w.Root)
	post2 := e.digest(snap2)
	xc(post2)
	evaluate(so.post, post2, o, res2, &so, where+" step `"+o.Name+"` (repeated)")
	if res.Code == 0 {
		so.evals++
		so.counters["I1.idempotence_checked"]++
		if post2.Key != so.post.Key || res2.Code != 0 {
			hd, cd := diffStates(so.post, post2)
			what := "exit"
			if len(hd) > 0 {
				what = "hooks"
			} else if len(cd) > 0 {
				what = "config"
			}
			so.viol("C20:install-not-idempotent:"+what, fmt.Sprintf("%s: running `git lfs %s` a second time changed the result: exit %d then %d, hooks %v, config %v", where, o.Name, res.Code, res2.Code, hd, cd),
				map[string]interface{}{"first": so.post.describe(), "second": post2.describe(), "out2": clip(res2.Out+res2.Err, 400)})
		}
	} else {
		so.counters["I1.not_demanded_first_install_failed"]++
		if post2.Key != so.post.Key {
			so.counters["I1.observed_second_run_after_failed_install_changed_state"]++
		}
	}
	// R1: uninstall after install restores the previous hooks and configuration
	if o.Force {
		return so
	}
	tgt := o.target()
	for _, k := range lfsKeys {
		if len(pre.lfsVals(tgt, k)) > 0 {
			so.counters["R1.not_applicable_target_scope_had_filter_config"]++
			return so
		}
	}
	// the matching uninstall, run from the directory the install was run from; in scenario cwd also from every other
	// invoking directory of the same work tree (each time on the state install;install produced)
	uns := []opDef{matchingUninstall(o)}
	for _, sub := range e.altSubs {
		if sub != o.Sub {
			uns = append(uns, subOp(mkOp("uninstall", o.Scope, o.Cwd, map[bool]string{true: "r", false: ""}[o.SkipRepo]), sub))
		}
	}
	for ui, un := range uns {
		if ui > 0 {
			e.restoreWorld(snap2, w.Root)
		}
		res3 := e.runOp(w, un)
		if res3.TimedOut {
			so.inconcl = "timeout: probe " + un.Name
			return so
		}
		so.trans++
		post3 := e.digest(capture(w.Root))
		xc(post3)
		evaluate(post2, post3, un, res3, &so, where+" step `"+o.Name+"`, then again, then `"+un.Name+"`")
		so.evals++
		so.counters["R1.roundtrip_checked"]++
		if un.Sub != o.Sub {
			so.counters["R1.roundtrip_checked_uninstall_invoked_from_another_directory"]++
		}
		_, cd := diffStates(pre, post3)
		if len(cd) > 0 {
			so.viol("C20:roundtrip-not-restored:config", fmt.Sprintf("%s: `git lfs %s` followed by `git lfs %s` did not restore the configuration: %v differ", where, o.Name, un.Name, cd),
				map[string]interface{}{"before": pre.describe(), "after": post3.describe()})
		}
		for _, p := range sortedHookKeys(pre.Hooks) {
			he := pre.Hooks[p]
			if !he.Protected {
				continue
			}
			so.counters["R1.user_entries_checked"]++
			if q, ok := post3.Hooks[p]; !ok || !he.same(q) {
				fp := "C20:roundtrip-not-restored:hook-" + he.Class
				if he.Beyond {
					fp = "C20:hook-beyond-1024-treated-as-lfs"
				}
				if mid, okm := post2.Hooks[p]; he.Class == "symlink-dangling" && okm && he.same(mid) && strings.HasPrefix(mid.Class, "symlink-lfs-") && !ok {
					// install left the user's link alone but wrote its hook THROUGH it (creating the missing target);
					// uninstall then judged the link by that content and removed it (finding-3.md)
					fp = "C20:roundtrip-not-restored:dangling-symlink-written-through-then-removed"
				}
				so.viol(fp, fmt.Sprintf("%s: `git lfs %s` followed by `git lfs %s` did not restore user hook %s (%s)", where, o.Name, un.Name, p, he.String()),
					map[string]interface{}{"before": pre.describe(), "after": post3.describe()})
			}
		}
		for _, p := range sortedHookKeys(post3.Hooks) {
			if strings.HasPrefix(p, scriptsDir+"/") {
				continue // not a hooks directory (a script created through a pre-existing dangling symlink is not a hook)
			}
			if _, ok := pre.Hooks[p]; !ok {
				so.viol("C20:roundtrip-not-restored:hook-left-behind", fmt.Sprintf("%s: `git lfs %s` followed by `git lfs %s` left %s behind (%s), which did not exist before", where, o.Name, un.Name, p, post3.Hooks[p].String()),
					map[string]interface{}{"before": pre.describe(), "after": post3.describe()})
			}
		}
	}
	return so
}

// ---------------------------------------------------------------------------------------------------------
// Initial states

type placed struct {
	Rel string // "" the hook path itself, "/x" a child, "@script" userscripts/<hook>.sh, "@<path>" userscripts/<path>
	E   ent
}

type hookClass struct {
	Name   string
	Tier   int // 0: quick+thorough, 1: thorough only
	Short  bool
	Make   func(hook string) []placed
	MakeIn func(hook, dir string) []placed // file-type classes: dir = root-relative directory the entry is created in
}

func fileAt(data string, mode uint32) []placed {
	return []placed{{"", ent{Kind: 'f', Mode: mode, Data: data}}}
}

func userLines(hook string) string { return "echo USER-LINE-" + hook + "\nexit 0\n" }

func otherHook(hook string) string {
	if hook == "pre-push" {
		return "post-commit"
	}
	return "pre-push"
}

func hookClasses() []hookClass {
	hc := []hookClass{
		{Name: "absent", Tier: 0, Short: true, Make: func(h string) []placed { return nil }},
		{Name: "empty", Tier: 0, Short: false, Make: func(h string) []placed { return fileAt("", 0755) }},
		{Name: "whitespace-only", Tier: 0, Short: false, Make: func(h string) []placed { return fileAt("\n \t\n\n", 0755) }},
		{Name: "current", Tier: 0, Short: true, Make: func(h string) []placed { return fileAt(curTemplate(h)+"\n", 0755) }},
		{Name: "old1", Tier: 0, Short: true, Make: func(h string) []placed { return fileAt(inst(tmplOld1, h)+"\n", 0755) }},
		{Name: "old2", Tier: 1, Short: false, Make: func(h string) []placed { return fileAt(inst(tmplOld2, h)+"\n", 0755) }},
		{Name: "old3", Tier: 1, Short: false, Make: func(h string) []placed { return fileAt(inst(tmplOld3, h)+"\n", 0755) }},
		{Name: "prepush-old-a", Tier: 0, Short: false, Make: func(h string) []placed { return fileAt(prePushOnlyOld[0]+"\n", 0755) }},
		{Name: "prepush-old-e", Tier: 1, Short: false, Make: func(h string) []placed { return fileAt(prePushOnlyOld[4]+"\n", 0755) }},
		{Name: "prepush-old-b", Tier: 1, Short: false, Make: func(h string) []placed { return fileAt(prePushOnlyOld[1]+"\n", 0755) }},
		{Name: "prepush-old-c", Tier: 1, Short: false, Make: func(h string) []placed { return fileAt(prePushOnlyOld[2]+"\n", 0755) }},
		{Name: "prepush-old-d", Tier: 1, Short: false, Make: func(h string) []placed { return fileAt(prePushOnlyOld[3]+"\n", 0755) }},
		{Name: "current-reindented", Tier: 0, Short: false, Make: func(h string) []placed {
			return fileAt("\n\n\t  "+strings.ReplaceAll(curTemplate(h), "\n", "\n\t  ")+"\n\n\n", 0755)
		}},
		{Name: "old1-reindented", Tier: 1, Short: false, Make: func(h string) []placed {
			return fileAt("  "+strings.ReplaceAll(inst(tmplOld1, h), "\n", "\n \t")+"\n", 0755)
		}},
		{Name: "current-crlf", Tier: 0, Short: false, Make: func(h string) []placed {
			return fileAt(strings.ReplaceAll(curTemplate(h)+"\n", "\n", "\r\n"), 0755)
		}},
		{Name: "current-trailing-blank-lines", Tier: 1, Short: false, Make: func(h string) []placed { return fileAt(curTemplate(h)+strings.Repeat("\n", 50), 0755) }},
		{Name: "user-script", Tier: 0, Short: true, Make: func(h string) []placed { return fileAt("#!/bin/sh\n"+userLines(h), 0755) }},
		{Name: "user-script-with-lfs-line", Tier: 0, Short: false, Make: func(h string) []placed {
			return fileAt("#!/bin/sh\necho mine\ngit lfs "+h+" \"$@\"\n", 0755)
		}},
		{Name: "current-then-user-lines", Tier: 0, Short: true, Make: func(h string) []placed { return fileAt(curTemplate(h)+"\n"+userLines(h), 0755) }},
		{Name: "current-then-comment-and-user-lines", Tier: 0, Short: false, Make: func(h string) []placed {
			return fileAt(curTemplate(h)+"\n\n# local additions\n"+userLines(h), 0755)
		}},
		{Name: "current-missing-last-line", Tier: 0, Short: false, Make: func(h string) []placed {
			t := curTemplate(h)
			return fileAt(t[:strings.LastIndex(t, "\n")+1], 0755)
		}},
		{Name: "current-line-inserted", Tier: 0, Short: false, Make: func(h string) []placed {
			return fileAt(strings.Replace(curTemplate(h), "\ngit lfs ", "\necho USER-LINE-before\ngit lfs ", 1)+"\n", 0755)
		}},
		{Name: "current-edited-exit-0", Tier: 0, Short: false, Make: func(h string) []placed {
			return fileAt(strings.Replace(curTemplate(h), "exit 2; }", "exit 0; }", 1)+"\n", 0755)
		}},
		{Name: "current-missing-first-line", Tier: 1, Short: false, Make: func(h string) []placed {
			return fileAt(strings.TrimPrefix(curTemplate(h), "#!/bin/sh\n")+"\n", 0755)
		}},
		{Name: "current-missing-middle-line", Tier: 1, Short: false, Make: func(h string) []placed {
			t := strings.Split(curTemplate(h), "\n")
			return fileAt(t[0]+"\n"+t[2]+"\n", 0755)
		}},
		{Name: "current-last-line-duplicated", Tier: 1, Short: false, Make: func(h string) []placed {
			t := strings.Split(curTemplate(h), "\n")
			return fileAt(curTemplate(h)+"\n"+t[2]+"\n", 0755)
		}},
		{Name: "old2-then-user-lines", Tier: 1, Short: false, Make: func(h string) []placed { return fileAt(inst(tmplOld2, h)+"\n"+userLines(h), 0755) }},
		{Name: "user-lines-then-current", Tier: 1, Short: false, Make: func(h string) []placed {
			return fileAt("#!/bin/sh\necho first\n"+strings.TrimPrefix(curTemplate(h), "#!/bin/sh\n")+"\n", 0755)
		}},
		{Name: "template-of-other-hook", Tier: 0, Short: false, Make: func(h string) []placed { return fileAt(curTemplate(otherHook(h))+"\n", 0755) }},
		{Name: "template-prefix-100", Tier: 0, Short: false, Make: func(h string) []placed { return fileAt(curTemplate(h)[:100]+"\n", 0755) }},
		{Name: "blank-200-then-user-lines", Tier: 0, Short: false, Make: func(h string) []placed {
			return fileAt(strings.Repeat(" \n", 100)+userLines(h), 0755)
		}},
		{Name: "current-700-blank-then-user-lines-beyond-1024", Tier: 0, Short: true, Make: func(h string) []placed {
			return fileAt(curTemplate(h)+strings.Repeat("\n", 800)+userLines(h), 0755)
		}},
		{Name: "old1-blank-then-user-lines-beyond-1024", Tier: 0, Short: false, Make: func(h string) []placed {
			return fileAt(inst(tmplOld1, h)+strings.Repeat("\n", 800)+userLines(h), 0755)
		}},
		{Name: "blank-1100-then-user-lines", Tier: 0, Short: false, Make: func(h string) []placed {
			return fileAt(strings.Repeat(" \n", 550)+userLines(h), 0755)
		}},
		{Name: "big-user-script", Tier: 0, Short: false, Make: func(h string) []placed {
			return fileAt("#!/bin/sh\n"+strings.Repeat("# a comment line of a long user hook\n", 40)+userLines(h), 0755)
		}},
		{Name: "user-script-nonexec", Tier: 0, Short: false, Make: func(h string) []placed { return fileAt("#!/bin/sh\n"+userLines(h), 0644) }},
		{Name: "current-nonexec", Tier: 1, Short: false, Make: func(h string) []placed { return fileAt(curTemplate(h)+"\n", 0644) }},
		{Name: "symlink-to-user-script", Tier: 0, Short: true, Make: func(h string) []placed {
			return []placed{{"", ent{Kind: 'l', Mode: 0777, Link: rootPH + "/" + scriptsDir + "/" + h + ".sh"}},
				{"@script", ent{Kind: 'f', Mode: 0755, Data: "#!/bin/sh\n" + userLines(h)}}}
		}},
		{Name: "symlink-to-lfs-content", Tier: 0, Short: false, Make: func(h string) []placed {
			return []placed{{"", ent{Kind: 'l', Mode: 0777, Link: rootPH + "/" + scriptsDir + "/" + h + ".sh"}},
				{"@script", ent{Kind: 'f', Mode: 0755, Data: curTemplate(h) + "\n"}}}
		}},
		{Name: "symlink-dangling", Tier: 1, Short: false, Make: func(h string) []placed {
			return []placed{{"", ent{Kind: 'l', Mode: 0777, Link: rootPH + "/" + scriptsDir + "/" + h + ".sh"}}}
		}},
		{Name: "directory", Tier: 0, Short: false, Make: func(h string) []placed {
			return []placed{{"", ent{Kind: 'd', Mode: 0755}}, {"/keep.txt", ent{Kind: 'f', Mode: 0644, Data: "user data\n"}}}
		}},
	}
	return hc
}

type initState struct {
	Desc string
	Snap snap
	St   *state
}

func appendFile(s snap, rel, text string) {
	e, ok := s[rel]
	if !ok {
		e = ent{Kind: 'f', Mode: 0644}
	}
	e.Data += text
	s[rel] = e
}

func scopeFile(scope string) string {
	for _, sf := range scopeFiles {
		if sf[0] == scope {
			return sf[1]
		}
	}
	panic("scope " + scope)
}

func lfsSection(vals map[string][]string) string {
	var b strings.Builder
	any := false
	for _, k := range lfsKeys {
		for _, v := range vals[k] {
			if !any {
				b.WriteString("[filter \"lfs\"]\n")
				any = true
			}
			b.WriteString("\t" + k + " = " + v + "\n")
		}
	}
	return b.String()
}

// hooksPath variants: "" (unset), "rel", "abs" (absolute, outside the repository), "relup", "absin" (scenario cwd)
func hooksDirFor(hp string) (dir, value string) {
	switch hp {
	case "rel":
		return "repo/relhooks", "relhooks"
	case "abs":
		return "abshooks", rootPH + "/abshooks"
	case "relup": // relative, leaving the work tree through ..
		return "abshooks", "../abshooks"
	case "absin": // absolute, inside the work tree
		return "repo/relhooks", rootPH + "/repo/relhooks"
	}
	return "repo/.git/hooks", ""
}

func (e *envT) mkInit(desc, hp string, hooks map[string]hookClass, cfg map[string]map[string][]string) initState {
	return e.mkInitDV(desc, hp, "plain", hooks, cfg)
}

// hooks-directory variants (scenario hooktypes): plain | symlink-abs | symlink-rel (the hooks directory is a symbolic
// link to <root>/realhooks) | missing (no hooks directory) | symlink-dangling (link to a directory that does not exist)
var dirVariants = []string{"plain", "symlink-abs", "symlink-rel", "missing", "symlink-dangling"}

func (e *envT) mkInitDV(desc, hp, dv string, hooks map[string]hookClass, cfg map[string]map[string][]string) initState {
	s := e.base.clone()
	dir, val := hooksDirFor(hp)
	if val != "" {
		appendFile(s, "repo/.git/config", "[core]\n\thooksPath = "+val+"\n")
	}
	for k := range s {
		if k == dir || strings.HasPrefix(k, dir+"/") {
			delete(s, k)
		}
	}
	real := dir // where the entries are created
	switch dv {
	case "plain":
		s[dir] = ent{Kind: 'd', Mode: 0755}
	case "readonly":
		s[dir] = ent{Kind: 'd', Mode: 0555}
	case "symlink-abs", "symlink-dangling":
		s[dir] = ent{Kind: 'l', Mode: 0777, Link: rootPH + "/" + realHooksDir}
		real = realHooksDir
	case "symlink-rel":
		r, _ := filepath.Rel(filepath.Dir(dir), realHooksDir)
		s[dir] = ent{Kind: 'l', Mode: 0777, Link: r}
		real = realHooksDir
	case "missing":
		real = ""
	default:
		panic("dir variant " + dv)
	}
	if dv == "symlink-dangling" {
		real = ""
	}
	if real != "" {
		if dv != "readonly" {
			s[real] = ent{Kind: 'd', Mode: 0755}
		}
		s[real+"/pre-commit"] = ent{Kind: 'f', Mode: 0755, Data: "#!/bin/sh\necho user pre-commit hook\n"}
	}
	for _, h := range hookNames {
		c, ok := hooks[h]
		if !ok || real == "" {
			continue
		}
		var pls []placed
		if c.MakeIn != nil {
			pls = c.MakeIn(h, real)
		} else {
			pls = c.Make(h)
		}
		for _, pl := range pls {
			switch {
			case pl.Rel == "@script":
				s[scriptsDir+"/"+h+".sh"] = pl.E
			case strings.HasPrefix(pl.Rel, "@"):
				s[scriptsDir+"/"+pl.Rel[1:]] = pl.E
			default:
				s[real+"/"+h+pl.Rel] = pl.E
			}
		}
	}
	scs := make([]string, 0, len(cfg))
	for sc := range cfg {
		scs = append(scs, sc)
	}
	sort.Strings(scs)
	for _, sc := range scs {
		appendFile(s, scopeFile(sc), lfsSection(cfg[sc]))
	}
	return initState{Desc: desc, Snap: s, St: e.digest(s)}
}

// ---------------------------------------------------------------------------------------------------------
// Parts (scenarios)

type partDef struct {
	AltSubs  []string // scenario cwd: invoking directories (relative to the top of the work tree) the roundtrip probe crosses
	XCheck   string   // scenarios cfgwhere-*: scope whose view (includes followed) is cross-checked against the real git after every transition
	Unpriv   bool     // run git-lfs as unprivUID (scenario perms)
	Name     string
	Inits    []initState
	Ops      []opDef
	MaxDepth int // number of BFS levels expanded; <0: to closure
}

func (e *envT) hooksPart() partDef {
	p := partDef{Name: "hooks", MaxDepth: -1}
	// --manual only prints what to do by hand: it must leave every hook and every setting alone, with or without a conflict
	p.Ops = []opDef{mkOp("install", "global", "repo", ""), mkOp("install", "global", "repo", "f"), opUpdate,
		mkOp("uninstall", "global", "repo", ""), opTrack, opInstallMan, opUpdateMan}
	if e.thorough {
		p.Ops = append(p.Ops, opUpdateForce) // quick: update --force is exercised in scenario 'mixed' only
	}
	classes := hookClasses()
	seen := map[uint64]bool{}
	add := func(is initState) {
		if !seen[is.St.Key] {
			seen[is.St.Key] = true
			p.Inits = append(p.Inits, is)
		}
	}
	for _, hp := range []string{"", "rel", "abs"} {
		for _, c := range classes {
			if c.Tier > 0 && !e.thorough {
				continue
			}
			if hp != "" && !e.thorough && !c.Short {
				continue
			}
			for _, h := range hookNames {
				if hp != "" && !e.thorough && h != "pre-push" && h != "post-commit" {
					continue
				}
				add(e.mkInit(fmt.Sprintf("hooksPath=%s %s=%s others absent", orDash(hp), h, c.Name), hp, map[string]hookClass{h: c}, nil))
				if e.thorough {
					m := map[string]hookClass{}
					for _, o := range hookNames {
						m[o] = classes[3] // current
					}
					m[h] = c
					add(e.mkInit(fmt.Sprintf("hooksPath=%s %s=%s others current", orDash(hp), h, c.Name), hp, m, nil))
				}
			}
			m := map[string]hookClass{}
			for _, h := range hookNames {
				m[h] = c
			}
			add(e.mkInit(fmt.Sprintf("hooksPath=%s all four hooks=%s", orDash(hp), c.Name), hp, m, nil))
		}
	}
	return p
}

// ---------------------------------------------------------------------------------------------------------
// Scenario hooktypes: the pre-existing hook varied by FILE TYPE and LINK STATE, the hooks directory by its own type

func scriptRel(h string) string { return scriptsDir + "/" + h + ".sh" }

// linkStr: target string of a symlink created in dir that points at the root-relative path target
func linkStr(dir, target string, relative bool) string {
	if relative {
		r, err := filepath.Rel(dir, target)
		if err != nil {
			panic(err)
		}
		return r
	}
	return rootPH + "/" + target
}

func typeClasses() []hookClass {
	lnk := func(l string) ent { return ent{Kind: 'l', Mode: 0777, Link: l} }
	file := func(data string, mode uint32) ent { return ent{Kind: 'f', Mode: mode, Data: data} }
	user := func(h string) string { return "#!/bin/sh\n" + userLines(h) }
	toScript := func(relative bool, content func(h string) string, mode uint32) func(h, dir string) []placed {
		return func(h, dir string) []placed {
			return []placed{{"", lnk(linkStr(dir, scriptRel(h), relative))}, {"@script", file(content(h), mode)}}
		}
	}
	return []hookClass{
		{Name: "symlink-rel-to-user-script", Short: true, MakeIn: toScript(true, user, 0755)},
		{Name: "symlink-abs-dangling", Short: true, MakeIn: func(h, dir string) []placed {
			return []placed{{"", lnk(linkStr(dir, scriptRel(h), false))}}
		}},
		{Name: "symlink-rel-dangling", Short: true, MakeIn: func(h, dir string) []placed {
			return []placed{{"", lnk(linkStr(dir, scriptRel(h), true))}}
		}},
		{Name: "symlink-abs-dangling-parent-missing", MakeIn: func(h, dir string) []placed {
			return []placed{{"", lnk(linkStr(dir, scriptsDir+"/gone/"+h+".sh", false))}}
		}},
		{Name: "symlink-rel-dangling-parent-missing", Short: true, MakeIn: func(h, dir string) []placed {
			return []placed{{"", lnk(linkStr(dir, scriptsDir+"/gone/"+h+".sh", true))}}
		}},
		{Name: "symlink-rel-to-lfs-current", MakeIn: toScript(true, func(h string) string { return curTemplate(h) + "\n" }, 0755)},
		{Name: "symlink-abs-to-lfs-old1", MakeIn: toScript(false, func(h string) string { return inst(tmplOld1, h) + "\n" }, 0755)},
		{Name: "symlink-abs-to-empty-file", Tier: 1, MakeIn: toScript(false, func(h string) string { return "" }, 0755)},
		{Name: "symlink-abs-to-directory", MakeIn: func(h, dir string) []placed {
			return []placed{{"", lnk(linkStr(dir, scriptsDir+"/"+h+".d", false))}, {"@" + h + ".d", ent{Kind: 'd', Mode: 0755}},
				{"@" + h + ".d/keep.txt", file("user data\n", 0644)}}
		}},
		{Name: "symlink-chain2-to-user-script", Short: true, MakeIn: func(h, dir string) []placed {
			return []placed{{"", lnk(linkStr(dir, scriptsDir+"/"+h+".link", true))}, {"@" + h + ".link", lnk(h + ".sh")}, {"@script", file(user(h), 0755)}}
		}},
		{Name: "symlink-chain2-dangling", MakeIn: func(h, dir string) []placed {
			return []placed{{"", lnk(linkStr(dir, scriptsDir+"/"+h+".link", false))}, {"@" + h + ".link", lnk(h + ".sh")}}
		}},
		{Name: "symlink-chain2-to-lfs-current", Tier: 1, MakeIn: func(h, dir string) []placed {
			return []placed{{"", lnk(linkStr(dir, scriptsDir+"/"+h+".link", false))}, {"@" + h + ".link", lnk(rootPH + "/" + scriptRel(h))},
				{"@script", file(curTemplate(h)+"\n", 0755)}}
		}},
		{Name: "symlink-self-loop", MakeIn: func(h, dir string) []placed { return []placed{{"", lnk(h)}} }},
		{Name: "directory-empty", MakeIn: func(h, dir string) []placed { return []placed{{"", ent{Kind: 'd', Mode: 0755}}} }},
		{Name: "user-script-mode-000", Tier: 1, MakeIn: func(h, dir string) []placed { return []placed{{"", file(user(h), 0)}} }},
		{Name: "symlink-abs-to-user-script-nonexec", Tier: 1, MakeIn: toScript(false, user, 0644)},
		{Name: "symlink-rel-to-lfs-old1", Tier: 1, MakeIn: toScript(true, func(h string) string { return inst(tmplOld1, h) + "\n" }, 0755)},
		{Name: "symlink-rel-to-current-then-user-lines", Tier: 1, MakeIn: toScript(true, func(h string) string { return curTemplate(h) + "\n" + userLines(h) }, 0755)},
	}
}

// hooktypesPart: every file-type / link-state class for the hook entry x which hook carries it x core.hooksPath
// {unset, relative, absolute (outside the repository)}, and the hooks directory itself {plain, symlink (absolute /
// relative target), missing, dangling symlink} x a set of entry classes, under the hooks alphabet, to closure.
func (e *envT) hooktypesPart() partDef {
	p := partDef{Name: "hooktypes", MaxDepth: -1}
	p.Ops = []opDef{mkOp("install", "global", "repo", ""), mkOp("install", "global", "repo", "f"), opUpdate,
		mkOp("uninstall", "global", "repo", ""), opTrack}
	if e.thorough {
		p.Ops = append(p.Ops, opUpdateForce)
	}
	seen := map[uint64]bool{}
	add := func(is initState) {
		if !seen[is.St.Key] {
			seen[is.St.Key] = true
			p.Inits = append(p.Inits, is)
		}
	}
	base := map[string]hookClass{}
	for _, c := range hookClasses() {
		base[c.Name] = c
	}
	tcs := typeClasses()
	place := func(hp, dv string, c hookClass, singles []string, othersCurrent bool) {
		for _, h := range singles {
			add(e.mkInitDV(fmt.Sprintf("hooksPath=%s hooksdir=%s %s=%s others absent", orDash(hp), dv, h, c.Name), hp, dv, map[string]hookClass{h: c}, nil))
			if othersCurrent && (h == "pre-push" || h == "post-commit") {
				m := map[string]hookClass{}
				for _, o := range hookNames {
					m[o] = base["current"]
				}
				m[h] = c
				add(e.mkInitDV(fmt.Sprintf("hooksPath=%s hooksdir=%s %s=%s others current", orDash(hp), dv, h, c.Name), hp, dv, m, nil))
			}
		}
		m := map[string]hookClass{}
		for _, h := range hookNames {
			m[h] = c
		}
		add(e.mkInitDV(fmt.Sprintf("hooksPath=%s hooksdir=%s all four hooks=%s", orDash(hp), dv, c.Name), hp, dv, m, nil))
	}
	// (a) entry classes in a plain hooks directory
	for _, hp := range []string{"", "rel", "abs"} {
		for _, c := range tcs {
			if c.Tier > 0 && !e.thorough {
				continue
			}
			if hp != "" && !e.thorough && !c.Short {
				continue
			}
			singles := hookNames
			if !e.thorough {
				singles = []string{"pre-push", "post-commit"} // first slot, a later slot (the hooks are processed in order)
				if hp != "" {
					singles = []string{"pre-push"}
				}
			} else if hp != "" && !c.Short {
				singles = []string{"pre-push"}
			}
			place(hp, "plain", c, singles, e.thorough && (hp == "" || c.Short))
		}
	}
	// (b) the hooks directory itself varied, crossed with entry classes
	dirClasses := []hookClass{base["absent"], base["current"], base["user-script"]}
	for _, c := range tcs {
		switch c.Name {
		case "symlink-rel-dangling", "symlink-rel-to-user-script":
			dirClasses = append(dirClasses, c)
		case "symlink-abs-dangling", "symlink-chain2-to-user-script", "symlink-abs-to-lfs-old1":
			if e.thorough {
				dirClasses = append(dirClasses, c)
			}
		}
	}
	for _, hp := range []string{"", "rel", "abs"} {
		if hp == "rel" && !e.thorough {
			continue
		}
		for _, dv := range dirVariants {
			switch dv {
			case "plain":
				continue
			case "missing", "symlink-dangling":
				add(e.mkInitDV(fmt.Sprintf("hooksPath=%s hooksdir=%s", orDash(hp), dv), hp, dv, nil, nil))
				continue
			case "symlink-rel":
				if !e.thorough && hp != "" {
					continue
				}
			}
			for _, c := range dirClasses {
				singles := []string{"pre-push"}
				if e.thorough {
					singles = []string{"pre-push", "post-merge"}
				}
				if c.Name == "absent" {
					singles = nil
				}
				place(hp, dv, c, singles, false)
			}
		}
	}
	return p
}

// permsPart: states in which PERMISSION BITS decide what git-lfs can read or write: read-only hooks directory,
// unreadable / read-only hook files, a symlink into an unsearchable directory.  git-lfs runs as uid 65534 on a world
// owned by uid 65534 (the harness itself runs as root, for which permission bits are void).
func (e *envT) permsPart() partDef {
	p := partDef{Name: "perms", MaxDepth: -1, Unpriv: true}
	p.Ops = []opDef{mkOp("install", "global", "repo", ""), mkOp("install", "global", "repo", "f"), opUpdate, opUpdateForce,
		mkOp("uninstall", "global", "repo", ""), opTrack}
	seen := map[uint64]bool{}
	add := func(is initState) {
		if !seen[is.St.Key] {
			seen[is.St.Key] = true
			p.Inits = append(p.Inits, is)
		}
	}
	base := map[string]hookClass{}
	for _, c := range hookClasses() {
		base[c.Name] = c
	}
	for _, c := range typeClasses() {
		base[c.Name] = c
	}
	file := func(data string, mode uint32) []placed { return []placed{{"", ent{Kind: 'f', Mode: mode, Data: data}}} }
	user := func(h string) string { return "#!/bin/sh\n" + userLines(h) }
	fileClasses := []hookClass{
		base["user-script-mode-000"],
		{Name: "user-script-mode-444", Make: func(h string) []placed { return file(user(h), 0444) }},
		{Name: "user-script-mode-200-unreadable-writable", Make: func(h string) []placed { return file(user(h), 0200) }},
		{Name: "old1-mode-444", Make: func(h string) []placed { return file(inst(tmplOld1, h)+"\n", 0444) }},
		{Name: "old1-mode-000", Make: func(h string) []placed { return file(inst(tmplOld1, h)+"\n", 0) }},
		{Name: "current-mode-444", Make: func(h string) []placed { return file(curTemplate(h)+"\n", 0444) }},
		{Name: "current-mode-000", Make: func(h string) []placed { return file(curTemplate(h)+"\n", 0) }},
		{Name: "symlink-to-unreadable-user-script", MakeIn: func(h, dir string) []placed {
			return []placed{{"", ent{Kind: 'l', Mode: 0777, Link: linkStr(dir, scriptRel(h), true)}}, {"@script", ent{Kind: 'f', Mode: 0, Data: user(h)}}}
		}},
		{Name: "symlink-into-unsearchable-directory", MakeIn: func(h, dir string) []placed {
			return []placed{{"", ent{Kind: 'l', Mode: 0777, Link: linkStr(dir, scriptsDir+"/locked/"+h+".sh", false)}},
				{"@locked", ent{Kind: 'd', Mode: 0}}, {"@locked/" + h + ".sh", ent{Kind: 'f', Mode: 0755, Data: user(h)}}}
		}},
	}
	roClasses := []hookClass{base["absent"], base["current"], base["old1"], base["user-script"], base["symlink-rel-dangling"], base["symlink-to-user-script"]}
	hps := []string{""}
	if e.thorough {
		hps = []string{"", "abs"}
	}
	for _, hp := range hps {
		for _, c := range fileClasses {
			singles := []string{"pre-push"}
			if e.thorough {
				singles = []string{"pre-push", "post-commit"}
			}
			for _, h := range singles {
				add(e.mkInitDV(fmt.Sprintf("hooksPath=%s hooksdir=plain %s=%s others absent", orDash(hp), h, c.Name), hp, "plain", map[string]hookClass{h: c}, nil))
			}
			m := map[string]hookClass{}
			for _, h := range hookNames {
				m[h] = c
			}
			add(e.mkInitDV(fmt.Sprintf("hooksPath=%s hooksdir=plain all four hooks=%s", orDash(hp), c.Name), hp, "plain", m, nil))
		}
		for _, c := range roClasses {
			if c.Name != "absent" {
				add(e.mkInitDV(fmt.Sprintf("hooksPath=%s hooksdir=readonly pre-push=%s others absent", orDash(hp), c.Name), hp, "readonly", map[string]hookClass{"pre-push": c}, nil))
				if e.thorough {
					add(e.mkInitDV(fmt.Sprintf("hooksPath=%s hooksdir=readonly post-merge=%s others absent", orDash(hp), c.Name), hp, "readonly", map[string]hookClass{"post-merge": c}, nil))
				}
			}
			m := map[string]hookClass{}
			for _, h := range hookNames {
				m[h] = c
			}
			add(e.mkInitDV(fmt.Sprintf("hooksPath=%s hooksdir=readonly all four hooks=%s", orDash(hp), c.Name), hp, "readonly", m, nil))
		}
	}
	return p
}

// probeDrop: can the harness run a child as unprivUID inside its scratch area?
func (e *envT) probeDrop() {
	if os.Geteuid() != 0 {
		e.dropWhy = "the harness does not run as root (running the permission states natively is not implemented)"
		return
	}
	world := <-e.pool
	defer func() { e.pool <- world }()
	e.unpriv = true
	defer func() { e.unpriv = false }()
	is := e.mkInit("probe", "", nil, nil)
	e.restoreWorld(is.Snap, world.Root)
	r := runAs(world, filepath.Join(world.Root, "repo"), nil, "/bin/sh", "-c", "id -u && : > probe.tmp && rm probe.tmp && git-lfs version >/dev/null && git rev-parse --git-dir")
	if !r.OK() || !strings.HasPrefix(r.Out, fmt.Sprint(unprivUID)+"\n") {
		e.dropWhy = "cannot run a child as uid " + fmt.Sprint(unprivUID) + " in the scratch area: " + clip(r.String(), 300)
		return
	}
	e.dropOK = true
}

func orDash(s string) string {
	if s == "" {
		return "unset"
	}
	return s
}

var cfgClasses = map[string][][]string{
	"clean":    {nil, {"git-lfs clean -- %f"}, {"git-lfs clean %f"}, {"my-clean %f"}},
	"smudge":   {nil, {"git-lfs smudge -- %f"}, {"git-lfs smudge %f"}, {"my-smudge %f"}},
	"process":  {nil, {"git-lfs filter-process"}, {"git-lfs filter"}, {"my-filter-process"}},
	"required": {nil, {"true"}, {"false"}},
}
var cfgClassNames = map[string][]string{
	"clean": {"unset", "current", "historical", "custom"}, "smudge": {"unset", "current", "historical", "custom"},
	"process": {"unset", "current", "historical", "custom"}, "required": {"unset", "current", "custom"},
}

func scopeOps(scope string, skipRepo bool) []opDef {
	cwd, sc := "repo", scope
	switch scope {
	case "wt2":
		cwd, sc = "wt2", "worktree"
	case "wtmain":
		sc = "worktree"
	}
	r := ""
	if skipRepo {
		r = "r"
	}
	return []opDef{mkOp("install", sc, cwd, r), mkOp("install", sc, cwd, "f"+r), mkOp("install", sc, cwd, "s"+r), mkOp("uninstall", sc, cwd, r)}
}

// cfgPart: one scope; every combination of the four keys' value classes (full) or every combination in which at
// most two keys leave a uniform background (reduced), plus multi-valued keys.
func (e *envT) cfgPart(scope string, full bool) partDef {
	p := partDef{Name: "cfg-" + scope, MaxDepth: -1, Ops: scopeOps(scope, true)}
	seen := map[uint64]bool{}
	add := func(desc string, vals map[string][]string) {
		is := e.mkInit(desc, "", nil, map[string]map[string][]string{scope: vals})
		if !seen[is.St.Key] {
			seen[is.St.Key] = true
			p.Inits = append(p.Inits, is)
		}
	}
	n := []int{len(cfgClasses["clean"]), len(cfgClasses["smudge"]), len(cfgClasses["process"]), len(cfgClasses["required"])}
	for a := 0; a < n[0]; a++ {
		for b := 0; b < n[1]; b++ {
			for c := 0; c < n[2]; c++ {
				for d := 0; d < n[3]; d++ {
					idx := []int{a, b, c, d}
					if !full {
						// reduced: at most one key differs from a uniform background (all unset / all current)
						ok := false
						for bg := 0; bg <= 1; bg++ {
							diff := 0
							for _, i := range idx {
								if i != bg {
									diff++
								}
							}
							if diff <= 1 {
								ok = true
							}
						}
						if !ok {
							continue
						}
					}
					vals := map[string][]string{}
					var dn []string
					for i, k := range lfsKeys {
						vals[k] = cfgClasses[k][idx[i]]
						dn = append(dn, k+"="+cfgClassNames[k][idx[i]])
					}
					add(scope+": "+strings.Join(dn, " "), vals)
				}
			}
		}
	}
	add(scope+": smudge multi-valued [custom, historical]", map[string][]string{"smudge": {"my-smudge %f", "git-lfs smudge %f"}})
	add(scope+": smudge multi-valued [historical, custom]", map[string][]string{"smudge": {"git-lfs smudge %f", "my-smudge %f"}})
	add(scope+": clean multi-valued [custom, current] others current", map[string][]string{"clean": {"my-clean %f", "git-lfs clean -- %f"},
		"smudge": {"git-lfs smudge -- %f"}, "process": {"git-lfs filter-process"}, "required": {"true"}})
	return p
}

// mixedPart: cross-scope alphabet.  deep=false: depth 2 (thorough: larger alphabet, all pairings, all hooksPath
// variants); deep=true (thorough only): the quick tier's 4 initial states and 20 operations to depth 3.
func (e *envT) mixedPart(deep bool) partDef {
	p := partDef{Name: "mixed", MaxDepth: 2}
	thorough := e.thorough && !deep
	if deep {
		p.Name, p.MaxDepth = "mixed-deep", 3
	}
	p.Ops = []opDef{
		mkOp("install", "global", "repo", ""), mkOp("install", "global", "repo", "f"), mkOp("install", "global", "repo", "s"), mkOp("install", "global", "repo", "r"),
		mkOp("install", "local", "repo", ""), mkOp("install", "local", "repo", "f"),
		mkOp("install", "worktree", "repo", ""), mkOp("install", "worktree", "wt2", ""),
		mkOp("install", "file", "repo", ""), mkOp("install", "system", "repo", ""), mkOp("install", "global", "outside", ""),
		mkOp("uninstall", "global", "repo", ""), mkOp("uninstall", "local", "repo", ""), mkOp("uninstall", "worktree", "wt2", ""),
		mkOp("uninstall", "file", "repo", ""), mkOp("uninstall", "system", "repo", ""), mkOp("uninstall", "global", "repo", "r"),
		opUpdate, opUpdateForce, opTrack,
	}
	if thorough {
		p.Ops = append(p.Ops, opInstHooks, opUninstHooks, opUpdateMan, opInstallMan, opUntrack, opClean, opTrackWt2,
			mkOp("uninstall", "worktree", "repo", ""), mkOp("uninstall", "global", "outside", ""), mkOp("install", "worktree", "wt2", "f"))
	}
	cl := map[string]hookClass{}
	for _, c := range hookClasses() {
		cl[c.Name] = c
	}
	all := func(c string) map[string]hookClass {
		m := map[string]hookClass{}
		for _, h := range hookNames {
			m[h] = cl[c]
		}
		return m
	}
	type hs struct {
		d string
		m map[string]hookClass
	}
	hooks := []hs{{"hooks absent", nil}, {"pre-push=user-script", map[string]hookClass{"pre-push": cl["user-script"]}},
		{"pre-push=old1 post-commit=user-script", map[string]hookClass{"pre-push": cl["old1"], "post-commit": cl["user-script"]}},
		{"all hooks current", all("current")}}
	type cs struct {
		d string
		m map[string]map[string][]string
	}
	cfgs := []cs{{"no filter config", nil},
		{"global smudge custom", map[string]map[string][]string{"global": {"smudge": {"my-smudge %f"}}}},
		{"local all historical, wt2 clean custom", map[string]map[string][]string{
			"local": {"clean": {"git-lfs clean %f"}, "smudge": {"git-lfs smudge %f"}, "process": {"git-lfs filter"}, "required": {"true"}},
			"wt2":   {"clean": {"my-clean %f"}}}},
		{"system current, file process custom, wtmain required custom", map[string]map[string][]string{
			"system": {"clean": {"git-lfs clean -- %f"}, "smudge": {"git-lfs smudge -- %f"}, "process": {"git-lfs filter-process"}, "required": {"true"}},
			"file":   {"process": {"my-filter-process"}}, "wtmain": {"required": {"false"}}}},
	}
	hps := []string{""}
	if thorough {
		hps = []string{"", "rel", "abs"}
	}
	for _, hp := range hps {
		for hi, h := range hooks {
			for ci, c := range cfgs {
				if hp != "" && (h.m == nil || c.m == nil) {
					continue
				}
				if !thorough && hi != ci {
					continue // quick: the 4 diagonal pairings
				}
				p.Inits = append(p.Inits, e.mkInit(fmt.Sprintf("hooksPath=%s %s; %s", orDash(hp), h.d, c.d), hp, h.m, c.m))
			}
		}
	}
	return p
}

// ---------------------------------------------------------------------------------------------------------
// BFS

// a closure search that has not closed after this many levels is cut (reported as exhaustive:false)
const closureLevelCap = 8

type node struct {
	snap snap
	st   *state
	init int
	path []int
}

func (p *partDef) points(init int, path []int) []vx.Point {
	pts := []vx.Point{{K: vx.Input, N: len(p.Inits), C: init}}
	for _, o := range path {
		pts = append(pts, vx.Point{K: vx.Input, N: len(p.Ops) + 1, C: o + 1})
	}
	return pts
}

func (p *partDef) where(init int, path []int) string {
	var names []string
	for _, o := range path {
		names = append(names, p.Ops[o].Name)
	}
	return fmt.Sprintf("[%s] init{%s} after [%s]", p.Name, p.Inits[init].Desc, strings.Join(names, "; "))
}

func toResult(p *partDef, init int, path []int, pre *state, so *stepOut) vx.Result {
	o := p.Ops[path[len(path)-1]]
	r := vx.Result{Points: p.points(init, path), Outcome: so.outcome, Evals: so.evals + 1, Transitions: so.trans,
		States: []uint64{pre.Key, so.post.Key}, Violations: so.viols, Inconcl: so.inconcl, Counters: so.counters}
	if so.hadProt || so.changed {
		r.NonTrivial = []string{fmt.Sprintf("%016x|%s", pre.Key, o.Name)}
	}
	var names []string
	for _, i := range path {
		names = append(names, p.Ops[i].Name)
	}
	r.Sample = map[string]interface{}{"scenario": p.Name, "initial_state": p.Inits[init].Desc, "operations": names, "last_exit": so.exit, "outcome": so.outcome,
		"state_after": so.post.describe()}
	return r
}

type bfsInfo struct {
	Scenario             string           `json:"scenario"`
	Initial              int              `json:"initial_states"`
	Ops                  int              `json:"operations"`
	States               int              `json:"states"`
	Transitions          int64            `json:"bfs_edges"`
	Levels               int              `json:"levels_expanded"`
	Closure              bool             `json:"closure_reached"`
	MaxDepth             int              `json:"depth_bound"`
	WallS                float64          `json:"wall_s"`
	ViolatingTransitions map[string]int64 `json:"violating_transitions_by_fingerprint,omitempty"`
}

func (e *envT) bfs(p *partDef, deadline time.Time) (*vx.Stats, bfsInfo) {
	t0 := time.Now()
	e.unpriv = p.Unpriv
	e.xcheck = p.XCheck
	e.altSubs = p.AltSubs
	defer func() { e.unpriv, e.xcheck, e.altSubs = false, "", nil }()
	st := vx.NewStats()
	info := bfsInfo{Scenario: p.Name, Initial: len(p.Inits), Ops: len(p.Ops), MaxDepth: p.MaxDepth}
	seen := map[uint64]bool{}
	fpCount := map[string]int{}
	violTotal := map[string]int64{}
	var frontier []node
	for i, is := range p.Inits {
		if !seen[is.St.Key] {
			seen[is.St.Key] = true
			frontier = append(frontier, node{snap: is.Snap, st: is.St, init: i})
		}
	}
	type task struct{ ni, oi int }
	type done struct {
		so stepOut
		ok bool
	}
	workers := cap(e.pool)
	for depth := 0; len(frontier) > 0 && (p.MaxDepth < 0 || depth < p.MaxDepth); depth++ {
		if p.MaxDepth < 0 && depth >= closureLevelCap {
			st.Exhaustive = false
			st.CapHit = fmt.Sprintf("closure not reached after %d levels (%d frontier states unexpanded)", depth, len(frontier))
			break
		}
		if time.Now().After(deadline) {
			st.Exhaustive = false
			st.CapHit = fmt.Sprintf("deadline before level %d (%d frontier states unexpanded)", depth, len(frontier))
			break
		}
		results := make([][]done, len(frontier))
		for i := range results {
			results[i] = make([]done, len(p.Ops))
		}
		ch := make(chan task, 256)
		var wg sync.WaitGroup
		var seenMu sync.RWMutex
		for w := 0; w < workers; w++ {
			wg.Add(1)
			go func() {
				defer wg.Done()
				world := <-e.pool
				defer func() { e.pool <- world }()
				for t := range ch {
					if time.Now().After(deadline) {
						continue
					}
					n := frontier[t.ni]
					path := append(append([]int(nil), n.path...), t.oi)
					func() {
						defer func() {
							if r := recover(); r != nil {
								so := stepOut{counters: map[string]int64{}, post: n.st, snap: n.snap}
								res := vx.Result{Points: p.points(n.init, path), ToolErr: fmt.Sprintf("harness panic in %s: %v", p.where(n.init, path), r)}
								st.Absorb(nil, &res, 0)
								results[t.ni][t.oi] = done{so, false}
							}
						}()
						so := e.step(world, n.st, n.snap, p.Ops[t.oi], p.where(n.init, n.path))
						seenMu.RLock()
						known := seen[so.post.Key]
						seenMu.RUnlock()
						if known {
							so.snap = nil
						}
						results[t.ni][t.oi] = done{so, true}
					}()
				}
			}()
		}
		for ni := range frontier {
			for oi := range p.Ops {
				ch <- task{ni, oi}
			}
		}
		close(ch)
		wg.Wait()
		var next []node
		incomplete := false
		for ni := range frontier {
			for oi := range p.Ops {
				d := results[ni][oi]
				if !d.ok {
					incomplete = true
					continue
				}
				n := frontier[ni]
				path := append(append([]int(nil), n.path...), oi)
				r := toResult(p, n.init, path, n.st, &d.so)
				// vx.Stats keeps at most 200 violations per scenario: record only the first few (= shortest, BFS order)
				// of every fingerprint so that a frequent fingerprint can never crowd out a different one
				kept := r.Violations[:0:0]
				for _, v := range r.Violations {
					if fpCount[v.Fingerprint] < 3 {
						fpCount[v.Fingerprint]++
						kept = append(kept, v)
					}
					violTotal[v.Fingerprint]++
				}
				r.Violations = kept
				st.Absorb(nil, &r, 0)
				info.Transitions++
				if d.so.inconcl != "" {
					continue
				}
				if !seen[d.so.post.Key] {
					seen[d.so.post.Key] = true
					next = append(next, node{snap: d.so.snap, st: d.so.post, init: n.init, path: path})
				}
			}
			frontier[ni].snap = nil
		}
		info.Levels = depth + 1
		if incomplete {
			st.Exhaustive = false
			if st.CapHit == "" {
				st.CapHit = fmt.Sprintf("deadline or tool error inside level %d", depth)
			}
			frontier = next
			break
		}
		frontier = next
	}
	info.States = len(seen)
	info.ViolatingTransitions = violTotal
	info.Closure = len(frontier) == 0 && st.Exhaustive
	info.WallS = time.Since(t0).Seconds()
	return st, info
}

// replayRun re-executes exactly one case (initial state + operation sequence) statelessly.
func (e *envT) replayRun(p *partDef) vx.RunFunc {
	return func(x *vx.X) vx.Result {
		e.unpriv = p.Unpriv
		e.xcheck = p.XCheck
		e.altSubs = p.AltSubs
		i := x.In(len(p.Inits))
		world := <-e.pool
		defer func() { e.pool <- world }()
		cur, st := p.Inits[i].Snap, p.Inits[i].St
		agg := vx.Result{Counters: map[string]int64{}, States: []uint64{st.Key}}
		var path []int
		for {
			c := x.In(len(p.Ops) + 1)
			if c == 0 {
				break
			}
			so := e.step(world, st, cur, p.Ops[c-1], p.where(i, path))
			path = append(path, c-1)
			r := toResult(p, i, path, st, &so)
			agg.Outcome = r.Outcome
			agg.Evals += r.Evals
			agg.Transitions += r.Transitions
			agg.States = append(agg.States, so.post.Key)
			agg.NonTrivial = append(agg.NonTrivial, r.NonTrivial...)
			agg.Sample = r.Sample
			for _, v := range so.viols {
				agg.Violations = append(agg.Violations, v)
			}
			for k, v := range so.counters {
				agg.Counters[k] += v
			}
			if so.inconcl != "" {
				agg.Inconcl = so.inconcl
				break
			}
			cur, st = so.snap, so.post
		}
		return agg
	}
}

// ---------------------------------------------------------------------------------------------------------
// Environment construction

func newEnv(c *vx.Check) *envT {
	scratch := os.Getenv("VERIF_SCRATCH")
	if scratch == "" {
		scratch = os.TempDir()
	}
	if r, err := filepath.EvalSymlinks(scratch); err == nil {
		scratch = r
	}
	bin := os.Getenv("VERIF_GITLFS")
	if bin == "" {
		panic(vx.ToolError{Msg: "VERIF_GITLFS not set (prop.json needs gitlfs)"})
	}
	e := &envT{scratch: filepath.Join(scratch, "c20"), thorough: c.Thorough()}
	e.tmp = filepath.Join(e.scratch, "tmp")
	e.binDir = filepath.Join(e.scratch, "bin")
	tmpl := filepath.Join(e.scratch, "empty-template")
	for _, d := range []string{e.tmp, e.binDir, tmpl, filepath.Join(e.scratch, "toolhome")} {
		if err := os.MkdirAll(d, 0755); err != nil {
			panic(vx.ToolError{Msg: err.Error()})
		}
	}
	if os.Geteuid() == 0 {
		// scenario perms runs git-lfs as an unprivileged user: it must be able to reach the worlds and to use TMPDIR
		os.Chmod(scratch, 0711)
		os.Chmod(e.scratch, 0711)
		os.Chmod(e.tmp, 01777)
	}
	if err := os.Symlink(bin, filepath.Join(e.binDir, "git-lfs")); err != nil {
		panic(vx.ToolError{Msg: err.Error()})
	}
	e.tool = &gitx.World{Root: e.tmp, Home: filepath.Join(e.scratch, "toolhome"), BinDir: e.binDir}
	mkWorld := func(root string) *gitx.World {
		return &gitx.World{Root: root, Home: filepath.Join(root, "home"), BinDir: e.binDir,
			Extra: []string{"GIT_CONFIG_NOSYSTEM=0", "GIT_CONFIG_SYSTEM=" + filepath.Join(root, "sys.gitconfig"), "TMPDIR=" + e.tmp,
				"GIT_CEILING_DIRECTORIES=" + root}}
	}
	// base world, built once with the real git
	root := filepath.Join(e.scratch, "base")
	w := mkWorld(root)
	for _, d := range []string{"home", "outside", scriptsDir, "abshooks"} {
		os.MkdirAll(filepath.Join(root, d), 0755)
	}
	decoy := func(sc string) string {
		return "[filter \"other\"]\n\tclean = cat-" + sc + "\n[filter \"lfsx\"]\n\tclean = keep-" + sc + "\n"
	}
	os.WriteFile(filepath.Join(root, "home/.gitconfig"), []byte("[user]\n\tname = V\n\temail = v@example.com\n[init]\n\tdefaultBranch = main\n[gc]\n\tauto = 0\n"+decoy("global")), 0644)
	os.WriteFile(filepath.Join(root, "sys.gitconfig"), []byte(decoy("system")), 0644)
	os.WriteFile(filepath.Join(root, "file.cfg"), []byte(decoy("file")), 0644)
	repo := filepath.Join(root, "repo")
	os.MkdirAll(repo, 0755)
	w.MustGit(repo, "init", "-q", "--template="+tmpl, "-b", "main")
	w.MustGit(repo, "commit", "-q", "--allow-empty", "-m", "c0")
	w.MustGit(repo, "config", "extensions.worktreeConfig", "true")
	w.MustGit(repo, "config", "filter.other.clean", "cat-local")
	w.MustGit(repo, "worktree", "add", "-q", "-b", "b2", filepath.Join(root, "wt2"))
	w.MustGit(repo, "config", "--worktree", "filter.other.clean", "cat-wtmain")
	w.MustGit(filepath.Join(root, "wt2"), "config", "--worktree", "filter.other.clean", "cat-wt2")
	e.base = capture(root)
	for _, sf := range scopeFiles {
		if _, ok := e.base[sf[1]]; !ok {
			panic(vx.ToolError{Msg: "base world lacks " + sf[1]})
		}
	}
	os.RemoveAll(root)
	n := runtime.NumCPU()
	if n > 16 {
		n = 16
	}
	if n < 2 {
		n = 2
	}
	e.pool = make(chan *gitx.World, n)
	for i := 0; i < n; i++ {
		e.pool <- mkWorld(filepath.Join(e.scratch, fmt.Sprintf("w%02d", i), "world"))
	}
	return e
}

// selfCheck: the harness's copy of the current template must be what a fresh install writes, and the scope
// plumbing (GIT_CONFIG_SYSTEM, worktree config) must work; otherwise the model is out of date => tool error.
func (e *envT) selfCheck() string {
	world := <-e.pool
	defer func() { e.pool <- world }()
	is := e.mkInit("selfcheck", "", nil, nil)
	restore(is.Snap, world.Root)
	for _, o := range []opDef{mkOp("install", "global", "repo", ""), mkOp("install", "system", "repo", "r"), mkOp("install", "worktree", "wt2", "r"), mkOp("install", "worktree", "repo", "r"),
		mkOp("install", "file", "repo", "r"), mkOp("install", "local", "repo", "r")} {
		if r := e.runOp(world, o); !r.OK() {
			return fmt.Sprintf("selfcheck: `git lfs %s` failed on a fresh world: %s", o.Name, r)
		}
	}
	st := e.digest(capture(world.Root))
	for _, h := range hookNames {
		he, ok := st.Hooks["repo/.git/hooks/"+h]
		if !ok || he.Class != "lfs-current" || he.Mode != 0755 {
			return fmt.Sprintf("selfcheck: fresh install wrote %s = %v, which the harness's template model does not recognise as the current LFS hook", h, he)
		}
	}
	for _, sf := range scopeFiles {
		for _, k := range lfsKeys {
			v := st.lfsVals(sf[0], k)
			if len(v) != 1 || v[0] != lfsValues[k][0] {
				return fmt.Sprintf("selfcheck: after install in scope %s, filter.lfs.%s = %q (expected %q)", sf[0], k, v, lfsValues[k][0])
			}
		}
	}
	return ""
}

// ---------------------------------------------------------------------------------------------------------

func TestVerifC20(t *testing.T) {
	c := vx.NewCheck("C20", "model_checking")
	gitx.CmdTimeout = 45 * time.Second
	e := newEnv(c)
	c.Assumptions = []string{
		"Ownership model (independent of lfs/hook.go's matcher): a hook file is LFS-generated iff the WHOLE file, with leading blanks/tabs of each line removed and surrounding whitespace trimmed, equals the current or a historical template of that hook (templates copied from the 3.6.0 sources and cross-checked at start against what a fresh install writes). Everything else in a hooks directory (other content, other file names, symlinks to user scripts, directories) is user content.",
		"Symbolic links: the content of a hook is what reading the hook path yields. A link (chain) that ends at a file with LFS-generated or blank content is treated like such a file (git-lfs may rewrite that file through the link; uninstall may remove the link). A link that ends at a user script, at a directory, at nothing (dangling - whether or not the missing target could be created) or in a loop yields no LFS-generated content: without --force the link itself (its target string), every intermediate link of the chain and whatever they point to must be unchanged; with --force the hook path and the file the chain ends at may change. A hooks directory that is itself a symbolic link must never be replaced (--force is documented to overwrite hooks, not the hooks directory). A file that git-lfs creates at the missing target of a dangling link lies outside the hooks directories and is not itself demanded to disappear; the link, however, is one of 'the previous hooks' that uninstall-after-install must restore (finding-3.md).",
		"Invoking directory (scenario cwd): the hooks install / update / uninstall manage are the hooks of the repository the command is started in, i.e. the entries of the directory GIT uses: core.hooksPath, a relative value being relative to the top of the work tree wherever inside the work tree Git (or git-lfs) is started (gitconfig(5): 'a relative path is taken as relative to the directory where the hooks are run'; git 2.39 runs hooks at the top of the work tree; checked against `git rev-parse --git-path hooks` for every initial state and invoking directory). H1/H2/R1 are applied to that directory whatever the invoking directory is. S1: an entry named like one of the four hooks that git-lfs creates anywhere else in the world is never run by Git and is out of reach of uninstall: flagged on the transition that creates it (C20:hook-written-outside-git-hooks-directory:*) and by the roundtrip probe (hook-left-behind). 'uninstall after install restores' is demanded for an uninstall started in any directory of the same work tree, not only the one the install was started in. A pre-existing hook-named file outside the hooks directories is user content (never to be changed, not even with --force, which targets the hooks of the hooks directory). Empty directories left behind are not flagged (same as for a hooks directory that install had to create).",
		"The conflict report (H2) is demanded where reading the hook path yields a user script (regular file, link or link chain); for directories, dangling links and loops only non-destruction is demanded (git-lfs reports an I/O error there or installs through the link).",
		"Not enumerated: FIFOs / sockets / devices as hook paths (git-lfs open()s the hook path; a FIFO without writer blocks forever, which would only produce tool timeouts). Permission states are void for root: they are explored by running git-lfs as uid 65534 (scenario perms); when the harness cannot drop privileges the scenario is skipped and that is recorded in bounds.scenario_perms_skipped.",
		"A hook file consisting only of whitespace carries no user content; git-lfs treats it as replaceable by design, and the check does not flag that. A template that only matches when CRs are ignored is 'ambiguous': either treatment is accepted.",
		"filter.lfs.{clean,smudge,process,required} values ever written by git-lfs (current, --skip-smudge, historical forms) are LFS-generated; any other value is a user setting. uninstall's documented removal of the filter.lfs section of its TARGET scope is not flagged; scopes other than the target must not change at all (documented meaning of --local/--worktree/--system/--file).",
		"'reports the conflict' = non-zero exit, or exit 0 with a message naming the hook conflict / the filter.lfs key. Demanded of install and update only (implicit hook installation by track etc. is only required not to overwrite).",
		"install;install == install is demanded when the first install exits 0. After a failed install (config conflict) git-lfs applies the non-conflicting keys in Go map order, so the partial result is order dependent; the check records how often a second run changed the state (counter) but demands nothing there, because it could not be decided deterministically.",
		"uninstall-after-install is demanded from states whose target scope has no filter.lfs.* value: all configuration of all scopes (except the added lfs.repositoryformatversion) and all user hook entries are restored and nothing new is left in a hooks directory; pre-existing LFS-generated or blank hooks may be removed (documented function of uninstall).",
		"Included configuration (scenarios cfgwhere-*): the filter.lfs.<key> setting of a scope is the value git USES in that scope's view, i.e. what `git config --includes <scope flag> <key>` answers (last value met while reading the scope's file with include.* / includeIf.* followed); it may be written in an included file. Without --force that value must not change from a custom one to anything else (E1), install must report it (C3, same wording as for a direct value), and no operation edits an included file (C4; with --force on the scope that includes the file nothing is demanded of it, since --force is documented to reset the configuration). uninstall's documented removal of the filter.lfs section concerns the scope's own file only. A custom value written directly in a scope's file that is NOT the value in use because a later value of the same key (in the file or in a file included further down) is an LFS one is the multi-valued case of finding-2.md and keeps that fingerprint. Values that only live in another scope are not this scope's setting (documented meaning of --local/--worktree/--system/--file).",
		"System scope is exercised through GIT_CONFIG_SYSTEM pointing at a scratch file (honoured by git 2.39 for `git config --system`); a real /etc/gitconfig is never touched.",
		"States reached through a failed install with partial application depend on Go map iteration order inside git-lfs; every oracle is an invariant that holds for all orders, but state/transition counts may vary slightly between runs.",
		"Trusted: git's own config parser (`git config --file --list -z`) for reading configuration values, cp-free Go snapshot/restore of the tiny worlds.",
	}
	if msg := e.selfCheck(); msg != "" {
		fmt.Printf("TOOL-ERROR property=C20 %s\n", msg)
		os.Exit(2)
	}

	wantOnly := ""
	if c.Replay != "" {
		// the indices in a replay file refer to the initial states / alphabets of the tier it was recorded with
		if rf, err := c.LoadReplay(); err == nil && (rf.Tier == "quick" || rf.Tier == "thorough") {
			e.thorough = rf.Tier == "thorough"
			c.Tier = rf.Tier       // Finish re-writes the replay file: keep the tier its indices belong to
			wantOnly = rf.Scenario // build only that scenario
		}
	}
	type builder struct {
		name string
		mk   func() partDef
	}
	builders := []builder{{"hooks", e.hooksPart}, {"hooktypes", e.hooktypesPart}}
	e.probeDrop()
	if e.dropOK {
		builders = append(builders, builder{"perms", e.permsPart})
		c.Bounds["scenario_perms_runs_git_lfs_as_uid"] = unprivUID
	} else {
		c.Bounds["scenario_perms_skipped"] = e.dropWhy
	}
	for _, sc := range []string{"global", "local", "wt2", "wtmain", "file", "system"} {
		sc := sc
		full := e.thorough || sc == "global"
		builders = append(builders, builder{"cfg-" + sc, func() partDef { return e.cfgPart(sc, full) }})
	}
	for _, sc := range []string{"global", "local", "wt2", "wtmain", "file", "system"} {
		sc := sc
		level := 0
		if e.thorough {
			level = 2
		} else if sc == "global" {
			level = 1
		}
		builders = append(builders, builder{"cfgwhere-" + sc, func() partDef { return e.cfgWherePart(sc, level) }})
	}
	builders = append(builders, builder{"cwd", e.cwdPart})
	builders = append(builders, builder{"mixed", func() partDef { return e.mixedPart(false) }})
	if e.thorough {
		builders = append(builders, builder{"mixed-deep", func() partDef { return e.mixedPart(true) }})
	}
	var parts []partDef
	onlyEnv := os.Getenv("VERIF_ONLY")
	for _, b := range builders {
		if (wantOnly == "" || wantOnly == b.name) && (onlyEnv == "" || c.Replay != "" || strings.HasPrefix(b.name, onlyEnv)) {
			parts = append(parts, b.mk())
		}
	}
	for i := range parts {
		if parts[i].Name == "cwd" {
			msg, n := e.verifyCwdInits(&parts[i])
			if msg != "" {
				fmt.Printf("TOOL-ERROR property=C20 the harness's model of Git's hooks directory disagrees with git: %s\n", msg)
				os.Exit(2)
			}
			c.Bounds["scenario_cwd_hooks_directory_model_agrees_with_git_rev_parse"] = fmt.Sprintf("%d/%d (initial state, invoking directory) pairs", n, n)
		}
		if parts[i].XCheck != "" {
			if msg := e.verifyWhereInits(&parts[i]); msg != "" {
				fmt.Printf("TOOL-ERROR property=C20 the harness's model of include resolution disagrees with git: %s\n", msg)
				os.Exit(2)
			}
		}
	}

	c.Rule = "multi-source BFS with canonical-state dedup (key = type/mode/bytes of every entry of every hooks directory and of symlinked user scripts + every entry anywhere else in the world that is named like one of the four hooks + all config values of the 6 scope files; the invoking directory belongs to the operation, not to the state) over the real git-lfs binary. " +
		"Scenario 'hooks': every pre-existing hook class (see bounds) for each hook alone and for all four together x core.hooksPath {unset, relative, absolute} under {install, install --force, update, uninstall, track (+ update --force in the thorough tier)}; " +
		"scenarios 'cfg-<scope>' for the 6 scopes {global, --local, --worktree in main and in a linked worktree, --file, --system via GIT_CONFIG_SYSTEM}: combinations of filter.lfs.{clean,smudge,process}∈{unset,current,historical,custom} x required∈{unset,true,false} plus multi-valued keys under {install, install --force, install --skip-smudge, uninstall} (--skip-repo) to closure; " +
		"scenario 'hooktypes': the pre-existing hook varied by FILE TYPE and LINK STATE (bounds: hooktypes_entry_classes - symlink with relative/absolute target to a user script, to current/historical LFS content, to an empty file, to a directory; dangling symlink with relative/absolute target whose directory exists or not; chain of two links ending at a user script / LFS content / nothing; self-loop; empty directory; mode 000) for the first and a later hook slot and for all four x core.hooksPath {unset, relative, absolute outside the repository}, and the hooks directory itself varied {symlink to another directory with absolute/relative target, missing, dangling symlink} x {no hooks, current, user script, dangling symlink, symlink to user script}, under the hooks alphabet, to closure; " +
		"scenario 'perms' (only when the harness is root and can drop privileges): git-lfs runs as uid 65534 on worlds owned by uid 65534 with a read-only hooks directory, unreadable / read-only / write-only hook files (user and LFS content), a symlink to an unreadable script and a symlink into an unsearchable directory, to closure; " +
		"scenarios 'cfgwhere-<scope>' for the same 6 scopes: the pre-existing filter.lfs.* values varied by WHERE they live relative to the target scope's file (bounds: cfgwhere_layouts) - in a file pulled in by [include] path= (relative / absolute), by [includeIf \"gitdir:...\"] that matches / does not match, by an include nested in an include, by two includes, behind an include of a missing file; in an included file AND directly in both orders (include before the direct section: the direct values are the ones git uses; after it: the included ones are); in another scope's included file - x value vectors over {unset, current, historical, custom} per key, under {install, install --force, install --skip-smudge, uninstall} (--skip-repo) with the scope's flag, to closure; the harness's model of include resolution is compared with `git config --includes` for every initial state and after every transition; " +
		"scenario 'cwd': the INVOKING DIRECTORY: every operation of the hooks alphabet {install, install --force, update, update --force, uninstall, track} offered from the top of the work tree, from src/ and from src/lib/ (thorough: also from the top and src/lib/ of the linked worktree, and install/uninstall --local from the sub-directories) x core.hooksPath {unset, relative, relative through ../, absolute inside the work tree, absolute outside the repository} x pre-existing hooks {absent, current LFS, user script in pre-push, user script in all four (thorough: + user script beside current hooks, historical LFS, symlink to user script, LFS hook followed by user lines)} x {nothing else, a directory named like the relative core.hooksPath below the invoking sub-directory holding a user's own pre-push}, to closure; the hooks directory that counts is Git's (a relative core.hooksPath is relative to the top of the work tree wherever the command is started; the harness's model is compared with `git rev-parse --git-path hooks` run in every invoking directory of every initial state); the roundtrip probe runs the uninstall from EVERY invoking directory; " +
		"scenario 'mixed': hooks x multi-scope configurations under the cross-scope alphabet. Every install transition additionally runs the probes install;install and install;install;uninstall. " +
		"A case (state, operation) is non-trivial when the state holds at least one user-owned hook entry or custom filter value, or the operation changed the state; distinct = distinct (canonical state key, operation)."
	c.Bounds["tier"] = c.Tier
	var classNames []string
	for _, hc := range hookClasses() {
		if hc.Tier == 0 || e.thorough {
			classNames = append(classNames, hc.Name)
		}
	}
	c.Bounds["hook_classes"] = classNames
	var typeNames []string
	for _, hc := range typeClasses() {
		if hc.Tier == 0 || e.thorough {
			typeNames = append(typeNames, hc.Name)
		}
	}
	c.Bounds["hooktypes_entry_classes"] = typeNames
	c.Bounds["hooktypes_hooks_directory_variants"] = dirVariants
	c.Bounds["cwd_invoking_directories"] = []string{"<top of the work tree>", "src", "src/lib"}
	c.Bounds["cwd_core_hookspath_values"] = []string{"(unset)", "relhooks", "../abshooks", "<root>/repo/relhooks", "<root>/abshooks"}
	c.Bounds["cfgwhere_layouts"] = map[string]interface{}{
		"single_location": []string{"[include] relative path", "[include] absolute path", "[includeIf gitdir: matching] absolute path", "[includeIf gitdir: NOT matching] relative path",
			"[include] -> file that [include]s (quick: global scope only)", "thorough: [includeIf gitdir: matching] relative path, [include] of a missing file, two [include]s in both orders"},
		"two_locations":            []string{"[include] THEN direct section (direct values in use)", "direct section THEN [include] (included values in use)"},
		"global_scope_second_file": "$XDG_CONFIG_HOME/git/config (read by --global before ~/.gitconfig): values there alone, and there AND directly in ~/.gitconfig",
		"other_scope":              "another scope's file [include]s custom values while this scope has nothing / [include]s historical values (quick: global scope only)",
		"value_vectors":            "quick: one vector per layout for 5 scopes, 5 vectors x 4 layouts + 7 (included, direct) pairs x 2 orders for the global scope; thorough: every vector with at most one key off a uniform background (24) + all-historical + all-custom for the relative include, 8 vectors for the other single-location layouts, 5 x 5 (included, direct) pairs x 2 orders, for every scope",
		"includeIf":                "only gitdir: conditions with an absolute pattern ending in / whose answer is the same in both working trees of the world",
	}
	for _, p := range parts {
		var ops []string
		for _, o := range p.Ops {
			ops = append(ops, o.Name)
		}
		d := interface{}(p.MaxDepth)
		if p.MaxDepth < 0 {
			d = "closure"
		}
		c.Bounds["scenario_"+p.Name] = map[string]interface{}{"initial_states": len(p.Inits), "operations": ops, "depth": d}
	}

	if c.Replay != "" {
		rf, err := c.LoadReplay()
		if err != nil {
			fmt.Printf("TOOL-ERROR property=C20 cannot load replay: %v\n", err)
			os.Exit(2)
		}
		for i := range parts {
			p := &parts[i]
			if p.Name == rf.Scenario {
				run := e.replayRun(p)
				exec := func(pr []vx.Point) vx.Result { return vx.SafeRun(run, pr) }
				r := exec(rf.Prefix)
				st := vx.NewStats()
				st.Absorb(rf.Prefix, &r, 0)
				fmt.Printf("replayed scenario %s choices %v: %v\n", p.Name, rf.Choices, r.Sample)
				os.Exit(c.Finish([]vx.Part{{Scenario: p.Name, Stats: st, Exec: exec}}, nil))
			}
		}
		fmt.Printf("TOOL-ERROR property=C20 unknown scenario %q in replay file\n", rf.Scenario)
		os.Exit(2)
	}

	deadline := c.DeadlineAfter(8*time.Minute, 28*time.Minute)
	only := os.Getenv("VERIF_ONLY")
	var vparts []vx.Part
	var infos []bfsInfo
	for i := range parts {
		p := &parts[i]
		if only != "" && !strings.HasPrefix(p.Name, only) {
			continue
		}
		st, info := e.bfs(p, deadline)
		infos = append(infos, info)
		fmt.Printf("scenario %-11s initial=%d ops=%d states=%d edges=%d levels=%d closure=%v wall=%.1fs\n", p.Name, info.Initial, info.Ops, info.States, info.Transitions, info.Levels, info.Closure, info.WallS)
		run := e.replayRun(p)
		vparts = append(vparts, vx.Part{Scenario: p.Name, Stats: st, Exec: func(pr []vx.Point) vx.Result { return vx.SafeRun(run, pr) }})
	}
	os.Exit(c.Finish(vparts, map[string]interface{}{"bfs": infos}))
}
