package c20

// Scenario cwd: the INVOKING DIRECTORY as a dimension of the hook scenarios.
//
// Every operation of the hooks alphabet (install, install --force, update, update --force, uninstall and the
// hook-installing command `track`) is offered from the top of the work tree and from a sub-directory one and two
// levels deep, crossed with core.hooksPath {unset, relative, relative leaving the work tree through .., absolute
// inside the work tree, absolute outside the repository} and the pre-existing hook classes.  The hooks directory that
// counts is GIT's: Git resolves a relative core.hooksPath against the top of the work tree wherever in the work tree
// it is started (git 2.39: `git rev-parse --git-path hooks` names the same directory from every sub-directory, and
// `git commit` started in src/lib runs <top>/.githooks/post-commit, not src/lib/.githooks/post-commit).  The
// harness's activeDir() encodes that and verifyCwdInits() compares it with the real git for every initial state and
// every invoking directory.  The oracle is the one of the other hook scenarios applied to that directory, plus S1 (no
// hook-named file appears anywhere else) and the roundtrip probe with the uninstall run from every invoking directory.

import (
	"fmt"
	"path/filepath"
	"strings"
)

// invoking directories, relative to the top of the work tree
var cwdSubs = []string{"", "src", "src/lib"}

var cwdHooksPaths = []string{"", "rel", "relup", "absin", "abs"}

// the directory a relative core.hooksPath would name if it were (wrongly) resolved against the invoking directory
func cwdDecoyDir(hp, sub string) string {
	_, val := hooksDirFor(hp)
	if val == "" || strings.HasPrefix(val, rootPH) {
		return ""
	}
	return filepath.Clean(filepath.Join("repo", sub, val))
}

func (e *envT) cwdPart() partDef {
	p := partDef{Name: "cwd", MaxDepth: -1, AltSubs: cwdSubs}
	alphabet := func(cwd string) []opDef {
		up, upf, tr := opUpdate, opUpdateForce, opTrack
		for _, o := range []*opDef{&up, &upf, &tr} {
			o.Cwd = cwd
			o.Name = strings.Replace(o.Name, "@repo", "@"+cwd, 1)
		}
		return []opDef{mkOp("install", "global", cwd, ""), mkOp("install", "global", cwd, "f"), up, upf, mkOp("uninstall", "global", cwd, ""), tr}
	}
	for _, sub := range cwdSubs {
		for _, o := range alphabet("repo") {
			p.Ops = append(p.Ops, subOp(o, sub))
		}
	}
	if e.thorough {
		// the linked worktree: its top and its deepest sub-directory (install --local / --worktree resolve the hooks
		// directory in the same way)
		for _, sub := range []string{"", "src/lib"} {
			for _, o := range alphabet("wt2") {
				if !o.Force {
					p.Ops = append(p.Ops, subOp(o, sub))
				}
			}
		}
		for _, sub := range cwdSubs[1:] {
			p.Ops = append(p.Ops, subOp(mkOp("install", "local", "repo", ""), sub), subOp(mkOp("uninstall", "local", "repo", ""), sub))
		}
	}
	cl := map[string]hookClass{}
	for _, c := range hookClasses() {
		cl[c.Name] = c
	}
	all := func(c string) map[string]hookClass {
		m := map[string]hookClass{}
		for _, h := range hookNames {
			m[h] = cl[c]
		}
		return m
	}
	type hs struct {
		d    string
		m    map[string]hookClass
		tier int
	}
	hooks := []hs{
		{"hooks absent", nil, 0},
		{"all four hooks=current", all("current"), 0},
		{"pre-push=user-script others absent", map[string]hookClass{"pre-push": cl["user-script"]}, 0},
		{"all four hooks=user-script", all("user-script"), 0},
		{"post-commit=user-script others current", func() map[string]hookClass { m := all("current"); m["post-commit"] = cl["user-script"]; return m }(), 1},
		{"all four hooks=old1", all("old1"), 1},
		{"pre-push=symlink-to-user-script others absent", map[string]hookClass{"pre-push": cl["symlink-to-user-script"]}, 1},
		{"pre-push=current-then-user-lines others absent", map[string]hookClass{"pre-push": cl["current-then-user-lines"]}, 1},
	}
	seen := map[uint64]bool{}
	add := func(is initState) {
		if !seen[is.St.Key] {
			seen[is.St.Key] = true
			p.Inits = append(p.Inits, is)
		}
	}
	withTree := func(is initState, extra map[string]ent) initState {
		s := is.Snap
		for _, top := range []string{"repo", "wt2"} {
			s[top+"/src"] = ent{Kind: 'd', Mode: 0755}
			s[top+"/src/lib"] = ent{Kind: 'd', Mode: 0755}
			s[top+"/src/lib/code.txt"] = ent{Kind: 'f', Mode: 0644, Data: "user data\n"}
		}
		for k, v := range extra {
			s[k] = v
		}
		is.St = e.digest(s)
		return is
	}
	for _, hp := range cwdHooksPaths {
		for _, h := range hooks {
			if h.tier > 0 && !e.thorough {
				continue
			}
			add(withTree(e.mkInit(fmt.Sprintf("hooksPath=%s %s", orDash(hp), h.d), hp, h.m, nil), nil))
		}
		// a directory named like the relative core.hooksPath exists below the invoking sub-directory as well and holds
		// a user's own pre-push script (a sub-project's hooks directory): never Git's hooks directory for this work tree
		for si, sub := range cwdSubs[1:] {
			d := cwdDecoyDir(hp, sub)
			if d == "" || (si == 0 && !e.thorough) {
				continue
			}
			for hi, h := range hooks[:3] {
				if hi == 1 && !e.thorough {
					continue
				}
				extra := map[string]ent{d: {Kind: 'd', Mode: 0755}, d + "/pre-push": {Kind: 'f', Mode: 0755, Data: "#!/bin/sh\necho sub-project pre-push\n"}}
				add(withTree(e.mkInit(fmt.Sprintf("hooksPath=%s %s; %s/pre-push is a user script too", orDash(hp), h.d, d), hp, h.m, nil), extra))
			}
		}
	}
	return p
}

// verifyCwdInits: for every initial state of scenario cwd and every invoking directory, the hooks directory the
// harness's model names (activeDir) must be the one the real git names (`git rev-parse --git-path hooks`, which prints
// a path relative to the directory it is run in).  A disagreement is a tool error: it depends on the harness and the
// system git only.
func (e *envT) verifyCwdInits(p *partDef) (string, int) {
	world := <-e.pool
	defer func() { e.pool <- world }()
	n := 0
	for _, is := range p.Inits {
		restore(is.Snap, world.Root)
		done := map[string]bool{}
		for _, o := range p.Ops {
			k := o.Cwd + "|" + o.Sub
			if done[k] {
				continue
			}
			done[k] = true
			dir := filepath.Join(world.Root, o.Cwd, o.Sub)
			r := world.RunIn(dir, nil, nil, "git", "rev-parse", "--git-path", "hooks")
			if !r.OK() {
				return fmt.Sprintf("init{%s}: git rev-parse --git-path hooks in %s/%s failed: %s", is.Desc, o.Cwd, o.Sub, r), n
			}
			got := strings.TrimSpace(r.Out)
			if !filepath.IsAbs(got) {
				got = filepath.Join(dir, got)
			}
			got = filepath.Clean(got)
			probe := opDef{Kind: "update", Cwd: o.Cwd, Sub: o.Sub}
			want := filepath.Join(world.Root, activeDir(is.St, probe))
			if got != want {
				return fmt.Sprintf("init{%s}: invoked in %s/%s git names the hooks directory %s, the harness's model %s", is.Desc, o.Cwd, o.Sub, got, want), n
			}
			n++
		}
	}
	return "", n
}
