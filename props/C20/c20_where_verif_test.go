package c20

// C20, scenarios cfgwhere-<scope>: the pre-existing configuration varied by WHERE a filter.lfs.* value lives relative to
// the scope git-lfs is asked to install into / uninstall from:
//
//	directly in the scope's file | in a file included from it ([include] path= relative / absolute, [includeIf
//	"gitdir:..."] that matches / does not match, an include nested in an include, an include of a missing file, two
//	includes) | in an included file AND directly, in both orders (either may be the value git uses) | in another scope
//
// crossed with value classes {unset, current LFS, historical LFS, custom} per key and the operations that touch the
// configuration {install, install --force, install --skip-smudge, uninstall} with the scope's flag, to closure.
//
// What git USES for a key in a scope's view is what `git config --includes <scope flag> <key>` answers: the last value
// met while reading the scope's file with include.* followed.  The harness computes that view with its own model of
// include resolution over the snapshot (entries of `git config --no-includes --file <f> --list -z` in file order, include
// directives expanded in place) and cross-checks the model against the real git for every initial state and after every
// explored transition of these scenarios (a disagreement is a tool error, never a violation).

import (
	"fmt"
	"path/filepath"
	"sort"
	"strings"

	"github.com/git-lfs/git-lfs/v3/verifx/gitx"
)

// incEnt: a configuration file that a scope's file includes (or could include): every snapshot entry named *.inc
type incEnt struct {
	Kind byte
	Mode uint32
	Sha  string
	Vals map[string][]string
}

func (ie incEnt) describe() map[string]interface{} {
	m := map[string]interface{}{"type": string(ie.Kind), "mode": fmt.Sprintf("%o", ie.Mode), "sha": ie.Sha[:min(10, len(ie.Sha))]}
	for k, v := range ie.Vals {
		if strings.HasPrefix(k, "filter.lfs.") || strings.HasPrefix(k, "include") {
			m[k] = v
		}
	}
	return m
}

// effVal: one value of a key as git meets it while reading a scope's file with include.* followed
type effVal struct {
	V      string
	Origin string // root-relative path of the file the value is written in
}

func (st *state) effVals(scope, key string) []effVal { return st.Eff[scope][key] }

func sortedIncKeys(m map[string]incEnt) []string {
	ks := make([]string, 0, len(m))
	for k := range m {
		ks = append(ks, k)
	}
	sort.Strings(ks)
	return ks
}

const incSuffix = ".inc"

// xdgGlobal: the second file of the global scope ($XDG_CONFIG_HOME/git/config).  `git config --global` reads it before
// ~/.gitconfig and writes to ~/.gitconfig when that exists (it always does in these worlds).
const xdgGlobal = "home/.config/git/config"

func isTrackedCfg(rel string) bool { return strings.HasSuffix(rel, incSuffix) || rel == xdgGlobal }

// the git directories of the two working trees of every world
var worldGitDirs = []string{rootPH + "/repo/.git", rootPH + "/repo/.git/worktrees/wt2"}

// condHolds: model of includeIf conditions for the shapes the harness writes: "gitdir:<absolute pattern ending in />"
// (git appends ** : the condition holds iff the git directory lies below the pattern).  Only conditions whose answer is
// the same for both working trees of the world are modelled (every operation of these scenarios runs inside one of them);
// modelled=false for anything else (the scope's view is then taken from the real git, or left undecided).
func condHolds(cond string) (holds, modelled bool) {
	if !strings.HasPrefix(cond, "gitdir:") {
		return false, false
	}
	pat := cond[len("gitdir:"):]
	if !strings.HasPrefix(pat, rootPH+"/") || !strings.HasSuffix(pat, "/") || strings.ContainsAny(pat, "*?[") {
		return false, false
	}
	n := 0
	for _, gd := range worldGitDirs {
		if strings.HasPrefix(gd+"/", pat) {
			n++
		}
	}
	if n != 0 && n != len(worldGitDirs) {
		return false, false
	}
	return n > 0, true
}

// expandCfg appends the entries git meets while reading the file rel with include.* followed.  *unsure is set when the
// file holds a directive the model does not cover (never the case for files the harness writes).
func (e *envT) expandCfg(s snap, rel string, depth int, out *[]cfgKV, origins *[]string, reached map[string]bool, unsure *bool) {
	en, ok := s[rel]
	if !ok {
		return // git skips an include whose file does not exist
	}
	if en.Kind != 'f' {
		*unsure = true // a link or directory where a configuration file is expected: not modelled
		return
	}
	for _, kv := range e.parseCfgFull(en.Data).List {
		*out = append(*out, kv)
		*origins = append(*origins, rel)
		switch {
		case kv.K == "<<unparsable>>":
			*unsure = true
			continue
		case kv.K == "include.path":
		case strings.HasPrefix(kv.K, "includeif.") && strings.HasSuffix(kv.K, ".path"):
			holds, modelled := condHolds(kv.K[len("includeif.") : len(kv.K)-len(".path")])
			if !modelled {
				*unsure = true
			}
			if !holds {
				continue
			}
		default:
			continue
		}
		var t string
		switch {
		case strings.HasPrefix(kv.V, rootPH+"/"):
			t = filepath.Clean(kv.V[len(rootPH)+1:])
		case strings.HasPrefix(kv.V, "/"), strings.HasPrefix(kv.V, "~"), kv.V == "":
			*unsure = true // a path outside the world
			continue
		default:
			t = filepath.Clean(filepath.Join(filepath.Dir(rel), kv.V))
		}
		if depth >= 8 || t == ".." || strings.HasPrefix(t, "../") {
			*unsure = true
			continue
		}
		reached[t] = true
		e.expandCfg(s, t, depth+1, out, origins, reached, unsure)
	}
}

// digestIncludes fills st.Inc (every *.inc file of the snapshot), st.Eff (the scopes' views with includes followed) and
// st.IncOf (which include files each scope's file reaches).
func (e *envT) digestIncludes(s snap, st *state) {
	any := false
	for rel, en := range s {
		if !isTrackedCfg(rel) {
			continue
		}
		any = true
		ie := incEnt{Kind: en.Kind, Mode: en.Mode}
		switch en.Kind {
		case 'f':
			ie.Sha = sha(en.Data)
			ie.Vals = e.parseCfg(en.Data)
		case 'l':
			ie.Sha = "link:" + en.Link
		}
		st.Inc[rel] = ie
	}
	for _, sf := range scopeFiles {
		m := map[string][]effVal{}
		st.Eff[sf[0]] = m
		if !any {
			// no include file anywhere: the scope's view is the scope's file
			for _, k := range lfsKeys {
				for _, v := range st.Cfg[sf[0]]["filter.lfs."+k] {
					m[k] = append(m[k], effVal{v, sf[1]})
				}
			}
			continue
		}
		var list []cfgKV
		var origins []string
		reached := map[string]bool{}
		unsure := false
		if _, ok := s[xdgGlobal]; ok && sf[0] == "global" {
			reached[xdgGlobal] = true
			e.expandCfg(s, xdgGlobal, 0, &list, &origins, reached, &unsure)
		}
		e.expandCfg(s, sf[1], 0, &list, &origins, reached, &unsure)
		st.IncOf[sf[0]] = reached
		if unsure {
			st.EffUnsure[sf[0]] = true
		}
		for i, kv := range list {
			if strings.HasPrefix(kv.K, "filter.lfs.") {
				k := kv.K[len("filter.lfs."):]
				m[k] = append(m[k], effVal{kv.V, origins[i]})
			}
		}
	}
}

// scopeView asks the REAL git for the filter.lfs.* values of a scope's view (include.* followed) in the world on disk.
func (e *envT) scopeView(w *gitx.World, scope string) (map[string][]string, string) {
	cwd := "repo"
	var args []string
	showScope := false
	switch scope {
	case "global":
		// what git uses in the global scope: $XDG_CONFIG_HOME/git/config, then ~/.gitconfig (`git config --global` names only
		// ONE of the two files: ~/.gitconfig when it exists); taken from the listing of all scopes
		args, showScope = []string{"--show-scope"}, true
	case "system":
		args = []string{"--system"}
	case "local":
		args = []string{"--local"}
	case "wtmain":
		args = []string{"--worktree"}
	case "wt2":
		args, cwd = []string{"--worktree"}, "wt2"
	case "file":
		args = []string{"--file", filepath.Join(w.Root, "file.cfg")}
	default:
		panic("scope " + scope)
	}
	args = append(append([]string{"config", "--includes"}, args...), "-z", "--get-regexp", `^filter\.lfs\.`)
	var res gitx.Res
	if e.unpriv {
		res = runAs(w, filepath.Join(w.Root, cwd), nil, "git", args...)
	} else {
		res = w.RunIn(filepath.Join(w.Root, cwd), nil, nil, "git", args...)
	}
	if res.TimedOut {
		return nil, "timeout"
	}
	m := map[string][]string{}
	if res.Code == 1 && res.Out == "" {
		return m, "" // no such key
	}
	if !res.OK() {
		return nil, "git config failed: " + clip(res.String(), 300)
	}
	items := strings.Split(res.Out, "\x00")
	for i := 0; i < len(items); i++ {
		item := items[i]
		if item == "" {
			continue
		}
		if showScope {
			// scope NUL key LF value NUL
			if i+1 >= len(items) {
				return nil, "unexpected --show-scope output: " + clip(res.Out, 200)
			}
			sc := item
			i++
			item = items[i]
			if sc != "global" {
				continue
			}
		}
		k, v := item, ""
		if j := strings.IndexByte(item, '\n'); j >= 0 {
			k, v = item[:j], item[j+1:]
		}
		k = strings.TrimPrefix(k, "filter.lfs.")
		m[k] = append(m[k], strings.ReplaceAll(v, w.Root, rootPH))
	}
	return m, ""
}

// crossCheck: the model's view of `scope` must be what the real git says for the world on disk.  "" = agree (or the
// tool timed out: nothing can be said); otherwise the disagreement.
func (e *envT) crossCheck(w *gitx.World, st *state, scope string) string {
	if st.EffUnsure[scope] {
		return fmt.Sprintf("scope %s: the harness wrote a configuration its own include model does not cover", scope)
	}
	real, why := e.scopeView(w, scope)
	if why == "timeout" {
		return ""
	}
	if why != "" {
		if _, bad := st.Cfg[scope]["<<unparsable>>"]; bad {
			return ""
		}
		return fmt.Sprintf("scope %s: %s", scope, why)
	}
	for _, k := range lfsKeys {
		var model []string
		for _, v := range st.effVals(scope, k) {
			model = append(model, v.V)
		}
		if !eqStrs(model, real[k]) {
			return fmt.Sprintf("scope %s filter.lfs.%s: the harness's include model says %q, git config --includes says %q", scope, k, model, real[k])
		}
	}
	return ""
}

// reconcile (scenarios cfgwhere-*, states PRODUCED BY git-lfs): the modelled view of `scope` is compared with the real
// git's answer for the world on disk; on a disagreement (possible only for file shapes that the unchanged git-lfs never
// writes) git's answer is adopted, so that the oracle goes on deciding on facts and no tool error can hide a verdict.
// Returns what happened: "agree" | "git-answer-used" | "undecided" (git config itself failed / timed out).
func (e *envT) reconcile(w *gitx.World, st *state, scope string) string {
	real, why := e.scopeView(w, scope)
	if why != "" {
		if why != "timeout" || st.EffUnsure[scope] {
			st.EffUnsure[scope] = true
		}
		return "undecided"
	}
	same := !st.EffUnsure[scope]
	for _, k := range lfsKeys {
		ev := st.effVals(scope, k)
		if len(ev) != len(real[k]) {
			same = false
			break
		}
		for i := range ev {
			if ev[i].V != real[k][i] {
				same = false
			}
		}
	}
	if same {
		return "agree"
	}
	m := map[string][]effVal{}
	for _, k := range lfsKeys {
		ev := st.effVals(scope, k)
		keep := len(ev) == len(real[k])
		for i := 0; keep && i < len(ev); i++ {
			keep = ev[i].V == real[k][i]
		}
		if keep {
			m[k] = ev // the model agrees for this key: keep what it knows about where the values are written
			continue
		}
		for _, v := range real[k] {
			m[k] = append(m[k], effVal{v, "<as reported by git config --includes>"})
		}
	}
	st.Eff[scope] = m
	delete(st.EffUnsure, scope)
	return "git-answer-used"
}

// ---------------------------------------------------------------------------------------------------------
// Initial states

// value vectors: class index per key (clean, smudge, process, required) into cfgClasses; 0 = unset
type vec [4]int

var (
	vAllCustom      = vec{3, 3, 3, 2}
	vAllHist        = vec{2, 2, 2, 1} // required has no historical form: true
	vAllCur         = vec{1, 1, 1, 1}
	vSmudgeCustom   = vec{0, 3, 0, 0}
	vCleanCustom    = vec{3, 0, 0, 0}
	vCurProcCustom  = vec{1, 1, 3, 1}
	vCurSmudgeCust  = vec{1, 3, 1, 1}
	vRequiredFalse  = vec{0, 0, 0, 2}
	vNone           = vec{0, 0, 0, 0}
	customSecondSet = map[string][]string{"clean": {"mine2-clean %f"}, "smudge": {"mine2-smudge %f"}, "process": {"mine2-filter-process"}, "required": {"false"}}
)

func (v vec) name() string {
	var dn []string
	for i, k := range lfsKeys {
		if v[i] != 0 {
			dn = append(dn, k+"="+cfgClassNames[k][v[i]])
		}
	}
	if len(dn) == 0 {
		return "nothing"
	}
	return strings.Join(dn, " ")
}

// vals: second=true writes a different custom value for custom classes (so that an included and a direct custom value differ)
func (v vec) vals(second bool) map[string][]string {
	m := map[string][]string{}
	for i, k := range lfsKeys {
		if v[i] == 0 {
			continue
		}
		m[k] = cfgClasses[k][v[i]]
		if second && cfgClassNames[k][v[i]] == "custom" {
			m[k] = customSecondSet[k]
		}
	}
	return m
}

// reducedVecs: every vector in which at most one key leaves a uniform background (all unset / all current), plus the
// uniform all-historical and all-custom vectors.
func reducedVecs() []vec {
	var r []vec
	n := []int{len(cfgClasses["clean"]), len(cfgClasses["smudge"]), len(cfgClasses["process"]), len(cfgClasses["required"])}
	for a := 0; a < n[0]; a++ {
		for b := 0; b < n[1]; b++ {
			for c := 0; c < n[2]; c++ {
				for d := 0; d < n[3]; d++ {
					v := vec{a, b, c, d}
					if v == vNone {
						continue
					}
					ok := v == vAllHist || v == vAllCustom
					for bg := 0; bg <= 1; bg++ {
						diff := 0
						for _, i := range v {
							if i != bg {
								diff++
							}
						}
						if diff <= 1 {
							ok = true
						}
					}
					if ok {
						r = append(r, v)
					}
				}
			}
		}
	}
	return r
}

// where a scope's relative / absolute / nested include files live
func relIncPath(scope string) (file, pathValue string) {
	d := filepath.Dir(scopeFile(scope))
	pv := "cfg.d/" + scope + incSuffix
	return filepath.Clean(filepath.Join(d, pv)), pv
}
func absIncPath(scope string) (file, pathValue string) {
	f := "inc/" + scope + incSuffix
	return f, rootPH + "/" + f
}
func nestedIncPath(scope string) (file, pathValue string) {
	f, _ := relIncPath(scope)
	pv := "nested/" + scope + "-inner" + incSuffix
	return filepath.Clean(filepath.Join(filepath.Dir(f), pv)), pv
}

const (
	condMatch   = "gitdir:" + rootPH + "/"
	condNoMatch = "gitdir:" + rootPH + "/elsewhere/"
)

func includeLine(pathValue string) string { return "[include]\n\tpath = " + pathValue + "\n" }
func includeIfLine(cond, pathValue string) string {
	return "[includeIf \"" + cond + "\"]\n\tpath = " + pathValue + "\n"
}

type whereInit struct {
	desc    string
	appends [][2]string // root-relative file, text appended
}

// layouts of one scope
func layoutsFor(scope string, level int) []whereInit {
	F := scopeFile(scope)
	relF, relP := relIncPath(scope)
	absF, absP := absIncPath(scope)
	nestF, nestP := nestedIncPath(scope)
	var r []whereInit
	add := func(desc string, ap ...[2]string) { r = append(r, whereInit{scope + ": " + desc, ap}) }
	sec := func(v vec, second bool) string { return lfsSection(v.vals(second)) }

	single := func(v vec, which string) {
		switch which {
		case "rel":
			add("[include] relative path -> {"+v.name()+"}", [2]string{F, includeLine(relP)}, [2]string{relF, sec(v, false)})
		case "abs":
			add("[include] absolute path -> {"+v.name()+"}", [2]string{F, includeLine(absP)}, [2]string{absF, sec(v, false)})
		case "if-match":
			add("[includeIf gitdir: matching] absolute path -> {"+v.name()+"}", [2]string{F, includeIfLine(condMatch, absP)}, [2]string{absF, sec(v, false)})
		case "if-match-rel":
			add("[includeIf gitdir: matching] relative path -> {"+v.name()+"}", [2]string{F, includeIfLine(condMatch, relP)}, [2]string{relF, sec(v, false)})
		case "if-nomatch":
			add("[includeIf gitdir: NOT matching] relative path -> {"+v.name()+"}", [2]string{F, includeIfLine(condNoMatch, relP)}, [2]string{relF, sec(v, false)})
		case "nested":
			add("[include] -> file that [include]s -> {"+v.name()+"}", [2]string{F, includeLine(relP)}, [2]string{relF, includeLine(nestP)}, [2]string{nestF, sec(v, false)})
		case "direct":
			add("directly in the scope's file {"+v.name()+"}", [2]string{F, sec(v, false)})
		case "xdg":
			if scope == "global" {
				add("in $XDG_CONFIG_HOME/git/config {"+v.name()+"}, nothing in ~/.gitconfig", [2]string{xdgGlobal, sec(v, false)})
			}
		}
	}
	// global scope only: a value in $XDG_CONFIG_HOME/git/config and one directly in ~/.gitconfig (read later: it wins)
	xdgBoth := func(xdg, direct vec) {
		if scope == "global" {
			add("in $XDG_CONFIG_HOME/git/config {"+xdg.name()+"} AND directly in ~/.gitconfig {"+direct.name()+"} (the direct values win)",
				[2]string{xdgGlobal, sec(xdg, false)}, [2]string{F, sec(direct, true)})
		}
	}
	// value in an included file and directly; incFirst: the include directive precedes the direct section (direct wins)
	both := func(inc, direct vec, incFirst bool) {
		if incFirst {
			add("[include] relative path -> {"+inc.name()+"} THEN directly {"+direct.name()+"} (the direct values win)",
				[2]string{F, includeLine(relP) + sec(direct, true)}, [2]string{relF, sec(inc, false)})
		} else {
			add("directly {"+direct.name()+"} THEN [include] absolute path -> {"+inc.name()+"} (the included values win)",
				[2]string{F, sec(direct, true) + includeLine(absP)}, [2]string{absF, sec(inc, false)})
		}
	}
	other := func(o string, v vec, mine vec) {
		oF := scopeFile(o)
		oInc, oP := relIncPath(o)
		ap := [][2]string{{oF, includeLine(oP)}, {oInc, sec(v, false)}}
		d := "scope " + o + " [include]s {" + v.name() + "}; this scope: nothing"
		if mine != vNone {
			ap = append(ap, [2]string{F, includeLine(absP)}, [2]string{absF, sec(mine, false)})
			d = "scope " + o + " [include]s {" + v.name() + "}; this scope [include]s {" + mine.name() + "}"
		}
		add(d, ap...)
	}
	others := map[string][]string{"global": {"local", "system"}, "local": {"global", "wtmain"}, "wtmain": {"local", "wt2"}, "wt2": {"wtmain", "global"},
		"file": {"global", "local"}, "system": {"global", "file"}}[scope]

	switch level {
	case 0: // quick, scopes other than global: one state per layout
		single(vAllCustom, "rel")
		single(vSmudgeCustom, "abs")
		single(vCurProcCustom, "if-match")
		single(vAllCustom, "if-nomatch")
		both(vAllCustom, vAllHist, true)
		both(vAllHist, vAllCustom, false)
		both(vAllCustom, vAllCur, false)
	case 1: // quick, global scope
		for _, v := range []vec{vAllCustom, vSmudgeCustom, vAllHist, vCurProcCustom, vRequiredFalse} {
			for _, w := range []string{"rel", "abs", "if-match", "if-nomatch"} {
				single(v, w)
			}
		}
		for _, pr := range [][2]vec{{vAllCustom, vAllCustom}, {vAllCustom, vAllHist}, {vAllCustom, vAllCur}, {vAllHist, vAllCustom}, {vAllCur, vAllCustom}, {vAllHist, vAllCur}, {vCleanCustom, vSmudgeCustom}} {
			both(pr[0], pr[1], true)
			both(pr[0], pr[1], false)
		}
		single(vAllCustom, "nested")
		single(vAllCustom, "direct")
		single(vAllCustom, "xdg")
		single(vSmudgeCustom, "xdg")
		single(vAllHist, "xdg")
		xdgBoth(vAllCustom, vAllHist)
		xdgBoth(vAllHist, vAllCustom)
		xdgBoth(vAllCustom, vAllCustom)
		other(others[0], vAllCustom, vNone)
		other(others[0], vAllCustom, vAllHist)
	default: // thorough, every scope
		for _, v := range reducedVecs() {
			single(v, "rel")
		}
		for _, v := range []vec{vAllCustom, vSmudgeCustom, vAllHist, vCurProcCustom, vRequiredFalse, vCleanCustom, vAllCur, vCurSmudgeCust} {
			for _, w := range []string{"abs", "if-match", "if-nomatch", "xdg"} {
				single(v, w)
			}
		}
		for _, v := range []vec{vAllCustom, vAllHist, vSmudgeCustom} {
			single(v, "nested")
			single(v, "if-match-rel")
		}
		cls := []vec{vAllCustom, vAllHist, vAllCur, vSmudgeCustom, vRequiredFalse}
		for _, i := range cls {
			for _, d := range cls {
				both(i, d, true)
				both(i, d, false)
				xdgBoth(i, d)
			}
		}
		both(vCleanCustom, vSmudgeCustom, true)
		both(vCleanCustom, vSmudgeCustom, false)
		single(vAllCustom, "direct")
		// an include whose file does not exist (git skips it), alone and before a direct custom section
		add("[include] of a missing file", [2]string{F, includeLine(relP)})
		add("[include] of a missing file THEN directly {"+vAllCustom.name()+"}", [2]string{F, includeLine(relP) + sec(vAllCustom, false)})
		// two includes: the second one's values win
		add("[include] {"+vAllCustom.name()+"} THEN [include] {"+vAllHist.name()+"}", [2]string{F, includeLine(relP) + includeLine(absP)}, [2]string{relF, sec(vAllCustom, false)}, [2]string{absF, sec(vAllHist, false)})
		add("[include] {"+vAllHist.name()+"} THEN [include] {"+vAllCustom.name()+"}", [2]string{F, includeLine(relP) + includeLine(absP)}, [2]string{relF, sec(vAllHist, false)}, [2]string{absF, sec(vAllCustom, false)})
		for _, o := range others {
			other(o, vAllCustom, vNone)
			other(o, vAllCustom, vAllHist)
		}
	}
	return r
}

// cfgWherePart: one target scope; level 0/1/2 see layoutsFor.
func (e *envT) cfgWherePart(scope string, level int) partDef {
	p := partDef{Name: "cfgwhere-" + scope, MaxDepth: -1, Ops: scopeOps(scope, true), XCheck: scope}
	seen := map[uint64]bool{}
	for _, wi := range layoutsFor(scope, level) {
		is := e.mkInit(wi.desc, "", nil, nil)
		for _, ap := range wi.appends {
			appendFile(is.Snap, ap[0], ap[1])
		}
		is.St = e.digest(is.Snap)
		if !seen[is.St.Key] {
			seen[is.St.Key] = true
			p.Inits = append(p.Inits, is)
		}
	}
	return p
}

// verifyWhereInits: before exploring, every initial state's view of its target scope (and of every other scope that
// includes something) is compared with the real git.
func (e *envT) verifyWhereInits(p *partDef) string {
	world := <-e.pool
	defer func() { e.pool <- world }()
	for _, is := range p.Inits {
		restore(is.Snap, world.Root)
		for _, sf := range scopeFiles {
			if sf[0] != p.XCheck && len(is.St.IncOf[sf[0]]) == 0 {
				continue
			}
			if msg := e.crossCheck(world, is.St, sf[0]); msg != "" {
				return fmt.Sprintf("[%s] init{%s}: %s", p.Name, is.Desc, msg)
			}
		}
	}
	return ""
}
