#!/usr/bin/env python3
"""Minimal stand-alone Git LFS lock server used only by the finding-*.md reproduction scripts of C16.

  lockserver.py <portfile> [faultfile]

Multi-user lock table; the user is the Basic-auth user name ("anon" without credentials).
Implements POST /locks, GET /locks, POST /locks/verify, POST /locks/<id>/unlock and an
"objects/batch" that accepts every upload as already present (the reproductions use non-LFS lockable files
or tiny LFS objects whose transfer is irrelevant).  If <faultfile> exists and contains "<kind> <status>"
(kind in lock-create, lock-list, lock-verify, lock-delete), the next request of that kind is answered with
that status and the file is removed (one-shot fault).  Every request is logged to stderr.
"""
import base64, json, os, sys
from http.server import BaseHTTPRequestHandler, HTTPServer

LOCKS = []          # dicts {id, path, locked_at, owner:{name}}
NEXT = [0]
FAULT = sys.argv[2] if len(sys.argv) > 2 else None


def user_of(h):
    a = h.headers.get("Authorization", "")
    if a.startswith("Basic "):
        try:
            return base64.b64decode(a[6:]).decode().split(":", 1)[0]
        except Exception:
            pass
    return "anon"


class H(BaseHTTPRequestHandler):
    def log_message(self, *a):
        pass

    def reply(self, status, obj):
        b = json.dumps(obj).encode()
        self.send_response(status)
        self.send_header("Content-Type", "application/vnd.git-lfs+json")
        self.send_header("Content-Length", str(len(b)))
        self.end_headers()
        self.wfile.write(b)

    def kind(self):
        p = self.path.split("?")[0]
        if p.endswith("/objects/batch"):
            return "batch"
        if p.endswith("/locks/verify"):
            return "lock-verify"
        if p.endswith("/unlock"):
            return "lock-delete"
        if p.endswith("/locks"):
            return "lock-create" if self.command == "POST" else "lock-list"
        return "other"

    def handle_any(self):
        n = int(self.headers.get("Content-Length") or 0)
        body = self.rfile.read(n) if n else b""
        kind, user = self.kind(), user_of(self)
        sys.stderr.write("[server] %s %s user=%s %s\n" % (self.command, self.path, user, body.decode()[:200]))
        if FAULT and os.path.exists(FAULT):
            k, st = open(FAULT).read().split()
            if k == kind:
                os.remove(FAULT)
                sys.stderr.write("[server]   -> injected %s\n" % st)
                return self.reply(int(st), {"message": "injected fault %s" % st})
        req = json.loads(body) if body else {}
        if kind == "batch":
            return self.reply(200, {"transfer": "basic", "objects": [{"oid": o["oid"], "size": o["size"]} for o in req.get("objects", [])]})
        if kind == "lock-create":
            for l in LOCKS:
                if l["path"] == req["path"]:
                    return self.reply(409, {"lock": l, "message": "already created lock"})
            NEXT[0] += 1
            l = {"id": "L%03d" % NEXT[0], "path": req["path"], "locked_at": "2024-01-01T12:00:00Z", "owner": {"name": user}}
            LOCKS.append(l)
            return self.reply(201, {"lock": l})
        if kind == "lock-list":
            from urllib.parse import urlparse, parse_qs
            q = parse_qs(urlparse(self.path).query)
            out = [l for l in LOCKS if ("path" not in q or l["path"] == q["path"][0]) and ("id" not in q or l["id"] == q["id"][0])]
            return self.reply(200, {"locks": out})
        if kind == "lock-verify":
            return self.reply(200, {"ours": [l for l in LOCKS if l["owner"]["name"] == user],
                                    "theirs": [l for l in LOCKS if l["owner"]["name"] != user]})
        if kind == "lock-delete":
            lid = self.path.split("?")[0].split("/")[-2]
            for l in LOCKS:
                if l["id"] == lid:
                    if l["owner"]["name"] != user and not req.get("force"):
                        return self.reply(403, {"message": "lock is owned by " + l["owner"]["name"]})
                    LOCKS.remove(l)
                    return self.reply(200, {"lock": l})
            return self.reply(404, {"message": "no such lock"})
        return self.reply(404, {"message": "not found"})

    do_GET = do_POST = do_PUT = handle_any


if __name__ == "__main__":
    srv = HTTPServer(("127.0.0.1", 0), H)
    open(sys.argv[1], "w").write(str(srv.server_address[1]))
    srv.serve_forever()
