#!/bin/bash
# Common setup for the C16 stand-alone reproductions.  Source it:   . repro-setup.sh
#   GITLFS=<path to git-lfs binary>   (default: built from /repo into $T/bin)
# Creates under $T: a bare remote, two clones u1/ and u2/ (users "u1" and "u2" by URL userinfo + access=basic)
# of a repository holding  p.dat q.dat (lockable, plain git files), r.txt (not lockable); starts lockserver.py.
set -u
HERE="$(cd "$(dirname "${BASH_SOURCE[0]}")" && pwd)"
T="${T:-$(mktemp -d /tmp/C16-repro-XXXXXX)}"
mkdir -p "$T/bin" "$T/home"
if [ -z "${GITLFS:-}" ]; then
  (cd "${VERIF_REPO:-/repo}" && env GOFLAGS=-mod=mod GOPROXY=off CGO_ENABLED=0 go build -o "$T/bin/git-lfs" .) || exit 2
else
  ln -sf "$GITLFS" "$T/bin/git-lfs"
fi
export HOME="$T/home" XDG_CONFIG_HOME="$T/home/.config" GIT_CONFIG_NOSYSTEM=1 LC_ALL=C GIT_TERMINAL_PROMPT=0
export PATH="$T/bin:/usr/local/bin:/usr/bin:/bin"
export GIT_AUTHOR_NAME=V GIT_AUTHOR_EMAIL=v@example.com GIT_COMMITTER_NAME=V GIT_COMMITTER_EMAIL=v@example.com
export GIT_AUTHOR_DATE=2024-01-01T12:00:00Z GIT_COMMITTER_DATE=2024-01-01T12:00:00Z
unset GIT_DIR GIT_WORK_TREE
git config --global init.defaultBranch main
git config --global user.name V; git config --global user.email v@example.com
git lfs install --skip-repo >/dev/null

FAULTFILE="$T/fault"
python3 "$HERE/lockserver.py" "$T/port" "$FAULTFILE" 2>"$T/server.log" &
SERVER_PID=$!
trap 'kill $SERVER_PID 2>/dev/null' EXIT
for i in $(seq 50); do [ -s "$T/port" ] && break; sleep 0.1; done
PORT=$(cat "$T/port")
URL="http://127.0.0.1:$PORT/r"

git init -q --bare "$T/remote.git"
git init -q "$T/seed"; cd "$T/seed"
printf '*.dat lockable\n' > .gitattributes
echo p0 > p.dat; echo q0 > q.dat; echo r0 > r.txt
git add -A; git commit -qm base; git push -q "$T/remote.git" main
for u in u1 u2; do
  git clone -q "$T/remote.git" "$T/$u"
  git -C "$T/$u" config lfs.url "http://$u:pw@127.0.0.1:$PORT/r"
  git -C "$T/$u" config "lfs.$URL.access" basic
  git -C "$T/$u" config "lfs.$URL.locksverify" true
  (cd "$T/$u" && git lfs install --local >/dev/null 2>&1; git lfs post-checkout 0000000000000000000000000000000000000000 "$(git rev-parse HEAD)" 1)
done
cd "$T"
say() { echo; echo "### $*"; }
modes() { (cd "$T/$1" && stat -c '%A %n' p.dat q.dat r.txt); }
table() { curl -s "$URL/locks" | python3 -c 'import json,sys; print("server lock table:", [(l["path"], l["owner"]["name"], l["id"]) for l in json.load(sys.stdin)["locks"]])'; }
