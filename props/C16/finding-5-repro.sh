#!/bin/bash
# C16 finding 5: a push that modifies a path locked by another user is accepted when the new content of the path is a
# blob the remote already has in its tip tree (copy of another file, two files swapped, ...).
. "$(dirname "$0")/repro-setup.sh"
say "u1 locks q.dat"
(cd $T/u1 && git lfs lock q.dat 2>/dev/null); table
cd $T/u2
say "u2 (locksverify=true) overwrites q.dat with a copy of r.txt, commits, pushes"
git config --get-regexp locksverify
chmod u+w q.dat; cp r.txt q.dat; git commit -qam "q.dat := copy of r.txt"; git show --stat --format=%s HEAD | cat
git push origin main 2>&1 | grep -v "contains credentials"; echo "exit=${PIPESTATUS[0]}"
say "remote q.dat is now:"; git -C $T/remote.git show main:q.dat
say "control: new bytes in q.dat are rejected"
echo "brand new bytes" > q.dat; git commit -qam "q.dat := new bytes"
git push origin main 2>&1 | grep -v "contains credentials"; echo "exit=${PIPESTATUS[0]}"
