#!/bin/bash
# C16 finding 2: `git lfs unlock --id <id>` releases the lock of a file with uncommitted changes without --force.
. "$(dirname "$0")/repro-setup.sh"
cd $T/u1
say "u1 locks p.dat and edits it (uncommitted)"
git lfs lock p.dat 2>/dev/null; echo "work in progress" >> p.dat; git status --short
say "control: git lfs unlock p.dat  (by path) is refused"
git lfs unlock p.dat 2>&1 | grep -v "contains credentials"; echo "exit=${PIPESTATUS[0]}"; table
say "git lfs unlock --id L001  (no --force)"
git lfs unlock --id L001 2>&1 | grep -v "contains credentials"; echo "exit=${PIPESTATUS[0]}"; table
git status --short
