package c16

// C16 world: one bare remote, two clones (users u1/u2, identified to the fake LFS server by the Basic-auth user name taken from
// the userinfo of lfs.url), one fakelfs server per worker.  Snapshots are in-memory (interned file entries) so that a BFS
// successor is produced by an incremental restore + one real command.

import (
	"crypto/sha256"
	"encoding/hex"
	"encoding/json"
	"fmt"
	"io/fs"
	"net/http"
	"os"
	"path/filepath"
	"regexp"
	"sort"
	"strconv"
	"strings"
	"sync"

	"github.com/git-lfs/git-lfs/v3/locking"
	"github.com/git-lfs/git-lfs/v3/tools/kv"
	"github.com/git-lfs/git-lfs/v3/verifx/fakelfs"
	"github.com/git-lfs/git-lfs/v3/verifx/gitx"
	"github.com/git-lfs/git-lfs/v3/verifx/vx"
)

const (
	fP = "p.dat" // lockable, LFS tracked
	fQ = "q.dat" // lockable, plain git file (changed by the local branch "side")
	fR = "r.txt" // not lockable
	fN = "n.dat" // lockable, plain git file that exists only on the local branch "side" (absent on work until `merge side`)
	fU = "u.dat" // lockable, plain; in no commit: created by the "create" operation (untracked), then possibly `git add`ed and committed
)

var wfiles = []string{fP, fQ, fR, fN, fU}

// files of the "paths" layout (lockable patterns with directory components, files at three directory levels)
const (
	fX  = "x.dat"             // root level, plain; same base name as assets/x.dat; changed by side
	fAQ = "assets/q.dat"      // one level down, plain; NOT changed by side (the file the edit / commit / path-checkout operations work on)
	fAX = "assets/x.dat"      // one level down, plain; changed by side
	fDR = "assets/deep/r.dat" // two levels down, plain; changed by side
	fAT = "assets/t.txt"      // never lockable; changed by side
)

const nFiles = 6 // capacity of the per-file arrays (largest layout)

// layout = the set of working-tree files a scenario observes (write bit, existence, content are part of the state key).
type layout struct {
	Name     string
	Files    []string
	FullScan []string // files a full scan (merge / path checkout) is obliged to recompute; nil: every lockable file of the layout
}

var (
	layClassic = &layout{Name: "classic", Files: wfiles, FullScan: []string{fP, fQ, fN}}
	layPaths   = &layout{Name: "paths", Files: []string{fP, fX, fAQ, fAX, fDR, fAT}}
)

func (l *layout) idx(f string) int {
	for i, n := range l.Files {
		if n == f {
			return i
		}
	}
	return -1
}

// level: directory level of a path (fingerprints of the paths layout name it).
func level(f string) string {
	switch strings.Count(f, "/") {
	case 0:
		return "root"
	case 1:
		return "subdir"
	}
	return "deep"
}
var users = []string{"u1", "u2"}

func lockable(f string) bool { return f == fP || f == fQ || f == fN || f == fU }
func fileIdx(f string) int {
	for i, n := range wfiles {
		if n == f {
			return i
		}
	}
	return -1
}

const zeroSha = "0000000000000000000000000000000000000000"

// ---------------------------------------------------------------------------------------------------------
// interned file entries

type ent struct {
	kind byte // 'f' file, 'd' dir, 'l' symlink
	mode uint32
	data []byte
	link string
}

var (
	internMu  sync.Mutex
	internTab = map[string]*ent{}
)

func intern(kind byte, mode uint32, data []byte, link string) *ent {
	var k string
	switch kind {
	case 'f':
		h := sha256.Sum256(data)
		k = fmt.Sprintf("f%o:%s", mode, hex.EncodeToString(h[:]))
	case 'd':
		k = fmt.Sprintf("d%o", mode)
	default:
		k = "l" + link
	}
	internMu.Lock()
	defer internMu.Unlock()
	if e, ok := internTab[k]; ok {
		return e
	}
	e := &ent{kind: kind, mode: mode, data: data, link: link}
	internTab[k] = e
	return e
}

type lockRec struct {
	ID, Path, Owner string
	Ref             string // ref named in the create request
}

// snap is one complete world state.
type snap struct {
	files map[string]*ent // path relative to the world root, canonical placeholders inside .git/config
	locks []lockRec       // server lock table in creation order
	next  int             // lock id counter of the server
	objs  map[string][]byte
}

// ---------------------------------------------------------------------------------------------------------
// world (one per worker)

type faultDef struct {
	Kind   string `json:"kind"`   // lock-create | lock-list | lock-verify | lock-delete
	Nth    int    `json:"nth"`    // the n-th request of that kind made by the command
	Status int    `json:"status"` // HTTP status answered instead of the nominal answer
}

func (f *faultDef) String() string {
	if f == nil {
		return ""
	}
	return fmt.Sprintf("%s#%d=%d", f.Kind, f.Nth, f.Status)
}

type world struct {
	root     string
	gx       *gitx.World
	srv      *fakelfs.Server
	hostport string
	cur      map[string]*ent
	byRef    bool // the scenario runs against a server that scopes locks by ref
	lay      *layout

	mu        sync.Mutex
	next      int
	fault     *faultDef
	seenKind  map[string]int
	faultHits int
	apiLog    []string
}

const (
	phHost = "127.0.0.1:1"    // canonical placeholder of the worker's host:port inside snapshots
	phRoot = "/C16-WORLD-ROOT" // canonical placeholder of the worker's root directory inside snapshots
)

var snapDirs = []string{"remote.git", "u1", "u2"}

func newWorld(root, home, binDir string) *world {
	w := &world{root: root, cur: map[string]*ent{}, seenKind: map[string]int{}, lay: layClassic}
	os.MkdirAll(filepath.Join(root, "tmp"), 0755)
	w.gx = &gitx.World{Root: root, Home: home, BinDir: binDir, Extra: []string{"TMPDIR=" + filepath.Join(root, "tmp"), "GIT_CEILING_DIRECTORIES=" + root}}
	w.srv = fakelfs.New()
	w.hostport = strings.TrimPrefix(w.srv.URL, "http://")
	w.srv.Hook = w.hook
	return w
}

func (w *world) lfsURL() string           { return "http://" + w.hostport + "/r" }
func (w *world) userURL(u string) string  { return "http://" + u + ":pw@" + w.hostport + "/r" }
func (w *world) clone(u int) string       { return filepath.Join(w.root, users[u]) }
func (w *world) verifyKey() string        { return "lfs." + w.lfsURL() + ".locksverify" }

// hook: fault injection for the lock API + lock creation with a snapshot-restorable id counter.
func (w *world) hook(s *fakelfs.Server, rw http.ResponseWriter, r *http.Request, rec *fakelfs.Recorded) bool {
	switch rec.Kind {
	case "lock-create", "lock-list", "lock-verify", "lock-delete":
	default:
		return false
	}
	w.mu.Lock()
	w.seenKind[rec.Kind]++
	n := w.seenKind[rec.Kind]
	f := w.fault
	hit := f != nil && f.Kind == rec.Kind && f.Nth == n
	if hit {
		w.faultHits++
		w.apiLog = append(w.apiLog, fmt.Sprintf("%s %s -> injected %d", rec.Kind, rec.User, f.Status))
	} else {
		w.apiLog = append(w.apiLog, fmt.Sprintf("%s %s", rec.Kind, rec.User))
	}
	w.mu.Unlock()
	writeJSON := func(status int, v interface{}) {
		b, _ := json.Marshal(v)
		rw.Header().Set("Content-Type", fakelfs.MediaType)
		rw.WriteHeader(status)
		rw.Write(b)
	}
	if hit {
		body := map[string]interface{}{"message": fmt.Sprintf("injected fault %d", f.Status)}
		if f.Status == 409 {
			l := &fakelfs.Lock{ID: "L999", Path: "conflict", LockedAt: "2024-01-01T12:00:00Z"}
			l.Owner = &struct {
				Name string `json:"name"`
			}{"someone"}
			body["lock"] = l
			body["message"] = "already created lock"
		}
		writeJSON(f.Status, body)
		return true
	}
	if rec.Kind != "lock-create" {
		return false
	}
	var req struct {
		Path string `json:"path"`
		Ref  struct {
			Name string `json:"name"`
		} `json:"ref"`
	}
	if json.Unmarshal(rec.Body, &req) != nil || req.Path == "" {
		writeJSON(422, map[string]string{"message": "bad lock request"})
		return true
	}
	s.Lock()
	defer s.Unlock()
	for _, l := range s.Locks {
		if l.Path == req.Path && (!s.LocksByRef || l.Ref == req.Ref.Name) {
			writeJSON(409, map[string]interface{}{"lock": l, "message": "already created lock"})
			return true
		}
	}
	w.mu.Lock()
	w.next++
	id := fmt.Sprintf("L%03d", w.next)
	w.mu.Unlock()
	l := &fakelfs.Lock{ID: id, Path: req.Path, LockedAt: "2024-01-01T12:00:00Z", Ref: req.Ref.Name}
	l.Owner = &struct {
		Name string `json:"name"`
	}{rec.User}
	s.Locks = append(s.Locks, l)
	writeJSON(201, map[string]interface{}{"lock": l})
	return true
}

// arm prepares the server for one command.
func (w *world) arm(f *faultDef, page bool) {
	w.mu.Lock()
	w.fault = f
	w.seenKind = map[string]int{}
	w.faultHits = 0
	w.apiLog = nil
	w.mu.Unlock()
	w.srv.Lock()
	if page {
		w.srv.LockPageSize = 1
	} else {
		w.srv.LockPageSize = 0
	}
	w.srv.Requests = nil
	w.srv.Unlock()
}

func (w *world) disarm() (hits int, log []string) {
	w.mu.Lock()
	hits, log = w.faultHits, w.apiLog
	w.fault = nil
	w.mu.Unlock()
	w.srv.Lock()
	w.srv.LockPageSize = 0
	w.srv.Unlock()
	return
}

// invalidate forgets what is on disk (after a step that did not end with a capture): the next restore rewrites everything.
func (w *world) invalidate() {
	for _, d := range snapDirs {
		p := filepath.Join(w.root, d)
		filepath.WalkDir(p, func(q string, de fs.DirEntry, err error) error {
			if err == nil && de.IsDir() {
				os.Chmod(q, 0755)
			}
			return nil
		})
		os.RemoveAll(p)
	}
	w.cur = map[string]*ent{}
}

func (w *world) table() []lockRec {
	w.srv.Lock()
	defer w.srv.Unlock()
	var r []lockRec
	for _, l := range w.srv.Locks {
		r = append(r, lockRec{ID: l.ID, Path: l.Path, Owner: l.Owner.Name, Ref: l.Ref})
	}
	return r
}

func isCfg(rel string) bool {
	return rel == "u1/.git/config" || rel == "u2/.git/config" || rel == "remote.git/config"
}

func (w *world) toCanon(rel string, b []byte) []byte {
	if !isCfg(rel) {
		return b
	}
	s := strings.ReplaceAll(string(b), w.hostport, phHost)
	s = strings.ReplaceAll(s, w.root, phRoot)
	return []byte(s)
}

func (w *world) fromCanon(rel string, b []byte) []byte {
	if !isCfg(rel) {
		return b
	}
	s := strings.ReplaceAll(string(b), phHost, w.hostport)
	s = strings.ReplaceAll(s, phRoot, w.root)
	return []byte(s)
}

// capture reads the world from disk (and the server) into a snapshot; it also becomes the "current" map.
func (w *world) capture() snap {
	files := map[string]*ent{}
	for _, d := range snapDirs {
		base := filepath.Join(w.root, d)
		filepath.WalkDir(base, func(p string, de fs.DirEntry, err error) error {
			if err != nil {
				return nil
			}
			rel, _ := filepath.Rel(w.root, p)
			info, e := os.Lstat(p)
			if e != nil {
				return nil
			}
			switch {
			case info.Mode()&os.ModeSymlink != 0:
				l, _ := os.Readlink(p)
				files[rel] = intern('l', 0, nil, l)
			case info.IsDir():
				files[rel] = intern('d', uint32(info.Mode().Perm()), nil, "")
			case info.Mode().IsRegular():
				b, e := os.ReadFile(p)
				if e != nil {
					panic(vx.ToolError{Msg: "capture: " + e.Error()})
				}
				files[rel] = intern('f', uint32(info.Mode().Perm()), w.toCanon(rel, b), "")
			}
			return nil
		})
	}
	s := snap{files: files, locks: w.table(), objs: map[string][]byte{}}
	w.mu.Lock()
	s.next = w.next
	w.mu.Unlock()
	w.srv.Lock()
	for k, v := range w.srv.Objects {
		s.objs[k] = v
	}
	w.srv.Unlock()
	w.cur = files
	return s
}

// restore makes disk and server equal to the snapshot (incrementally against what is known to be on disk).
func (w *world) restore(s snap) {
	// removals, deepest first
	var gone []string
	for p := range w.cur {
		if _, ok := s.files[p]; !ok {
			gone = append(gone, p)
		}
	}
	sort.Slice(gone, func(i, j int) bool { return len(gone[i]) > len(gone[j]) })
	for _, p := range gone {
		abs := filepath.Join(w.root, p)
		if w.cur[p].kind == 'd' {
			os.Chmod(abs, 0755)
			if err := os.RemoveAll(abs); err != nil {
				panic(vx.ToolError{Msg: "restore: " + err.Error()})
			}
		} else if err := os.Remove(abs); err != nil && !os.IsNotExist(err) {
			panic(vx.ToolError{Msg: "restore: " + err.Error()})
		}
	}
	// creations / changes, shallowest first
	var todo []string
	for p, e := range s.files {
		if w.cur[p] != e {
			todo = append(todo, p)
		}
	}
	sort.Slice(todo, func(i, j int) bool {
		if len(todo[i]) != len(todo[j]) {
			return len(todo[i]) < len(todo[j])
		}
		return todo[i] < todo[j]
	})
	for _, p := range todo {
		e := s.files[p]
		abs := filepath.Join(w.root, p)
		old := w.cur[p]
		if old != nil && old.kind != e.kind {
			os.RemoveAll(abs)
			old = nil
		}
		switch e.kind {
		case 'd':
			if old == nil {
				if err := os.MkdirAll(abs, 0755); err != nil {
					panic(vx.ToolError{Msg: "restore: " + err.Error()})
				}
			}
			os.Chmod(abs, os.FileMode(e.mode))
		case 'l':
			os.Remove(abs)
			if err := os.Symlink(e.link, abs); err != nil {
				panic(vx.ToolError{Msg: "restore: " + err.Error()})
			}
		case 'f':
			os.Remove(abs)
			if err := os.WriteFile(abs, w.fromCanon(p, e.data), os.FileMode(e.mode)|0200); err != nil {
				// parent may be missing when a directory entry was not captured
				os.MkdirAll(filepath.Dir(abs), 0755)
				if err = os.WriteFile(abs, w.fromCanon(p, e.data), os.FileMode(e.mode)|0200); err != nil {
					panic(vx.ToolError{Msg: "restore: " + err.Error()})
				}
			}
			if err := os.Chmod(abs, os.FileMode(e.mode)); err != nil {
				panic(vx.ToolError{Msg: "restore: " + err.Error()})
			}
		}
	}
	w.cur = s.files
	w.srv.Lock()
	w.srv.Locks = nil
	for _, l := range s.locks {
		fl := &fakelfs.Lock{ID: l.ID, Path: l.Path, LockedAt: "2024-01-01T12:00:00Z", Ref: l.Ref}
		fl.Owner = &struct {
			Name string `json:"name"`
		}{l.Owner}
		w.srv.Locks = append(w.srv.Locks, fl)
	}
	w.srv.Objects = map[string][]byte{}
	for k, v := range s.objs {
		w.srv.Objects[k] = v
	}
	w.srv.Requests = nil
	w.srv.LocksByRef = w.byRef
	w.srv.Unlock()
	w.mu.Lock()
	w.next = s.next
	w.mu.Unlock()
}

// ---------------------------------------------------------------------------------------------------------
// observation

type cacheEnt struct {
	Path, ID, Owner string
}

type userObs struct {
	Cache   []cacheEnt // path-keyed entries of lfs/lockcache.db, sorted by path
	IDKeys  []string   // "id>path" for the reverse entries
	CacheOK string     // decoding problem, if any
	W       [nFiles]bool // owner write bit of p,q,r,n
	Exists  [nFiles]bool
	Content [nFiles]string // sha of working-tree content
	Refs    []string  // "name sha" (HEAD symbolic first); remote-tracking work-<self> renamed
	Cfg     string    // canonical .git/config
	Merging bool
}

type obs struct {
	Files  []string // the layout's file names (index = position in the per-file arrays)
	Table  []lockRec
	U      [2]userObs
	Remote []string
	Staged [2]string // per user: which files have their uncommitted state in the index (model flag; the index itself is not read)
	Key    uint64 // canonical key, symmetric in the two users (for alphabets in which both users act alike)
	KeyA   uint64 // canonical key without the user symmetry (for alphabets with one acting user)
}

func shortSha(b []byte) string {
	h := sha256.Sum256(b)
	return hex.EncodeToString(h[:8])
}

func readRefs(gitdir string, rename func(string) string) []string {
	m := map[string]string{}
	if b, err := os.ReadFile(filepath.Join(gitdir, "packed-refs")); err == nil {
		for _, ln := range strings.Split(string(b), "\n") {
			f := strings.Fields(ln)
			if len(f) == 2 && len(f[0]) == 40 {
				m[f[1]] = f[0]
			}
		}
	}
	base := filepath.Join(gitdir, "refs")
	filepath.WalkDir(base, func(p string, d fs.DirEntry, err error) error {
		if err != nil || d.IsDir() {
			return nil
		}
		b, e := os.ReadFile(p)
		if e == nil {
			rel, _ := filepath.Rel(gitdir, p)
			m[rel] = strings.TrimSpace(string(b))
		}
		return nil
	})
	var r []string
	for k, v := range m {
		r = append(r, rename(k)+" "+v)
	}
	sort.Strings(r)
	if b, err := os.ReadFile(filepath.Join(gitdir, "HEAD")); err == nil {
		r = append([]string{"HEAD " + strings.TrimSpace(string(b))}, r...)
	}
	return r
}

func (w *world) readCache(u int) (ents []cacheEnt, idkeys []string, problem string) {
	path := filepath.Join(w.clone(u), ".git", "lfs", "lockcache.db")
	if st, err := os.Stat(path); err != nil || st.Size() == 0 {
		return nil, nil, ""
	}
	store, err := kv.NewStore(path)
	if err != nil {
		return nil, nil, "undecodable lockcache.db: " + err.Error()
	}
	store.Visit(func(k string, v interface{}) bool {
		l, ok := v.(*locking.Lock)
		if !ok || l == nil {
			problem = fmt.Sprintf("entry %q has type %T", k, v)
			return true
		}
		if strings.HasPrefix(k, "*id*://") {
			idkeys = append(idkeys, strings.TrimPrefix(k, "*id*://")+">"+l.Path)
			return true
		}
		o := ""
		if l.Owner != nil {
			o = l.Owner.Name
		}
		ents = append(ents, cacheEnt{Path: k, ID: l.Id, Owner: o})
		if k != l.Path {
			problem = fmt.Sprintf("entry keyed %q holds lock for path %q", k, l.Path)
		}
		return true
	})
	sort.Slice(ents, func(i, j int) bool { return ents[i].Path < ents[j].Path })
	sort.Strings(idkeys)
	return
}

func (w *world) observe() *obs {
	o := &obs{Table: w.table(), Files: w.lay.Files}
	for u := range users {
		uo := &o.U[u]
		dir := w.clone(u)
		uo.Cache, uo.IDKeys, uo.CacheOK = w.readCache(u)
		for i, f := range w.lay.Files {
			p := filepath.Join(dir, f)
			if st, err := os.Lstat(p); err == nil {
				uo.Exists[i] = true
				uo.W[i] = st.Mode().Perm()&0200 != 0
				b, _ := os.ReadFile(p)
				uo.Content[i] = shortSha(b)
			}
		}
		self := "refs/remotes/origin/work-" + users[u]
		uo.Refs = readRefs(filepath.Join(dir, ".git"), func(n string) string {
			if n == self {
				return "refs/remotes/origin/work-SELF"
			}
			return n
		})
		if b, err := os.ReadFile(filepath.Join(dir, ".git", "config")); err == nil {
			s := strings.ReplaceAll(string(b), w.hostport, phHost)
			s = strings.ReplaceAll(s, w.root, phRoot)
			s = strings.ReplaceAll(s, users[u]+":pw@", "USER:pw@")
			uo.Cfg = canonConfig(s)
		}
		if _, err := os.Stat(filepath.Join(dir, ".git", "MERGE_HEAD")); err == nil {
			uo.Merging = true
		}
	}
	o.Remote = readRefs(filepath.Join(w.root, "remote.git"), func(n string) string { return n })
	o.Key, o.KeyA = o.canonKey()
	return o
}

// canonConfig turns a git config file into sorted "section.subsection.key=value" lines (order of sections and of
// keys inside a section carries no meaning for the single-valued keys used here).
func canonConfig(text string) string {
	var out []string
	sec := ""
	for _, ln := range strings.Split(text, "\n") {
		t := strings.TrimSpace(ln)
		if t == "" || t[0] == '#' || t[0] == ';' {
			continue
		}
		if t[0] == '[' {
			t = strings.TrimSuffix(strings.TrimPrefix(t, "["), "]")
			if i := strings.IndexByte(t, ' '); i >= 0 {
				sec = strings.ToLower(t[:i]) + "." + strings.Trim(strings.TrimSpace(t[i+1:]), "\"")
			} else {
				sec = strings.ToLower(t)
			}
			continue
		}
		k, v := t, "true"
		if i := strings.IndexByte(t, '='); i >= 0 {
			k, v = strings.TrimSpace(t[:i]), strings.TrimSpace(t[i+1:])
		}
		out = append(out, sec+"."+strings.ToLower(k)+"="+v)
	}
	sort.Strings(out)
	return strings.Join(out, "\n")
}

var idRe = regexp.MustCompile(`^L(\d+)$`)

// canon serialises the observation with users taken in the given order and lock ids replaced by their rank.
func (o *obs) canon(order [2]int) string {
	role := func(name string) string {
		switch name {
		case users[order[0]]:
			return "A"
		case users[order[1]]:
			return "B"
		}
		return name
	}
	idset := map[string]bool{}
	for _, l := range o.Table {
		idset[l.ID] = true
	}
	for u := range users {
		for _, c := range o.U[u].Cache {
			idset[c.ID] = true
		}
		for _, k := range o.U[u].IDKeys {
			idset[k[:strings.IndexByte(k, '>')]] = true
		}
	}
	var ids []string
	for id := range idset {
		ids = append(ids, id)
	}
	num := func(id string) int {
		if m := idRe.FindStringSubmatch(id); m != nil {
			n, _ := strconv.Atoi(m[1])
			return n
		}
		return 1 << 30
	}
	sort.Slice(ids, func(i, j int) bool {
		if num(ids[i]) != num(ids[j]) {
			return num(ids[i]) < num(ids[j])
		}
		return ids[i] < ids[j]
	})
	rank := map[string]string{}
	for i, id := range ids {
		rank[id] = fmt.Sprintf("#%d", i)
	}
	var sb strings.Builder
	tab := append([]lockRec(nil), o.Table...)
	sort.Slice(tab, func(i, j int) bool { return tab[i].Path < tab[j].Path })
	sb.WriteString("T:")
	for _, l := range tab {
		fmt.Fprintf(&sb, "%s=%s/%s@%s;", l.Path, role(l.Owner), rank[l.ID], l.Ref)
	}
	for k := 0; k < 2; k++ {
		u := &o.U[order[k]]
		fmt.Fprintf(&sb, "\nU%d cache:", k)
		for _, c := range u.Cache {
			fmt.Fprintf(&sb, "%s=%s/%s;", c.Path, role(c.Owner), rank[c.ID])
		}
		sb.WriteString(" idkeys:")
		var iks []string
		for _, ik := range u.IDKeys {
			i := strings.IndexByte(ik, '>')
			iks = append(iks, rank[ik[:i]]+ik[i:])
		}
		sort.Strings(iks)
		sb.WriteString(strings.Join(iks, ";"))
		fmt.Fprintf(&sb, " staged:%s", o.Staged[order[k]])
		fmt.Fprintf(&sb, " ok:%q w:%v e:%v c:%v m:%v refs:%s cfg:%s", u.CacheOK, u.W, u.Exists, u.Content, u.Merging, strings.Join(u.Refs, ","), shortSha([]byte(u.Cfg)))
	}
	sb.WriteString("\nR:")
	var rr []string
	for _, r := range o.Remote {
		r = strings.Replace(r, "refs/heads/work-"+users[order[0]]+" ", "refs/heads/work-A ", 1)
		r = strings.Replace(r, "refs/heads/work-"+users[order[1]]+" ", "refs/heads/work-B ", 1)
		rr = append(rr, r)
	}
	sort.Strings(rr)
	sb.WriteString(strings.Join(rr, ","))
	return sb.String()
}

func (o *obs) canonKey() (sym, asym uint64) {
	a, b := o.canon([2]int{0, 1}), o.canon([2]int{1, 0})
	asym = vx.Hash64(a)
	if b < a {
		a = b
	}
	return vx.Hash64(a), asym
}

func (o *obs) tableAt(path string) *lockRec {
	for i := range o.Table {
		if o.Table[i].Path == path {
			return &o.Table[i]
		}
	}
	return nil
}

func (o *obs) branch(u int) string {
	if len(o.U[u].Refs) > 0 && strings.HasPrefix(o.U[u].Refs[0], "HEAD ref: refs/heads/") {
		return strings.TrimPrefix(o.U[u].Refs[0], "HEAD ref: refs/heads/")
	}
	return "?"
}

func (o *obs) ref(u int, name string) string {
	for _, r := range o.U[u].Refs {
		if strings.HasPrefix(r, name+" ") {
			return r[len(name)+1:]
		}
	}
	return ""
}

func (o *obs) remoteRef(name string) string {
	for _, r := range o.Remote {
		if strings.HasPrefix(r, name+" ") {
			return r[len(name)+1:]
		}
	}
	return ""
}

func (o *obs) describe() map[string]interface{} {
	var tab []string
	for _, l := range o.Table {
		tab = append(tab, fmt.Sprintf("%s locked by %s (%s, ref %s)", l.Path, l.Owner, l.ID, l.Ref))
	}
	m := map[string]interface{}{"server_lock_table": tab}
	for u, name := range users {
		uo := o.U[u]
		var c []string
		for _, e := range uo.Cache {
			c = append(c, fmt.Sprintf("%s owner=%s id=%s", e.Path, e.Owner, e.ID))
		}
		wb := map[string]bool{}
		for i, f := range o.Files {
			if uo.Exists[i] {
				wb[f] = uo.W[i]
			}
		}
		m[name] = map[string]interface{}{"cached_own_locks": c, "writable": wb, "branch": o.branch(u), "work": o.ref(u, "refs/heads/work"),
			"pushed": o.remoteRef("refs/heads/work-" + name)}
	}
	return m
}
