#!/bin/bash
# C16 finding 3: a FAILED `git lfs locks --verify --json` empties the local cache of own locks although the server still holds them.
. "$(dirname "$0")/repro-setup.sh"
cd $T/u1
say "u1 locks p.dat and q.dat"
git lfs lock p.dat 2>/dev/null; git lfs lock q.dat 2>/dev/null; table
git lfs locks --local --json 2>/dev/null; modes u1
say "the server answers 500 to the next locks/verify request;  u1 runs: git lfs locks --verify --json"
echo "lock-verify 500" > $FAULTFILE
git lfs locks --verify --json 2>&1 | grep -v "contains credentials"; echo "exit=${PIPESTATUS[0]}"
say "server still holds both locks, but the cached list of own locks is empty"
table; git lfs locks --local --json 2>/dev/null
say "consequence: the next hook run makes u1's locked files read-only"
git checkout -q -- p.dat; modes u1
say "control: same failure without --json leaves the cache alone"
git lfs locks --verify >/dev/null 2>&1; git lfs locks --local --json 2>/dev/null
echo "lock-verify 500" > $FAULTFILE
git lfs locks --verify 2>&1 | grep -v "contains credentials"; echo "exit=${PIPESTATUS[0]}"
git lfs locks --local --json 2>/dev/null
