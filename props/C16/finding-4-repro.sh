#!/bin/bash
# C16 finding 4: with lfs.<url>.locksverify=true a 404/501 answer to locks/verify lets the push through and
# silently switches verification off for all later pushes (new, more specific key that also embeds the URL credentials).
. "$(dirname "$0")/repro-setup.sh"
say "u1 locks q.dat"
(cd $T/u1 && git lfs lock q.dat 2>/dev/null); table
cd $T/u2
say "u2: locksverify is true"; git config --get-regexp locksverify
say "u2 modifies q.dat (locked by u1); the server answers 501 to locks/verify once; git push"
chmod u+w q.dat; echo "change 1" > q.dat; git commit -qam "change 1"
echo "lock-verify 501" > $FAULTFILE
git push origin main 2>&1 | grep -v "contains credentials"; echo "exit=${PIPESTATUS[0]}"
say "u2 config afterwards"; git config --get-regexp locksverify
say "server healthy again; u2 modifies q.dat again and pushes: verification stays off"
echo "change 2" > q.dat; git commit -qam "change 2"
git push origin main 2>&1 | grep -v "contains credentials"; echo "exit=${PIPESTATUS[0]}"
table
