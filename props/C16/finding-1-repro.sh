#!/bin/bash
# C16 finding 1: `git lfs locks --verify` stores OTHER users' locks in the local cache of own locks.
. "$(dirname "$0")/repro-setup.sh"
say "u1 locks p.dat"
(cd $T/u1 && git lfs lock p.dat 2>/dev/null); table
say "u2 (holds nothing): cached own locks before"
(cd $T/u2 && git lfs locks --local --json 2>/dev/null)
say "u2 runs: git lfs locks --verify"
(cd $T/u2 && git lfs locks --verify 2>/dev/null; echo "exit=$?")
say "u2: git lfs locks --local --json   (documented: 'only list cached local record of own locks')"
(cd $T/u2 && git lfs locks --local --json 2>/dev/null)
say "consequence: the next hook run makes the file locked by u1 writable for u2"
modes u2
(cd $T/u2 && git checkout -q -- p.dat)   # runs post-checkout (file checkout => full scan)
modes u2
