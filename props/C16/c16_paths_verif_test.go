package c16

// C16, PATH / PATTERN dimension of the write-bit clause: lockable files at three directory levels, a same-base-name pair,
// lockable patterns with directory components (and a nested .gitattributes), lock / unlock invoked from inside a
// sub-directory, and every hook route to the write-bit fix-up (post-commit and branch checkout: incremental; path checkout,
// merge and new clone: full scan).  Same worlds, same step function and the same oracle as the classic scenarios; only the
// files observed (layout "paths") and the set of lockable files (taken from `git check-attr lockable`) differ.

import (
	"fmt"
	"os"
	"path/filepath"
	"sort"
	"strings"

	"github.com/git-lfs/git-lfs/v3/verifx/gitx"
	"github.com/git-lfs/git-lfs/v3/verifx/vx"
)

type patVariant struct {
	Class  string   // name used in fingerprints and outcomes
	Desc   string   // how the lockable patterns are spelled
	Root   string   // lockable lines of the top-level .gitattributes
	Nested string   // content of assets/.gitattributes ("" = no such file)
	Expect []string // the files git itself reports as lockable (harness self-check)
}

var patVariants = []patVariant{
	{"basename-pattern", "`*.dat lockable`", "*.dat lockable\n", "", []string{fP, fX, fAQ, fAX, fDR}},
	{"dir-pattern", "`assets/*.dat lockable`", "assets/*.dat lockable\n", "", []string{fAQ, fAX}},
	{"rooted-pattern", "`/x.dat lockable`, `/assets/q.dat lockable`", "/x.dat lockable\n/assets/q.dat lockable\n", "", []string{fX, fAQ}},
	{"doublestar-pattern", "`assets/**/*.dat lockable`", "assets/**/*.dat lockable\n", "", []string{fAQ, fAX, fDR}},
	{"nested-gitattributes", "`*.dat lockable` in assets/.gitattributes", "", "*.dat lockable\n", []string{fAQ, fAX, fDR}},
}

// buildPaths constructs the base world of one pattern variant with the real git / git-lfs and returns its initial state
// (no locks, lfs.<url>.locksverify=true, lfs.setlockablereadonly on).
//
//	main = work:  p.dat (LFS) x.dat assets/q.dat assets/x.dat assets/deep/r.dat assets/t.txt
//	side (local): x.dat, assets/x.dat, assets/deep/r.dat, assets/t.txt changed (one file per directory level + the control)
func (e *envT) buildPaths(w *world, pv patVariant) initState {
	w.lay, w.byRef = layPaths, false
	gx := w.gx
	must := func(r gitx.Res, what string) {
		if !r.OK() {
			panic(vx.ToolError{Msg: "world construction (" + pv.Class + "): " + what + " failed: " + r.String()})
		}
	}
	w.invalidate()
	w.restore(snap{files: map[string]*ent{}, objs: map[string][]byte{}})
	remote := filepath.Join(w.root, "remote.git")
	os.MkdirAll(remote, 0755)
	must(gx.Git(remote, "init", "-q", "--bare", "--template="+e.tmpl, "-b", "main"), "init remote")
	seed := filepath.Join(w.root, "seed")
	os.RemoveAll(seed)
	os.MkdirAll(seed, 0755)
	defer os.RemoveAll(seed)
	must(gx.Git(seed, "init", "-q", "--template="+e.tmpl, "-b", "main"), "init seed")
	must(gx.Git(seed, "config", "lfs.url", w.userURL("seed")), "config")
	must(gx.Git(seed, "config", "lfs."+w.lfsURL()+".access", "basic"), "config")
	must(gx.Git(seed, "config", w.verifyKey(), "false"), "config")
	must(gx.LFS(seed, "install", "--local"), "lfs install (seed)")
	gitx.WriteFile(seed, ".gitattributes", []byte(pv.Root+"p.dat filter=lfs diff=lfs merge=lfs -text\n"), 0644)
	os.MkdirAll(filepath.Join(seed, "assets", "deep"), 0755)
	if pv.Nested != "" {
		gitx.WriteFile(seed, "assets/.gitattributes", []byte(pv.Nested), 0644)
	}
	for _, f := range layPaths.Files {
		gitx.WriteFile(seed, f, []byte("base "+f+"\n"), 0644)
	}
	must(gx.Git(seed, "add", "-A"), "add")
	must(gx.Git(seed, "commit", "-q", "-m", "c0"), "commit c0")
	must(gx.Git(seed, "push", "-q", remote, "main"), "push seed")
	for u, name := range users {
		dir := w.clone(u)
		must(gx.Git(w.root, "-c", "lfs.url="+w.userURL(name), "-c", "lfs."+w.lfsURL()+".access=basic", "clone", "-q", "--template="+e.tmpl, remote, dir), "clone "+name)
		must(gx.Git(dir, "config", "lfs.url", w.userURL(name)), "config")
		must(gx.Git(dir, "config", "lfs."+w.lfsURL()+".access", "basic"), "config")
		must(gx.Git(dir, "config", w.verifyKey(), "true"), "config")
		must(gx.LFS(dir, "install", "--local"), "lfs install")
		must(gx.Git(dir, "checkout", "-q", "-b", "side"), "checkout -b side")
		for _, f := range []string{fX, fAX, fDR, fAT} {
			os.Chmod(filepath.Join(dir, f), 0644)
			gitx.WriteFile(dir, f, []byte("side "+f+"\n"), 0644)
		}
		must(gx.Git(dir, "commit", "-q", "-a", "-m", "side"), "commit side")
		must(gx.Git(dir, "checkout", "-q", "-b", "work", "main"), "checkout -b work")
		head := strings.TrimSpace(gx.MustGit(dir, "rev-parse", "HEAD"))
		must(gx.LFS(dir, "post-checkout", zeroSha, head, "1"), "initial post-checkout")
	}
	// which files are lockable is git's own answer
	lk := map[string]bool{}
	var got []string
	for _, f := range layPaths.Files {
		r := gx.Git(w.clone(0), "check-attr", "lockable", "--", f)
		must(r, "check-attr")
		if strings.HasSuffix(strings.TrimSpace(r.Out), ": lockable: set") {
			lk[f] = true
			got = append(got, f)
		}
	}
	want := append([]string(nil), pv.Expect...)
	sort.Strings(want)
	sort.Strings(got)
	if fmt.Sprint(got) != fmt.Sprint(want) {
		panic(vx.ToolError{Msg: fmt.Sprintf("selfcheck (%s): git check-attr reports %v as lockable, the harness expects %v", pv.Class, got, want)})
	}
	w.cur = map[string]*ent{}
	sn := w.capture()
	o := w.observe()
	for i := range users {
		o.Staged[i] = fmt.Sprint([nFiles]bool{})
	}
	o.Key, o.KeyA = o.canonKey()
	for u := range users {
		if o.branch(u) != "work" || len(o.U[u].Cache) != 0 {
			panic(vx.ToolError{Msg: fmt.Sprintf("selfcheck (%s): initial state of %s: branch %s cache %v", pv.Class, users[u], o.branch(u), o.U[u].Cache)})
		}
		for i := range layPaths.Files {
			if !o.U[u].Exists[i] {
				panic(vx.ToolError{Msg: fmt.Sprintf("selfcheck (%s): %s lacks %s", pv.Class, users[u], layPaths.Files[i])})
			}
		}
	}
	n := &node{obs: o, snap: sn}
	return initState{Desc: fmt.Sprintf("lockable by %s (git check-attr: %s), locksverify=true, lfs.setlockablereadonly=true, no locks", pv.Desc, strings.Join(got, " ")),
		Node: n, RO: true, Lay: layPaths, Lockable: lk, PatClass: pv.Class}
}

// pathsAlphabet: one acting user.  lock / unlock / unlock --id / unlock --force of files at the three directory levels
// (both members of the same-base-name pair), typed relative to the work-tree root or to assets/ (the invoking directory),
// plus every hook route: editor-style save + commit (post-commit), branch switch (post-checkout, incremental),
// `git checkout -- <file>` (post-checkout, full scan), `git merge side` (post-merge, full scan), new clone (post-checkout
// with the null id, full scan).
func pathsAlphabet(u int, thorough bool) []opDef {
	const root, sub = "", "assets"
	ops := []opDef{
		mkc(u, "lock", root, fX, fX),
		mkc(u, "lock", sub, "x.dat", fAX),
		mkc(u, "lock", sub, "q.dat", fAQ),
		mkc(u, "lock", root, fDR, fDR),
		mkc(u, "unlock", root, fX, fX),
		mkc(u, "unlock-id", sub, "", fAX),
		mkc(u, "unlock", sub, "q.dat", fAQ),
		mkc(u, "unlock-force", root, fDR, fDR),
		mk(u, "edit-replace", fAQ), mk(u, "restore", fAQ), mk(u, "commit", ""), mk(u, "checkout", ""), mk(u, "merge", ""), mk(u, "clone", ""),
	}
	if thorough {
		ops = append(ops,
			mkc(u, "lock", sub, "../x.dat", fX), mkc(u, "lock", root, fAX, fAX), mkc(u, "lock", root, fAQ, fAQ), mkc(u, "lock", sub, "deep/r.dat", fDR),
			mkc(u, "unlock", sub, "../x.dat", fX), mkc(u, "unlock", root, fAX, fAX), mkc(u, "unlock", root, fAQ, fAQ), mkc(u, "unlock", sub, "deep/r.dat", fDR),
			mkc(u, "unlock-id", root, "", fX), mkc(u, "unlock-id", root, "", fAQ), mkc(u, "unlock-id", sub, "", fAQ), mkc(u, "unlock-id", sub, "", fDR),
			mkc(u, "unlock-force", sub, "x.dat", fAX), mkc(u, "unlock-force", sub, "q.dat", fAQ),
			mkc(u, "restore", sub, "q.dat", fAQ), mk(u, "locks-verify", ""))
	}
	return ops
}
