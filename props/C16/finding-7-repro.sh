#!/bin/bash
# C16 finding 7: a file made lockable by a base-name pattern in a NESTED .gitattributes (assets/.gitattributes: `*.dat lockable`)
# and lying more than one level below that file (assets/deep/r.dat) is never made read-only: git-lfs rewrites the pattern
# to `assets/*.dat`, which no longer matches in deeper directories, while git itself reports the attribute as set.
. "$(dirname "$0")/repro-setup.sh"
cd $T/u1
mkdir -p assets/deep; echo a0 > assets/q.dat; echo d0 > assets/deep/r.dat
printf '*.dat lockable\n' > assets/.gitattributes; : > .gitattributes
git add -A; git commit -qm "nested .gitattributes"; git push -q origin main 2>&1 | grep -v "contains credentials"
say "git's own view of the lockable attribute"
git check-attr lockable -- assets/q.dat assets/deep/r.dat
say "u1 holds no lock; full scan (what post-merge / post-checkout of a path or of a new clone run)"
chmod u+w assets/q.dat assets/deep/r.dat
git lfs post-checkout 0000000000000000000000000000000000000000 "$(git rev-parse HEAD)" 1
stat -c '%A %n' assets/q.dat assets/deep/r.dat
say "lock + unlock of assets/deep/r.dat: the released file stays writable (control: assets/q.dat becomes read-only)"
git lfs lock assets/deep/r.dat 2>&1 | grep -v "contains credentials"; git lfs unlock assets/deep/r.dat 2>&1 | grep -v "contains credentials"
git lfs lock assets/q.dat 2>&1 | grep -v "contains credentials"; git lfs unlock assets/q.dat 2>&1 | grep -v "contains credentials"
table; git lfs locks --local
stat -c '%A %n' assets/q.dat assets/deep/r.dat
say "control: the same pattern in the top-level .gitattributes covers both levels"
printf '*.dat lockable\n' > .gitattributes; git rm -q --cached assets/.gitattributes; rm assets/.gitattributes; git add -A; git commit -qm "top-level pattern"
chmod u+w assets/q.dat assets/deep/r.dat
git lfs post-checkout 0000000000000000000000000000000000000000 "$(git rev-parse HEAD)" 1
stat -c '%A %n' assets/q.dat assets/deep/r.dat
