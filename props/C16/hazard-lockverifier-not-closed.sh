#!/bin/bash
# Design hazard "lockVerifier is never Close()d" (commands/lockverifier.go: newLockClient() inside Verify, no Close):
# the pre-push hook runs SearchLocksVerifiable, which clears and refills the in-memory cache with ours AND theirs,
# but because the client is never closed nothing is written to lfs/lockcache.db.  Refuted as a property breach:
# a push leaves the cached list of own locks unchanged (this is also an oracle of the check: cache unchanged after push).
. "$(dirname "$0")/repro-setup.sh"
(cd $T/u1 && git lfs lock p.dat 2>/dev/null)
cd $T/u2; git lfs lock q.dat 2>/dev/null; table
say "u2 cached own locks before the push"; git lfs locks --local --json 2>/dev/null
echo more >> r.txt; git commit -qam r; git push origin main 2>&1 | grep -v "contains credentials"; echo "push exit=${PIPESTATUS[0]}"
say "u2 cached own locks after the push"; git lfs locks --local --json 2>/dev/null
