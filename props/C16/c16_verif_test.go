package c16

// C16 — file locks: others' locks block pushes; write bits and the cache of own locks follow the server.
//
// Explicit-state model checking of the REAL git-lfs binary and the real git: multi-source breadth-first search over
// the operation sequences of two users (two clones, one fake LFS server with a multi-user lock table) with canonical
// state deduplication (symmetric in the two users, lock ids up to order) and server fault answers as bounded
// deviations.  After every transition the reference "knowledge" model of DESIGN.md §3/C16 is evaluated.

import (
	"encoding/json"
	"fmt"
	"io/fs"
	"os"
	"path/filepath"
	"runtime"
	"sort"
	"strings"
	"sync"
	"testing"
	"time"

	"github.com/git-lfs/git-lfs/v3/verifx/gitx"
	"github.com/git-lfs/git-lfs/v3/verifx/vx"
)

// ---------------------------------------------------------------------------------------------------------
// operations

type opDef struct {
	Name  string
	User  int
	Kind  string // lock unlock unlock-id unlock-force locks locks-json locks-verify locks-verify-json locks-cached edit-new edit-old edit-r restore commit checkout merge push
	File  string
	Files []string // lock / unlock: the path list of the command, relative to the work-tree root (File is its first element)
	Cwd   string   // directory (relative to the work-tree root) the command is invoked from; "" = the root
	Typed []string // lock / unlock: the path arguments as typed relative to Cwd (nil: Files)
	Refs  []string // push: remote branch names updated by ONE `git push` (empty: the user's own branch work-<user>)
	Fault *faultDef
	Page  bool
	Limit int // locks / locks --json / locks --verify [--json]: `--limit N` (0: no --limit argument)
}

func (o opDef) deviates() bool { return o.Fault != nil || o.Page }

func mk(u int, kind, file string) opDef {
	n := users[u] + ": " + kindText(kind, file)
	o := opDef{Name: n, User: u, Kind: kind, File: file}
	if kind == "lock" || kind == "unlock" || kind == "unlock-force" {
		o.Files = []string{file}
	}
	return o
}

// mkc is lock / unlock (/ --force / --id) of ONE path invoked from the directory cwd of the work tree: typed is the argument as
// written relative to cwd, file the same path relative to the work-tree root.
func mkc(u int, kind, cwd, typed, file string) opDef {
	o := mk(u, kind, file)
	o.Cwd = cwd
	if kind != "unlock-id" {
		o.Typed = []string{typed}
		o.Name = users[u] + ": " + kindText(kind, typed)
	}
	if cwd != "" {
		o.Name = strings.Replace(o.Name, ": ", ": (in "+cwd+"/) ", 1)
	}
	return o
}

func (o opDef) args() []string {
	if o.Typed != nil {
		return o.Typed
	}
	return o.Files
}

// mkl is lock / unlock over a path list in one command.
func mkl(u int, kind string, files ...string) opDef {
	o := mk(u, kind, strings.Join(files, " "))
	o.File, o.Files = files[0], files
	return o
}

func kindText(kind, file string) string {
	switch kind {
	case "lock":
		return "git lfs lock " + file
	case "unlock":
		return "git lfs unlock " + file
	case "unlock-id":
		return "git lfs unlock --id <id of the lock on " + file + ">"
	case "unlock-force":
		return "git lfs unlock --force " + file
	case "locks":
		return "git lfs locks"
	case "locks-json":
		return "git lfs locks --json"
	case "locks-verify":
		return "git lfs locks --verify"
	case "locks-verify-json":
		return "git lfs locks --verify --json"
	case "locks-cached":
		return "git lfs locks --cached"
	case "edit-new":
		return "edit " + file + " (new content)"
	case "edit-old":
		return "edit " + file + " (content of an older, already pushed version)"
	case "edit-dup":
		return "overwrite " + file + " with a copy of r.txt as pushed (bytes that already exist on the remote under another name)"
	case "edit-replace":
		return "save " + file + " the way an editor does (new content written to a new file, mode 0644, renamed over the old one)"
	case "clone":
		return "git clone <remote> fresh (a new clone of the same user: filter-process installs the hooks, post-checkout runs with the null id)"
	case "create":
		return "create " + file + " (new, untracked file)"
	case "add":
		return "git add " + file
	case "switch":
		return "git checkout -b " + file + " origin/" + file
	case "restore":
		return "git checkout -- " + file
	case "commit":
		return "git commit -a"
	case "checkout":
		return "git checkout <other branch: side/work>"
	case "merge":
		return "git merge side"
	case "push":
		return "git push origin work"
	}
	return kind + " " + file
}

// lim is the lock-listing operation o with `--limit n`.
func (o opDef) lim(n int) opDef {
	o.Limit = n
	o.Name += fmt.Sprintf(" --limit %d", n)
	return o
}

func (o opDef) with(f *faultDef, page bool) opDef {
	o.Fault, o.Page = f, page
	var tags []string
	if page {
		tags = append(tags, "server paginates lock lists (1 per page)")
	}
	if f != nil {
		tags = append(tags, fmt.Sprintf("server answers %d to %s request no. %d", f.Status, f.Kind, f.Nth))
	}
	o.Name += " [" + strings.Join(tags, "; ") + "]"
	return o
}

// ---------------------------------------------------------------------------------------------------------
// nodes

type node struct {
	snap   snap
	obs    *obs
	dirty  [2][nFiles]bool
	staged [2][nFiles]bool // the uncommitted state of the file is in the index (git add)
	merged [2]bool
	qEdit  [2]bool // q.dat was overwritten by edit-dup (then `merge side` would conflict and is not offered)
	devs   int
	init   int
	path   []int
	depth  int
}

type initState struct {
	Desc     string
	Node     *node
	RO       bool            // lfs.setlockablereadonly in effect
	Lay      *layout         // nil: classic
	Lockable map[string]bool // paths layout: which files carry the lockable attribute (per `git check-attr`); nil: classic (p,q,n,u)
	PatClass string          // paths layout: how the lockable patterns are spelled (part of write-bit fingerprints); "" for classic
}

func (is *initState) layout() *layout {
	if is.Lay == nil {
		return layClassic
	}
	return is.Lay
}

func (is *initState) lockable(f string) bool {
	if is.Lockable == nil {
		return lockable(f)
	}
	return is.Lockable[f]
}

type partDef struct {
	Name     string
	Inits    []initState
	Ops      []opDef
	MaxDepth int
	MaxDevs  int
	Share    float64 // share of the time budget (guard only; unused time rolls over)
	Sym      bool    // both users have the same alphabet: states are identified up to exchanging the users
	ByRef    bool    // the fake server scopes locks by ref (fakelfs.LocksByRef)
}

func (p *partDef) lay() *layout { return p.Inits[0].layout() }

func (p *partDef) key(o *obs) uint64 {
	if p.Sym {
		return o.Key
	}
	return o.KeyA
}

func (p *partDef) points(init int, path []int) []vx.Point {
	pts := []vx.Point{{K: vx.Input, N: len(p.Inits), C: init}}
	for _, o := range path {
		pts = append(pts, vx.Point{K: vx.Input, N: len(p.Ops) + 1, C: o + 1})
	}
	return pts
}

func (p *partDef) names(path []int) []string {
	var r []string
	for _, o := range path {
		r = append(r, p.Ops[o].Name)
	}
	return r
}

// enabled decides statically (from the model part of the node) whether an operation is offered in a state.
func enabled(lay *layout, n *node, o opDef, maxDevs int) bool {
	u := o.User
	if o.deviates() && n.devs >= maxDevs {
		return false
	}
	br := n.obs.branch(u)
	fileIdx, wfiles := lay.idx, lay.Files
	if lay != layClassic {
		// paths layout: commands that cannot succeed (lock of a path already locked, unlock of a path without a lock) are
		// the business of the classic scenarios
		switch o.Kind {
		case "lock":
			return n.obs.tableAt(o.File) == nil
		case "unlock", "unlock-force":
			return n.obs.tableAt(o.File) != nil
		case "clone":
			// a new clone knows none of the user's locks: only demanded while the server holds none of his
			for _, l := range n.obs.Table {
				if l.Owner == users[u] {
					return false
				}
			}
			return n.depth == 0
		}
	}
	switch o.Kind {
	case "unlock-id":
		return n.obs.tableAt(o.File) != nil
	case "edit-dup":
		return !n.dirty[u][fileIdx(o.File)] && !n.merged[u] && !n.qEdit[u] && br == "work"
	case "edit-new", "edit-old", "edit-r", "edit-replace":
		return !n.dirty[u][fileIdx(o.File)]
	case "restore":
		return n.dirty[u][fileIdx(o.File)] && !n.staged[u][fileIdx(o.File)]
	case "create":
		return !n.obs.U[u].Exists[fileIdx(o.File)] && br == "work"
	case "add":
		return n.dirty[u][fileIdx(o.File)] && !n.staged[u][fileIdx(o.File)]
	case "commit":
		if br != "work" {
			return false
		}
		for i, f := range wfiles {
			if n.dirty[u][i] && (f != fU || n.staged[u][i]) { // an untracked file is not committed by `commit -a`
				return true
			}
		}
		return false
	case "merge":
		return br == "work" && !n.merged[u] && !n.qEdit[u]
	case "checkout":
		return !n.qEdit[u] // side changes q.dat too: git would refuse or need a merge
	case "push":
		if len(o.Refs) > 0 {
			for _, r := range o.Refs {
				if n.obs.remoteRef("refs/heads/"+r) != n.obs.ref(u, "refs/heads/work") {
					return br == "work"
				}
			}
			return false // every target already is at the tip
		}
		if o.deviates() && n.obs.ref(u, "refs/heads/work") == n.obs.remoteRef("refs/heads/work-"+users[u]) {
			return false // nothing to push: the deviation could not matter
		}
		return br == "work"
	}
	return true
}

// ---------------------------------------------------------------------------------------------------------
// one transition on the real binaries

type stepOut struct {
	node     *node
	res      gitx.Res
	cmd      string
	viols    []vx.Violation
	outcome  string
	nontriv  bool
	inconcl  string
	counters map[string]int64
	evals    int64
	apiLog   []string
}

func (so *stepOut) viol(fp, msg string, detail interface{}) {
	for _, v := range so.viols {
		if v.Fingerprint == fp {
			return
		}
	}
	so.viols = append(so.viols, vx.Violation{Fingerprint: fp, Msg: msg, Detail: detail})
}

type pushFacts struct {
	Enabled  string              // effective lfs.<url>.locksverify before the push: "true", "false", ""
	Commits  []string            // new commits (not reachable from any remote-tracking ref)
	Touched  map[string][]string // path added/modified -> commits doing so
	LocalTip string
}

func (e *envT) pushFacts(w *world, u int) (pushFacts, string) {
	dir := w.clone(u)
	pf := pushFacts{Touched: map[string][]string{}}
	// effective value the way git resolves lfs.<url>.locksverify for the endpoint URL of this clone (best URL match,
	// user name included): git-lfs itself may add a more specific key (see finding-4.md)
	r := w.gx.Git(dir, "config", "--get-urlmatch", "lfs.locksverify", w.userURL(users[u]))
	if toolFailed(r) {
		return pf, "tool failure: git config"
	}
	pf.Enabled = strings.TrimSpace(r.Out)
	r = w.gx.Git(dir, "log", "--no-renames", "-c", "--name-status", "--format=commit:%H", "work", "--not", "--remotes=origin")
	if !r.OK() {
		if toolFailed(r) {
			return pf, "tool failure: git log"
		}
		panic(vx.ToolError{Msg: "git log failed: " + r.String()})
	}
	cur := ""
	for _, ln := range strings.Split(r.Out, "\n") {
		ln = strings.TrimRight(ln, "\r")
		if strings.HasPrefix(ln, "commit:") {
			cur = ln[7:]
			pf.Commits = append(pf.Commits, cur)
			continue
		}
		f := strings.Split(ln, "\t")
		if len(f) < 2 || cur == "" {
			continue
		}
		if strings.ContainsAny(f[0], "AM") {
			path := f[len(f)-1]
			pf.Touched[path] = append(pf.Touched[path], cur)
		}
	}
	return pf, ""
}

// classifyUndetected explains why a path locked by the other user went through (only run when a violation is reported).
func (e *envT) classifyUndetected(w *world, u int, pf pushFacts, paths []string, preRemote []string) string {
	dir := w.clone(u)
	old := map[string]bool{}
	// objects the remote already had BEFORE this push (the push itself moved remote-tracking refs): preRemote = the
	// values of all refs/remotes/origin/* before the push
	oargs := append([]string{"rev-list", "--objects"}, preRemote...)
	r := w.gx.Git(dir, oargs...)
	for _, ln := range strings.Split(r.Out, "\n") {
		if f := strings.Fields(ln); len(f) >= 1 {
			old[f[0]] = true
		}
	}
	named := map[string]string{}
	args := append([]string{"rev-list", "--objects"}, pf.Commits...)
	args = append(args, "--not")
	args = append(args, preRemote...)
	r = w.gx.Git(dir, args...)
	for _, ln := range strings.Split(r.Out, "\n") {
		if f := strings.SplitN(ln, " ", 2); len(f) == 2 {
			named[f[0]] = f[1]
		}
	}
	class := "content-already-on-remote"
	for _, p := range paths {
		for _, c := range pf.Touched[p] {
			b := strings.TrimSpace(w.gx.Git(dir, "rev-parse", c+":"+p).Out)
			switch {
			case old[b]:
			case named[b] != "" && named[b] != p:
				if class == "content-already-on-remote" {
					class = "content-shared-with-other-new-path"
				}
			default:
				return "new-blob"
			}
		}
	}
	return class
}

func (e *envT) runOp(w *world, n *node, o opDef) (gitx.Res, string) {
	top := w.clone(o.User)
	dir, in := top, ""
	if o.Cwd != "" {
		dir, in = filepath.Join(top, o.Cwd), "(in "+o.Cwd+"/) "
	}
	lfs := func(args ...string) (gitx.Res, string) {
		return w.gx.LFS(dir, args...), in + "git lfs " + strings.Join(args, " ")
	}
	git := func(args ...string) (gitx.Res, string) {
		return w.gx.Git(dir, args...), in + "git " + strings.Join(args, " ")
	}
	head := n.obs.ref(o.User, "refs/heads/"+n.obs.branch(o.User))
	write := func(f, content string) (gitx.Res, string) {
		p := filepath.Join(top, f)
		st, err := os.Stat(p)
		if err != nil {
			panic(vx.ToolError{Msg: "edit: " + err.Error()})
		}
		fh, err := os.OpenFile(p, os.O_WRONLY|os.O_TRUNC, 0)
		if err != nil {
			panic(vx.ToolError{Msg: "edit: " + err.Error()})
		}
		fh.WriteString(content)
		fh.Close()
		os.Chmod(p, st.Mode().Perm())
		return gitx.Res{}, fmt.Sprintf("(write %q to %s in place, mode kept)", content, f)
	}
	if o.Limit > 0 {
		switch o.Kind {
		case "locks", "locks-json", "locks-verify", "locks-verify-json":
			l := lfs
			lfs = func(args ...string) (gitx.Res, string) { return l(append(args, "--limit", fmt.Sprint(o.Limit))...) }
		default:
			panic(vx.ToolError{Msg: "--limit on op kind " + o.Kind})
		}
	}
	switch o.Kind {
	case "lock":
		return lfs(append([]string{"lock"}, o.args()...)...)
	case "unlock":
		return lfs(append([]string{"unlock"}, o.args()...)...)
	case "unlock-force":
		return lfs(append([]string{"unlock", "--force"}, o.args()...)...)
	case "unlock-id":
		return lfs("unlock", "--id", n.obs.tableAt(o.File).ID)
	case "locks":
		return lfs("locks")
	case "locks-json":
		return lfs("locks", "--json")
	case "locks-verify":
		return lfs("locks", "--verify")
	case "locks-verify-json":
		return lfs("locks", "--verify", "--json")
	case "locks-cached":
		return lfs("locks", "--cached")
	case "edit-new":
		return write(o.File, "new "+o.File+" on top of "+head+"\n")
	case "edit-old":
		return write(o.File, "p-old\n")
	case "edit-dup":
		return write(o.File, "r-base\n")
	case "edit-replace":
		p := filepath.Join(top, o.File)
		tmp := p + ".editor-tmp"
		if err := os.WriteFile(tmp, []byte("saved "+o.File+" on top of "+head+"\n"), 0644); err != nil {
			panic(vx.ToolError{Msg: "edit-replace: " + err.Error()})
		}
		os.Chmod(tmp, 0644)
		if err := os.Rename(tmp, p); err != nil {
			panic(vx.ToolError{Msg: "edit-replace: " + err.Error()})
		}
		return gitx.Res{}, "(write new content to " + o.File + ".editor-tmp, mode 0644, rename it over " + o.File + ")"
	case "clone":
		fresh := filepath.Join(w.root, "fresh")
		os.RemoveAll(fresh)
		name := users[o.User]
		r := w.gx.Git(w.root, "-c", "lfs.url="+w.userURL(name), "-c", "lfs."+w.lfsURL()+".access=basic", "clone", "-q", "--template="+e.tmpl, filepath.Join(w.root, "remote.git"), fresh)
		return r, "git -c lfs.url=<url of " + name + "> clone -q <remote> fresh"
	case "create":
		if err := os.WriteFile(filepath.Join(dir, o.File), []byte("new file "+o.File+"\n"), 0644); err != nil {
			panic(vx.ToolError{Msg: "create: " + err.Error()})
		}
		return gitx.Res{}, "(create " + o.File + ", mode 0644, never added)"
	case "add":
		return git("add", o.File)
	case "switch":
		return git("checkout", "-q", "-b", o.File, "origin/"+o.File)
	case "restore":
		if o.Typed != nil {
			return git("checkout", "--", o.Typed[0])
		}
		return git("checkout", "--", o.File)
	case "commit":
		return git("commit", "-q", "-a", "-m", "c")
	case "checkout":
		if n.obs.branch(o.User) == "work" {
			return git("checkout", "-q", "side")
		}
		return git("checkout", "-q", "work")
	case "merge":
		return git("merge", "-q", "--no-edit", "side")
	case "push":
		if len(o.Refs) > 0 {
			args := []string{"push", "-q", "origin"}
			for _, r := range o.Refs {
				args = append(args, "work:refs/heads/"+r)
			}
			return git(args...)
		}
		return git("push", "-q", "origin", "work:refs/heads/work-"+users[o.User])
	}
	panic(vx.ToolError{Msg: "unknown op kind " + o.Kind})
}

// toolFailed: the command could not be run to completion by the OS (timeout guard, fork/exec failure on an overloaded
// machine): never an observation, the case is inconclusive.
func toolFailed(r gitx.Res) bool { return r.TimedOut || r.Code == -2 }

func clip(s string, n int) string {
	if len(s) > n {
		return s[:n] + "…"
	}
	return s
}

type localLock struct {
	ID    string `json:"id"`
	Path  string `json:"path"`
	Owner *struct {
		Name string `json:"name"`
	} `json:"owner"`
}

// step applies one operation to the pre node inside world w and evaluates every oracle clause.
func (e *envT) step(w *world, pre *node, is *initState, o opDef, where string) stepOut {
	so := stepOut{counters: map[string]int64{}}
	ro, lay := is.RO, is.layout()
	w.lay = lay
	fileIdx, wfiles, lockable := lay.idx, lay.Files, is.lockable
	// fingerprint suffix of the write-bit clause in the paths layout: spelling of the lockable patterns + directory level of the file
	wbClass := func(f string) string {
		if is.PatClass == "" {
			return ""
		}
		return ":" + is.PatClass + ":" + level(f)
	}
	captured := false
	defer func() {
		if !captured {
			w.invalidate()
		}
	}()
	t0 := time.Now()
	w.restore(pre.snap)
	so.counters["t_us_restore"] = time.Since(t0).Microseconds()
	u, v := o.User, 1-o.User
	dir := w.clone(u)

	var pf pushFacts
	if o.Kind == "push" {
		var why string
		if pf, why = e.pushFacts(w, u); why != "" {
			so.inconcl = why
			return so
		}
	}
	var scope []string // files whose write flag the hook is obliged to recompute
	preHead := pre.obs.ref(u, "refs/heads/"+pre.obs.branch(u))

	w.arm(o.Fault, o.Page)
	t1 := time.Now()
	res, cmd := e.runOp(w, pre, o)
	so.counters["t_us_command"] = time.Since(t1).Microseconds()
	hits, apiLog := w.disarm()
	so.res, so.cmd, so.apiLog = res, cmd, apiLog
	if toolFailed(res) {
		so.inconcl = "tool failure (timeout or exec error): " + o.Kind
		return so
	}
	t2 := time.Now()
	post := w.observe()
	so.counters["t_us_observe"] = time.Since(t2).Microseconds()
	nn := &node{obs: post, dirty: pre.dirty, staged: pre.staged, merged: pre.merged, qEdit: pre.qEdit, devs: pre.devs, init: pre.init, depth: pre.depth + 1}
	if o.deviates() {
		nn.devs++
	}
	so.node = nn
	fileI := fileIdx(o.File)
	fpKind := o.Kind // operation class used in fingerprints: the three unlock forms share UnlockFileById
	if strings.HasPrefix(fpKind, "unlock") {
		fpKind = "unlock"
	}
	postHead := post.ref(u, "refs/heads/"+post.branch(u))

	// model bookkeeping (dirty / merged) and hook scopes
	fullScan := lay.FullScan // what `git checkout -- <file>` and a merge oblige git-lfs to recompute: every tracked lockable file
	if fullScan == nil {
		for _, f := range wfiles {
			if lockable(f) {
				fullScan = append(fullScan, f)
			}
		}
	}
	switch o.Kind {
	case "edit-new":
		nn.dirty[u][fileI] = true // the new content names the current tip, which no committed version can
	case "edit-dup":
		nn.dirty[u][fileI] = true
		nn.qEdit[u] = true
	case "edit-old":
		// writing the bytes HEAD already has leaves the file clean
		hc := e.headContent(w, u, o.File)
		if hc == "?" {
			so.inconcl = "tool failure: git cat-file"
			return so
		}
		nn.dirty[u][fileI] = post.U[u].Content[fileI] != hc
	case "create", "edit-replace":
		nn.dirty[u][fileI] = true
	case "add":
		if res.OK() {
			nn.staged[u][fileI] = true
		}
	case "restore":
		if res.OK() {
			nn.dirty[u][fileI] = false
			scope = fullScan
		}
	case "commit":
		if res.OK() && postHead != preHead {
			for i, f := range wfiles {
				if f == fU && !pre.staged[u][i] {
					continue // untracked: not part of the commit, stays uncommitted
				}
				if pre.dirty[u][i] && lockable(f) {
					scope = append(scope, f)
				}
				nn.dirty[u][i], nn.staged[u][i] = false, false
			}
		}
	case "checkout":
		if res.OK() && post.branch(u) != pre.obs.branch(u) {
			r := w.gx.Git(dir, "diff-tree", "-r", "--name-only", "--no-commit-id", preHead, postHead)
			if toolFailed(r) {
				so.inconcl = "tool failure: git diff-tree"
				return so
			}
			for _, f := range strings.Fields(r.Out) {
				if lockable(f) {
					scope = append(scope, f)
				}
			}
		}
	case "merge":
		if res.OK() && postHead != preHead {
			nn.merged[u] = true
			scope = fullScan
		}
	}

	for i := range users {
		post.Staged[i] = fmt.Sprint(nn.staged[i])
	}
	post.Key, post.KeyA = post.canonKey()

	// ---- which locks did the server grant / release in this transition
	preTab, postTab := map[string]lockRec{}, map[string]lockRec{}
	for _, l := range pre.obs.Table {
		preTab[l.ID] = l
	}
	for _, l := range post.Table {
		postTab[l.ID] = l
	}
	var granted, released []lockRec
	for id, l := range postTab {
		if _, ok := preTab[id]; !ok {
			granted = append(granted, l)
		}
	}
	for id, l := range preTab {
		if _, ok := postTab[id]; !ok {
			released = append(released, l)
		}
	}

	// ---- clause 2b: cached list of own locks == knowledge (granted - released, reset by a successful locks --verify)
	expect := map[string]cacheEnt{}
	for _, c := range pre.obs.U[u].Cache {
		expect[c.Path] = c
	}
	verifyKind := o.Kind == "locks-verify" || o.Kind == "locks-verify-json"
	limitReached := false // a `locks --verify --limit N` whose limit was reached (the server holds >= N locks): partial listing
	switch {
	case o.Kind == "lock":
		for _, g := range granted {
			if g.Owner == users[u] {
				expect[g.Path] = cacheEnt{Path: g.Path, ID: g.ID, Owner: g.Owner}
			}
		}
	case strings.HasPrefix(o.Kind, "unlock"):
		for _, r := range released {
			for p, c := range expect {
				if c.ID == r.ID {
					delete(expect, p)
				}
			}
		}
	case verifyKind && hits == 0 && o.Limit > 0:
		// A listing with --limit N is a PARTIAL view of the server's table (complete only when the server holds fewer than N
		// locks): it may leave the cached list alone or bring single entries in line with the server, but it must not change
		// what the cache says about a lock away from both.  Per path the cached entry must therefore be what was known before
		// or what the server holds now.
		obsNow := map[string]cacheEnt{}
		for _, c := range post.U[u].Cache {
			obsNow[c.Path] = c
		}
		for _, l := range post.Table {
			if l.Owner != users[u] {
				continue
			}
			if c, ok := obsNow[l.Path]; ok && c.ID == l.ID {
				expect[l.Path] = cacheEnt{Path: l.Path, ID: l.ID, Owner: l.Owner} // brought in line with the server
			}
		}
		for p, x := range expect {
			if _, ok := obsNow[p]; !ok {
				if t := post.tableAt(p); t == nil || t.ID != x.ID || t.Owner != users[u] {
					delete(expect, p) // a stale entry (lock broken by the other user) dropped: in line with the server
				}
			}
		}
		limitReached = w.byRef || len(post.Table) >= o.Limit
		so.counters["clause2b_limited_verify_listings"]++
		if len(post.Table) > o.Limit {
			so.counters["clause2b_limited_verify_listings_truncated"]++
		}
	case verifyKind && hits == 0:
		expect = map[string]cacheEnt{}
		for _, l := range post.Table {
			if l.Owner == users[u] {
				expect[l.Path] = cacheEnt{Path: l.Path, ID: l.ID, Owner: l.Owner}
			}
		}
	}
	cacheRelevant := o.Kind == "lock" || strings.HasPrefix(o.Kind, "unlock") || verifyKind
	got := post.U[u].Cache
	if cacheRelevant {
		// the statement's observation point: `git lfs locks --local --json`
		r := w.gx.LFS(dir, "locks", "--local", "--json")
		if toolFailed(r) {
			so.inconcl = "tool failure: locks --local"
			return so
		}
		var ll []localLock
		if !r.OK() || json.Unmarshal([]byte(r.Out), &ll) != nil {
			so.viol("C16:cache:local-listing-fails", fmt.Sprintf("%s\nthen `%s`; `git lfs locks --local --json` failed: %s", where, cmd, clip(r.String(), 600)), nil)
		} else {
			var cli []cacheEnt
			for _, l := range ll {
				c := cacheEnt{Path: l.Path, ID: l.ID}
				if l.Owner != nil {
					c.Owner = l.Owner.Name
				}
				cli = append(cli, c)
			}
			sort.Slice(cli, func(i, j int) bool { return cli[i].Path < cli[j].Path })
			if fmt.Sprint(cli) != fmt.Sprint(got) {
				so.viol("C16:cache:local-listing-differs-from-cache-file", fmt.Sprintf("%s\nthen `%s`; `locks --local --json` lists %v but lockcache.db holds %v", where, cmd, cli, got), nil)
			}
			got = cli
		}
		so.counters["clause2_cache_checked_via_locks_local"]++
	}
	so.counters["clause2_cache_evaluations"]++
	so.evals++
	if post.U[u].CacheOK != "" {
		so.viol("C16:cache:corrupt", fmt.Sprintf("%s\nthen `%s`: %s", where, cmd, post.U[u].CacheOK), nil)
	}
	gotM := map[string]cacheEnt{}
	for _, c := range got {
		gotM[c.Path] = c
	}
	var diffs []string
	classes := map[string]bool{}
	for p, c := range gotM {
		x, ok := expect[p]
		if ok && x.ID == c.ID {
			continue
		}
		cl := "extra-stale-lock"
		if t := post.tableAt(p); t != nil && t.ID == c.ID && t.Owner != users[u] {
			cl = "extra-their-lock"
		} else if ok {
			cl = "wrong-id"
		}
		classes[cl] = true
		diffs = append(diffs, fmt.Sprintf("%s: cache lists %s (id %s, owner %s) which %s does not hold", cl, p, c.ID, c.Owner, users[u]))
	}
	for p, x := range expect {
		if c, ok := gotM[p]; !ok {
			classes["missing-own-lock"] = true
			diffs = append(diffs, fmt.Sprintf("missing-own-lock: %s (id %s) was granted to %s and not released, but is not in the cached list", p, x.ID, users[u]))
		} else if c.ID != x.ID {
			_ = c
		}
	}
	if len(diffs) > 0 {
		sort.Strings(diffs)
		var cls []string
		for c := range classes {
			cls = append(cls, c)
		}
		sort.Strings(cls)
		fk := fpKind
		if hits == 0 && fk == "locks-verify-json" {
			fk = "locks-verify" // same code path unless the call fails
		}
		if limitReached && verifyKind {
			fk = "locks-verify-limit" // the partial listing changed the cache
		}
		fp := "C16:cache:" + fk + ":" + strings.Join(cls, "+")
		if hits > 0 && verifyKind {
			fp = "C16:cache:" + fk + ":changed-by-failed-call"
		}
		so.viol(fp,
			fmt.Sprintf("%s\nthen `%s` (exit %d) as %s: cached list of own locks differs from the locks the server granted and has not released:\n  %s\nserver table after: %v\ncache before: %v\ncache after:  %v\nlock API requests: %v",
				where, cmd, res.Code, users[u], strings.Join(diffs, "\n  "), post.Table, pre.obs.U[u].Cache, got, apiLog),
			map[string]interface{}{"stdout": clip(res.Out, 400), "stderr": clip(res.Err, 600)})
	}
	if fmt.Sprint(post.U[v].Cache) != fmt.Sprint(pre.obs.U[v].Cache) {
		so.viol("C16:cache:"+fpKind+":other-users-cache-changed", fmt.Sprintf("%s\nthen `%s` by %s changed the lock cache of %s: %v -> %v", where, cmd, users[u], users[v], pre.obs.U[v].Cache, post.U[v].Cache), nil)
	}

	// ---- clause 2a: write bits
	held := func(f string) bool { _, ok := expect[f]; return ok }
	must := map[string]bool{}
	if o.Kind == "lock" {
		for _, g := range granted {
			if g.Owner == users[u] && fileIdx(g.Path) >= 0 {
				must[g.Path] = true
			}
		}
	}
	if ro {
		if strings.HasPrefix(o.Kind, "unlock") {
			for _, r := range released {
				// the server has at most one lock per path: after a release of the lock on r.Path nobody holds it,
				// whatever an older (stale) record of the user says
				if lockable(r.Path) {
					must[r.Path] = false
				}
			}
		}
		for _, f := range scope {
			must[f] = held(f)
		}
	}
	if o.Kind == "clone" {
		e.judgeClone(w, &so, is, where)
		if so.inconcl != "" {
			return so
		}
	}
	for i, f := range wfiles {
		preW, postW := pre.obs.U[u].W[i], post.U[u].W[i]
		if o.Kind == "edit-replace" && i == fileI {
			continue // the user's editor, not git-lfs, gave the file its new mode
		}
		if !post.U[u].Exists[i] {
			// n.dat comes and goes with the branch; nothing else may remove a file
			if pre.obs.U[u].Exists[i] && o.Kind != "checkout" {
				so.viol("C16:file-vanished:"+o.Kind, fmt.Sprintf("%s\nthen `%s`: %s no longer exists in %s's clone", where, cmd, f, users[u]), nil)
			}
			continue
		}
		if !pre.obs.U[u].Exists[i] {
			preW = postW // created by this operation (checkout / merge): only an obliged recomputation is judged
		}
		ctx := func() string {
			return fmt.Sprintf("%s\nthen `%s` (exit %d) as %s, lfs.setlockablereadonly=%v: ", where, cmd, res.Code, users[u], ro)
		}
		if want, ok := must[f]; ok {
			so.counters["clause2_write_bit_recomputations_checked"]++
			so.evals++
			if postW != want {
				state := "held-but-read-only"
				if !want {
					state = "not-held-but-writable"
				}
				so.viol("C16:write-bit:"+fpKind+":"+state+wbClass(f),
					ctx()+fmt.Sprintf("%s must be %s afterwards (own locks now: %v) but its mode is writable=%v", f, map[bool]string{true: "writable", false: "read-only"}[want], keys(expect), postW),
					map[string]interface{}{"stderr": clip(res.Err, 400)})
			}
			continue
		}
		if preW == postW {
			continue
		}
		switch {
		case !lockable(f):
			so.viol("C16:write-bit:"+fpKind+":non-lockable-file-changed"+wbClass(f), ctx()+fmt.Sprintf("write bit of the non-lockable %s changed %v -> %v", f, preW, postW), nil)
		case !ro && !postW:
			so.viol("C16:write-bit:"+fpKind+":made-read-only-although-feature-off", ctx()+fmt.Sprintf("%s was made read-only", f), nil)
		case postW != held(f):
			so.viol("C16:write-bit:"+fpKind+":changed-away-from-lock-state"+wbClass(f), ctx()+fmt.Sprintf("write bit of %s changed %v -> %v although %s holds %v", f, preW, postW, users[u], keys(expect)), nil)
		}
	}
	if !ro {
		so.counters["clause2_readonly_off_evaluations"]++
	}
	for i, f := range wfiles {
		if pre.obs.U[v].W[i] != post.U[v].W[i] || pre.obs.U[v].Content[i] != post.U[v].Content[i] || pre.obs.U[v].Exists[i] != post.U[v].Exists[i] {
			so.viol("C16:write-bit:"+fpKind+":other-clone-changed", fmt.Sprintf("%s\nthen `%s` by %s changed %s in the clone of %s", where, cmd, users[u], f, users[v]), nil)
		}
	}

	// ---- clause 3: unlock without --force never releases the lock of a file with uncommitted changes (judged per path)
	if o.Kind == "unlock" || o.Kind == "unlock-id" {
		targets := o.Files
		if o.Kind == "unlock-id" {
			targets = []string{o.File}
		}
		for _, f := range targets {
			if fi := fileIdx(f); fi < 0 || !pre.dirty[u][fi] {
				continue
			}
			l := pre.obs.tableAt(f)
			if l == nil {
				continue
			}
			fstate := "modified" // how the uncommitted change looks to git status
			switch fi := fileIdx(f); {
			case f == fU && !pre.staged[u][fi]:
				fstate = "untracked"
			case f == fU:
				fstate = "added-new-file"
			case pre.staged[u][fi]:
				fstate = "staged"
			}
			so.counters["clause3_unlock_of_modified_file_evaluations"]++
			so.counters["clause3_unlock_of_"+fstate+"_file"]++
			if o.Cwd != "" {
				so.counters["clause3_unlock_invoked_from_subdirectory"]++
			}
			so.evals++
			if post.tableAt(f) == nil || post.tableAt(f).ID != l.ID {
				so.viol("C16:unlock-released-modified-file:"+o.Kind+":"+fstate+map[bool]string{true: ":fault", false: ""}[hits > 0]+map[bool]string{true: ":invoked-from-subdirectory", false: ""}[o.Cwd != ""],
					fmt.Sprintf("%s\nthen `%s` (exit %d) as %s while %s has uncommitted changes: the server released lock %s of %s (held by %s) although --force was not given\nstdout: %s\nstderr: %s",
						where, cmd, res.Code, users[u], f, l.ID, l.Path, l.Owner, clip(res.Out, 300), clip(res.Err, 300)), nil)
			}
		}
	}

	// ---- clause 1: push
	if o.Kind == "push" {
		remoteRefs := []string{"refs/heads/work-" + users[u]}
		if len(o.Refs) > 0 {
			remoteRefs = nil
			for _, r := range o.Refs {
				remoteRefs = append(remoteRefs, "refs/heads/"+r)
			}
		}
		remoteRef := strings.Join(remoteRefs, "+")
		tip := post.ref(u, "refs/heads/work")
		accepted, rejected := res.Code == 0, res.Code != 0
		var preR, postR []string
		for _, rr := range remoteRefs {
			accepted = accepted && post.remoteRef(rr) == tip
			rejected = rejected && post.remoteRef(rr) == pre.obs.remoteRef(rr)
			preR, postR = append(preR, clip(pre.obs.remoteRef(rr), 8)), append(postR, clip(post.remoteRef(rr), 8))
		}
		// a lock counts for this push when the server reports it for one of the updated refs (every lock when the
		// server does not scope locks by ref)
		theirsM, ownM := map[string]bool{}, map[string]bool{}
		for _, l := range pre.obs.Table {
			if _, touched := pf.Touched[l.Path]; !touched {
				continue
			}
			if w.byRef {
				on := false
				for _, rr := range remoteRefs {
					on = on || l.Ref == rr
				}
				if !on {
					continue
				}
			}
			if l.Owner == users[u] {
				ownM[l.Path] = true
			} else {
				theirsM[l.Path] = true
			}
		}
		var theirs, own []string
		for p := range theirsM {
			theirs = append(theirs, p)
		}
		for p := range ownM {
			if !theirsM[p] {
				own = append(own, p)
			}
		}
		sort.Strings(theirs)
		sort.Strings(own)
		ctx := fmt.Sprintf("%s\nthen `%s` as %s with %s=%q: new commits %v add/modify %v; locked by others: %v, by the pusher: %v; server table %v\nexit %d, remote ref(s) "+remoteRef+" %s -> %s (local tip %s)\nstderr: %s",
			where, cmd, users[u], "lfs.<url>.locksverify", pf.Enabled, short(pf.Commits), keysL(pf.Touched), theirs, own, pre.obs.Table, res.Code,
			strings.Join(preR, ","), strings.Join(postR, ","), clip(tip, 8), clip(res.Err, 700))
		if !accepted && !rejected {
			so.viol("C16:push:inconsistent-result", ctx, nil)
		}
		if pf.Enabled == "true" {
			if len(theirs) > 0 {
				so.counters["clause1_push_must_be_rejected_evaluations"]++
				so.evals++
				if !rejected {
					fp := "C16:push-accepted:path-locked-by-other"
					switch {
					case hits > 0 && (o.Fault.Status == 404 || o.Fault.Status == 501):
						fp += ":verify-answered-not-implemented"
					case hits > 0:
						fp += fmt.Sprintf(":verify-answered-%d", o.Fault.Status)
					default:
						var preRemote []string
						for _, r := range pre.obs.U[u].Refs {
							if f := strings.Fields(r); len(f) == 2 && strings.HasPrefix(f[0], "refs/remotes/origin/") && len(f[1]) == 40 {
								preRemote = append(preRemote, f[1])
							}
						}
						cl := e.classifyUndetected(w, u, pf, theirs, preRemote)
						fp += ":" + cl
						if len(remoteRefs) > 1 {
							fp += ":multi-ref-push"
						}
						if o.Page && cl == "new-blob" {
							fp += ":paged"
						}
					}
					so.viol(fp, ctx, nil)
				}
			} else if hits == 0 {
				so.counters["clause1_push_must_be_accepted_evaluations"]++
				if len(own) > 0 {
					so.counters["clause1_push_of_own_locked_paths"]++
				}
				so.evals++
				if !accepted {
					fp := "C16:push-rejected:no-path-locked-by-other"
					if len(own) > 0 {
						fp = "C16:push-rejected:only-own-locks"
					}
					if o.Page {
						fp += ":paged"
					}
					so.viol(fp, ctx, nil)
				}
			}
		} else {
			so.counters["push_without_verification_enabled"]++
		}
		so.outcome = fmt.Sprintf("push[verify=%s,refs=%d]:%s:new=%d,theirs=%d,own=%d", pf.Enabled, len(remoteRefs), map[bool]string{true: "accepted", false: "rejected"}[accepted], len(pf.Commits), len(theirs), len(own))
		if post.U[u].Cfg != pre.obs.U[u].Cfg {
			so.outcome += ":config-changed"
		}
	}

	// ---- outcome class (vacuity indicator)
	if so.outcome == "" {
		so.outcome = o.Kind + fmt.Sprintf(":exit%d", res.Code)
		if len(granted) > 0 {
			so.outcome += ":granted"
		}
		if len(released) > 0 {
			own := released[0].Owner == users[u]
			so.outcome += map[bool]string{true: ":released-own", false: ":released-their"}[own]
		}
		if fmt.Sprint(post.U[u].Cache) != fmt.Sprint(pre.obs.U[u].Cache) {
			so.outcome += ":cache-changed"
		}
		if post.U[u].W != pre.obs.U[u].W {
			so.outcome += ":bits-changed"
		}
		if len(must) > 0 {
			so.outcome += fmt.Sprintf(":recomputed%d", len(must))
		}
		if (o.Kind == "unlock" || o.Kind == "unlock-id") && fileI >= 0 && pre.dirty[u][fileI] {
			so.outcome += ":target-modified"
		}
		if len(o.Files) > 1 {
			so.outcome += fmt.Sprintf(":paths%d:granted%d:released%d", len(o.Files), len(granted), len(released))
		}
		if is.PatClass != "" {
			// paths layout: which directory levels were (re)computed, which of them to writable
			var lv []string
			lvSeen := map[string]bool{}
			for f, want := range must {
				if k := level(f) + map[bool]string{true: "+w", false: "-w"}[want]; !lvSeen[k] {
					lvSeen[k] = true
					lv = append(lv, k)
				}
			}
			sort.Strings(lv)
			so.outcome += ":" + is.PatClass + ":" + strings.Join(lv, ",")
			if o.Cwd != "" {
				so.outcome += ":from-subdir"
			}
		}
	}
	if hits > 0 {
		so.outcome += fmt.Sprintf(":fault%d", o.Fault.Status)
	} else if o.Fault != nil {
		so.outcome += ":fault-not-reached"
	}
	if o.Page {
		so.outcome += ":paged"
	}
	truncated := false
	if o.Limit > 0 {
		// how the limit relates to the number of locks the server holds (and how many of them are the acting user's)
		own := 0
		for _, l := range post.Table {
			if l.Owner == users[u] {
				own++
			}
		}
		truncated = len(post.Table) > o.Limit
		rel := map[bool]string{true: "truncated", false: "complete"}[truncated]
		if len(post.Table) == o.Limit {
			rel = "exactly-filled"
		}
		so.outcome += fmt.Sprintf(":limit%d:%s:own%d-of-%d", o.Limit, rel, own, len(post.Table))
		if !verifyKind {
			so.counters["clause2b_limited_plain_listings"]++
		}
	}
	so.nontriv = post.KeyA != pre.obs.KeyA || len(must) > 0 || hits > 0 || o.Kind == "push" || o.Kind == "clone" || truncated
	t3 := time.Now()
	nn.snap = w.capture()
	so.counters["t_us_capture"] = time.Since(t3).Microseconds()
	so.counters["t_us_step_total"] = time.Since(t0).Microseconds()
	captured = true
	return so
}

// judgeClone: the write bits in a NEW clone made by the acting user (who holds no lock on the server): git's checkout runs
// filter-process (p.dat is an LFS file), which installs the hooks; git then runs post-checkout with the null id = full scan.
// Every lockable file must be read-only, every other file writable.  The clone is removed again (the world state is unchanged).
func (e *envT) judgeClone(w *world, so *stepOut, is *initState, where string) {
	fresh := filepath.Join(w.root, "fresh")
	defer func() {
		filepath.WalkDir(fresh, func(q string, de fs.DirEntry, err error) error {
			if err == nil && de.IsDir() {
				os.Chmod(q, 0755)
			}
			return nil
		})
		os.RemoveAll(fresh)
	}()
	if !so.res.OK() {
		so.inconcl = "git clone failed: " + clip(so.res.String(), 300)
		return
	}
	if _, err := os.Stat(filepath.Join(fresh, ".git", "hooks", "post-checkout")); err != nil {
		so.inconcl = "the new clone has no post-checkout hook (filter-process did not install it)"
		return
	}
	if !is.RO {
		return
	}
	for _, f := range is.layout().Files {
		st, err := os.Lstat(filepath.Join(fresh, f))
		if err != nil {
			so.inconcl = "new clone lacks " + f
			return
		}
		wr := st.Mode().Perm()&0200 != 0
		so.counters["clause2_write_bit_recomputations_checked"]++
		so.counters["clause2_new_clone_files_checked"]++
		so.evals++
		cls := ""
		if is.PatClass != "" {
			cls = ":" + is.PatClass + ":" + level(f)
		}
		switch {
		case is.lockable(f) && wr:
			so.viol("C16:write-bit:clone:not-held-but-writable"+cls, fmt.Sprintf("%s\nthen `%s`: in the new clone the lockable file %s is writable although the user holds no lock (lockable files: %v)", where, so.cmd, f, lockableList(is)), nil)
		case !is.lockable(f) && !wr:
			so.viol("C16:write-bit:clone:non-lockable-file-changed"+cls, fmt.Sprintf("%s\nthen `%s`: in the new clone the non-lockable file %s is read-only", where, so.cmd, f), nil)
		}
	}
}

func lockableList(is *initState) []string {
	var r []string
	for _, f := range is.layout().Files {
		if is.lockable(f) {
			r = append(r, f)
		}
	}
	return r
}

func keys(m map[string]cacheEnt) []string {
	var r []string
	for k := range m {
		r = append(r, k)
	}
	sort.Strings(r)
	return r
}

func keysL(m map[string][]string) []string {
	var r []string
	for k := range m {
		r = append(r, k)
	}
	sort.Strings(r)
	return r
}

func short(l []string) []string {
	var r []string
	for _, s := range l {
		r = append(r, clip(s, 8))
	}
	return r
}

func (e *envT) headContent(w *world, u int, f string) string {
	r := w.gx.Git(w.clone(u), "cat-file", "--filters", "HEAD:"+f)
	if !r.OK() {
		return "?"
	}
	return shortSha([]byte(r.Out))
}

// ---------------------------------------------------------------------------------------------------------
// environment

type envT struct {
	scratch  string
	home     string
	binDir   string
	tmpl     string
	pool     chan *world
	worlds   []*world
	thorough bool
}

func newEnv(c *vx.Check) *envT {
	scratch := os.Getenv("VERIF_SCRATCH")
	if scratch == "" {
		scratch = os.TempDir()
	}
	if r, err := filepath.EvalSymlinks(scratch); err == nil {
		scratch = r
	}
	bin := os.Getenv("VERIF_GITLFS")
	if bin == "" {
		panic(vx.ToolError{Msg: "VERIF_GITLFS not set (prop.json needs gitlfs)"})
	}
	e := &envT{scratch: filepath.Join(scratch, "c16"), thorough: c.Thorough()}
	e.home = filepath.Join(e.scratch, "home")
	e.binDir = filepath.Join(e.scratch, "bin")
	e.tmpl = filepath.Join(e.scratch, "empty-template")
	for _, d := range []string{e.home, e.binDir, e.tmpl} {
		if err := os.MkdirAll(d, 0755); err != nil {
			panic(vx.ToolError{Msg: err.Error()})
		}
	}
	if err := os.Symlink(bin, filepath.Join(e.binDir, "git-lfs")); err != nil {
		panic(vx.ToolError{Msg: err.Error()})
	}
	cfg := "[filter \"lfs\"]\n\tclean = git-lfs clean -- %f\n\tsmudge = git-lfs smudge -- %f\n\tprocess = git-lfs filter-process\n\trequired = true\n" +
		"[user]\n\tname = V\n\temail = v@example.com\n[init]\n\tdefaultBranch = main\n[protocol \"file\"]\n\tallow = always\n[advice]\n\tdetachedHead = false\n[gc]\n\tauto = 0\n[core]\n\tfsync = none\n"
	if err := os.WriteFile(filepath.Join(e.home, ".gitconfig"), []byte(cfg), 0644); err != nil {
		panic(vx.ToolError{Msg: err.Error()})
	}
	n := runtime.NumCPU()
	if n > 16 {
		n = 16
	}
	if n < 2 {
		n = 2
	}
	e.pool = make(chan *world, n)
	for i := 0; i < n; i++ {
		w := newWorld(filepath.Join(e.scratch, fmt.Sprintf("w%02d", i)), e.home, e.binDir)
		e.worlds = append(e.worlds, w)
		e.pool <- w
	}
	return e
}

func (e *envT) close() {
	for _, w := range e.worlds {
		w.srv.Close()
	}
}

// buildBase constructs the base world with the real git / git-lfs in world w and returns its snapshot.
func (e *envT) buildBase(w *world) snap {
	gx := w.gx
	must := func(r gitx.Res, what string) {
		if !r.OK() {
			panic(vx.ToolError{Msg: "world construction: " + what + " failed: " + r.String()})
		}
	}
	remote := filepath.Join(w.root, "remote.git")
	os.MkdirAll(remote, 0755)
	must(gx.Git(remote, "init", "-q", "--bare", "--template="+e.tmpl, "-b", "main"), "init remote")
	seed := filepath.Join(w.root, "seed")
	os.MkdirAll(seed, 0755)
	must(gx.Git(seed, "init", "-q", "--template="+e.tmpl, "-b", "main"), "init seed")
	must(gx.Git(seed, "config", "lfs.url", w.userURL("seed")), "config")
	must(gx.Git(seed, "config", "lfs."+w.lfsURL()+".access", "basic"), "config")
	must(gx.Git(seed, "config", w.verifyKey(), "false"), "config")
	must(gx.LFS(seed, "install", "--local"), "lfs install (seed)")
	gitx.WriteFile(seed, ".gitattributes", []byte("*.dat lockable\np.dat filter=lfs diff=lfs merge=lfs -text\n"), 0644)
	gitx.WriteFile(seed, fP, []byte("p-old\n"), 0644)
	gitx.WriteFile(seed, fQ, []byte("q-base\n"), 0644)
	gitx.WriteFile(seed, fR, []byte("r-base\n"), 0644)
	must(gx.Git(seed, "add", "-A"), "add")
	must(gx.Git(seed, "commit", "-q", "-m", "c0"), "commit c0")
	os.Chmod(filepath.Join(seed, fP), 0644)
	gitx.WriteFile(seed, fP, []byte("p-base\n"), 0644)
	must(gx.Git(seed, "commit", "-q", "-a", "-m", "c1"), "commit c1")
	must(gx.Git(seed, "push", "-q", remote, "main", "main:refs/heads/rel-a", "main:refs/heads/rel-b"), "push seed")
	exec := func(dir string) { os.RemoveAll(dir) }
	for u, name := range users {
		dir := w.clone(u)
		must(gx.Git(w.root, "-c", "lfs.url="+w.userURL(name), "-c", "lfs."+w.lfsURL()+".access=basic", "clone", "-q", "--template="+e.tmpl, remote, dir), "clone "+name)
		must(gx.Git(dir, "config", "lfs.url", w.userURL(name)), "config")
		must(gx.Git(dir, "config", "lfs."+w.lfsURL()+".access", "basic"), "config")
		must(gx.Git(dir, "config", w.verifyKey(), "true"), "config")
		must(gx.LFS(dir, "install", "--local"), "lfs install")
		must(gx.Git(dir, "checkout", "-q", "-b", "side"), "checkout -b side")
		os.Chmod(filepath.Join(dir, fQ), 0644)
		gitx.WriteFile(dir, fQ, []byte("q-side\n"), 0644)
		gitx.WriteFile(dir, fN, []byte("n-side\n"), 0644)
		must(gx.Git(dir, "add", fN), "add n.dat")
		must(gx.Git(dir, "commit", "-q", "-a", "-m", "side"), "commit side")
		must(gx.Git(dir, "checkout", "-q", "-b", "work", "main"), "checkout -b work")
		head := strings.TrimSpace(gx.MustGit(dir, "rev-parse", "HEAD"))
		must(gx.LFS(dir, "post-checkout", zeroSha, head, "1"), "initial post-checkout")
	}
	exec(seed)
	w.cur = map[string]*ent{}
	return w.capture()
}

// variant derives an initial state from the base by setting the two configuration dimensions in both clones.
func (e *envT) variant(w *world, base snap, verify string, ro bool) initState {
	w.lay = layClassic
	w.restore(base)
	for u := range users {
		dir := w.clone(u)
		switch verify {
		case "unset":
			w.gx.MustGit(dir, "config", "--unset", w.verifyKey())
		default:
			w.gx.MustGit(dir, "config", w.verifyKey(), verify)
		}
		if !ro {
			w.gx.MustGit(dir, "config", "lfs.setlockablereadonly", "false")
			for _, f := range []string{fP, fQ} {
				os.Chmod(filepath.Join(dir, f), 0644)
			}
			// n.dat lives on side only: make the committed state of the feature-off world consistent there too
			w.gx.MustGit(dir, "checkout", "-q", "side")
			os.Chmod(filepath.Join(dir, fN), 0644)
			os.Chmod(filepath.Join(dir, fQ), 0644)
			w.gx.MustGit(dir, "checkout", "-q", "work")
		}
	}
	o := w.observe()
	for i := range users {
		o.Staged[i] = fmt.Sprint([nFiles]bool{})
	}
	o.Key, o.KeyA = o.canonKey()
	n := &node{obs: o}
	n.snap = w.capture()
	return initState{Desc: fmt.Sprintf("locksverify=%s, lfs.setlockablereadonly=%v, no locks", verify, ro), Node: n, RO: ro}
}

// selfCheck validates the harness plumbing on the base world; a failure is a tool error, not a violation.
func (e *envT) selfCheck(w *world, is initState) string {
	o := is.Node.obs
	for u, name := range users {
		if o.U[u].W != [nFiles]bool{false, false, true, false, false} || o.U[u].Exists != [nFiles]bool{true, true, true, false, false} {
			return fmt.Sprintf("selfcheck: initial write bits of %s are %v, expected p,q read-only and r writable", name, o.U[u].W)
		}
		if len(o.U[u].Cache) != 0 || o.branch(u) != "work" {
			return fmt.Sprintf("selfcheck: initial state of %s: cache %v branch %s", name, o.U[u].Cache, o.branch(u))
		}
	}
	if o.U[0].Refs[1] == "" || fmt.Sprint(o.U[0].Refs) != fmt.Sprint(o.U[1].Refs) {
		return fmt.Sprintf("selfcheck: the two clones are not symmetric: %v vs %v", o.U[0].Refs, o.U[1].Refs)
	}
	w.restore(is.Node.snap)
	w.arm(nil, false)
	if r := w.gx.LFS(w.clone(1), "lock", fQ); !r.OK() {
		return "selfcheck: `git lfs lock q.dat` as u2 failed: " + r.String()
	}
	w.disarm()
	w.invalidate()
	if t := w.table(); len(t) != 1 || t[0].Owner != "u2" || t[0].Path != fQ {
		return fmt.Sprintf("selfcheck: server lock table after u2 locked q.dat is %v (user names do not reach the server)", t)
	}
	return ""
}

// ---------------------------------------------------------------------------------------------------------
// alphabets

func faultSet(thorough bool) []int {
	if thorough {
		return []int{403, 404, 500, 501}
	}
	return []int{403, 404, 500}
}

func locksAlphabet(thorough, _ bool) []opDef {
	var ops []opDef
	for u := range users {
		base := []opDef{
			mk(u, "lock", fP), mk(u, "lock", fQ), mk(u, "unlock", fP), mk(u, "unlock-id", fP), mk(u, "unlock-force", fP),
			mk(u, "locks", ""), mk(u, "locks-verify", ""),
			mk(u, "edit-new", fP), mk(u, "restore", fP), mk(u, "commit", ""), mk(u, "checkout", ""), mk(u, "merge", ""),
		}
		if thorough {
			base = append(base, mk(u, "unlock", fQ), mk(u, "unlock-id", fQ), mk(u, "unlock-force", fQ), mk(u, "locks-json", ""), mk(u, "locks-verify-json", ""), mk(u, "locks-cached", ""))
		}
		ops = append(ops, base...)
	}
	return ops
}

// faultAlphabet: the lock API commands of both users with every server deviation, plus the few nominal operations needed
// to reach states in which the deviations matter.
func faultAlphabet(thorough bool) []opDef {
	var ops []opDef
	for u := range users {
		ops = append(ops, mk(u, "lock", fP), mk(u, "unlock", fP), mk(u, "locks-verify", ""), mk(u, "edit-new", fP))
		if thorough {
			ops = append(ops, mk(u, "lock", fQ), mk(u, "unlock-force", fP), mk(u, "checkout", ""))
		}
		for _, st := range append(faultSet(thorough), 409) {
			ops = append(ops, mk(u, "lock", fP).with(&faultDef{"lock-create", 1, st}, false))
		}
		for _, st := range faultSet(thorough) {
			ops = append(ops, mk(u, "unlock", fP).with(&faultDef{"lock-list", 1, st}, false))
			ops = append(ops, mk(u, "unlock", fP).with(&faultDef{"lock-delete", 1, st}, false))
			ops = append(ops, mk(u, "locks-verify", "").with(&faultDef{"lock-verify", 1, st}, false))
			ops = append(ops, mk(u, "locks-verify-json", "").with(&faultDef{"lock-verify", 1, st}, false))
		}
		ops = append(ops, mk(u, "unlock-id", fP).with(&faultDef{"lock-delete", 1, 500}, false))
		ops = append(ops, mk(u, "unlock-force", fP).with(&faultDef{"lock-delete", 1, 500}, false))
		ops = append(ops, mk(u, "locks", "").with(&faultDef{"lock-list", 1, 500}, false))
		ops = append(ops, mk(u, "locks", "").with(nil, true))
		ops = append(ops, mk(u, "locks-verify", "").with(nil, true))
		ops = append(ops, mk(u, "locks-verify-json", "").with(nil, true))
		ops = append(ops, mk(u, "locks-verify", "").with(&faultDef{"lock-verify", 2, 500}, true))
		ops = append(ops, mk(u, "locks-verify-json", "").with(&faultDef{"lock-verify", 2, 500}, true))
		ops = append(ops, mk(u, "unlock", fP).with(nil, true))
	}
	return ops
}

// limitAlphabet: the lock-listing commands with `--limit N` (N = 1, 2, 3 against tables of 0..3 locks: truncated, exactly
// filled and complete listings), nominal, with a paginating server (1 lock per page: the limit is reached on a later page) and
// with fault answers, next to the operations that make the listings matter: lock / unlock / the other user's unlock --force
// (stale cache entries), the full `locks --verify`, and a branch switch (post-checkout recomputes write bits from the cache).
func limitAlphabet(thorough bool) []opDef {
	var ops []opDef
	for u := range users {
		v, vj, l, lj := mk(u, "locks-verify", ""), mk(u, "locks-verify-json", ""), mk(u, "locks", ""), mk(u, "locks-json", "")
		ops = append(ops, mk(u, "lock", fP), mk(u, "lock", fQ), mk(u, "unlock", fP), mk(u, "unlock-force", fP), v, mk(u, "checkout", ""),
			v.lim(1), v.lim(2), v.lim(3), vj.lim(1), l.lim(1), lj.lim(1),
			v.lim(2).with(nil, true), vj.lim(2).with(nil, true), l.lim(2).with(nil, true),
			v.lim(1).with(&faultDef{"lock-verify", 1, 500}, false), v.lim(2).with(&faultDef{"lock-verify", 2, 500}, true))
		if thorough {
			ops = append(ops, mk(u, "lock", fN), mk(u, "unlock", fQ), vj.lim(2), vj.lim(3), l.lim(2), v.lim(3).with(nil, true),
				vj.lim(1).with(&faultDef{"lock-verify", 1, 403}, false), vj.lim(2).with(&faultDef{"lock-verify", 2, 500}, true),
				l.lim(1).with(&faultDef{"lock-list", 1, 500}, false))
		}
	}
	return ops
}

// multiAlphabet: lock / unlock over path LISTS in one command ([p,q], [q,p]) and over a lockable path that is absent from the
// current branch (n.dat exists on side only), each combined with fault answers on the n-th lock API request of the command,
// so that one command has mixed per-path results (granted + conflict, released + refused, released + local chmod error).
func multiAlphabet(thorough bool) []opDef {
	var ops []opDef
	for u := range users {
		lpq, lqp := mkl(u, "lock", fP, fQ), mkl(u, "lock", fQ, fP)
		upq, uqp := mkl(u, "unlock", fP, fQ), mkl(u, "unlock", fQ, fP)
		ops = append(ops, lpq, lqp, upq, uqp, mk(u, "lock", fN), mk(u, "unlock", fN), mk(u, "lock", fQ), mk(u, "edit-new", fP), mk(u, "checkout", ""))
		if thorough {
			ops = append(ops, mkl(u, "lock", fN, fP), mkl(u, "unlock", fN, fP), mkl(u, "unlock-force", fP, fQ), mk(u, "merge", ""), mk(u, "locks-verify", ""))
		}
		ops = append(ops,
			lpq.with(&faultDef{"lock-create", 1, 409}, false), lpq.with(&faultDef{"lock-create", 2, 409}, false), lqp.with(&faultDef{"lock-create", 2, 500}, false),
			upq.with(&faultDef{"lock-delete", 1, 403}, false), upq.with(&faultDef{"lock-delete", 2, 403}, false), uqp.with(&faultDef{"lock-delete", 2, 500}, false),
			upq.with(&faultDef{"lock-list", 2, 500}, false), mk(u, "unlock", fN).with(&faultDef{"lock-delete", 1, 500}, false))
		if thorough {
			ops = append(ops, lqp.with(&faultDef{"lock-create", 1, 403}, false), lpq.with(&faultDef{"lock-create", 2, 404}, false),
				uqp.with(&faultDef{"lock-list", 1, 500}, false), uqp.with(&faultDef{"lock-delete", 1, 404}, false), upq.with(nil, true))
		}
	}
	return ops
}

// unlockStatesAlphabet: one acting user; the file states git status distinguishes (clean, modified, staged, new file
// added, untracked) crossed with lock / unlock / unlock --id / unlock over a list.
func unlockStatesAlphabet(u int, thorough bool) []opDef {
	ops := []opDef{
		mk(u, "create", fU), mk(u, "add", fU), mk(u, "edit-new", fP), mk(u, "add", fP),
		mk(u, "lock", fU), mk(u, "lock", fP), mk(u, "unlock", fU), mk(u, "unlock", fP),
		mk(u, "unlock-id", fU), mk(u, "unlock-id", fP), mk(u, "commit", ""),
	}
	if thorough {
		ops = append(ops, mkl(u, "unlock", fP, fU), mkl(u, "unlock", fU, fP), mkl(u, "lock", fP, fU), mk(u, "unlock-force", fU), mk(u, "locks-verify", ""))
	}
	return ops
}

// pushRefsAlphabet: one acting user, ONE `git push` updating one or two remote branches (both orders on the command
// line) that share the new commits; the server scopes locks by ref, the other user's locks come from the initial states.
func pushRefsAlphabet(u int, thorough bool) []opDef {
	push := func(refs ...string) opDef {
		o := mk(u, "push", "")
		o.Refs = refs
		o.Name = users[u] + ": git push origin work:" + strings.Join(refs, " work:")
		return o
	}
	ab, ba := push("rel-a", "rel-b"), push("rel-b", "rel-a")
	ops := []opDef{mk(u, "edit-new", fP), mk(u, "commit", ""), mk(u, "merge", ""), push("rel-a"), push("rel-b"), ab, ba,
		ab.with(&faultDef{"lock-verify", 2, 500}, false), ab.with(nil, true)}
	if thorough {
		ops = append(ops, mk(u, "edit-new", fR), ab.with(&faultDef{"lock-verify", 1, 403}, false), ab.with(&faultDef{"lock-verify", 2, 404}, false), ba.with(nil, true))
	}
	return ops
}

// pushAlphabet: acting users `who`; with both users acting the lock/unlock commands are part of the alphabet, with one
// acting user the lock tables come from the initial states.
func pushAlphabet(thorough bool, who []int, faults bool) []opDef {
	var ops []opDef
	for _, u := range who {
		base := []opDef{mk(u, "edit-new", fP), mk(u, "edit-dup", fQ), mk(u, "edit-new", fR), mk(u, "commit", ""), mk(u, "merge", ""), mk(u, "push", "")}
		if len(who) > 1 {
			base = []opDef{mk(u, "lock", fP), mk(u, "unlock", fP), mk(u, "edit-new", fP), mk(u, "commit", ""), mk(u, "merge", ""), mk(u, "push", "")}
		} else if thorough {
			base = append(base, mk(u, "edit-old", fP), mk(u, "locks-verify", ""))
		}
		ops = append(ops, base...)
		if !faults {
			continue
		}
		sts := []int{403, 404, 500}
		if thorough {
			sts = []int{403, 404, 500, 501}
		}
		for _, st := range sts {
			ops = append(ops, mk(u, "push", "").with(&faultDef{"lock-verify", 1, st}, false))
		}
		ops = append(ops, mk(u, "push", "").with(nil, true))
		if thorough {
			ops = append(ops, mk(u, "push", "").with(&faultDef{"lock-verify", 2, 500}, true))
		}
	}
	return ops
}

func pushMini(u int) []opDef {
	return []opDef{mk(u, "edit-new", fP), mk(u, "commit", ""), mk(u, "merge", ""), mk(u, "push", "")}
}

// ---------------------------------------------------------------------------------------------------------
// BFS

type bfsInfo struct {
	Scenario    string           `json:"scenario"`
	Initial     int              `json:"initial_states"`
	Ops         int              `json:"operations"`
	States      int              `json:"states"`
	Transitions int64            `json:"bfs_edges"`
	Levels      int              `json:"levels_expanded"`
	Closure     bool             `json:"closure_reached"`
	MaxDepth    int              `json:"depth_bound"`
	MaxDevs     int              `json:"deviation_bound"`
	PerLevel    []int            `json:"new_states_per_level"`
	WallS       float64          `json:"wall_s"`
	Viol        map[string]int64 `json:"violating_transitions_by_fingerprint,omitempty"`
}

func (p *partDef) where(init int, path []int) string {
	return fmt.Sprintf("[%s] initial state {%s} after [%s]", p.Name, p.Inits[init].Desc, strings.Join(p.names(path), "; "))
}

func toResult(p *partDef, pre *node, path []int, so *stepOut) vx.Result {
	preKey := p.key(pre.obs)
	o := p.Ops[path[len(path)-1]]
	r := vx.Result{Points: p.points(pre.init, path), Outcome: so.outcome, Evals: so.evals, Transitions: 1,
		Violations: so.viols, Inconcl: so.inconcl, Counters: so.counters}
	r.States = []uint64{preKey}
	if so.node != nil {
		r.States = append(r.States, p.key(so.node.obs))
		if so.nontriv || p.key(so.node.obs) != preKey {
			r.NonTrivial = []string{fmt.Sprintf("%016x|%s", preKey, o.Name)}
		}
		r.Sample = map[string]interface{}{"scenario": p.Name, "initial_state": p.Inits[pre.init].Desc, "operations": p.names(path), "last_command": so.cmd,
			"last_exit": so.res.Code, "outcome": so.outcome, "lock_api_requests": so.apiLog, "state_after": so.node.obs.describe()}
	}
	return r
}

func (e *envT) bfs(p *partDef, deadline time.Time) (*vx.Stats, bfsInfo) {
	t0 := time.Now()
	st := vx.NewStats()
	info := bfsInfo{Scenario: p.Name, Initial: len(p.Inits), Ops: len(p.Ops), MaxDepth: p.MaxDepth, MaxDevs: p.MaxDevs, Viol: map[string]int64{}}
	seen := map[uint64]int{} // canonical key -> smallest number of deviations it was reached with
	fpCount := map[string]int{}
	var frontier []*node
	for i, is := range p.Inits {
		n := *is.Node
		n.init = i
		if _, ok := seen[p.key(n.obs)]; !ok {
			seen[p.key(n.obs)] = 0
			frontier = append(frontier, &n)
		}
	}
	type task struct{ ni, oi int }
	type done struct {
		so stepOut
		ok bool
	}
	workers := cap(e.pool)
	for depth := 0; len(frontier) > 0 && depth < p.MaxDepth; depth++ {
		if time.Now().After(deadline) {
			st.Exhaustive = false
			st.CapHit = fmt.Sprintf("deadline before level %d (%d frontier states unexpanded)", depth, len(frontier))
			break
		}
		results := make([]map[int]done, len(frontier))
		var rmu sync.Mutex
		ch := make(chan task, 256)
		var wg sync.WaitGroup
		for wk := 0; wk < workers; wk++ {
			wg.Add(1)
			go func() {
				defer wg.Done()
				w := <-e.pool
				defer func() { e.pool <- w }()
				w.byRef = p.ByRef
				for t := range ch {
					if time.Now().After(deadline) {
						continue
					}
					n := frontier[t.ni]
					path := append(append([]int(nil), n.path...), t.oi)
					func() {
						defer func() {
							if r := recover(); r != nil {
								res := vx.Result{Points: p.points(n.init, path), ToolErr: fmt.Sprintf("harness panic in %s: %v", p.where(n.init, path), r)}
								st.Absorb(nil, &res, 0)
								w.invalidate()
							}
						}()
						so := e.step(w, n, &p.Inits[n.init], p.Ops[t.oi], p.where(n.init, n.path))
						rmu.Lock()
						if results[t.ni] == nil {
							results[t.ni] = map[int]done{}
						}
						results[t.ni][t.oi] = done{so, true}
						rmu.Unlock()
					}()
				}
			}()
		}
		ntasks := 0
		for ni, n := range frontier {
			for oi, o := range p.Ops {
				if enabled(p.lay(), n, o, p.MaxDevs) {
					ch <- task{ni, oi}
					ntasks++
				}
			}
		}
		close(ch)
		wg.Wait()
		var next []*node
		incomplete := false
		newStates := 0
		for ni, n := range frontier {
			for oi, o := range p.Ops {
				if !enabled(p.lay(), n, o, p.MaxDevs) {
					continue
				}
				d, ok := results[ni][oi]
				if !ok || !d.ok {
					incomplete = true
					continue
				}
				path := append(append([]int(nil), n.path...), oi)
				r := toResult(p, n, path, &d.so)
				kept := r.Violations[:0:0]
				for _, v := range r.Violations {
					if fpCount[v.Fingerprint] < 2 {
						fpCount[v.Fingerprint]++
						kept = append(kept, v)
					}
					info.Viol[v.Fingerprint]++
				}
				r.Violations = kept
				st.Absorb(nil, &r, n.devs+b2i(o.deviates()))
				info.Transitions++
				if d.so.inconcl != "" || d.so.node == nil {
					continue
				}
				nn := d.so.node
				nn.path = path
				old, was := seen[p.key(nn.obs)]
				if !was || nn.devs < old {
					seen[p.key(nn.obs)] = nn.devs
					next = append(next, nn)
					if !was {
						newStates++
					}
				}
			}
			frontier[ni].snap = snap{}
		}
		info.Levels = depth + 1
		info.PerLevel = append(info.PerLevel, newStates)
		frontier = next
		if incomplete {
			st.Exhaustive = false
			if st.CapHit == "" {
				st.CapHit = fmt.Sprintf("deadline or tool error inside level %d", depth)
			}
			break
		}
	}
	info.States = len(seen)
	info.Closure = len(frontier) == 0 && st.Exhaustive
	info.WallS = time.Since(t0).Seconds()
	return st, info
}

func b2i(b bool) int {
	if b {
		return 1
	}
	return 0
}

// replayRun re-executes exactly one case (initial state + operation sequence) statelessly.
func (e *envT) replayRun(p *partDef) vx.RunFunc {
	return func(x *vx.X) vx.Result {
		i := x.In(len(p.Inits))
		w := <-e.pool
		defer func() { e.pool <- w }()
		w.byRef = p.ByRef
		cur := *p.Inits[i].Node
		cur.init = i
		agg := vx.Result{Counters: map[string]int64{}, States: []uint64{p.key(cur.obs)}}
		var path []int
		for {
			c := x.In(len(p.Ops) + 1)
			if c == 0 {
				break
			}
			o := p.Ops[c-1]
			if !enabled(p.lay(), &cur, o, p.MaxDevs) {
				agg.ToolErr = fmt.Sprintf("replay: operation %q is not enabled after %v", o.Name, p.names(path))
				break
			}
			so := e.step(w, &cur, &p.Inits[i], o, p.where(i, path))
			path = append(path, c-1)
			r := toResult(p, &cur, path, &so)
			agg.Outcome = r.Outcome
			agg.Evals += r.Evals
			agg.Transitions++
			agg.NonTrivial = append(agg.NonTrivial, r.NonTrivial...)
			agg.Sample = r.Sample
			agg.Violations = append(agg.Violations, so.viols...)
			for k, v := range so.counters {
				agg.Counters[k] += v
			}
			if so.inconcl != "" || so.node == nil {
				agg.Inconcl = so.inconcl
				break
			}
			agg.States = append(agg.States, p.key(so.node.obs))
			so.node.path = path
			cur = *so.node
		}
		return agg
	}
}

// ---------------------------------------------------------------------------------------------------------

func TestVerifC16(t *testing.T) {
	c := vx.NewCheck("C16", "model_checking")
	gitx.CmdTimeout = 60 * time.Second
	e := newEnv(c)
	defer e.close()
	w0 := <-e.pool
	// world construction with the real tools; a tool timeout here (overloaded machine) is retried, never an observation
	gitx.CmdTimeout = 150 * time.Second
	// the base worlds of the paths scenarios (one per spelling of the lockable patterns) are built concurrently in other workers' worlds
	pathsNone := make([]initState, len(patVariants))
	pathsErr := make([]interface{}, len(patVariants))
	var pwg sync.WaitGroup
	for i := range patVariants {
		pwg.Add(1)
		go func(i int) {
			defer pwg.Done()
			w := <-e.pool
			defer func() { e.pool <- w }()
			for attempt := 1; attempt <= 3; attempt++ {
				func() {
					defer func() { pathsErr[i] = recover() }()
					pathsNone[i] = e.buildPaths(w, patVariants[i])
				}()
				if pathsErr[i] == nil {
					break
				}
			}
			w.invalidate()
		}(i)
	}
	var base snap
	for attempt := 1; ; attempt++ {
		var failure interface{}
		func() {
			defer func() { failure = recover() }()
			base = e.buildBase(w0)
		}()
		if failure == nil {
			break
		}
		if attempt == 3 {
			fmt.Printf("TOOL-ERROR property=C16 cannot construct the base world: %v\n", failure)
			os.Exit(2)
		}
		fmt.Printf("note: world construction attempt %d failed (%v); retrying\n", attempt, clip(fmt.Sprint(failure), 200))
		w0.invalidate()
		os.RemoveAll(filepath.Join(w0.root, "seed"))
		w0.restore(snap{files: map[string]*ent{}, objs: map[string][]byte{}})
	}
	pwg.Wait()
	for i, err := range pathsErr {
		if err != nil {
			fmt.Printf("TOOL-ERROR property=C16 cannot construct the base world of paths variant %s: %v\n", patVariants[i].Class, err)
			os.Exit(2)
		}
	}
	gitx.CmdTimeout = 60 * time.Second
	mkInit := func(verify string, ro bool) initState { return e.variant(w0, base, verify, ro) }
	iTrueOn := mkInit("true", true)
	if msg := e.selfCheck(w0, iTrueOn); msg != "" {
		fmt.Printf("TOOL-ERROR property=C16 %s\n", msg)
		os.Exit(2)
	}
	iTrueOff := mkInit("true", false)
	iUnsetOn := mkInit("unset", true)
	iFalseOn := mkInit("false", true)
	e.pool <- w0

	// derived initial states: lock tables established by real `git lfs lock` commands (multi-source BFS)
	derive := func(from initState, desc string, ops ...opDef) initState {
		w := <-e.pool
		defer func() { e.pool <- w }()
		w.byRef = false
		cur := from.Node
		for _, o := range ops {
			so := e.step(w, cur, &from, o, "constructing initial state")
			if so.node == nil || !so.res.OK() {
				panic(vx.ToolError{Msg: fmt.Sprintf("cannot construct initial state %q: `%s` failed: %s %s", desc, so.cmd, so.inconcl, so.res)})
			}
			cur = so.node
		}
		n := *cur
		n.depth, n.path, n.devs = 0, nil, 0
		is := from
		is.Desc, is.Node = strings.Replace(from.Desc, "no locks", desc, 1), &n
		return is
	}
	lk := func(u int, f string) opDef { return mk(u, "lock", f) }
	iP1Q2 := derive(iTrueOn, "p.dat locked by u1, q.dat locked by u2", lk(0, fP), lk(1, fQ))
	iP2Q1 := derive(iTrueOn, "p.dat locked by u2, q.dat locked by u1", lk(1, fP), lk(0, fQ))
	iN1 := derive(iTrueOn, "n.dat (absent on work) locked by u1", lk(0, fN))
	sw := func(u int, br string) opDef { return mk(u, "switch", br) }
	iRelAp := derive(iTrueOn, "u1 on branch rel-a holds p.dat (lock for refs/heads/rel-a)", sw(0, "rel-a"), lk(0, fP))
	iRelBp := derive(iTrueOn, "u1 on branch rel-b holds p.dat (lock for refs/heads/rel-b)", sw(0, "rel-b"), lk(0, fP))
	iRelBq := derive(iTrueOn, "u1 on branch rel-b holds q.dat (lock for refs/heads/rel-b)", sw(0, "rel-b"), lk(0, fQ))
	iUnsetP1 := derive(iUnsetOn, "p.dat locked by u1", lk(0, fP))
	iFalseP1 := derive(iFalseOn, "p.dat locked by u1", lk(0, fP))
	var iP1, iP2, iQ1, iQ2, iPQ1, iPQ2 initState
	iP1 = derive(iTrueOn, "p.dat locked by u1", lk(0, fP))
	iPQ1 = derive(iTrueOn, "p.dat and q.dat locked by u1", lk(0, fP), lk(0, fQ))
	// the acting user holds two locks and the other user one, in both orders of the server's table
	iPQ1N2 := derive(iTrueOn, "p.dat and q.dat locked by u1, n.dat locked by u2 (server table order p,q,n)", lk(0, fP), lk(0, fQ), lk(1, fN))
	iN2PQ1 := derive(iTrueOn, "n.dat locked by u2, p.dat and q.dat locked by u1 (server table order n,p,q)", lk(1, fN), lk(0, fP), lk(0, fQ))
	if e.thorough {
		iP2 = derive(iTrueOn, "p.dat locked by u2", lk(1, fP))
		iQ1 = derive(iTrueOn, "q.dat locked by u1", lk(0, fQ))
		iQ2 = derive(iTrueOn, "q.dat locked by u2", lk(1, fQ))
		iPQ2 = derive(iTrueOn, "p.dat and q.dat locked by u2", lk(1, fP), lk(1, fQ))
	}

	// paths scenarios: per pattern spelling {no locks; u1 holds x.dat (root) and assets/q.dat: lock state differs per directory
	// level and inside the same-base-name pair; thorough: every .dat file writable although none is held (u1 locked them, u2 broke
	// the locks, u1 ran locks --verify)}
	var pathsInits, pathsSkew []initState
	for _, is := range pathsNone {
		pathsInits = append(pathsInits, is)
		pathsInits = append(pathsInits, derive(is, "u1 holds x.dat and assets/q.dat (locked from inside assets/)", mkc(0, "lock", "", fX, fX), mkc(0, "lock", "assets", "q.dat", fAQ)))
		if e.thorough {
			pathsSkew = append(pathsSkew, derive(is, "no locks, but x.dat assets/x.dat assets/q.dat assets/deep/r.dat are writable (u1 locked them, u2 broke the locks with unlock --force, u1 ran locks --verify)",
				mkl(0, "lock", fX, fAX, fAQ, fDR), mkl(1, "unlock-force", fX, fAX, fAQ, fDR), mk(0, "locks-verify", "")))
		}
	}

	var parts []partDef
	if e.thorough {
		parts = []partDef{
			{Name: "paths", Inits: pathsInits, Ops: pathsAlphabet(0, false), MaxDepth: 3, MaxDevs: 0, Share: 14},
			{Name: "paths-wide", Inits: append(append([]initState(nil), pathsInits...), pathsSkew...), Ops: pathsAlphabet(0, true), MaxDepth: 2, MaxDevs: 0, Share: 14},
			{Name: "unlock-states", Inits: []initState{iTrueOn}, Ops: unlockStatesAlphabet(0, true), MaxDepth: 5, MaxDevs: 0, Share: 3},
			{Name: "push-refs", Inits: []initState{iRelAp, iRelBp, iRelBq, iTrueOn}, Ops: pushRefsAlphabet(1, true), MaxDepth: 4, MaxDevs: 1, Share: 5, ByRef: true},
			{Name: "locks-readonly-off", Inits: []initState{iTrueOff}, Ops: locksAlphabet(false, false), MaxDepth: 3, MaxDevs: 0, Share: 3, Sym: true},
			{Name: "push-two-users", Inits: []initState{iTrueOn}, Ops: pushAlphabet(true, []int{0, 1}, false), MaxDepth: 4, MaxDevs: 0, Share: 3, Sym: true},
			{Name: "push-verify-unset-or-false", Inits: []initState{iUnsetP1, iFalseP1, iUnsetOn}, Ops: pushAlphabet(false, []int{1}, true), MaxDepth: 3, MaxDevs: 1, Share: 2},
			{Name: "push-deep", Inits: []initState{iTrueOn, iP1Q2, iP2Q1}, Ops: pushAlphabet(true, []int{1}, false), MaxDepth: 5, MaxDevs: 0, Share: 8},
			{Name: "push", Inits: []initState{iTrueOn, iP1, iP2, iQ1, iQ2, iP1Q2, iP2Q1, iPQ1, iPQ2}, Ops: pushAlphabet(true, []int{1}, true), MaxDepth: 4, MaxDevs: 1, Share: 20},
			{Name: "locks-multi", Inits: []initState{iTrueOn, iP1Q2, iN1, iPQ1, iP1}, Ops: multiAlphabet(true), MaxDepth: 2, MaxDevs: 1, Share: 12, Sym: true},
			{Name: "locks-multi-deep", Inits: []initState{iTrueOn, iP1Q2, iN1}, Ops: multiAlphabet(false), MaxDepth: 3, MaxDevs: 1, Share: 12, Sym: true},
			{Name: "locks", Inits: []initState{iTrueOn}, Ops: locksAlphabet(true, false), MaxDepth: 4, MaxDevs: 0, Share: 16, Sym: true},
			{Name: "locks-faults", Inits: []initState{iTrueOn, iP1, iP1Q2}, Ops: faultAlphabet(true), MaxDepth: 3, MaxDevs: 1, Share: 26, Sym: true},
			{Name: "locks-limit", Inits: []initState{iTrueOn, iP1, iP1Q2, iPQ1, iPQ1N2, iN2PQ1}, Ops: limitAlphabet(true), MaxDepth: 3, MaxDevs: 1, Share: 20, Sym: true},
		}
	} else {
		parts = []partDef{
			{Name: "paths", Inits: pathsInits, Ops: pathsAlphabet(0, false), MaxDepth: 2, MaxDevs: 0, Share: 22},
			{Name: "unlock-states", Inits: []initState{iTrueOn}, Ops: unlockStatesAlphabet(0, false), MaxDepth: 4, MaxDevs: 0, Share: 6},
			{Name: "push-refs", Inits: []initState{iRelAp, iRelBp, iRelBq}, Ops: pushRefsAlphabet(1, false), MaxDepth: 3, MaxDevs: 1, Share: 6, ByRef: true},
			{Name: "locks-readonly-off", Inits: []initState{iTrueOff}, Ops: locksAlphabet(false, false), MaxDepth: 2, MaxDevs: 0, Share: 4, Sym: true},
			{Name: "push-verify-unset-or-false", Inits: []initState{iUnsetP1, iFalseP1}, Ops: pushMini(1), MaxDepth: 3, MaxDevs: 0, Share: 2},
			{Name: "locks", Inits: []initState{iTrueOn}, Ops: locksAlphabet(false, false), MaxDepth: 3, MaxDevs: 0, Share: 20, Sym: true},
			{Name: "locks-faults", Inits: []initState{iTrueOn, iP1Q2}, Ops: faultAlphabet(false), MaxDepth: 2, MaxDevs: 1, Share: 18, Sym: true},
			{Name: "locks-multi", Inits: []initState{iTrueOn, iP1Q2, iN1}, Ops: multiAlphabet(false), MaxDepth: 2, MaxDevs: 1, Share: 26, Sym: true},
			{Name: "locks-limit", Inits: []initState{iTrueOn, iP1, iP1Q2, iPQ1, iPQ1N2, iN2PQ1}, Ops: limitAlphabet(false), MaxDepth: 2, MaxDevs: 1, Share: 20, Sym: true},
			{Name: "push", Inits: []initState{iTrueOn, iP1Q2, iP2Q1}, Ops: pushAlphabet(false, []int{1}, true), MaxDepth: 4, MaxDevs: 1, Share: 32},
		}
	}

	c.Rule = "multi-source BFS with canonical-state dedup over the real git-lfs binary and real git: two clones (users u1,u2; Basic-auth user = URL userinfo of lfs.url) of one bare remote and one fake LFS server " +
		"with a multi-user lock table; files p.dat (lockable, LFS), q.dat (lockable, plain; modified by the local branch side), r.txt (not lockable). Every enabled operation of the scenario alphabet " +
		"(both users) is applied to every new canonical state up to the stated depth; server fault answers (403/404/500/501/409 on the n-th lock API request of the command, lock lists paginated 1 per page, " +
		"fault on the second page) are deviations bounded per sequence. Canonical key = server lock table, each user's lockcache.db entries (both directions), write bits and content of p,q,r in each clone, " +
		"all refs of both clones and of the remote, .git/config of both clones, MERGE_HEAD; symmetric in the two users; lock ids compared by rank. After every transition: (2b) `git lfs locks --local --json` " +
		"of the acting user == locks granted to him and not released (reset to the server's answer by his successful `locks --verify`), (2a) write bit recomputed where lock/unlock/post-checkout/post-commit/" +
		"post-merge must recompute it and never moved away from the lock state elsewhere, non-lockable files and the other clone untouched, (3) unlock/unlock --id of a modified file keeps the server lock, " +
		"(1) with lfs.<url>.locksverify=true a push whose new commits (not reachable from a remote-tracking ref; merges by combined diff) add/modify a path locked by the other user is rejected, otherwise accepted. " +
		"Scenario paths (PATH/PATTERN dimension of clause 2a, same step function and oracle): files p.dat (LFS), x.dat, assets/q.dat, assets/x.dat (same base name as x.dat), assets/deep/r.dat, assets/t.txt; local branch side changes " +
		"x.dat, assets/x.dat, assets/deep/r.dat, assets/t.txt (one per directory level + the control); the lockable patterns are spelled {`*.dat`; `assets/*.dat`; `/x.dat`+`/assets/q.dat`; `assets/**/*.dat`; `*.dat` in a nested " +
		"assets/.gitattributes} and the set of lockable files is git's own answer (`git check-attr lockable`); initial lock tables {none; u1 holds x.dat and assets/q.dat}; one acting user: lock / unlock / unlock --id / " +
		"unlock --force of files at every level typed from the work-tree root or from inside assets/ (q.dat, x.dat, [thorough] ../x.dat, deep/r.dat), editor-style save of assets/q.dat (new file, mode 0644), commit (post-commit), " +
		"branch switch (post-checkout, incremental), `git checkout -- assets/q.dat` (post-checkout, full scan), `git merge side` (post-merge, full scan), a new clone made by a user without locks (filter-process installs the hooks, " +
		"git runs post-checkout with the null id: full scan); after every transition the write bit of EVERY lockable file in the hook's / command's scope must equal 'the acting user holds its lock', non-lockable files keep their mode. " +
		"Scenario locks-limit (the --limit dimension of the lock-listing operations): `locks --verify --limit N` (N=1,2,3), `locks --verify --json --limit N`, `locks --limit N`, `locks --json --limit N`, nominal, with the server paginating 1 lock per page " +
		"(limit reached on a later page) and with fault answers, from lock tables {none; p:u1; p:u1+q:u2; p,q:u1; p,q:u1+n:u2 in both table orders} (the acting user holds 0, 1, 2 locks, the other user 0 or 1; N below, equal to and above the number of locks), " +
		"next to lock/unlock/unlock --force/full locks --verify/branch switch; clause 2b for a limited listing: it is a PARTIAL view - per path the cached entry must be what was known before or what the server holds now, " +
		"so a listing cut by the limit must not drop or replace what the cache says about locks it did not list (`--limit 0` is the flag's default value = the unlimited commands of the other scenarios). " +
		"A transition is non-trivial when it changes the canonical state, obliges a write-bit recomputation, meets an injected fault or is a push; distinct = distinct (canonical state, operation)."
	c.Assumptions = []string{
		"Knowledge model (DESIGN.md C16): the locks a user 'holds' for clause 2 are those the server granted to his own successful `lock`, minus those released by his own successful `unlock`, reset to the server's list of his own locks by his successful, complete `locks --verify`; a release forced by the other user is not known to him until then. After a reported violation the model is re-synchronised to the observed cache so that one defect yields one fingerprint.",
		"Write bits are demanded only where git-lfs is documented to (re)compute them: the locked file after `lock`; the unlocked file after `unlock` (lockable, lfs.setlockablereadonly on); the files differing between the two commits after a branch checkout; all tracked lockable files after `git checkout -- <file>` and after a merge; the lockable files changed by the commit after `git commit`. Elsewhere only a change of a write bit away from the lock state is flagged. With lfs.setlockablereadonly=false nothing may be made read-only.",
		"'Rejected' = git push exits non-zero and the remote ref is unchanged; 'accepted' = exit 0 and the remote ref equals the local tip. 'New commits' = commits not reachable from any remote-tracking ref of the pushing clone; a path is added/modified by a non-merge commit per `git log --name-status`, by a merge commit per its combined diff (differs from every parent). Deleted paths are not demanded.",
		"With verification enabled and a faulted locks/verify answer (403, 404, 500, 501) only the 'must be rejected' half of clause 1 is demanded (docs/man/git-lfs-config: `true` halts the push on any server issue); acceptance is demanded only under nominal or paginated answers.",
		"Paths scenario: a file is 'lockable' when `git check-attr lockable -- <path>` reports the attribute as set (gitattributes semantics: a slash-less pattern matches the base name at any depth below its .gitattributes file, a pattern with a slash is anchored there, `**/` matches zero or more directories). A new clone is judged only while the server holds no lock of the cloning user (the new clone's cache is empty; every lockable file must then be read-only). The editor-style save itself (rename of a new 0644 file over the old one) is the user's action and is not judged; the next hook that has the file in scope must bring the bit back in line.",
		"The harness runs as root: editing a read-only file in place succeeds and keeps its mode, which stands for a user who edits a file he has not locked.",
		"Trusted: git 2.39.5 plumbing (log/diff-tree/rev-list/rev-parse/config) for the reference facts, the gob decoder of tools/kv for reading lockcache.db into the state key (cross-checked against `locks --local --json` after every lock/unlock/verify), lib/fakelfs.",
	}
	for _, p := range parts {
		var ops []string
		for _, o := range p.Ops {
			ops = append(ops, o.Name)
		}
		var inits []string
		for _, i := range p.Inits {
			inits = append(inits, i.Desc)
		}
		c.Bounds["scenario_"+p.Name] = map[string]interface{}{"initial_states": inits, "operations": ops, "depth": p.MaxDepth, "max_deviations_per_sequence": p.MaxDevs}
	}

	if c.Replay != "" {
		rf, err := c.LoadReplay()
		if err != nil {
			fmt.Printf("TOOL-ERROR property=C16 cannot load replay: %v\n", err)
			os.Exit(2)
		}
		if rf.Tier != c.Tier {
			fmt.Printf("TOOL-ERROR property=C16 replay file was recorded with --tier %s; re-run with that tier\n", rf.Tier)
			os.Exit(2)
		}
		for i := range parts {
			p := &parts[i]
			if p.Name == rf.Scenario {
				run := e.replayRun(p)
				exec := func(pr []vx.Point) vx.Result { return vx.SafeRun(run, pr) }
				r := exec(rf.Prefix)
				st := vx.NewStats()
				st.Absorb(rf.Prefix, &r, 0)
				b, _ := json.MarshalIndent(r.Sample, "", " ")
				fmt.Printf("replayed %s\n%s\n", p.where(rf.Prefix[0].C, nil), b)
				code := c.Finish([]vx.Part{{Scenario: p.Name, Stats: st, Exec: exec}}, nil)
				e.close()
				os.Exit(code)
			}
		}
		fmt.Printf("TOOL-ERROR property=C16 unknown scenario %q in replay file\n", rf.Scenario)
		os.Exit(2)
	}

	deadline := c.DeadlineAfter(320*time.Second, 21*time.Minute)
	only := os.Getenv("VERIF_ONLY")
	var vparts []vx.Part
	var infos []bfsInfo
	for i := range parts {
		p := &parts[i]
		if only != "" && !strings.HasPrefix(p.Name, only) {
			continue
		}
		// time slice of this scenario: its share of what is left (a guard only: unused time rolls over to the next scenario)
		rest := 0.0
		for j := i; j < len(parts); j++ {
			if only == "" || strings.HasPrefix(parts[j].Name, only) {
				rest += parts[j].Share
			}
		}
		slice := deadline
		if left := time.Until(deadline); left > 0 && rest > 0 {
			slice = time.Now().Add(time.Duration(float64(left) * p.Share / rest))
		}
		st, info := e.bfs(p, slice)
		infos = append(infos, info)
		fmt.Printf("scenario %-28s ops=%d states=%d edges=%d levels=%d/%d new-per-level=%v exhaustive=%v wall=%.1fs\n", p.Name, info.Ops, info.States, info.Transitions, info.Levels, p.MaxDepth, info.PerLevel, st.Exhaustive, info.WallS)
		run := e.replayRun(p)
		vparts = append(vparts, vx.Part{Scenario: p.Name, Stats: st, Exec: func(pr []vx.Point) vx.Result { return vx.SafeRun(run, pr) }})
	}
	code := c.Finish(vparts, map[string]interface{}{"bfs": infos})
	e.close()
	os.Exit(code)
}
