#!/bin/bash
# C16 finding 6: `git lfs unlock <path>` / `git lfs unlock --id <id>` invoked from inside a sub-directory of the work tree
# releases the lock of a file with uncommitted changes although --force was not given.
. "$(dirname "$0")/repro-setup.sh"
cd $T/u1
mkdir assets; echo a0 > assets/q.dat; git add assets/q.dat; git commit -qm "add assets/q.dat"
say "u1 locks assets/q.dat and edits it (uncommitted)"
git lfs lock assets/q.dat 2>&1 | grep -v "contains credentials"; echo "work in progress" >> assets/q.dat; git status --short
say "control: from the work-tree root, git lfs unlock assets/q.dat is refused"
git lfs unlock assets/q.dat 2>&1 | grep -v "contains credentials"; echo "exit=${PIPESTATUS[0]}"; table
say "from inside assets/: git lfs unlock q.dat   (no --force)"
cd assets
git lfs unlock q.dat 2>&1 | grep -v "contains credentials"; echo "exit=${PIPESTATUS[0]}"; table
git status --short; stat -c '%A %n' q.dat
say "same with --id: lock again (file still modified), then from inside assets/: git lfs unlock --id <id>"
git lfs lock q.dat 2>&1 | grep -v "contains credentials"; table
ID=$(git lfs locks --local --json | python3 -c 'import json,sys; print(json.load(sys.stdin)[0]["id"])')
git lfs unlock --id $ID 2>&1 | grep -v "contains credentials"; echo "exit=${PIPESTATUS[0]}"; table
git status --short
