# usage: python3 mutants.py <M1|M2|M3|M3x|M4|M5|M6|M7|M8|M9> [worktree]   -- applies one C14 mutant to a private worktree of /repo (never to /repo)
# then: VERIF_REPO=<worktree> VERIF_EVIDENCE=/tmp/x.json ./check C14   (must print VIOLATION, exit 1);  git -C <worktree> checkout -- .
import sys, subprocess
WT=sys.argv[2] if len(sys.argv) > 2 else '/tmp/wt-C14'
FP=WT+'/commands/command_filter_process.go'
SM=WT+'/commands/command_smudge.go'
def rep(path, old, new):
    s=open(path).read()
    if old not in s:
        print("MUTANT-ERROR pattern not found:", old[:60]); sys.exit(3)
    open(path,'w').write(s.replace(old,new,1))
m=sys.argv[1]
if m=='M1':   # trailing status written before the content is flushed
    rep(FP, '''		} else if ferr := w.Flush(); ferr != nil {
			// Otherwise, we do need to call w.Flush(), since we
			// have to assume that data was written. If the flush
			// operation was unsuccessful, calculate the status
			// using 'statusFromErr'.
			status = statusFromErr(ferr)
		} else {''','''		} else {''')
    rep(FP, '''		s.WriteStatus(status)
	}

	if len(malformed) > 0 {''','''		s.WriteStatus(status)
		if !delayed {
			w.Flush()
		}
	}

	if len(malformed) > 0 {''')
elif m=='M2':  # forget delete(ptrs, path) after a successful retrieval
    rep(FP, '''					delete(ptrs, req.Header["pathname"])''','''					// delete(ptrs, req.Header["pathname"])''')
elif m=='M3x':  # retrieval looks the cached pointer up under the wrong header (also exposes the Watch() registration race: hangs)
    rep(FP, '''incomingOrCached(req.Payload, ptrs[req.Header["pathname"]])''','''incomingOrCached(req.Payload, ptrs[req.Header["blob"]])''')
elif m=='M3':  # list_available_blobs announces the object's storage path instead of the work-tree pathname
    rep(FP, '''pathnames = append(pathnames, fmt.Sprintf("pathname=%s", t.Name))''','''pathnames = append(pathnames, fmt.Sprintf("pathname=%s", t.Path))''')
elif m=='M4':  # blobs whose transfer failed are no longer announced by the last list
    rep(FP, '''					paths = append(paths, fmt.Sprintf("pathname=%s", path))''','''					_ = path''')
elif m=='M5':  # queue not reset after the list phase: next checkout re-uses the closed queue
    rep(FP, '''				q = nil
''','''''')
elif m=='M6':  # delayedSmudge answers a locally present object with its pointer text
    rep(SM, '''		n, err := gf.Smudge(to, ptr, filename, false, nil, nil)
		return n, false, ptr, err''','''		nn, err := ptr.Encode(to)
		return int64(nn), false, ptr, err''')
elif m=='M7':  # every can-delay smudge is remembered in ptrs, delayed or not
    rep(FP, '''				if delayed {
					ptrs[req.Header["pathname"]] = ptr
				}''','''				if ptr != nil {
					ptrs[req.Header["pathname"]] = ptr
				}''')
elif m=='M8':  # regression: revert the lead's fix 725ebcb (clean truncation when the work-tree file is smaller)
    subprocess.check_call('git -C %s show 725ebcb -- lfs commands | git -C %s apply -R' % (WT, WT), shell=True)
elif m=='M9':  # regression: revert the lead's fix 6875110 (input of 1024 bytes or more is never a pointer)
    subprocess.check_call('git -C %s show 6875110 -- lfs | git -C %s apply -R' % (WT, WT), shell=True)
else:
    print("unknown mutant"); sys.exit(3)
print(subprocess.run(['git','-C',WT,'diff','--stat'],capture_output=True,text=True).stdout)
