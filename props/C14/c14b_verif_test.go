package c14

import (
	"fmt"
	"os"
	"path/filepath"
	"strings"
	"time"

	"github.com/git-lfs/git-lfs/v3/tq"
	"github.com/git-lfs/git-lfs/v3/verifx/vx"
)

type c14bChooser struct{ x *vx.X }

func (c c14bChooser) In(n int) int             { return c.x.In(n) }
func (c c14bChooser) Env(n int) int            { return c.x.EnvC(n) }
func (c c14bChooser) Sched(n int, w []int) int { return c.x.ChooseW(vx.Sched, n, w) }

type c14bSpace struct {
	name    string
	adds    [][]string
	batch   []int
	workers []int
	p, d    int
}

func c14bSpaces(thorough bool) []c14bSpace {
	small := [][]string{{"A"}, {"A", "B"}, {"A", "a"}, {"A", "B", "C"}, {}}
	s := []c14bSpace{
		{name: "delay-P2-D0", adds: [][]string{{"A"}, {"A", "B"}, {"A", "a"}, {}}, batch: []int{1, 2}, workers: []int{1, 2}, p: 2, d: 0},
		{name: "delay-P1-D1", adds: small, batch: []int{1, 2}, workers: []int{1, 2}, p: 1, d: 1},
	}
	if thorough {
		s = append(s,
			c14bSpace{name: "delay-P2-D0-wide", adds: small, batch: []int{1, 2, 3}, workers: []int{1, 2}, p: 2, d: 0},
			c14bSpace{name: "delay-P3-D0", adds: append(append([][]string{}, small[:3]...), []string{}), batch: []int{1, 2}, workers: []int{1, 2}, p: 3, d: 0},
			c14bSpace{name: "delay-P2-D1", adds: append(append([][]string{}, small...), []string{"A", "B", "a"}), batch: []int{1, 2, 3}, workers: []int{1, 2}, p: 2, d: 1},
			c14bSpace{name: "delay-P1-D2", adds: small, batch: []int{1, 2}, workers: []int{1, 2}, p: 1, d: 2},
		)
	}
	return s
}

var c14bScratch string

func c14bRunFor(sp c14bSpace) vx.RunFunc {
	return func(x *vx.X) vx.Result {
		cfg := tq.VerifCfg{Scratch: c14bScratch, NoEnv: "duration,expiry,localfile", MaxRetries: 1, Watchers: 0}
		cfg.Adds = sp.adds[x.In(len(sp.adds))]
		cfg.BatchSize = sp.batch[x.In(len(sp.batch))]
		cfg.Workers = sp.workers[x.In(len(sp.workers))]
		cfg.NewestFirst = x.In(2) == 1
		d := tq.VerifRunDelay(cfg, c14bChooser{x})
		cfgs := fmt.Sprintf("delayed=%s batch=%d workers=%d newestfirst=%v", strings.Join(cfg.Adds, ""), cfg.BatchSize, cfg.Workers, cfg.NewestFirst)
		r := vx.Result{Transitions: int64(d.Steps)}
		r.Outcome = fmt.Sprintf("rounds=%d announced=%v leftovers=%d errs=%d deadlock=%v", len(d.Rounds), c14bRoundSizes(d.Rounds), len(d.Leftovers), len(d.Errors), d.Deadlock)
		r.NonTrivial = []string{cfgs + " | env: " + d.Script}
		r.States = []uint64{vx.Hash64(cfgs, d.Script, fmt.Sprint(d.Steps), r.Outcome)}
		if len(x.Points)%5 == 0 {
			r.Sample = map[string]interface{}{"config": cfgs, "env_script": d.Script, "choices": x.Choices(), "list_answers": d.Rounds, "leftovers": d.Leftovers}
		}
		for _, v := range d.Violations {
			parts := strings.SplitN(v, "|", 2)
			r.Violations = append(r.Violations, vx.Violation{Fingerprint: parts[0], Msg: parts[1] + "\nconfig: " + cfgs + "\nenv script: " + d.Script,
				Detail: map[string]interface{}{"config": cfgs, "rounds": d.Rounds, "leftovers": d.Leftovers, "errors": d.Errors, "blocked": d.Blocked}})
		}
		return r
	}
}

func c14bRoundSizes(r [][]string) []int {
	var s []int
	for _, x := range r {
		s = append(s, len(x))
	}
	return s
}

// c14bDelayParts explores the delay-buffer scenarios and returns them as vx.Parts (used by the C14 driver).
func c14bDelayParts(c *vx.Check, testName string, replay bool) ([]vx.Part, func()) {
	c14bScratch = filepath.Join(os.Getenv("VERIF_SCRATCH"), "tqfiles")
	tq.VerifPrepareScratch(c14bScratch, true)
	nw := 16
	pool := vx.NewProcPool(nw, []string{os.Getenv("VERIF_SELF"), "-test.run", "^" + testName + "$"}, os.Environ())
	var parts []vx.Part
	only := os.Getenv("VERIF_ONLY")
	list := c14bSpaces(c.Thorough())
	if replay {
		list = c14bSpaces(true)
	}
	for _, sp := range list {
		sp := sp
		exec := func(p []vx.Point) vx.Result { return pool.ExecArg(p, sp.name) }
		if replay {
			parts = append(parts, vx.Part{Scenario: sp.name, Exec: exec})
			continue
		}
		if only != "" && only != sp.name {
			continue
		}
		e := &vx.Explorer{Name: sp.name, BoundEnv: sp.d, BoundSch: sp.p, BoundSum: -1, Exec: exec, Workers: nw, Deadline: c.DeadlineAfter(5*time.Minute, 30*time.Minute)}
		t0 := time.Now()
		st := e.Explore()
		fmt.Printf("  scenario %-14s P<=%d D<=%d executions=%d outcomes=%d exhaustive=%v %.1fs\n", sp.name, sp.p, sp.d, st.Executions, len(st.Outcomes), st.Exhaustive, time.Since(t0).Seconds())
		parts = append(parts, vx.Part{Scenario: sp.name, Stats: st, Exec: exec})
	}
	return parts, pool.Close
}

// c14bWorker serves worker requests when this process is a pool worker; returns false otherwise.
func c14bWorker() bool {
	if os.Getenv("VX_WORKER") == "" {
		return false
	}
	c14bScratch = filepath.Join(os.Getenv("VERIF_SCRATCH"), "tqfiles")
	tq.VerifPrepareScratch(c14bScratch, false)
	by := map[string]c14bSpace{}
	for _, s := range c14bSpaces(true) {
		by[s.name] = s
	}
	vx.ServeWorker(func(arg string) vx.RunFunc { return c14bRunFor(by[arg]) })
	return true
}


func init() {
	C14ExtraParts = append(C14ExtraParts, func(c *vx.Check, replay bool) []vx.Part {
		parts, _ := c14bDelayParts(c, "TestVerifC14", replay)
		return parts
	})
}
