package c14

// World of the C14 check: payload classes, the fake LFS server (objects present / missing (404) / failing
// (500 on the storage GET)), template repositories, observation of the local store, and the one-shot
// `git-lfs clean` / `git-lfs smudge` reference runs (memoised per exact local-store state).

import (
	"bytes"
	"context"
	"fmt"
	"io/fs"
	"net/http"
	"os"
	"os/exec"
	"path/filepath"
	"sort"
	"strings"
	"sync"
	"syscall"
	"time"

	"github.com/git-lfs/git-lfs/v3/verifx/fakelfs"
	"github.com/git-lfs/git-lfs/v3/verifx/gitx"
)

// c14Payload is one payload class of the request alphabet.
type c14Payload struct {
	Name    string
	Bytes   []byte
	Schemes []string // distinct packetisations (schemes yielding the same chunk sequence are merged)
	PtrOid  string   // for pointer payloads: the object named
	Group   string   // class used in fingerprints
	CoreFor string   // kinds that keep this payload beyond the full-alphabet request positions: "c"=clean, "s"=smudge/dsmudge; upper case = thorough tier only
}

type c14Root struct {
	Name   string
	Delay  bool // capability=delay offered in the handshake
	Full   bool // quick tier: this root gets the full alphabet at the first request position
	SkipDL bool // lfs.skipdownloaderrors=true
	Skip   bool // filter-process --skip / smudge --skip
}

type c14Env struct {
	w        *gitx.World
	srv      *fakelfs.Server
	bin      string
	scratch  string
	payloads []c14Payload
	pidx     map[string]int
	roots    []c14Root
	tmpl     map[bool]string // skipdl -> template repo
	objL     []byte
	objS     []byte
	objE     []byte
	objM     []byte
	objS2    []byte

	omu     sync.Mutex
	objects map[string][]byte // every object content ever seen in a store (oid -> bytes)

	rmu  sync.Mutex
	refs map[string]*c14RefEntry

	seq     int64
	seqMu   sync.Mutex
	refRuns int64
}

type c14Ref struct {
	Out      []byte
	Exit     int
	Err      string
	TimedOut bool
}

type c14RefEntry struct {
	once sync.Once
	ref  c14Ref
}

func c14PointerText(data []byte) string { return gitx.PointerText(data) }

func c14NewEnv() *c14Env {
	e := &c14Env{pidx: map[string]int{}, tmpl: map[bool]string{}, objects: map[string][]byte{}, refs: map[string]*c14RefEntry{}}
	e.scratch = os.Getenv("VERIF_SCRATCH")
	if e.scratch == "" {
		e.scratch = os.TempDir()
	}
	e.bin = os.Getenv("VERIF_GITLFS")
	w, err := gitx.NewWorld(e.scratch)
	if err != nil {
		panic(err)
	}
	e.w = w
	e.srv = fakelfs.New()

	e.objL = gitx.Content("bin", 140000, 1) // local object: answer needs 3 content packets
	e.objS = gitx.Content("bin", 3000, 2)   // server-only object
	e.objM = gitx.Content("bin", 2000, 3)   // on no server: batch answers 404 for it
	e.objE = gitx.Content("bin", 2500, 4)   // listed by batch, storage GET answers 500
	e.objS2 = gitx.Content("bin", 70000, 6) // second server-only object (named by the non-canonical pointer)
	e.srv.Put(e.objS)
	e.srv.Put(e.objS2)
	e.srv.Put(e.objL)
	oidE := e.srv.Put(e.objE)
	e.srv.Hook = func(s *fakelfs.Server, w http.ResponseWriter, r *http.Request, rec *fakelfs.Recorded) bool {
		if rec.Kind == "storage-get" && strings.HasSuffix(rec.Path, "/"+oidE) {
			w.Header().Set("Content-Type", fakelfs.MediaType)
			w.WriteHeader(500)
			w.Write([]byte(`{"message":"verif: storage failure"}`))
			return true
		}
		return false
	}
	for _, o := range [][]byte{e.objL, e.objS, e.objS2, e.objE, e.objM} {
		e.objects[gitx.Oid(o)] = o
	}

	ptrS := c14PointerText(e.objS)
	pad := strings.Repeat("\n", 1024-len(ptrS))
	add := func(name, group, core string, b []byte, ptrOf []byte) {
		p := c14Payload{Name: name, Bytes: b, Group: group, CoreFor: core}
		if ptrOf != nil {
			p.PtrOid = gitx.Oid(ptrOf)
		}
		seen := map[string]bool{}
		for _, s := range []string{"mixed", "1", "1023", "1024", "1025", "65516"} {
			k := fmt.Sprint(c14Chunks(len(b), s))
			if !seen[k] {
				seen[k] = true
				p.Schemes = append(p.Schemes, s)
			}
		}
		e.pidx[name] = len(e.payloads)
		e.payloads = append(e.payloads, p)
	}
	add("ptrL", "ptr-local", "s", []byte(c14PointerText(e.objL)), e.objL)
	add("ptrS", "ptr-server-only", "cs", []byte(ptrS), e.objS)
	add("ptrM", "ptr-download-fails", "s", []byte(c14PointerText(e.objM)), e.objM)
	add("ptrE", "ptr-download-fails", "S", []byte(c14PointerText(e.objE)), e.objE)
	add("ptrNC", "ptr-noncanonical", "s", []byte(c14PointerText(e.objS2)+"\n"), e.objS2) // non-canonical spelling (extra blank line), second server-only object
	add("empty", "empty", "S", []byte{}, nil)
	add("small", "small-content", "sC", []byte("hello c14\n"), nil)
	add("contentS", "object-content", "c", e.objS, nil) // cleaning it puts object S into the local store
	add("big", "big-content", "", gitx.Content("bin", c14MaxData+1025, 5), nil)
	add("ptrpad", "ptr-prefixed-content", "", []byte(ptrS+pad+"trailing content\n"), nil) // first 1024 bytes parse as ptrS
	add("ptrjunk", "ptr-prefixed-content", "", []byte(ptrS+"this line is not part of a pointer\n"), nil)

	e.roots = []c14Root{
		{Name: "delay", Delay: true, Full: true},
		{Name: "nodelay", Full: true},
		{Name: "delay+skipdownloaderrors", Delay: true, SkipDL: true},
		{Name: "nodelay+skipdownloaderrors", SkipDL: true},
		{Name: "delay+skip-smudge", Delay: true, Skip: true},
	}
	for _, skipdl := range []bool{false, true} {
		e.tmpl[skipdl] = e.makeTemplate(skipdl)
	}
	return e
}

func (e *c14Env) close() {
	e.srv.Close()
	e.w.Close()
}

func (e *c14Env) nextDir(prefix string) string {
	e.seqMu.Lock()
	e.seq++
	n := e.seq
	e.seqMu.Unlock()
	return filepath.Join(e.w.Root, fmt.Sprintf("%s%d", prefix, n))
}

// makeTemplate builds the base repository: lfs.url -> fake server, one retry without delay, object L in the
// local store, hooks already installed (so every fresh process starts from the same tree).
func (e *c14Env) makeTemplate(skipdl bool) string {
	dir := e.w.Init(fmt.Sprintf("tmpl-%v", skipdl), false)
	e.w.MustGit(dir, "config", "lfs.url", e.srv.URL+"/r")
	e.w.MustGit(dir, "config", "lfs.transfer.maxretries", "1")
	e.w.MustGit(dir, "config", "lfs.transfer.maxretrydelay", "0")
	if skipdl {
		e.w.MustGit(dir, "config", "lfs.skipdownloaderrors", "true")
	}
	// one filter run (handshake + EOF) writes the hooks and creates lfs/ directories
	p, err := c14Start(e.bin, dir, e.w.Env(), "filter-process")
	if err != nil {
		panic(err)
	}
	if bad, died := p.handshake(false); bad != "" || died {
		p.kill()
		panic(fmt.Sprintf("c14: template handshake failed: %q died=%v stderr=%s", bad, died, p.stderr.String()))
	}
	if code, _ := p.finish(); code != 0 {
		panic(fmt.Sprintf("c14: template filter run exited %d: %s", code, p.stderr.String()))
	}
	gitx.PutObject(filepath.Join(dir, ".git", "lfs"), e.objL)
	// work tree: a and b do not exist, c exists and is small (clean looks at the file named by pathname)
	gitx.WriteFile(dir, "c", []byte("tiny\n"), 0644)
	// keep the per-execution copy small
	if ents, err := os.ReadDir(filepath.Join(dir, ".git", "hooks")); err == nil {
		for _, en := range ents {
			if strings.HasSuffix(en.Name(), ".sample") {
				os.Remove(filepath.Join(dir, ".git", "hooks", en.Name()))
			}
		}
	}
	return dir
}

// c14CopyTree is a plain recursive copy (regular files and directories only; the templates contain nothing else).
func c14CopyTree(src, dst string) error {
	return filepath.WalkDir(src, func(p string, d fs.DirEntry, err error) error {
		if err != nil {
			return err
		}
		rel, _ := filepath.Rel(src, p)
		t := filepath.Join(dst, rel)
		info, err := d.Info()
		if err != nil {
			return err
		}
		if d.IsDir() {
			return os.MkdirAll(t, info.Mode().Perm()|0700)
		}
		if !info.Mode().IsRegular() {
			return nil
		}
		b, err := os.ReadFile(p)
		if err != nil {
			return err
		}
		return os.WriteFile(t, b, info.Mode().Perm())
	})
}

// freshRepo returns a new copy of the template whose local store holds exactly the given objects.
func (e *c14Env) freshRepo(skipdl bool, store []string) (string, error) {
	dir := e.nextDir("r")
	if err := c14CopyTree(e.tmpl[skipdl], dir); err != nil {
		return dir, err
	}
	if store != nil {
		lfsdir := filepath.Join(dir, ".git", "lfs")
		os.RemoveAll(filepath.Join(lfsdir, "objects"))
		os.MkdirAll(filepath.Join(lfsdir, "objects"), 0755)
		for _, oid := range store {
			e.omu.Lock()
			b, ok := e.objects[oid]
			e.omu.Unlock()
			if !ok {
				return dir, fmt.Errorf("c14: content of object %s unknown", oid)
			}
			p := gitx.ObjectPath(lfsdir, oid)
			os.MkdirAll(filepath.Dir(p), 0755)
			if err := os.WriteFile(p, b, 0644); err != nil {
				return dir, err
			}
		}
	}
	return dir, nil
}

func c14RemoveAll(dir string) {
	if err := os.RemoveAll(dir); err != nil {
		exec.Command("chmod", "-R", "u+rwx", dir).Run()
		os.RemoveAll(dir)
	}
}

// scanStore observes the local store: sorted names of the files under lfs/objects (complete objects only:
// git-lfs downloads into lfs/tmp or lfs/incomplete and renames).  A file whose bytes do not hash to its name is
// reported with a "!" suffix so that a corrupt store is a different state.
func (e *c14Env) scanStore(repo string) []string {
	var r []string
	for _, f := range gitx.ScanStore(filepath.Join(repo, ".git", "lfs")) {
		if !f.Valid {
			r = append(r, f.Rel+"!")
			continue
		}
		e.omu.Lock()
		_, known := e.objects[f.Name]
		e.omu.Unlock()
		if !known {
			if b, err := os.ReadFile(filepath.Join(repo, ".git", "lfs", "objects", f.Rel)); err == nil && gitx.Oid(b) == f.Name {
				e.omu.Lock()
				e.objects[f.Name] = b
				e.omu.Unlock()
			}
		}
		r = append(r, f.Name)
	}
	sort.Strings(r)
	return r
}

func (e *c14Env) storeLabel(store []string) string {
	names := map[string]string{gitx.Oid(e.objL): "L", gitx.Oid(e.objS): "S", gitx.Oid(e.objS2): "S2", gitx.Oid(e.objE): "E", gitx.Oid(e.objM): "M"}
	for _, p := range e.payloads {
		if p.PtrOid == "" {
			names[gitx.Oid(p.Bytes)] = "c:" + p.Name
		}
	}
	var r []string
	for _, o := range store {
		if n, ok := names[o]; ok {
			r = append(r, n)
		} else {
			r = append(r, c14Clip(o, 10))
		}
	}
	sort.Strings(r)
	return strings.Join(r, ",")
}

// oneShot runs the one-shot filter binary (`git-lfs clean -- path` / `git-lfs smudge [--skip] -- path`) on the
// payload in a fresh repository whose local store is exactly `store`.  Memoised per (root config, store, command,
// path, payload): same bytes, same local-store state.
func (e *c14Env) oneShot(root c14Root, store []string, command, path string, payload int) c14Ref {
	for _, s := range store {
		if strings.HasSuffix(s, "!") {
			return c14Ref{Exit: -3, Err: "store contains a corrupt file; no reference run"}
		}
	}
	key := fmt.Sprintf("%v|%v|%s|%s|%s|%d", root.SkipDL, root.Skip, strings.Join(store, ","), command, path, payload)
	e.rmu.Lock()
	ent, ok := e.refs[key]
	if !ok {
		ent = &c14RefEntry{}
		e.refs[key] = ent
	}
	e.rmu.Unlock()
	ent.once.Do(func() {
		dir, err := e.freshRepo(root.SkipDL, store)
		defer c14RemoveAll(dir)
		if err != nil {
			ent.ref = c14Ref{Exit: -3, Err: err.Error()}
			return
		}
		args := []string{command}
		if command == "smudge" && root.Skip {
			args = append(args, "--skip")
		}
		args = append(args, "--", path)
		ctx, cancel := context.WithTimeout(context.Background(), 60*time.Second)
		defer cancel()
		cmd := exec.CommandContext(ctx, e.bin, args...)
		cmd.Dir = dir
		cmd.Env = e.w.Env()
		cmd.Stdin = bytes.NewReader(e.payloads[payload].Bytes)
		var out, errb bytes.Buffer
		cmd.Stdout, cmd.Stderr = &out, &errb
		cmd.SysProcAttr = &syscall.SysProcAttr{Setpgid: true}
		cmd.Cancel = func() error { return syscall.Kill(-cmd.Process.Pid, syscall.SIGKILL) }
		cmd.WaitDelay = 2 * time.Second
		rerr := cmd.Run()
		ref := c14Ref{Out: out.Bytes(), Err: c14Clip(errb.String(), 600)}
		if ctx.Err() == context.DeadlineExceeded {
			ref.TimedOut = true
			ref.Exit = -1
		} else if rerr != nil {
			if ee, ok := rerr.(*exec.ExitError); ok {
				ref.Exit = ee.ExitCode()
			} else {
				ref.Exit = -2
				ref.Err += " [exec] " + rerr.Error()
			}
		}
		e.seqMu.Lock()
		e.refRuns++
		e.seqMu.Unlock()
		ent.ref = ref
	})
	return ent.ref
}
