package c14

// C14 (a) — the long-running filter speaks a valid protocol, equals the one-shot filters, and completes delays.
//
// Explicit-state breadth-first search over request programs that obey Git's client grammar, every program
// executed on the REAL `git-lfs filter-process` binary by the pkt-line client of c14_client_verif_test.go,
// with lib/fakelfs as the LFS server.  A successor is produced by replaying the (shortest) program of the parent
// state on a fresh process in a fresh repository and sending one more request; the canonical state key
// (root configuration, process alive, delayed map, transfer queue nil/alive, local store) dedups.
//
// Scenarios are listed in c14Scenarios (extensible: part (b), the delay-buffer schedules, is a separate scenario).

import (
	"bytes"
	"fmt"
	"os"
	"path/filepath"
	"sort"
	"strings"
	"sync"
	"testing"
	"time"

	"github.com/git-lfs/git-lfs/v3/verifx/fakelfs"
	"github.com/git-lfs/git-lfs/v3/verifx/gitx"
	"github.com/git-lfs/git-lfs/v3/verifx/vx"
)

// three path names; two of them differ only in trailing white space and one starts with white space and contains a directory
// separator and an inner space: whatever the filter does with the pathname header, these must stay three different files
var c14Paths = []string{"a", "a ", " b/c d"}

// c14Op is one element of the request alphabet.  Kind "finish" is the macro step Git's finish_delayed_checkout
// performs: rounds of list_available_blobs, each followed by a content-less smudge for every announced path,
// until the list is empty.
type c14Op struct {
	Kind    string // clean | smudge | dsmudge (smudge with can-delay=1) | finish
	Path    string
	Payload int
	Scheme  string
}

func (e *c14Env) opString(o c14Op) string {
	if o.Kind == "finish" {
		return "finish(list/retrieve until empty)"
	}
	return fmt.Sprintf("%s(%s,%s,pk=%s)", o.Kind, o.Path, e.payloads[o.Payload].Name, o.Scheme)
}

func (e *c14Env) buildOps() []c14Op {
	ops := []c14Op{{Kind: "finish"}}
	for _, k := range []string{"clean", "smudge", "dsmudge"} {
		for _, p := range c14Paths {
			for pi, pl := range e.payloads {
				for _, s := range pl.Schemes {
					ops = append(ops, c14Op{Kind: k, Path: p, Payload: pi, Scheme: s})
				}
			}
		}
	}
	return ops
}

// c14State is the canonical state after a program.
type c14State struct {
	Root    int
	Dead    bool              // the filter process ended inside an exchange
	Bad     bool              // an oracle failed on the way here (not expanded further)
	Delayed map[string]int    // path -> payload of the request answered status=delayed and not yet retrieved
	QAlive  bool              // mirror of the filter's `q != nil` (delay capability and a smudge since the last completed list phase)
	Store   []string          // observed local store
	Used    map[string]string // paths smudged in the current checkout (since process start / the last completed list phase) -> "s" plain, "d" with can-delay=1
	Depth   int               // requests before/between list phases (not part of the key)
}

func (s *c14State) key() string {
	var d []string
	for p, pl := range s.Delayed {
		d = append(d, fmt.Sprintf("%s=%d", p, pl))
	}
	sort.Strings(d)
	var u []string
	for p, how := range s.Used {
		u = append(u, p+":"+how)
	}
	sort.Strings(u)
	return fmt.Sprintf("root=%d dead=%v bad=%v q=%v delayed=[%s] smudged-in-checkout=[%s] store=[%s]", s.Root, s.Dead, s.Bad, s.QAlive, strings.Join(d, ","), strings.Join(u, ","), strings.Join(s.Store, ","))
}

type c14StepRec struct {
	Op      string `json:"op"`
	Answer  string `json:"answer"`
	Ref     string `json:"oneshot,omitempty"`
	StoreIn string `json:"store_before"`
}

type c14Run struct {
	Steps    []c14StepRec
	Viols    []vx.Violation
	State    c14State
	PreKey   string // state key before the last op
	Outcome  string // outcome class of the last op
	Evals    int64
	Inconcl  string
	ToolErr  string
	HangDump string // stderr of the filter after SIGQUIT when the tool guard fired
	Cur      string // "<request kind>:<state class>" of the exchange in progress (label of a hang)
	Queues   int    // transfer queues the filter has created so far (model; only used for labels)
	Counters map[string]int64
}

func (r *c14Run) viol(fp, msg string, detail interface{}) {
	r.State.Bad = true
	for _, v := range r.Viols {
		if v.Fingerprint == fp {
			return
		}
	}
	r.Viols = append(r.Viols, vx.Violation{Fingerprint: fp, Msg: msg, Detail: detail})
}

func c14WhyClass(why string) string {
	f := strings.Fields(why)
	if len(f) == 0 {
		return "unknown"
	}
	return f[0]
}

func c14AnswerString(a c14Answer) string {
	switch a.Form {
	case "success":
		return fmt.Sprintf("status=success content=%dB packets=%v trailing=%q", len(a.Content), c14ClipInts(a.Packets), a.Status2)
	case "error":
		return fmt.Sprintf("status1=%q content=%dB trailing=%q (error)", a.Status1, len(a.Content), a.Status2)
	case "list":
		return fmt.Sprintf("list %v status=%s", a.Paths, a.Status1)
	case "died", "malformed":
		return a.Form + ": " + a.Why
	}
	return a.Form
}

func c14ClipInts(v []int) string {
	if len(v) > 6 {
		return fmt.Sprintf("%v...(%d packets)", v[:6], len(v))
	}
	return fmt.Sprint(v)
}

// exchange sends one clean/smudge request and parses the answer.
func (e *c14Env) exchange(p *c14Proc, command, path string, canDelay bool, payload []byte, scheme string) c14Answer {
	p.send(c14Request(command, path, canDelay, payload, c14Chunks(len(payload), scheme)))
	p.waiting(true)
	a := p.readFilterAnswer()
	p.sendWait()
	p.waiting(false)
	return a
}

// checkFilterAnswer applies the per-answer oracle: well-formed exchange; content == one-shot filter.
// cmd is the fingerprint label (clean | smudge | smudge-can-delay | retrieval).
func (e *c14Env) checkFilterAnswer(r *c14Run, p *c14Proc, cmd string, canDelay bool, pl c14Payload, a c14Answer, ref c14Ref, what string) (form string) {
	r.Evals++
	r.Counters["clause:well-formed-exchange"]++
	cmdClass := cmd
	if cmd == "retrieval" {
		cmdClass = "smudge"
	}
	refs := fmt.Sprintf("one-shot: exit=%d stdout=%dB stderr=%q", ref.Exit, len(ref.Out), c14Clip(ref.Err, 200))
	switch a.Form {
	case "malformed":
		r.viol("C14:malformed-answer:"+cmdClass+":"+c14WhyClass(a.Why), fmt.Sprintf("%s: answer is not a well-formed status/content/status exchange: %s", what, a.Why), nil)
		return "malformed"
	case "died":
		code, _ := p.finish()
		r.State.Dead = true
		if p.timedOut() {
			return "guard-timeout" // tool guard fired (reported as inconclusive by runProgram), not an observation
		}
		r.viol("C14:exchange-truncated:"+cmdClass+":"+pl.Group,
			fmt.Sprintf("%s: the filter process ended inside the exchange (%s, after %d content bytes; exit code %d) instead of answering with a status\n%s\nfilter stderr: %s",
				what, a.Why, len(a.Content), code, refs, c14Clip(p.stderr.String(), 400)), nil)
		r.State.Dead = true
		return fmt.Sprintf("died(%s,exit=%d)", a.Why, code)
	case "delayed":
		if !canDelay {
			r.viol("C14:delayed-without-can-delay:"+cmdClass, what+": status=delayed although the request did not carry can-delay=1", nil)
		}
		return "delayed"
	case "abort", "error":
		for _, n := range a.Packets {
			if n > c14MaxData {
				r.viol("C14:malformed-answer:"+cmdClass+":packet-too-large", what+": content packet larger than 65516 bytes", nil)
			}
		}
		r.Counters["clause:content-equals-one-shot"]++
		if ref.TimedOut || ref.Exit < 0 {
			r.Inconcl = "one-shot reference run failed: " + ref.Err
			return a.Form
		}
		if ref.Exit == 0 {
			r.viol("C14:filter-error-oneshot-succeeds:"+cmd+":"+pl.Group,
				fmt.Sprintf("%s: filter-process answered %s but the one-shot filter succeeds on the same input\n%s\nfilter stderr: %s", what, c14AnswerString(a), refs, c14Clip(p.stderr.String(), 400)), nil)
		}
		return a.Form + "(one-shot fails too)"
	case "success":
		r.Counters["clause:content-equals-one-shot"]++
		if ref.TimedOut || ref.Exit < 0 {
			r.Inconcl = "one-shot reference run failed: " + ref.Err
			return "success"
		}
		if ref.Exit != 0 {
			r.viol("C14:filter-success-oneshot-fails:"+cmd+":"+pl.Group,
				fmt.Sprintf("%s: filter-process answered success with %d bytes but the one-shot filter fails on the same input\n%s", what, len(a.Content), refs), nil)
			return "success(one-shot fails)"
		}
		if !bytes.Equal(a.Content, ref.Out) {
			r.viol("C14:content-differs-from-oneshot:"+cmd+":"+pl.Group,
				fmt.Sprintf("%s: content returned by filter-process (%d bytes, sha %.12s) differs from the one-shot filter's output (%d bytes, sha %.12s); first difference at byte %d",
					what, len(a.Content), gitx.Oid(a.Content), len(ref.Out), gitx.Oid(ref.Out), c14FirstDiff(a.Content, ref.Out)), nil)
			return "success(content differs)"
		}
		return fmt.Sprintf("success(%s,%dpkt)", e.contentClass(a.Content, pl), len(a.Packets))
	}
	r.ToolErr = "unknown answer form " + a.Form
	return a.Form
}

func c14FirstDiff(a, b []byte) int {
	n := len(a)
	if len(b) < n {
		n = len(b)
	}
	for i := 0; i < n; i++ {
		if a[i] != b[i] {
			return i
		}
	}
	return n
}

func (e *c14Env) contentClass(c []byte, pl c14Payload) string {
	switch {
	case len(c) == 0:
		return "empty"
	case bytes.Equal(c, pl.Bytes):
		return "same-as-input"
	case bytes.HasPrefix(c, []byte("version https://git-lfs")):
		return "pointer"
	}
	oid := gitx.Oid(c)
	for n, o := range map[string][]byte{"L": e.objL, "S": e.objS, "S2": e.objS2, "E": e.objE, "M": e.objM} {
		if gitx.Oid(o) == oid {
			return "object-" + n
		}
	}
	return "other"
}

// runProgramR is runProgram with re-execution when a tool guard fired without a decidable dump (machine overloaded).
func (e *c14Env) runProgramR(rootIdx int, ops []c14Op) c14Run {
	run := e.runProgram(rootIdx, ops)
	retried := int64(0)
	for try := 0; try < 2 && strings.HasPrefix(run.Inconcl, "filter-process guard timeout"); try++ {
		first, dump := run.Inconcl, run.HangDump
		run = e.runProgram(rootIdx, ops)
		retried++
		if run.Inconcl == "" {
			fmt.Printf("note: guard timeout not reproduced on re-execution: %s\n", c14Clip(first, 300))
		}
		if try == 0 {
			fmt.Printf("note: goroutine dump of the filter at the guard timeout:\n%s\n", c14Clip(c14DumpSummary(dump), 4000))
		}
	}
	if run.Counters != nil && retried > 0 {
		run.Counters["guard-timeout-reexecutions"] += retried
	}
	return run
}

// c14DumpSummary lists the goroutines of a dump with their states and their git-lfs frames.
func c14DumpSummary(d string) string {
	var b strings.Builder
	for _, g := range c14ParseDump(d) {
		if g.ID == 0 {
			continue
		}
		if ok, known := c14SystemStates[g.State]; known && ok {
			continue
		}
		var fr []string
		for _, f := range g.Frames {
			if strings.Contains(f, "git-lfs/v3/") || strings.HasPrefix(f, "os/signal") || strings.HasPrefix(f, "net/http") {
				i := strings.Index(f, "git-lfs/v3/")
				if i >= 0 {
					f = f[i+len("git-lfs/v3/"):]
				}
				fr = append(fr, strings.SplitN(f, "(0x", 2)[0])
			}
		}
		if len(fr) > 4 {
			fr = fr[:4]
		}
		fmt.Fprintf(&b, "  goroutine %d [%s]: %s\n", g.ID, g.State, strings.Join(fr, " <- "))
	}
	return b.String()
}

// runProgram executes root + ops on a fresh process in a fresh repository and evaluates every oracle clause.
func (e *c14Env) runProgram(rootIdx int, ops []c14Op) (r c14Run) {
	r.Counters = map[string]int64{}
	root := e.roots[rootIdx]
	r.State = c14State{Root: rootIdx, Delayed: map[string]int{}, Used: map[string]string{}}
	repo, err := e.freshRepo(root.SkipDL, nil)
	defer c14RemoveAll(repo)
	if err != nil {
		r.ToolErr = "cannot create repository: " + err.Error()
		return
	}
	args := []string{"filter-process"}
	if root.Skip {
		args = append(args, "--skip")
	}
	p, err := c14Start(e.bin, repo, e.w.Env(), args...)
	if err != nil {
		r.ToolErr = "cannot start filter-process: " + err.Error()
		return
	}
	defer p.kill()
	defer func() {
		if p.timedOut() {
			var names []string
			for _, o := range ops {
				names = append(names, e.opString(o))
			}
			prog := fmt.Sprintf("[root %s] %s", root.Name, strings.Join(names, " ; "))
			r.HangDump = p.stderr.String()
			r.Viols = nil
			r.State.Dead = true
			// the goroutine dump - not the elapsed time - decides: a process in which every goroutine is parked on a
			// channel/sync operation and the main goroutine sits inside the filter loop can never answer
			if dead, where, why := c14ClassifyDump(r.HangDump); dead {
				r.State.Bad = true
				r.Counters["clause:answers-every-request(no deadlock)"]++
				r.Viols = []vx.Violation{{Fingerprint: "C14:hang:" + r.Cur,
					Msg: fmt.Sprintf("the filter never answers (%s): goroutine dump shows a deadlock - main goroutine parked in commands.%s, no goroutine running, runnable, sleeping or waiting for IO. Program: %s\n%s",
						r.Cur, where, prog, c14DumpSummary(r.HangDump))}}
				r.Outcome = "HANG(deadlock in " + where + ") at " + r.Cur
				r.Inconcl = ""
			} else {
				r.Inconcl = fmt.Sprintf("filter-process guard timeout in %s at %s (dump not a deadlock: %s)", prog, r.Cur, why)
			}
		}
	}()
	r.Cur = "handshake:-"
	bad, died := p.handshake(root.Delay)
	r.Evals++
	if died {
		code, _ := p.finish()
		r.viol("C14:handshake-truncated", fmt.Sprintf("the filter process ended during the handshake (exit %d): %s", code, c14Clip(p.stderr.String(), 400)), nil)
		r.State.Dead = true
		return
	}
	if bad != "" {
		r.viol("C14:handshake-malformed:"+c14WhyClass(bad), "handshake answer malformed: "+bad, nil)
		return
	}
	r.State.Store = e.scanStore(repo)
	r.PreKey = r.State.key()
	lastLabel := "handshake:-"

	for i, op := range ops {
		last := i == len(ops)-1
		if r.State.Dead || r.State.Bad {
			// a program is only ever extended from states without violation; when replaying a longer program
			// against a changed tree the earlier violation ends the run
			break
		}
		if last {
			r.PreKey = r.State.key()
		}
		storeIn := e.scanStore(repo)
		rec := c14StepRec{Op: e.opString(op), StoreIn: e.storeLabel(storeIn)}
		var outcome string
		if op.Kind == "finish" {
			outcome = e.runFinish(&r, p, root, repo, &rec)
			r.State.QAlive = false
			r.State.Used = map[string]string{} // the checkout is complete
			lastLabel = "finish:-"
		} else {
			r.State.Depth++
			pl := e.payloads[op.Payload]
			command, canDelay, cmd := op.Kind, false, op.Kind
			if op.Kind == "dsmudge" {
				command, canDelay, cmd = "smudge", true, "smudge-can-delay"
			}
			lastLabel = cmd + ":" + pl.Group
			if op.Path == "c" && op.Kind == "clean" {
				lastLabel += ":worktree-file-exists"
			}
			r.Cur = cmd + ":" + pl.Group
			if command == "smudge" && root.Delay && !r.State.QAlive {
				r.Queues++
			}
			ref := e.oneShot(root, storeIn, command, op.Path, op.Payload)
			a := e.exchange(p, command, op.Path, canDelay, pl.Bytes, op.Scheme)
			what := fmt.Sprintf("request %d %s [root %s, store {%s}]", i+1, e.opString(op), root.Name, e.storeLabel(storeIn))
			form := e.checkFilterAnswer(&r, p, cmd, canDelay, pl, a, ref, what)
			rec.Answer = c14AnswerString(a)
			rec.Ref = fmt.Sprintf("exit=%d out=%dB", ref.Exit, len(ref.Out))
			if a.Form == "delayed" && canDelay {
				r.State.Delayed[op.Path] = op.Payload
			}
			if command == "smudge" {
				if r.State.Used[op.Path] != "" {
					r.State.Used = map[string]string{} // a path comes again: Git started another checkout
				}
				r.State.Used[op.Path] = "s"
				if canDelay {
					r.State.Used[op.Path] = "d"
				}
				if root.Delay {
					r.State.QAlive = true
				}
			}
			pk := op.Scheme
			if len(pl.Schemes) == 1 {
				pk = "-"
			}
			kl := op.Kind
			if op.Path == "c" && op.Kind == "clean" {
				kl += "@worktree-file"
			}
			outcome = fmt.Sprintf("%s/%s/pk=%s -> %s", kl, pl.Name, pk, form)
		}
		r.Steps = append(r.Steps, rec)
		if last {
			r.Outcome = outcome
		}
		if !r.State.Dead {
			r.State.Store = e.scanStore(repo)
		}
	}
	if len(ops) == 0 {
		r.Outcome = "handshake -> ok"
	}
	if !r.State.Dead {
		// EOF: Git is done; the filter must exit 0 and must not have written anything beyond its last answer.
		r.Cur = "eof:-"
		code, stray := p.finish()
		r.Evals++
		r.Counters["clause:exit-0-on-eof"]++
		if p.timedOut() {
			return
		}
		if len(stray) > 0 {
			r.viol("C14:stray-output-after-last-answer", fmt.Sprintf("filter wrote %d more bytes after its last answer: %q", len(stray), c14Clip(string(stray), 80)), nil)
		}
		if code != 0 {
			r.viol("C14:exit-nonzero-on-eof:"+lastLabel, fmt.Sprintf("after %d answered requests and EOF on stdin the filter exited %d; stderr: %s", len(ops), code, c14Clip(p.stderr.String(), 500)), nil)
			r.Outcome += fmt.Sprintf(" / exit=%d on EOF", code)
		}
		r.State.Store = e.scanStore(repo)
	}
	return
}

// runFinish plays finish_delayed_checkout: list_available_blobs rounds, each announced path retrieved by a
// content-less smudge, until the list is empty.  Order- and round-count-insensitive oracle.
func (e *c14Env) runFinish(r *c14Run, p *c14Proc, root c14Root, repo string, rec *c14StepRec) string {
	start := map[string]int{}
	for k, v := range r.State.Delayed {
		start[k] = v
	}
	announced := map[string]int{}
	retrieved, rounds := 0, 0
	maxRounds := 2*len(start) + 3
	var log []string
	emptied, qNil := false, false
	var lastForm string
	for !r.State.Dead {
		if rounds >= maxRounds {
			r.Counters["clause:list-becomes-empty"]++
			r.viol("C14:list-never-empty", fmt.Sprintf("after %d list_available_blobs rounds (%d delayed blobs) the list is still not empty: %v", rounds, len(start), log), nil)
			break
		}
		rounds++
		r.Cur = "list:first-queue"
		if r.Queues > 1 {
			r.Cur = "list:later-queue"
		}
		p.send(c14Request("list_available_blobs", "", false, nil, nil))
		p.waiting(true)
		a := p.readListAnswer()
		p.sendWait()
		p.waiting(false)
		r.Evals++
		r.Counters["clause:well-formed-exchange"]++
		log = append(log, c14AnswerString(a))
		switch a.Form {
		case "malformed":
			r.viol("C14:malformed-answer:list:"+c14WhyClass(a.Why), "list_available_blobs answer malformed: "+a.Why, a.Lines)
		case "died":
			code, _ := p.finish()
			r.State.Dead = true
			if p.timedOut() {
				break
			}
			r.viol("C14:exchange-truncated:list:-", fmt.Sprintf("the filter process ended inside the list_available_blobs exchange (%s, exit %d); stderr: %s", a.Why, code, c14Clip(p.stderr.String(), 400)), nil)
			r.State.Dead = true
		case "error":
			r.viol("C14:list-answer-error", "list_available_blobs answered status=error", a.Lines)
		}
		if a.Form != "list" {
			break
		}
		if len(a.Paths) == 0 {
			emptied = true
			break
		}
		for _, path := range a.Paths {
			r.Counters["clause:announced-exactly-once"]++
			plIdx, wasDelayed := start[path]
			if !wasDelayed {
				r.viol("C14:announced-not-delayed", fmt.Sprintf("list_available_blobs announced %q which was never delayed (delayed: %v)", path, c14Keys(start)), log)
				continue
			}
			announced[path]++
			if announced[path] > 1 {
				r.viol("C14:announced-twice", fmt.Sprintf("delayed blob %q was announced as available %d times: %v", path, announced[path], log), nil)
				continue // Git does not retrieve a path it no longer waits for
			}
			pl := e.payloads[plIdx]
			store := e.scanStore(repo)
			ref := e.oneShot(root, store, "smudge", path, plIdx)
			r.Cur = "retrieval:" + pl.Group
			if pl.Group == "ptr-download-fails" {
				qNil = true // announced although its transfer cannot have succeeded: a left-over, the filter dropped its queue
			}
			if qNil && root.Delay {
				r.Queues++ // the retrieval re-creates the queue
				qNil = false
			}
			ans := e.exchange(p, "smudge", path, false, nil, "mixed")
			r.Counters["clause:retrieval-right-content"]++
			what := fmt.Sprintf("retrieval of announced blob %s (delayed with payload %s) [root %s, list round %d]", path, pl.Name, root.Name, rounds)
			lastForm = e.checkFilterAnswer(r, p, "retrieval", false, pl, ans, ref, what)
			log = append(log, fmt.Sprintf("retrieve %s: %s", path, c14AnswerString(ans)))
			if ans.Form == "success" || ans.Form == "error" || ans.Form == "abort" {
				// Git has its answer for this path (content or a reported failure) and will not ask again
				delete(r.State.Delayed, path)
				retrieved++
			}
			if r.State.Dead {
				break
			}
		}
	}
	if emptied {
		r.Counters["clause:list-becomes-empty"]++
		for path := range start {
			if announced[path] == 0 {
				r.viol("C14:delayed-never-announced", fmt.Sprintf("delayed blob %q was never announced although the list became empty: %v", path, log), nil)
			}
		}
		r.State.Delayed = map[string]int{}
	}
	rec.Answer = strings.Join(log, " | ")
	var cls []string
	for _, pth := range c14Keys(start) {
		cls = append(cls, e.payloads[start[pth]].Name)
	}
	sort.Strings(cls)
	end := "list-empty"
	if r.State.Dead {
		end = "died(" + lastForm + ")"
	} else if !emptied {
		end = "not-emptied"
	}
	return fmt.Sprintf("finish[%s] -> announced=%d retrieved=%d %s", strings.Join(cls, "+"), len(announced), retrieved, end)
}

func c14Keys(m map[string]int) []string {
	var r []string
	for k := range m {
		r = append(r, k)
	}
	sort.Strings(r)
	return r
}

// ---------------------------------------------------------------------------------------------
// programs <-> choice vectors, BFS

type c14Search struct {
	e            *c14Env
	ops          []c14Op
	depth        int // requests outside list phases
	fullUpTo     int // request positions < fullUpTo use the full alphabet (all payloads, all packetisations)
	allRootsFull bool
	thorough     bool // thorough tier: larger core alphabet
}

// run is the vx.RunFunc: point 0 = root, every following point = op index + 1 (0 ends the program).
func (s *c14Search) run(x *vx.X) vx.Result {
	root := x.In(len(s.e.roots))
	var prog []c14Op
	for {
		c := x.In(len(s.ops) + 1)
		if c == 0 {
			break
		}
		prog = append(prog, s.ops[c-1])
	}
	return s.toResult(root, prog, s.e.runProgramR(root, prog))
}

func (s *c14Search) toResult(root int, prog []c14Op, r c14Run) vx.Result {
	var names []string
	for _, o := range prog {
		names = append(names, s.e.opString(o))
	}
	post := r.State.key()
	res := vx.Result{Outcome: r.Outcome, Evals: r.Evals, Transitions: 1, Violations: r.Viols, Inconcl: r.Inconcl, ToolErr: r.ToolErr, Counters: r.Counters,
		States: []uint64{vx.Hash64(r.PreKey), vx.Hash64(post)}}
	if len(prog) > 0 {
		res.NonTrivial = []string{r.PreKey + " / " + names[len(names)-1]}
	}
	var lastStep interface{}
	if len(r.Steps) > 0 {
		lastStep = r.Steps[len(r.Steps)-1]
	}
	res.Sample = map[string]interface{}{"root": s.e.roots[root].Name, "program": names, "last_step": lastStep, "state_after": post, "outcome": r.Outcome}
	return res
}

func (s *c14Search) points(root int, prog []int) []vx.Point {
	pts := []vx.Point{{K: vx.Input, N: len(s.e.roots), C: root}}
	for _, o := range prog {
		pts = append(pts, vx.Point{K: vx.Input, N: len(s.ops) + 1, C: o + 1})
	}
	return pts
}

// enabled lists the op indices Git's grammar (and the stated reductions) allow in a state.
func (s *c14Search) enabled(st *c14State) []int {
	if st.Dead || st.Bad {
		return nil
	}
	var r []int
	if len(st.Delayed) > 0 {
		r = append(r, 0) // finish
	}
	if st.Depth >= s.depth {
		return r
	}
	root := s.e.roots[st.Root]
	full := st.Depth < s.fullUpTo && (s.allRootsFull || root.Full)
	// path rule beyond the full-alphabet positions (Git visits each path once per checkout, in index order):
	// clean: the smallest path Git is not waiting for; smudge: the smallest path neither delayed nor already smudged
	// in this checkout; when every path was smudged and nothing is delayed a new checkout starts again at that path.
	free, freeSmudge := "", ""
	for _, p := range c14Paths {
		if _, d := st.Delayed[p]; !d {
			if free == "" {
				free = p
			}
			if freeSmudge == "" && st.Used[p] == "" {
				freeSmudge = p
			}
		}
	}
	if freeSmudge == "" && len(st.Delayed) == 0 {
		freeSmudge = free
	}
	for i, o := range s.ops {
		if o.Kind == "finish" {
			continue
		}
		if o.Kind == "dsmudge" && !root.Delay {
			continue
		}
		if _, d := st.Delayed[o.Path]; d {
			continue // Git does not touch a path it is waiting for
		}
		pl := s.e.payloads[o.Payload]
		if full {
			// all payloads x all packetisations; clean on a (no work-tree file) and c (small work-tree file), smudges on a
			if !(o.Path == "a" || (o.Path == "c" && o.Kind == "clean")) {
				continue
			}
		} else {
			kind := "s"
			if o.Kind == "clean" {
				kind = "c"
			}
			inCore := strings.Contains(pl.CoreFor, kind) || (s.thorough && strings.Contains(pl.CoreFor, strings.ToUpper(kind)))
			want := freeSmudge
			if o.Kind == "clean" {
				want = free
			}
			if o.Path != want || o.Scheme != pl.Schemes[0] || !inCore {
				continue
			}
		}
		r = append(r, i)
	}
	return r
}

type c14Node struct {
	root int
	prog []int
	st   c14State
}

type c14Info struct {
	States       int              `json:"states"`
	Edges        int64            `json:"bfs_edges"`
	Levels       []map[string]int `json:"levels"`
	Depth        int              `json:"depth_requests_before_list_phase"`
	FullAlphabet int              `json:"full_alphabet_up_to_request"`
	Ops          int              `json:"alphabet_size"`
	Closure      bool             `json:"all_levels_completed"`
	DeadStates   int              `json:"terminal_states_process_ended"`
	RefRuns      int64            `json:"one_shot_reference_runs"`
	MaxProgram   int              `json:"longest_program_ops"`
	Samples      []interface{}    `json:"-"`
}

func (s *c14Search) bfs(deadline time.Time, workers int) (*vx.Stats, c14Info) {
	st := vx.NewStats()
	info := c14Info{Depth: s.depth, FullAlphabet: s.fullUpTo, Ops: len(s.ops)}
	seen := map[string]bool{}
	fpCount := map[string]int{}
	var level []c14Node

	type task struct {
		node c14Node
		op   int // -1: the root program itself
	}
	type done struct {
		task task
		res  vx.Result
		run  c14Run
	}
	deadlineHit := false
	execAll := func(tasks []task) []done {
		out := make([]done, len(tasks))
		var wg sync.WaitGroup
		ch := make(chan int)
		for w := 0; w < workers; w++ {
			wg.Add(1)
			go func() {
				defer wg.Done()
				for i := range ch {
					t := tasks[i]
					prog := append(append([]int{}, t.node.prog...), t.op)
					if t.op < 0 {
						prog = nil
					}
					var ops []c14Op
					for _, o := range prog {
						ops = append(ops, s.ops[o])
					}
					run := s.e.runProgramR(t.node.root, ops)
					res := s.toResult(t.node.root, ops, run)
					res.Points = append(s.points(t.node.root, prog), vx.Point{K: vx.Input, N: len(s.ops) + 1, C: 0})
					out[i] = done{task: t, res: res, run: run}
				}
			}()
		}
		stopped, n := false, len(tasks)
		for i := range tasks {
			if !deadline.IsZero() && time.Now().After(deadline) {
				stopped, n = true, i
				break
			}
			ch <- i
		}
		close(ch)
		wg.Wait()
		if stopped {
			deadlineHit = true
			st.Exhaustive = false
			st.CapHit = "deadline"
		}
		s.e.srv.ResetRequests()
		return out[:n]
	}
	samples := map[string]interface{}{}
	absorb := func(d done) (c14Node, bool) {
		res := d.res
		// one written-out case per category (kind of the last step x how it ended), preferring longer programs
		if res.Sample != nil && len(d.run.Steps) > 0 {
			cat := strings.SplitN(res.Outcome, "/", 2)[0]
			if strings.HasPrefix(res.Outcome, "finish") {
				cat = fmt.Sprintf("finish/%d-delayed/%s", len(d.task.node.st.Delayed), res.Outcome[strings.LastIndex(res.Outcome, " ")+1:])
			}
			cat = fmt.Sprintf("%s/ops=%d", cat, len(d.run.Steps))
			if _, ok := samples[cat]; !ok && len(samples) < 40 {
				samples[cat] = map[string]interface{}{"category": cat, "case": res.Sample, "steps": d.run.Steps}
			}
		}
		// keep at most 3 executions per fingerprint (the shortest come first in BFS order)
		var keep []vx.Violation
		for _, v := range res.Violations {
			fpCount[v.Fingerprint]++
			if fpCount[v.Fingerprint] <= 3 {
				keep = append(keep, v)
			}
		}
		res.Violations = keep
		st.Absorb(res.Points, &res, 0)
		info.Edges++
		if d.run.ToolErr != "" || d.run.Inconcl != "" {
			st.Exhaustive = false
			if st.CapHit == "" {
				st.CapHit = "inconclusive execution: " + c14Clip(d.run.Inconcl+d.run.ToolErr, 200)
			}
			return c14Node{}, false
		}
		k := d.run.State.key()
		if seen[k] {
			return c14Node{}, false
		}
		seen[k] = true
		if d.run.State.Dead {
			info.DeadStates++
		}
		prog := append(append([]int{}, d.task.node.prog...), d.task.op)
		if d.task.op < 0 {
			prog = nil
		}
		if len(prog) > info.MaxProgram {
			info.MaxProgram = len(prog)
		}
		return c14Node{root: d.task.node.root, prog: prog, st: d.run.State}, true
	}

	// level 0: the handshake-only programs
	var t0 []task
	for ri := range s.e.roots {
		t0 = append(t0, task{node: c14Node{root: ri}, op: -1})
	}
	for _, d := range execAll(t0) {
		if n, ok := absorb(d); ok {
			level = append(level, n)
		}
	}
	complete := true
	for depth := 0; len(level) > 0 && !deadlineHit; depth++ {
		lv := map[string]int{"depth": depth, "states_in": len(level)}
		// (1) finish edges: stay on this level
		var tasks []task
		for _, n := range level {
			for _, o := range s.enabled(&n.st) {
				if o == 0 {
					tasks = append(tasks, task{node: n, op: 0})
				}
			}
		}
		lv["finish_edges"] = len(tasks)
		for _, d := range execAll(tasks) {
			if n, ok := absorb(d); ok {
				level = append(level, n)
			}
		}
		if deadlineHit {
			complete = false
			info.Levels = append(info.Levels, lv)
			break
		}
		// (2) request edges: next level
		tasks = nil
		for _, n := range level {
			for _, o := range s.enabled(&n.st) {
				if o != 0 {
					tasks = append(tasks, task{node: n, op: o})
				}
			}
		}
		lv["states"] = len(level)
		lv["request_edges"] = len(tasks)
		var next []c14Node
		for _, d := range execAll(tasks) {
			if n, ok := absorb(d); ok {
				next = append(next, n)
			}
		}
		lv["new_states"] = len(next)
		info.Levels = append(info.Levels, lv)
		if deadlineHit {
			complete = false
		}
		level = next
	}
	info.States = len(seen)
	var cats []string
	for c := range samples {
		cats = append(cats, c)
	}
	sort.Strings(cats)
	for i, c := range cats {
		if len(cats) <= 14 || i%(len(cats)/14+1) == 0 || strings.Contains(c, "ops=4") || strings.Contains(c, "ops=5") {
			if len(info.Samples) < 16 {
				info.Samples = append(info.Samples, samples[c])
			}
		}
	}
	info.Closure = complete && st.Exhaustive
	s.e.seqMu.Lock()
	info.RefRuns = s.e.refRuns
	s.e.seqMu.Unlock()
	return st, info
}

// ---------------------------------------------------------------------------------------------
// end-to-end sanity: a real git checkout / clone with the delay capability on a 3-file tree

var c14E2EModes = []string{"clone", "checkout-all-on-server", "checkout-one-local"}

func c14E2E(x *vx.X) vx.Result {
	mode := c14E2EModes[x.In(len(c14E2EModes))]
	res := vx.Result{Counters: map[string]int64{}, Evals: 1}
	w, err := gitx.NewWorld(os.Getenv("VERIF_SCRATCH"))
	if err != nil {
		res.ToolErr = err.Error()
		return res
	}
	defer w.Close()
	srv := fakelfs.New()
	defer srv.Close()
	files := map[string][]byte{"a.bin": gitx.Content("bin", 3000, 11), "b.bin": gitx.Content("bin", 70000, 12), "c.bin": gitx.Content("text", 1500, 13)}
	remote := w.Init("remote.git", true)
	src := w.Init("src", false)
	// the source repository is built with the one-shot filters (a global config without filter.lfs.process), not with the subject
	gc, _ := os.ReadFile(filepath.Join(w.Home, ".gitconfig"))
	alt := filepath.Join(w.Root, "gitconfig-oneshot")
	os.WriteFile(alt, []byte(strings.Replace(string(gc), "\tprocess = git-lfs filter-process\n", "", 1)), 0644)
	senv := []string{"GIT_CONFIG_GLOBAL=" + alt}
	sgit := func(args ...string) gitx.Res { return w.GitE(src, senv, args...) }
	gitx.WriteFile(src, ".gitattributes", []byte("*.bin filter=lfs diff=lfs merge=lfs -text\n"), 0644)
	setup := [][]string{{"remote", "add", "origin", remote}, {"config", "lfs.url", srv.URL + "/r"}, {"add", "."}, {"commit", "-qm", "attrs"}, {"checkout", "-q", "-b", "data"}}
	for _, a := range setup {
		if r := sgit(a...); !r.OK() {
			res.ToolErr = fmt.Sprintf("e2e setup: git %v failed: %s", a, r)
			return res
		}
	}
	for n, b := range files {
		gitx.WriteFile(src, n, b, 0644)
	}
	for _, a := range [][]string{{"add", "."}, {"commit", "-qm", "data"}, {"push", "-q", "origin", "main", "data"}} {
		if r := sgit(a...); !r.OK() {
			res.ToolErr = fmt.Sprintf("e2e setup: git %v failed: %s", a, c14Clip(r.String(), 600))
			return res
		}
	}
	for _, b := range files {
		if !srv.Has(gitx.Oid(b)) {
			res.ToolErr = "e2e setup: object not uploaded"
			return res
		}
	}
	srv.ResetRequests()
	clone := filepath.Join(w.Root, "clone")
	var r gitx.Res
	switch mode {
	case "clone":
		r = w.GitE(w.Root, nil, "-c", "lfs.url="+srv.URL+"/r", "clone", "-q", "-b", "data", remote, clone)
	default:
		w.MustGit(w.Root, "clone", "-q", "-b", "main", remote, clone)
		w.MustGit(clone, "config", "lfs.url", srv.URL+"/r")
		if mode == "checkout-one-local" {
			gitx.PutObject(filepath.Join(clone, ".git", "lfs"), files["a.bin"])
		}
		srv.ResetRequests()
		r = w.Git(clone, "checkout", "-q", "data")
	}
	if r.TimedOut {
		res.Inconcl = "git timed out"
		return res
	}
	batches, batchObjs := 0, 0
	for _, q := range srv.Snapshot() {
		if q.Kind == "batch" {
			batches++
			batchObjs += strings.Count(string(q.Body), `"oid"`)
		}
	}
	res.Counters[fmt.Sprintf("e2e:%s:batch-requests=%d:objects=%d", mode, batches, batchObjs)]++
	res.Outcome = fmt.Sprintf("e2e/%s -> exit=%d batches=%d objects=%d", mode, r.Code, batches, batchObjs)
	res.NonTrivial = []string{mode}
	res.Sample = map[string]interface{}{"e2e": mode, "git_exit": r.Code, "batch_requests": batches, "objects_in_batches": batchObjs}
	if !r.OK() {
		res.Violations = append(res.Violations, vx.Violation{Fingerprint: "C14:e2e:git-failed:" + mode, Msg: "real git " + mode + " with the delay capability failed: " + c14Clip(r.String(), 800)})
		return res
	}
	for n, b := range files {
		got, err := os.ReadFile(filepath.Join(clone, n))
		if err != nil || !bytes.Equal(got, b) {
			res.Violations = append(res.Violations, vx.Violation{Fingerprint: "C14:e2e:wrong-content:" + mode,
				Msg: fmt.Sprintf("after real git %s, %s has %d bytes (sha %.12s), expected %d bytes (sha %.12s)", mode, n, len(got), gitx.Oid(got), len(b), gitx.Oid(b))})
		}
	}
	return res
}

// ---------------------------------------------------------------------------------------------

// c14Scenario is one part of the check.  The list is extensible.
type c14Scenario struct {
	Name string
	Run  func(c *vx.Check, extra map[string]interface{}) vx.Part
}

var c14Scenarios = []c14Scenario{
	{Name: "programs", Run: c14ProgramsScenario},
	{Name: "e2e", Run: c14E2EScenario},
}

// C14ExtraParts lets another file of this package (part (b): schedules of the delay buffer under the controlled
// scheduler) contribute parts: each function returns fully explored vx.Parts (Scenario, Stats, Exec), which are
// appended before c.Finish.  In replay mode the functions are called with replay=true and may return parts
// without Stats; the part whose Scenario matches the replay file is used.  Register from an init().
var C14ExtraParts []func(c *vx.Check, replay bool) []vx.Part

func c14E2EScenario(c *vx.Check, extra map[string]interface{}) vx.Part {
	exec := func(p []vx.Point) vx.Result { return vx.SafeRun(c14E2E, p) }
	if c.Replay != "" {
		return vx.Part{Scenario: "e2e", Exec: exec}
	}
	ex := &vx.Explorer{BoundEnv: 0, BoundSch: 0, BoundSum: -1, Run: c14E2E, Workers: 3, Deadline: c.DeadlineAfter(4*time.Minute, 28*time.Minute)}
	return vx.Part{Scenario: "e2e", Stats: ex.Explore(), Exec: exec}
}

var c14TheEnv *c14Env

func c14ProgramsScenario(c *vx.Check, extra map[string]interface{}) vx.Part {
	if c14TheEnv == nil {
		c14TheEnv = c14NewEnv()
	}
	e := c14TheEnv
	s := &c14Search{e: e, ops: e.buildOps(), depth: 3, fullUpTo: 1}
	if c.Thorough() {
		s.depth, s.fullUpTo, s.allRootsFull, s.thorough = 4, 1, true, true
	}
	if v := os.Getenv("VERIF_C14_DEPTH"); v != "" {
		fmt.Sscan(v, &s.depth)
	}
	if v := os.Getenv("VERIF_C14_FULL"); v != "" {
		fmt.Sscan(v, &s.fullUpTo)
	}
	c.Bounds["requests_before_list_phase"] = s.depth
	c.Bounds["full_alphabet_up_to_request"] = s.fullUpTo
	c.Bounds["paths"] = c14Paths
	var pls []string
	for _, p := range e.payloads {
		pls = append(pls, fmt.Sprintf("%s(%dB; packetisations %s)", p.Name, len(p.Bytes), strings.Join(p.Schemes, "/")))
	}
	c.Bounds["payload_classes"] = pls
	var rs []string
	for _, r := range e.roots {
		rs = append(rs, r.Name)
	}
	c.Bounds["roots"] = rs
	c.Bounds["list_rounds_max"] = "2*delayed+3"
	exec := func(p []vx.Point) vx.Result { return vx.SafeRun(s.run, p) }
	if c.Replay != "" {
		return vx.Part{Scenario: "programs", Exec: exec}
	}
	t0 := time.Now()
	st, info := s.bfs(c.DeadlineAfter(150*time.Second, 22*time.Minute), 16)
	fmt.Printf("scenario programs: states=%d edges=%d levels=%d closure=%v dead=%d refruns=%d wall=%.1fs\n", info.States, info.Edges, len(info.Levels), info.Closure, info.DeadStates, info.RefRuns, time.Since(t0).Seconds())
	for _, l := range info.Levels {
		fmt.Printf("  level %v\n", l)
	}
	extra["bfs"] = info
	if len(info.Samples) > 0 {
		extra["samples"] = info.Samples
	}
	extra["outcome_histogram_programs"] = st.Outcomes
	return vx.Part{Scenario: "programs", Stats: st, Exec: exec}
}

// c14Stress is a development aid: VERIF_C14_STRESS="<n>:<guard seconds>:<root>:<kind>,<path>,<payload>,<scheme>;finish;..." runs one
// program n times (16 at a time) and prints the goroutine dump of the first execution that hits the guard.
func c14Stress(spec string) {
	e := c14NewEnv()
	defer e.close()
	f := strings.SplitN(spec, ":", 4)
	var n, guard int
	fmt.Sscan(f[0], &n)
	fmt.Sscan(f[1], &guard)
	c14Guard = time.Duration(guard) * time.Second
	root := -1
	for i, r := range e.roots {
		if r.Name == f[2] {
			root = i
		}
	}
	var ops []c14Op
	for _, o := range strings.Split(f[3], ";") {
		if o == "finish" {
			ops = append(ops, c14Op{Kind: "finish"})
			continue
		}
		g := strings.Split(o, ",")
		ops = append(ops, c14Op{Kind: g[0], Path: g[1], Payload: e.pidx[g[2]], Scheme: g[3]})
	}
	var mu sync.Mutex
	hangs, viols, done := 0, 0, 0
	var wg sync.WaitGroup
	sem := make(chan struct{}, 16)
	t0 := time.Now()
	for i := 0; i < n; i++ {
		wg.Add(1)
		sem <- struct{}{}
		go func() {
			defer wg.Done()
			defer func() { <-sem }()
			r := e.runProgram(root, ops)
			mu.Lock()
			defer mu.Unlock()
			done++
			if r.Inconcl != "" {
				hangs++
				if hangs == 1 {
					fmt.Printf("HANG %s\n%s\n", r.Inconcl, r.HangDump)
				}
			}
			if len(r.Viols) > 0 {
				viols++
				if viols == 1 {
					fmt.Printf("VIOL %+v\n", r.Viols)
				}
			}
		}()
	}
	wg.Wait()
	fmt.Printf("stress: %d executions, %d hangs, %d with violations, %.1fs\n", done, hangs, viols, time.Since(t0).Seconds())
}

func TestVerifC14(t *testing.T) {
	if c14bWorker() { // this process is a worker of part (b)'s pool (controlled-scheduler executions)
		return
	}
	if spec := os.Getenv("VERIF_C14_STRESS"); spec != "" {
		c14Stress(spec)
		os.Exit(0)
	}
	c := vx.NewCheck("C14", "model_checking")
	c.Rule = "explicit-state BFS over request programs obeying Git's filter-client grammar, each executed on the real `git-lfs filter-process` binary (fresh process + fresh repository per program); a case = one (canonical pre-state, request) transition, distinct by that pair; canonical state = (root configuration, process alive, delayed path->payload map, transfer queue nil/alive, observed local store)"
	c.Assumptions = []string{
		"Git's client grammar: handshake; then clean(path,bytes) / smudge(path,bytes) / smudge(path,bytes,can-delay=1) on paths Git is not currently waiting for; list_available_blobs only after at least one status=delayed, repeated - each announced path retrieved by a content-less smudge - until the list is empty; then further requests may follow",
		"path symmetry: beyond the full-alphabet request positions a clean uses the smallest path not currently delayed, a smudge the smallest path neither delayed nor already smudged in the current checkout (Git visits each path once per checkout, in index order; a new checkout starts when all paths were smudged and none is delayed), and one packetisation ('mixed') per payload",
		"the canonical key merges only states in which everything the filter loop remembers (ptrs map, q nil/alive, fresh closeOnce/available per queue) and the local store are equal; queue contents equal the delayed map because paths are distinct within a phase",
		"one-shot reference = the same git-lfs binary run as `git-lfs clean -- <path>` / `git-lfs smudge [--skip] -- <path>` on the same bytes in a fresh repository whose local store holds exactly the objects observed in the filter's repository before the request; a one-shot filter that exits non-zero corresponds to a failure status (error/abort), never to content",
		"lfs.transfer.maxretries=1, lfs.transfer.maxretrydelay=0 in every repository (identical for filter-process and one-shot runs) so that failing downloads end quickly; no oracle depends on time",
		"the work tree holds no file for the three paths (clean's progress callback is off in both the one-shot and the long-running filter)",
	}
	only := os.Getenv("VERIF_ONLY")
	if c.Replay != "" {
		rf, err := c.LoadReplay()
		if err != nil {
			fmt.Println("TOOL-ERROR cannot load replay:", err)
			os.Exit(2)
		}
		for _, sc := range c14Scenarios {
			if sc.Name != rf.Scenario {
				continue
			}
			part := sc.Run(c, map[string]interface{}{})
			r := part.Exec(rf.Prefix)
			st := vx.NewStats()
			st.Absorb(rf.Prefix, &r, 0)
			b := fmt.Sprintf("%v", r.Sample)
			fmt.Printf("replay scenario=%s outcome=%q violations=%d\n  %s\n", rf.Scenario, r.Outcome, len(r.Violations), c14Clip(b, 1500))
			part.Stats = st
			code := c.Finish([]vx.Part{part}, nil)
			if c14TheEnv != nil {
				c14TheEnv.close()
			}
			os.Exit(code)
		}
		for _, f := range C14ExtraParts {
			for _, part := range f(c, true) {
				if part.Scenario != rf.Scenario || part.Exec == nil {
					continue
				}
				r := part.Exec(rf.Prefix)
				st := vx.NewStats()
				st.Absorb(rf.Prefix, &r, 0)
				fmt.Printf("replay scenario=%s outcome=%q violations=%d\n", rf.Scenario, r.Outcome, len(r.Violations))
				part.Stats = st
				os.Exit(c.Finish([]vx.Part{part}, nil))
			}
		}
		fmt.Println("TOOL-ERROR unknown scenario in replay file:", rf.Scenario)
		os.Exit(2)
	}
	extra := map[string]interface{}{}
	var parts []vx.Part
	for _, sc := range c14Scenarios {
		if only != "" && only != sc.Name {
			continue
		}
		parts = append(parts, sc.Run(c, extra))
	}
	for _, f := range C14ExtraParts {
		for _, part := range f(c, false) {
			if only == "" || only == part.Scenario {
				parts = append(parts, part)
			}
		}
	}
	code := c.Finish(parts, extra)
	if c14TheEnv != nil {
		c14TheEnv.close()
	}
	os.Exit(code)
}
